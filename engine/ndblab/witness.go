package ndblab

func put(k, v string) WOp { return WOp{K: Hex(k), V: Hex(v)} }
func del(k string) WOp    { return WOp{Del: true, K: Hex(k)} }

// Witnesses returns the minimal deterministic histories of the shapes that
// were already seen to fail on the hashed badger backend (DESIGN.md section 6,
// D4 and D5). They are replayed at the start of C06 on both backends, so the
// finding lines appear deterministically while the defects exist and vanish
// once they are repaired.
func Witnesses() []*History {
	return []*History{
		{
			// D4: the discarded sibling removes and re-inserts the pair (a,v) that exists since
			// version 1; the finalized sibling keeps referencing the version-1 copy of that leaf.
			Name: "d4-discarded-sibling-recreates-preexisting-leaf",
			Ops: []Op{
				{Kind: KCommit, Ver: 1, Type: TState, Cand: 0, Parent: ParentPrev, W: []WOp{put("a", "v"), put("b", "w")}},
				{Kind: KFinalize, Ver: 1, Final: []int{0}},
				{Kind: KCommit, Ver: 2, Type: TState, Cand: 0, Parent: ParentPrev, W: []WOp{put("c", "x")}},
				{Kind: KCommit, Ver: 2, Type: TState, Cand: 1, Parent: ParentPrev, W: []WOp{del("a"), put("a", "v"), put("d", "y")}},
				{Kind: KFinalize, Ver: 2, Final: []int{0}},
			},
		},
		{
			// D5: the IO root and the state root of version 1 both create the leaf (a,v); version 2
			// derives from the state root; pruning version 1 walks the lone IO root and deletes the leaf.
			Name: "d5-io-and-state-root-create-same-leaf",
			Ops: []Op{
				{Kind: KCommit, Ver: 1, Type: TState, Cand: 0, Parent: ParentPrev, W: []WOp{put("a", "v"), put("b", "w")}},
				{Kind: KCommit, Ver: 1, Type: TIO, Cand: 1, Parent: ParentEmpty, W: []WOp{put("a", "v")}},
				{Kind: KFinalize, Ver: 1, Final: []int{0, 1}},
				{Kind: KCommit, Ver: 2, Type: TState, Cand: 0, Parent: ParentPrev, W: []WOp{put("c", "x")}},
				{Kind: KFinalize, Ver: 2, Final: []int{0}},
				{Kind: KPrune, Ver: 1},
			},
		},
		{
			// Committed empty root: Prune of its version fails on badger (api.Visit cannot fetch a
			// root node for the empty hash) and can never advance.
			Name: "prune-committed-empty-root",
			Ops: []Op{
				{Kind: KCommit, Ver: 1, Type: TState, Cand: 0, Parent: ParentPrev, W: []WOp{put("a", "v")}},
				{Kind: KFinalize, Ver: 1, Final: []int{0}},
				{Kind: KCommit, Ver: 2, Type: TState, Cand: 0, Parent: ParentPrev, W: []WOp{del("a")}},
				{Kind: KFinalize, Ver: 2, Final: []int{0}},
				{Kind: KCommit, Ver: 3, Type: TState, Cand: 0, Parent: ParentPrev, W: []WOp{put("b", "w")}},
				{Kind: KFinalize, Ver: 3, Final: []int{0}},
				{Kind: KPrune, Ver: 1},
				{Kind: KPrune, Ver: 2},
			},
		},
		{
			// pathbadger keeps the root node of a discarded candidate: HasRoot stays true and
			// GetRootsForVersion keeps listing it, but its nodes are gone / replaced.
			Name: "pathbadger-discarded-root-kept",
			Ops: []Op{
				{Kind: KCommit, Ver: 1, Type: TState, Cand: 0, Parent: ParentPrev, W: []WOp{put("a", "v"), put("b", "w")}},
				{Kind: KCommit, Ver: 1, Type: TState, Cand: 1, Parent: ParentPrev, W: []WOp{put("a", "v"), put("c", "x")}},
				{Kind: KFinalize, Ver: 1, Final: []int{0}},
			},
		},
		{
			// A second tree commits the identical root in the same version; the first (long-lived)
			// tree's batch is dropped ("root already exists") but the tree is kept in use.
			Name: "same-root-committed-twice-kept-tree",
			Ops: []Op{
				{Kind: KCommit, Ver: 1, Type: TState, Cand: 0, Parent: ParentPrev, Tree: 1, W: []WOp{put("aa", "1"), put("ab", "2"), put("ac", "3"), put("b", "4")}},
				{Kind: KFinalize, Ver: 1, Final: []int{0}},
				{Kind: KCommit, Ver: 2, Type: TState, Cand: 0, Parent: ParentPrev},
				{Kind: KCommit, Ver: 2, Type: TState, Cand: 1, Parent: ParentPrev, Tree: 1, W: []WOp{put("abx", "5"), del("abx")}},
				{Kind: KFinalize, Ver: 2, Final: []int{1}},
				{Kind: KCommit, Ver: 3, Type: TState, Cand: 0, Parent: ParentPrev, Tree: 1, W: []WOp{put("d", "6")}},
				{Kind: KFinalize, Ver: 3, Final: []int{0}},
			},
		},
		{
			// The same situation where the winning batch moves a clean node: removing one of two keys
			// makes the remaining leaf the root node. The kept tree must forget its in-memory nodes
			// (fix 3ea505a): otherwise its next commit references the removed old location, which
			// surfaces after the old version is pruned.
			Name: "same-root-committed-twice-kept-tree-leaf-becomes-root",
			Ops: []Op{
				{Kind: KCommit, Ver: 1, Type: TState, Cand: 0, Parent: ParentPrev, Tree: 1, W: []WOp{put("\x80", "x"), put("ab", "y")}},
				{Kind: KFinalize, Ver: 1, Final: []int{0}},
				{Kind: KCommit, Ver: 2, Type: TState, Cand: 0, Parent: ParentPrev, W: []WOp{del("\x80")}},
				{Kind: KCommit, Ver: 2, Type: TState, Cand: 1, Parent: ParentPrev, Tree: 1, W: []WOp{del("\x80")}},
				{Kind: KFinalize, Ver: 2, Final: []int{1}},
				{Kind: KPrune, Ver: 1},
				{Kind: KCommit, Ver: 3, Type: TState, Cand: 0, Parent: ParentPrev, Tree: 1, W: []WOp{put("\x80", "z")}},
				{Kind: KFinalize, Ver: 3, Final: []int{0}},
			},
		},
		{
			// Badger-only shape: the finalized root is a same-version child of candidate 0 and
			// removes a node that candidate 0 inherited; candidate 0 stays listed but loses the node.
			Name:       "badger-same-version-ancestor-loses-node",
			BadgerOnly: true,
			Ops: []Op{
				{Kind: KCommit, Ver: 1, Type: TState, Cand: 0, Parent: ParentPrev, W: []WOp{put("a", "v"), put("b", "w")}},
				{Kind: KFinalize, Ver: 1, Final: []int{0}},
				{Kind: KCommit, Ver: 2, Type: TState, Cand: 0, Parent: ParentPrev, W: []WOp{put("c", "x")}},
				{Kind: KCommit, Ver: 2, Type: TState, Cand: 1, Parent: 0, W: []WOp{del("a")}, BadgerOnly: true},
				{Kind: KFinalize, Ver: 2, Final: []int{1}},
			},
		},
	}
}
