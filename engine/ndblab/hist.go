// Package ndblab is the NodeDB version-history lab shared by the C06 and C07
// checks: a generator of version histories (candidate roots per version,
// arbitrary finalized choice, lagging prune, checkpoint restores), a pure model
// of what every root must contain, a driver executing histories against the
// real badger / pathbadger node databases through the mkvs tree API, a full
// read-back of roots (iteration, Get, SyncGet proofs) and per-root node-hash
// sets for the finding classifier.
package ndblab

import (
	"encoding/hex"
	"encoding/json"
	"fmt"
	"math/rand/v2"
	"sort"
	"strings"
)

// Hex is a byte string that is JSON-encoded as hex (keys and values contain
// arbitrary bytes; witnesses must be replayable byte for byte).
type Hex []byte

func (h Hex) MarshalJSON() ([]byte, error) { return json.Marshal(hex.EncodeToString(h)) }

func (h *Hex) UnmarshalJSON(b []byte) error {
	var s string
	if err := json.Unmarshal(b, &s); err != nil {
		return err
	}
	d, err := hex.DecodeString(s)
	if err != nil {
		return err
	}
	*h = d
	return nil
}

// Root types (values of node.RootType).
const (
	TState uint8 = 1
	TIO    uint8 = 2
)

// Parents of a candidate root.
const (
	// ParentPrev derives the candidate from the last finalized state root
	// (from the empty root if nothing is finalized yet).
	ParentPrev = -1
	// ParentEmpty builds the candidate from an empty tree.
	ParentEmpty = -2
)

// Operation kinds.
const (
	KCommit   = "commit"
	KFinalize = "finalize"
	KPrune    = "prune"
	KMPStart  = "mp-start"    // StartMultipartInsert(ver)
	KMPChunk  = "mp-chunk"    // restore chunk #Chunk of checkpoint CP
	KMPAbort  = "mp-abort"    // AbortMultipartInsert
	KMPFinal  = "mp-finalize" // Finalize of the restored checkpoint root
	KProbe    = "probe"       // a metadata call that the model expects to fail (Probe says which)
	KCompact  = "compact"     // NodeDB.Compact()
	KReopen   = "reopen"      // close and reopen the (on-disk) database
)

// WOp is one tree write.
type WOp struct {
	Del bool `json:"del,omitempty"`
	K   Hex  `json:"k"`
	V   Hex  `json:"v,omitempty"`
}

func abbrev(b []byte) string {
	if len(b) > 10 {
		return fmt.Sprintf("%x..(%d bytes)", b[:4], len(b))
	}
	return fmt.Sprintf("%x", b)
}

func (w WOp) String() string {
	if w.Del {
		return fmt.Sprintf("del(%s)", abbrev(w.K))
	}
	return fmt.Sprintf("put(%s=%s)", abbrev(w.K), abbrev(w.V))
}

// Op is one step of a history.
type Op struct {
	Kind string `json:"kind"`
	Ver  uint64 `json:"ver"`

	// commit: candidate Cand (unique per version) of type Type, derived from Parent.
	Type   uint8 `json:"type,omitempty"`
	Cand   int   `json:"cand,omitempty"`
	Parent int   `json:"parent,omitempty"`
	W      []WOp `json:"w,omitempty"`
	// Tree > 0: the commit is made through the long-lived tree object of that slot (created on
	// first use from Parent, reused as long as the root it committed last is the last finalized
	// state root; dropped on reopen). Tree == 0: a fresh tree per commit.
	Tree int `json:"tree,omitempty"`

	// finalize: candidate ids of version Ver that are finalized.
	Final []int `json:"final,omitempty"`

	// restore ops: checkpoint index and chunk index.
	CP    int `json:"cp,omitempty"`
	Chunk int `json:"chunk,omitempty"`

	// probe: "prune" or "finalize-again" (Ver says which version).
	Probe string `json:"probe,omitempty"`

	// BadgerOnly marks shapes pathbadger rejects by design (same-version child roots).
	BadgerOnly bool `json:"badger_only,omitempty"`
}

func (o Op) String() string {
	switch o.Kind {
	case KCommit:
		t := "state"
		if o.Type == TIO {
			t = "io"
		}
		p := "prev"
		switch {
		case o.Parent == ParentEmpty:
			p = "empty"
		case o.Parent >= 0:
			p = fmt.Sprintf("cand%d", o.Parent)
		}
		var ws []string
		for _, w := range o.W {
			ws = append(ws, w.String())
		}
		if o.Tree > 0 {
			p = fmt.Sprintf("%s via kept tree T%d", p, o.Tree)
		}
		return fmt.Sprintf("commit(v%d %s#%d from %s: %s)", o.Ver, t, o.Cand, p, strings.Join(ws, " "))
	case KFinalize, KMPFinal:
		return fmt.Sprintf("%s(v%d %v)", o.Kind, o.Ver, o.Final)
	case KPrune:
		return fmt.Sprintf("prune(v%d)", o.Ver)
	case KMPStart:
		return fmt.Sprintf("mp-start(v%d cp%d)", o.Ver, o.CP)
	case KMPChunk:
		return fmt.Sprintf("mp-chunk(v%d cp%d #%d)", o.Ver, o.CP, o.Chunk)
	case KMPAbort:
		return "mp-abort"
	case KProbe:
		return fmt.Sprintf("probe(%s v%d)", o.Probe, o.Ver)
	case KCompact:
		return "compact"
	case KReopen:
		return "reopen"
	}
	return o.Kind
}

// KV is a key/value pair.
type KV struct {
	K Hex `json:"k"`
	V Hex `json:"v"`
}

// CPSpec describes a checkpoint (a state root of version Ver with the given
// content) that a history restores into the database under test.
type CPSpec struct {
	Ver     uint64 `json:"ver"`
	Content []KV   `json:"content"`
}

// History is a replayable operation list.
type History struct {
	Name        string   `json:"name"`
	Ops         []Op     `json:"ops"`
	Checkpoints []CPSpec `json:"checkpoints,omitempty"`
	// BadgerOnly is set when some op is badger-only.
	BadgerOnly bool `json:"badger_only,omitempty"`
	// OnDisk is set when the history has reopen/compact ops and needs an on-disk database.
	OnDisk bool `json:"on_disk,omitempty"`
	// DiscardWriteLogs opens the database the way the ABCI consensus state database is
	// configured (write logs of finalized and discarded roots are not kept).
	DiscardWriteLogs bool `json:"discard_write_logs,omitempty"`
}

// OpStrings renders the op list (for witnesses / reports).
func (h *History) OpStrings() []string {
	out := make([]string, len(h.Ops))
	for i, o := range h.Ops {
		out[i] = fmt.Sprintf("%d:%s", i, o.String())
	}
	return out
}

// GenConfig controls the history generator.
type GenConfig struct {
	Versions int  // number of versions to create
	MaxLag   int  // prune lag k: 1..MaxLag
	Restore  bool // include a checkpoint restore (C07)
	// RestoreNoAbort: the restore is never aborted and restarted (C06 restore share).
	RestoreNoAbort bool
	BadgerOnly     bool // allow same-version child chains
	Probes         bool // include failing metadata probes
	Small          bool // fewer candidates / pairs (C07: keeps the case count down)
	// Restart closes and reopens the (on-disk) database after most versions, so that the LSM
	// tree consists of several tables, keeps the prune lag >= 2 (version v+2 is finalized when
	// v is pruned) and calls NodeDB.Compact() after prunes: what the storage engine may
	// discard at compaction depends on the discard timestamp set by Prune.
	Restart bool
	// KeptTree commits the first state candidate of every version through one long-lived tree
	// object (as the consensus layer does) and, in about a third of the versions, lets a second,
	// fresh tree commit the identical root in the same version (the kept tree's writes are then
	// remove+re-insert / insert+remove sequences or a differently ordered equivalent), finalizes
	// that root and keeps using the long-lived tree afterwards.
	KeptTree bool
	// PrefixChurn (with KeptTree): no second tree commits the same root; the long-lived tree's
	// candidate is finalized in most versions and its writes follow structural patterns of the
	// trie across consecutive finalized versions: a stand-alone leaf K becomes the embedded leaf
	// of an internal node (a key with the proper prefix K is inserted) and stand-alone again (all
	// longer keys are removed), an embedded leaf is removed / re-added while longer keys stay, a
	// leaf becomes the root node (all other keys removed) and stops being the root.
	PrefixChurn bool
	// Clean avoids the shapes that are already known to damage the hashed badger backend
	// (DESIGN.md section 6 D4/D5 and the committed empty root), so that such histories run to
	// their end on badger too: no candidate re-creates a pair that its parent already has, IO
	// keys are disjoint from state keys, no root is empty. The unrestricted mode stays in use
	// for the other half of the histories.
	Clean bool
}

// netW reduces w to its net effect on base (one op per key whose pair really changes).
func netW(base map[string]string, w []WOp) []WOp {
	final := applyW(base, w)
	seen := map[string]bool{}
	var out []WOp
	for _, o := range w {
		k := string(o.K)
		if seen[k] {
			continue
		}
		seen[k] = true
		nv, in := final[k]
		ov, was := base[k]
		switch {
		case in && was && nv == ov:
		case in:
			out = append(out, WOp{K: []byte(k), V: []byte(nv)})
		case was:
			out = append(out, WOp{Del: true, K: []byte(k)})
		}
	}
	return out
}

var keyPool = [][]byte{
	{}, {0x00}, {0x00, 0x00}, {0x01}, {0x7f}, {0x80}, {0xff}, {0xff, 0xff},
	[]byte("a"), []byte("ab"), []byte("abc"), []byte("abd"), []byte("b"), []byte("ba"),
	{'a', 0x00}, {'a', 0x80}, {0x80, 0x00, 0x01}, []byte("key-long-000000000000000000000000000000000000000001"),
}

var valPool = [][]byte{
	{}, {0x00}, []byte("v"), []byte("w"), []byte("value-2"),
}

type genState struct {
	rng *rand.Rand
	cfg GenConfig
	// content of the last finalized state root.
	state map[string]string
	// pairs that were present in some finalized state root and removed later.
	graveyard []KV
	bigVal    []byte
}

func (g *genState) key() []byte { return keyPool[g.rng.IntN(len(keyPool))] }

func (g *genState) val() []byte {
	if g.rng.IntN(40) == 0 {
		if g.bigVal == nil {
			g.bigVal = make([]byte, 1500)
			for i := range g.bigVal {
				g.bigVal[i] = byte(i * 7)
			}
		}
		return g.bigVal
	}
	return valPool[g.rng.IntN(len(valPool))]
}

func sortedKeys(m map[string]string) []string {
	ks := make([]string, 0, len(m))
	for k := range m {
		ks = append(ks, k)
	}
	sort.Strings(ks)
	return ks
}

func applyW(base map[string]string, w []WOp) map[string]string {
	out := make(map[string]string, len(base)+len(w))
	for k, v := range base {
		out[k] = v
	}
	for _, o := range w {
		if o.Del {
			delete(out, string(o.K))
		} else {
			out[string(o.K)] = string(o.V)
		}
	}
	return out
}

// stateCandidate generates the writes of one state candidate on top of base.
func (g *genState) stateCandidate(base map[string]string, others [][]WOp) []WOp {
	r := g.rng
	keys := sortedKeys(base)
	var w []WOp
	n := 1 + r.IntN(4)
	if g.cfg.Small {
		n = 1 + r.IntN(2)
	}
	switch c := r.IntN(20); {
	case c == 0:
		return nil // unchanged root
	case c == 1 && len(keys) > 0:
		for _, k := range keys { // empty root
			w = append(w, WOp{Del: true, K: []byte(k)})
		}
		return w
	case c == 2 && len(others) > 0:
		// identical to another candidate (same root committed twice)
		return append([]WOp(nil), others[r.IntN(len(others))]...)
	case c <= 5 && len(others) > 0:
		// superset of another candidate: shares every node the other one created
		w = append(w, others[r.IntN(len(others))]...)
		n = 1 + r.IntN(2)
	}
	for i := 0; i < n; i++ {
		switch c := r.IntN(12); {
		case c <= 2 && len(keys) > 0:
			// remove + re-insert the same pair (re-creates an existing node)
			k := keys[r.IntN(len(keys))]
			w = append(w, WOp{Del: true, K: []byte(k)}, WOp{K: []byte(k), V: []byte(base[k])})
		case c <= 4 && len(g.graveyard) > 0:
			// resurrect a pair removed in an earlier version
			p := g.graveyard[r.IntN(len(g.graveyard))]
			w = append(w, WOp{K: p.K, V: p.V})
		case c <= 6 && len(keys) > 0:
			k := keys[r.IntN(len(keys))]
			w = append(w, WOp{Del: true, K: []byte(k)})
		case c == 7 && len(keys) > 0:
			// overwrite with the same value (no-op rewrite)
			k := keys[r.IntN(len(keys))]
			w = append(w, WOp{K: []byte(k), V: []byte(base[k])})
		case c == 8 && len(keys) > 0:
			// remove + re-insert with another value
			k := keys[r.IntN(len(keys))]
			w = append(w, WOp{Del: true, K: []byte(k)}, WOp{K: []byte(k), V: g.val()})
		default:
			w = append(w, WOp{K: g.key(), V: g.val()})
		}
	}
	return w
}

// ioCandidate generates an IO root built from empty; its pairs may coincide
// with pairs of the state root.
func (g *genState) ioCandidate(stateNow map[string]string, stateCands []map[string]string) []WOp {
	r := g.rng
	if r.IntN(12) == 0 {
		return nil // empty IO root
	}
	var w []WOp
	n := 1 + r.IntN(3)
	if g.cfg.Small {
		n = 1 + r.IntN(2)
	}
	for i := 0; i < n; i++ {
		switch c := r.IntN(10); {
		case c <= 2 && len(stateNow) > 0:
			ks := sortedKeys(stateNow)
			k := ks[r.IntN(len(ks))]
			w = append(w, WOp{K: []byte(k), V: []byte(stateNow[k])})
		case c <= 5 && len(stateCands) > 0:
			m := stateCands[r.IntN(len(stateCands))]
			if len(m) == 0 {
				w = append(w, WOp{K: g.key(), V: g.val()})
				continue
			}
			ks := sortedKeys(m)
			k := ks[r.IntN(len(ks))]
			w = append(w, WOp{K: []byte(k), V: []byte(m[k])})
		default:
			w = append(w, WOp{K: g.key(), V: g.val()})
		}
	}
	return w
}

// churn generates the writes of the long-lived tree's candidate in PrefixChurn mode.
func (g *genState) churn(base map[string]string) []WOp {
	r := g.rng
	keys := sortedKeys(base)
	ext := map[string][]string{} // key -> keys having it as a proper prefix
	var withExt, noExt []string
	for _, k := range keys {
		for _, o := range keys {
			if len(o) > len(k) && strings.HasPrefix(o, k) {
				ext[k] = append(ext[k], o)
			}
		}
		if len(ext[k]) > 0 {
			withExt = append(withExt, k)
		} else {
			noExt = append(noExt, k)
		}
	}
	suffix := func() []byte { return [][]byte{[]byte("x"), {0x00}, []byte("xy"), {0x80}, {0xff, 0x01}}[r.IntN(5)] }
	var w []WOp
	acts := 1 + r.IntN(2)
	for a := 0; a < acts; a++ {
		switch c := r.IntN(10); {
		case len(keys) < 3:
			// grow (a root leaf stops being the root)
			w = append(w, WOp{K: g.key(), V: g.val()}, WOp{K: append([]byte("m"), g.key()...), V: g.val()})
		case c <= 2 && len(withExt) > 0:
			// un-embed: remove every longer key of K, K's leaf becomes a stand-alone child again
			k := withExt[r.IntN(len(withExt))]
			if len(ext[k]) <= 3 && k != "" {
				for _, o := range ext[k] {
					w = append(w, WOp{Del: true, K: []byte(o)})
				}
				continue
			}
			fallthrough
		case c <= 5 && len(noExt) > 0:
			// embed: insert a key that has the stand-alone leaf K as a proper prefix
			k := noExt[r.IntN(len(noExt))]
			w = append(w, WOp{K: append([]byte(k), suffix()...), V: g.val()})
		case c == 6 && len(withExt) > 0:
			// remove the embedded leaf itself, the longer keys stay
			w = append(w, WOp{Del: true, K: []byte(withExt[r.IntN(len(withExt))])})
		case c == 7:
			// (re-)add a proper prefix of an existing key: it is created as an embedded leaf
			k := keys[r.IntN(len(keys))]
			if len(k) > 1 {
				p := k[:1+r.IntN(len(k)-1)]
				if _, ok := base[p]; !ok {
					w = append(w, WOp{K: []byte(p), V: g.val()})
					continue
				}
			}
			w = append(w, WOp{K: g.key(), V: g.val()})
		case c == 8 && len(keys) <= 5:
			// a single leaf becomes the root node
			keep := keys[r.IntN(len(keys))]
			for _, k := range keys {
				if k != keep {
					w = append(w, WOp{Del: true, K: []byte(k)})
				}
			}
			return w
		default:
			if r.IntN(2) == 0 && len(keys) > 4 {
				w = append(w, WOp{Del: true, K: []byte(keys[r.IntN(len(keys))])})
			} else {
				w = append(w, WOp{K: g.key(), V: g.val()})
			}
		}
	}
	return w
}

// ioCandidateMode applies the Clean restrictions to an IO candidate.
func (g *genState) ioCandidateMode(stateNow map[string]string, stateCands []map[string]string) []WOp {
	w := g.ioCandidate(stateNow, stateCands)
	if !g.cfg.Clean {
		return w
	}
	if len(w) == 0 {
		w = []WOp{{K: g.key(), V: g.val()}}
	}
	for i := range w {
		w[i].K = append([]byte{'T'}, w[i].K...)
	}
	return w
}

// Generate produces one history from the PRNG.
func Generate(rng *rand.Rand, cfg GenConfig) *History {
	g := &genState{rng: rng, cfg: cfg, state: map[string]string{}}
	h := &History{}
	if cfg.MaxLag < 1 {
		cfg.MaxLag = 1
	}
	lag := 1 + rng.IntN(cfg.MaxLag)
	if cfg.Restart {
		lag = 2 + rng.IntN(2)
		h.OnDisk = true
	}
	reopens := 0
	start := uint64([]int{0, 1, 1, 3}[rng.IntN(4)])
	if cfg.Restore {
		start = 1 // the multipart version 0 means "none"
	}
	ver := start
	earliest := start
	var latest uint64
	hasLatest := false
	restoreAt := -1
	if cfg.Restore {
		restoreAt = 2 + rng.IntN(max(1, cfg.Versions-3))
	}
	// IO candidates of the next version committed before the finalize of this one.
	var earlyIDs []int

	for i := 0; i < cfg.Versions; i++ {
		if i == restoreAt && hasLatest {
			// Restore a checkpoint at version latest+1+gap.
			gap := uint64(rng.IntN(3))
			rv := latest + 1 + gap
			content := map[string]string{}
			if rng.IntN(3) > 0 {
				content = applyW(g.state, g.stateCandidate(g.state, nil))
			}
			for len(content) < 6 {
				content[string(g.key())] = string(g.val())
			}
			var kvs []KV
			for _, k := range sortedKeys(content) {
				kvs = append(kvs, KV{K: []byte(k), V: []byte(content[k])})
			}
			cp := len(h.Checkpoints)
			h.Checkpoints = append(h.Checkpoints, CPSpec{Ver: rv, Content: kvs})
			// The number of chunks is only known once the checkpoint exists; the
			// driver expands chunk ops: Chunk = -1 means "all remaining chunks",
			// Chunk = -2 "the first chunk only".
			h.Ops = append(h.Ops, Op{Kind: KMPStart, Ver: rv, CP: cp})
			if rng.IntN(2) == 0 && !cfg.RestoreNoAbort {
				h.Ops = append(h.Ops, Op{Kind: KMPChunk, Ver: rv, CP: cp, Chunk: -2})
				h.Ops = append(h.Ops, Op{Kind: KMPAbort, Ver: rv, CP: cp})
				h.Ops = append(h.Ops, Op{Kind: KMPStart, Ver: rv, CP: cp})
			}
			h.Ops = append(h.Ops, Op{Kind: KMPChunk, Ver: rv, CP: cp, Chunk: -1})
			h.Ops = append(h.Ops, Op{Kind: KMPFinal, Ver: rv, CP: cp})
			g.state = content
			latest = rv
			ver = rv + 1
			// Prune everything below the restored version (as the tests do) or keep the lag.
			if rng.IntN(2) == 0 {
				for earliest < latest {
					h.Ops = append(h.Ops, Op{Kind: KPrune, Ver: earliest})
					earliest++
				}
			} else {
				for earliest+uint64(lag) <= latest {
					h.Ops = append(h.Ops, Op{Kind: KPrune, Ver: earliest})
					earliest++
				}
			}
			continue
		}

		var ops []Op
		cand := len(earlyIDs)
		ioIDs := append([]int(nil), earlyIDs...)
		earlyIDs = nil

		nState := 1 + rng.IntN(3)
		nIO := rng.IntN(3)
		if cfg.Small {
			nState = 1 + rng.IntN(2)
			nIO = rng.IntN(2)
		}
		var stateW [][]WOp
		var stateContents []map[string]string
		var stateIDs []int
		twin := -1 // index (in stateIDs) of the root committed twice
		for s := 0; s < nState; s++ {
			w := g.stateCandidate(g.state, stateW)
			base := g.state
			op := Op{Kind: KCommit, Ver: ver, Type: TState, Cand: cand, Parent: ParentPrev}
			if cfg.KeptTree && cfg.PrefixChurn && s == 0 {
				op.Tree = 1
				w = g.churn(g.state)
			}
			if cfg.KeptTree && !cfg.PrefixChurn && s == 0 {
				op.Tree = 1
				if rng.IntN(3) == 0 {
					// The kept tree makes writes whose net effect a fresh tree reaches differently.
					keys := sortedKeys(base)
					switch c := rng.IntN(3); {
					case c == 0 || len(keys) == 0:
						k := append([]byte("zz"), g.key()...)
						w = []WOp{{K: k, V: g.val()}, {Del: true, K: k}}
					case c == 1:
						k := keys[rng.IntN(len(keys))]
						w = []WOp{{Del: true, K: []byte(k)}, {K: []byte(k), V: []byte(base[k])}}
					default:
						k := append([]byte("zz"), g.key()...)
						w = append([]WOp{{K: k, V: g.val()}}, w...)
						w = append(w, WOp{Del: true, K: k})
					}
					op.W = w
					content := applyW(base, w)
					tw := netW(base, w)
					if cfg.Clean && len(content) == 0 {
						extra := WOp{K: g.key(), V: g.val()}
						op.W, tw = append(op.W, extra), append(tw, extra)
						content = applyW(base, op.W)
					}
					// kept-tree candidate
					stateW = append(stateW, op.W)
					stateContents = append(stateContents, content)
					stateIDs = append(stateIDs, cand)
					ops = append(ops, op)
					cand++
					// twin committed by a fresh tree
					ops = append(ops, Op{Kind: KCommit, Ver: ver, Type: TState, Cand: cand, Parent: ParentPrev, W: tw})
					twin = len(stateIDs) - 1
					cand++
					continue
				}
			}
			if cfg.BadgerOnly && len(stateIDs) > 0 && rng.IntN(4) == 0 {
				// same-version child of an earlier candidate (badger only)
				pi := rng.IntN(len(stateIDs))
				op.Parent = stateIDs[pi]
				op.BadgerOnly = true
				h.BadgerOnly = true
				base = stateContents[pi]
			}
			if cfg.Clean {
				w = netW(base, w)
				if len(applyW(base, w)) == 0 {
					w = append(w, WOp{K: g.key(), V: g.val()})
				}
			}
			op.W = w
			content := applyW(base, w)
			stateW = append(stateW, w)
			stateContents = append(stateContents, content)
			stateIDs = append(stateIDs, cand)
			ops = append(ops, op)
			cand++
		}
		for s := 0; s < nIO; s++ {
			w := g.ioCandidateMode(g.state, stateContents)
			ops = append(ops, Op{Kind: KCommit, Ver: ver, Type: TIO, Cand: cand, Parent: ParentEmpty, W: w})
			ioIDs = append(ioIDs, cand)
			cand++
		}
		// Shuffle the commits of this version (a same-version child stays after its parent).
		rng.Shuffle(len(ops), func(a, b int) { ops[a], ops[b] = ops[b], ops[a] })
		ops = fixParentOrder(ops)
		h.Ops = append(h.Ops, ops...)

		// Probes before finalize.
		if cfg.Probes && rng.IntN(6) == 0 {
			h.Ops = append(h.Ops, Op{Kind: KProbe, Probe: "prune", Ver: ver})
		}
		// Sometimes commit an IO candidate of the next version before this one is finalized.
		if rng.IntN(10) == 0 && i+1 < cfg.Versions && i+1 != restoreAt && !cfg.Small {
			w := g.ioCandidateMode(g.state, stateContents)
			e := Op{Kind: KCommit, Ver: ver + 1, Type: TIO, Cand: 0, Parent: ParentEmpty, W: w}
			h.Ops = append(h.Ops, e)
			earlyIDs = append(earlyIDs, 0)
		}

		// Finalize: one state candidate and at most one IO candidate.
		fi := rng.IntN(len(stateIDs))
		if twin >= 0 {
			fi = twin
		}
		if cfg.KeptTree && cfg.PrefixChurn && rng.IntN(8) != 0 {
			fi = 0 // the long-lived tree's candidate
		}
		final := []int{stateIDs[fi]}
		if len(ioIDs) > 0 && rng.IntN(8) != 0 {
			final = append(final, ioIDs[rng.IntN(len(ioIDs))])
		}
		if rng.IntN(2) == 0 {
			for a, b := 0, len(final)-1; a < b; a, b = a+1, b-1 {
				final[a], final[b] = final[b], final[a]
			}
		}
		h.Ops = append(h.Ops, Op{Kind: KFinalize, Ver: ver, Final: final})
		newState := stateContents[fi]
		for k, v := range g.state {
			if nv, ok := newState[k]; !ok || nv != v {
				g.graveyard = append(g.graveyard, KV{K: []byte(k), V: []byte(v)})
				if len(g.graveyard) > 12 {
					g.graveyard = g.graveyard[1:]
				}
			}
		}
		g.state = newState
		latest, hasLatest = ver, true
		if cfg.Probes && rng.IntN(8) == 0 {
			h.Ops = append(h.Ops, Op{Kind: KProbe, Probe: "finalize-again", Ver: ver, Final: final})
		}
		if cfg.Probes && rng.IntN(8) == 0 {
			h.Ops = append(h.Ops, Op{Kind: KProbe, Probe: "prune", Ver: latest})
		}
		if cfg.Probes && rng.IntN(8) == 0 && earliest+1 < latest {
			h.Ops = append(h.Ops, Op{Kind: KProbe, Probe: "prune", Ver: earliest + 1})
		}

		// Restart the node between versions (the memtable becomes a new table).
		if cfg.Restart && rng.IntN(8) != 0 {
			h.Ops = append(h.Ops, Op{Kind: KReopen})
			reopens++
		}
		// Prune with the chosen lag; sometimes fall behind and catch up later.
		pruned := false
		if rng.IntN(5) != 0 || (cfg.Restart && i == cfg.Versions-1) {
			for earliest+uint64(lag) <= latest {
				h.Ops = append(h.Ops, Op{Kind: KPrune, Ver: earliest})
				earliest++
				pruned = true
			}
		}
		// Compact in the same process lifetime as the prune (a reopen resets the discard timestamp).
		if cfg.Restart && pruned && (rng.IntN(2) == 0 || i == cfg.Versions-1) {
			h.Ops = append(h.Ops, Op{Kind: KCompact})
		}
		ver++
	}
	_, _ = hasLatest, reopens
	// A third of the histories run with DiscardWriteLogs, the configuration of the consensus
	// state database (decided from the op list, not from the PRNG, so that the op streams of
	// existing seeds do not move).
	h.DiscardWriteLogs = len(h.Ops)%3 == 0
	return h
}

// fixParentOrder makes sure a same-version child is committed after its parent.
func fixParentOrder(ops []Op) []Op {
	done := map[int]bool{}
	var out []Op
	pending := append([]Op(nil), ops...)
	for len(pending) > 0 {
		progressed := false
		var rest []Op
		for _, o := range pending {
			if o.Kind == KCommit && o.Parent >= 0 && !done[o.Parent] {
				rest = append(rest, o)
				continue
			}
			out = append(out, o)
			if o.Kind == KCommit {
				done[o.Cand] = true
			}
			progressed = true
		}
		pending = rest
		if !progressed {
			out = append(out, pending...)
			break
		}
	}
	return out
}
