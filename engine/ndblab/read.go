package ndblab

import (
	"bytes"
	"context"
	"fmt"
	"sort"

	"github.com/oasisprotocol/oasis-core/go/common/crypto/hash"
	"github.com/oasisprotocol/oasis-core/go/storage/mkvs"
	"github.com/oasisprotocol/oasis-core/go/storage/mkvs/db/api"
	"github.com/oasisprotocol/oasis-core/go/storage/mkvs/node"
)

// NodeRoot converts a model root to a node.Root.
func NodeRoot(ver uint64, typ uint8, h hash.Hash) node.Root {
	return node.Root{Namespace: Ns, Version: ver, Type: node.RootType(typ), Hash: h}
}

// Root returns the node.Root of r.
func (r *RootInfo) Root() node.Root { return NodeRoot(r.Ver, r.Type, r.Hash) }

// ReadResult is the outcome of a full read-back of one root.
type ReadResult struct {
	// Err is the first error ("" if every read succeeded); ErrClass its class; Stage where it happened.
	Err      string
	ErrClass string
	Stage    string
	// Mismatch describes wrong data returned without an error ("" if none).
	Mismatch string
	// Counters.
	Iterated int
	Gets     int
	Proofs   int
}

// OK reports whether every read succeeded and returned exactly the expected contents.
func (r *ReadResult) OK() bool { return r.Err == "" && r.Mismatch == "" }

func (r *ReadResult) fail(stage string, err error) {
	if r.Err == "" {
		r.Err, r.ErrClass, r.Stage = err.Error(), ErrClass(err), stage
	}
}

// ReadRoot reads root completely through a fresh tree (iteration, Get of every
// expected key and of some absent keys, SyncGet proofs of up to proofKeys keys
// verified against the root hash by a second, remote-only tree) and compares
// with want. A panic of the code under test is reported as an error of stage
// "panic".
func ReadRoot(ndb api.NodeDB, root node.Root, want map[string]string, proofKeys int) (res ReadResult) {
	defer func() {
		if p := recover(); p != nil {
			res.fail("panic", fmt.Errorf("panic: %v", p))
		}
	}()
	ctx := context.Background()
	tree := mkvs.NewWithRoot(nil, ndb, root)
	defer tree.Close()

	// 1. Full iteration.
	it := tree.NewIterator(ctx)
	var gotK, gotV [][]byte
	for it.Rewind(); it.Valid(); it.Next() {
		gotK = append(gotK, append([]byte{}, it.Key()...))
		gotV = append(gotV, append([]byte{}, it.Value()...))
	}
	err := it.Err()
	it.Close()
	if err != nil {
		res.fail("iterate", err)
		return
	}
	res.Iterated = len(gotK)
	keys := make([]string, 0, len(want))
	for k := range want {
		keys = append(keys, k)
	}
	sort.Strings(keys)
	if len(gotK) != len(keys) {
		res.Mismatch = fmt.Sprintf("iteration returned %d pairs, model has %d", len(gotK), len(keys))
		return
	}
	for i, k := range keys {
		if !bytes.Equal(gotK[i], []byte(k)) || !bytes.Equal(gotV[i], []byte(want[k])) {
			res.Mismatch = fmt.Sprintf("iteration pair %d is (%x,%x), model has (%x,%x)", i, gotK[i], gotV[i], k, want[k])
			return
		}
	}

	// 2. Get of every key with a second fresh tree (no warm cache) + absent keys.
	tree2 := mkvs.NewWithRoot(nil, ndb, root)
	defer tree2.Close()
	for _, k := range keys {
		v, err := tree2.Get(ctx, []byte(k))
		res.Gets++
		if err != nil {
			res.fail("get", err)
			return
		}
		if v == nil || !bytes.Equal(v, []byte(want[k])) {
			res.Mismatch = fmt.Sprintf("Get(%x) = %x (nil=%v), model has %x", k, v, v == nil, want[k])
			return
		}
	}
	for _, k := range keyPool[:6] {
		if _, ok := want[string(k)]; ok {
			continue
		}
		v, err := tree2.Get(ctx, k)
		res.Gets++
		if err != nil {
			res.fail("get-absent", err)
			return
		}
		if v != nil {
			res.Mismatch = fmt.Sprintf("Get(%x) = %x for a key the model does not have", k, v)
			return
		}
	}

	// 3. SyncGet proofs: a remote-only tree fetches the key through SyncGet of a
	// fresh local tree and verifies the proof against the root hash.
	if proofKeys > 0 && len(keys) > 0 {
		server := mkvs.NewWithRoot(nil, ndb, root)
		defer server.Close()
		step := 1
		if len(keys) > proofKeys {
			step = (len(keys) + proofKeys - 1) / proofKeys
		}
		for i := 0; i < len(keys); i += step {
			k := keys[i]
			remote := mkvs.NewWithRoot(server, nil, root)
			v, err := remote.Get(ctx, []byte(k))
			remote.Close()
			res.Proofs++
			if err != nil {
				res.fail("proof", err)
				return
			}
			if v == nil || !bytes.Equal(v, []byte(want[k])) {
				res.Mismatch = fmt.Sprintf("proved Get(%x) = %x, model has %x", k, v, want[k])
				return
			}
		}
	}
	return
}

// NodeSet walks root with api.Visit and returns hash -> isLeaf for every node.
func NodeSet(ndb api.NodeDB, root node.Root) (map[hash.Hash]bool, error) {
	out := map[hash.Hash]bool{}
	if root.Hash.IsEmpty() {
		return out, nil
	}
	err := api.Visit(context.Background(), ndb, root, func(_ context.Context, n node.Node) bool {
		_, leaf := n.(*node.LeafNode)
		out[n.GetHash()] = leaf
		return true
	})
	return out, err
}

// Missing walks root with GetNode and returns the hashes of every node that
// cannot be fetched (the walk continues past a missing node's siblings).
func Missing(ndb api.NodeDB, root node.Root) (missing []hash.Hash, classes []string) {
	if root.Hash.IsEmpty() {
		return nil, nil
	}
	var walk func(ptr *node.Pointer)
	walk = func(ptr *node.Pointer) {
		if ptr == nil {
			return
		}
		var nd node.Node
		if ptr.Node != nil {
			nd = ptr.Node
		} else {
			var err error
			nd, err = ndb.GetNode(root, ptr)
			if err != nil {
				missing = append(missing, ptr.Hash)
				classes = append(classes, ErrClass(err))
				return
			}
		}
		if n, ok := nd.(*node.InternalNode); ok {
			walk(n.LeafNode)
			walk(n.Left)
			walk(n.Right)
		}
	}
	func() {
		defer func() {
			if p := recover(); p != nil {
				classes = append(classes, fmt.Sprintf("panic:%v", p))
			}
		}()
		walk(&node.Pointer{Clean: true, Hash: root.Hash})
	}()
	return
}
