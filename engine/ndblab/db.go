package ndblab

import (
	"errors"
	"fmt"
	"strings"
	"sync"

	"github.com/oasisprotocol/oasis-core/go/common"
	"github.com/oasisprotocol/oasis-core/go/common/crypto/hash"
	"github.com/oasisprotocol/oasis-core/go/storage/mkvs/db/api"
	"github.com/oasisprotocol/oasis-core/go/storage/mkvs/db/badger"
	"github.com/oasisprotocol/oasis-core/go/storage/mkvs/db/pathbadger"
	"github.com/oasisprotocol/oasis-core/go/storage/mkvs/node"
)

// Backends under test.
const (
	Badger     = "badger"
	PathBadger = "pathbadger"
)

// Backends lists both backends.
var Backends = []string{Badger, PathBadger}

// Ns is the namespace used by every lab database.
var Ns = common.NewTestNamespaceFromSeed([]byte("verif ndblab namespace"), 0)

// Open opens (or creates) a node database of the given backend. dir == ""
// means memory-only. On-disk databases run with NoFsync as the consensus layer
// configures them.
func Open(backend, dir string) (api.NodeDB, error) {
	return OpenWith(backend, dir, false)
}

// OpenWith is Open with the DiscardWriteLogs setting given (true is what the
// consensus state database of the ABCI layer uses).
func OpenWith(backend, dir string, discardWriteLogs bool) (api.NodeDB, error) {
	cfg := &api.Config{
		DB:               dir,
		NoFsync:          true,
		MemoryOnly:       dir == "",
		Namespace:        Ns,
		MaxCacheSize:     8 * 1024 * 1024,
		DiscardWriteLogs: discardWriteLogs,
	}
	switch backend {
	case Badger:
		return badger.New(cfg)
	case PathBadger:
		return pathbadger.New(cfg)
	}
	return nil, fmt.Errorf("unknown backend %q", backend)
}

// ErrClass maps an error of the node database / tree to a stable class name.
func ErrClass(err error) string {
	if err == nil {
		return ""
	}
	for _, c := range []struct {
		e error
		n string
	}{
		{api.ErrNodeNotFound, "ErrNodeNotFound"},
		{api.ErrWriteLogNotFound, "ErrWriteLogNotFound"},
		{api.ErrNotFinalized, "ErrNotFinalized"},
		{api.ErrAlreadyFinalized, "ErrAlreadyFinalized"},
		{api.ErrVersionNotFound, "ErrVersionNotFound"},
		{api.ErrPreviousVersionMismatch, "ErrPreviousVersionMismatch"},
		{api.ErrVersionWentBackwards, "ErrVersionWentBackwards"},
		{api.ErrRootNotFound, "ErrRootNotFound"},
		{api.ErrRootMustFollowOld, "ErrRootMustFollowOld"},
		{api.ErrBadNamespace, "ErrBadNamespace"},
		{api.ErrNotEarliest, "ErrNotEarliest"},
		{api.ErrReadOnly, "ErrReadOnly"},
		{api.ErrMultipartInProgress, "ErrMultipartInProgress"},
		{api.ErrInvalidMultipartVersion, "ErrInvalidMultipartVersion"},
		{api.ErrUpgradeInProgress, "ErrUpgradeInProgress"},
		{api.ErrCannotPruneLatestVersion, "ErrCannotPruneLatestVersion"},
	} {
		if errors.Is(err, c.e) {
			return c.n
		}
	}
	s := err.Error()
	// Wrapped errors of the tree/iterator keep the text of the NodeDB error.
	switch {
	case strings.Contains(s, "node not found in node db"):
		return "ErrNodeNotFound"
	case strings.Contains(s, "mkvs: root not found"):
		return "ErrRootNotFound"
	}
	if len(s) > 60 {
		s = s[:60]
	}
	return "other:" + s
}

// GetFail is one failed GetNode call seen by the recorder.
type GetFail struct {
	Root  node.Root
	Hash  hash.Hash
	Class string
}

// Recorder wraps a NodeDB and records, per batch, the node hashes passed to
// PutNode / RemoveNodes, and every failing GetNode (which node is missing
// under which root). It only observes; every call is forwarded unchanged.
type Recorder struct {
	api.NodeDB

	mu       sync.Mutex
	lastPut  map[hash.Hash]bool
	lastRem  map[hash.Hash]bool
	getFails []GetFail
	record   bool
}

// NewRecorder wraps db.
func NewRecorder(db api.NodeDB) *Recorder {
	return &Recorder{NodeDB: db, record: true}
}

// TakeBatch returns and clears what the batches since the last call put/removed.
func (r *Recorder) TakeBatch() (put, removed map[hash.Hash]bool) {
	r.mu.Lock()
	defer r.mu.Unlock()
	put, removed = r.lastPut, r.lastRem
	r.lastPut, r.lastRem = nil, nil
	return
}

// TakeGetFails returns and clears the failed GetNode calls.
func (r *Recorder) TakeGetFails() []GetFail {
	r.mu.Lock()
	defer r.mu.Unlock()
	f := r.getFails
	r.getFails = nil
	return f
}

func (r *Recorder) GetNode(root node.Root, ptr *node.Pointer) (node.Node, error) {
	n, err := r.NodeDB.GetNode(root, ptr)
	if err != nil && r.record && ptr != nil {
		r.mu.Lock()
		if len(r.getFails) < 64 {
			r.getFails = append(r.getFails, GetFail{Root: root, Hash: ptr.Hash, Class: ErrClass(err)})
		}
		r.mu.Unlock()
	}
	return n, err
}

func (r *Recorder) NewBatch(oldRoot node.Root, version uint64, chunk bool) (api.Batch, error) {
	b, err := r.NodeDB.NewBatch(oldRoot, version, chunk)
	if err != nil {
		return nil, err
	}
	return &recBatch{Batch: b, r: r}, nil
}

type recBatch struct {
	api.Batch
	r *Recorder
}

func (b *recBatch) PutNode(ptr *node.Pointer) error {
	if ptr != nil && ptr.Node != nil {
		h := ptr.Node.GetHash()
		b.r.mu.Lock()
		if b.r.lastPut == nil {
			b.r.lastPut = map[hash.Hash]bool{}
		}
		b.r.lastPut[h] = true
		b.r.mu.Unlock()
	}
	return b.Batch.PutNode(ptr)
}

func (b *recBatch) RemoveNodes(nodes []*node.Pointer) error {
	b.r.mu.Lock()
	if b.r.lastRem == nil {
		b.r.lastRem = map[hash.Hash]bool{}
	}
	for _, p := range nodes {
		if p != nil {
			b.r.lastRem[p.GetHash()] = true
		}
	}
	b.r.mu.Unlock()
	return b.Batch.RemoveNodes(nodes)
}

// RootExisted forwards the wrapped batch's optional report that Commit found the root already
// stored (the tree looks for this method on the batch it was given).
func (b *recBatch) RootExisted() bool {
	if re, ok := b.Batch.(interface{ RootExisted() bool }); ok {
		return re.RootExisted()
	}
	return false
}
