package ndblab

import (
	"fmt"
	"sort"
	"strings"
)

// Snapshot is the API-visible state of a node database with respect to the
// roots the model knows: metadata answers, root lists, HasRoot and the
// outcome of a full read-back of every root.
type Snapshot struct {
	Earliest  uint64              `json:"earliest"`
	Latest    uint64              `json:"latest"`
	HasLatest bool                `json:"has_latest"`
	Roots     map[string][]string `json:"roots"`    // version -> sorted "type/hash" (GetRootsForVersion)
	HasRoot   map[string]bool     `json:"has_root"` // "v/type/hash" -> HasRoot
	Reads     map[string]string   `json:"reads"`    // "v/type/hash" -> "ok" | "err:<class>" | "wrong-data"
	Status    map[string]string   `json:"status"`   // "v/type/hash" -> model status
}

func rootKey(r *RootInfo) string {
	return fmt.Sprintf("%d/%s/%s", r.Ver, typeName(r.Type), r.Hash.String())
}

// Snapshot observes the database (reads every root the model knows).
func (l *Lab) Snapshot() *Snapshot {
	s := &Snapshot{Roots: map[string][]string{}, HasRoot: map[string]bool{}, Reads: map[string]string{}, Status: map[string]string{}}
	s.Earliest = l.DB.GetEarliestVersion()
	s.Latest, s.HasLatest = l.DB.GetLatestVersion()
	for _, v := range l.M.Versions() {
		roots, err := l.DB.GetRootsForVersion(v)
		key := fmt.Sprint(v)
		if err != nil {
			s.Roots[key] = []string{"error:" + ErrClass(err)}
			continue
		}
		var rs []string
		for _, r := range roots {
			rs = append(rs, fmt.Sprintf("%s/%s", typeName(uint8(r.Type)), r.Hash.String()))
		}
		sort.Strings(rs)
		s.Roots[key] = rs
	}
	for _, ri := range l.M.Roots {
		k := rootKey(ri)
		s.Status[k] = statusName(ri.Status)
		s.HasRoot[k] = l.hasRoot(ri.Root())
		if ri.Hash.IsEmpty() {
			s.Reads[k] = "ok"
			continue
		}
		rr := ReadRoot(l.DB, ri.Root(), ri.Content, 0)
		switch {
		case rr.OK():
			s.Reads[k] = "ok"
		case rr.Mismatch != "":
			s.Reads[k] = "wrong-data"
		default:
			s.Reads[k] = "err:" + rr.ErrClass
		}
	}
	l.DB.TakeGetFails()
	return s
}

// Diff is one difference between two snapshots.
type Diff struct {
	Field string
	Key   string
	A, B  string
	// DiscardedKeptByB is set when the only difference is that B still lists /
	// claims roots that the model knows as discarded while A reports them absent.
	DiscardedKeptByB bool
}

// DiffSnapshots compares two snapshots taken at the same point of the same
// history (on two backends, or in an interrupted and an uninterrupted run).
// Answers are compared for: metadata, the root lists of every version, HasRoot
// of every root, and the read-back of finalized roots (retained: must be equal;
// pruned: both must fail). For roots that are not finalized the property only
// demands "absent or intact" from each backend separately (checked by
// CheckAll), so only HasRoot and the root lists are compared for them.
func DiffSnapshots(a, b *Snapshot) []Diff {
	var out []Diff
	if a.HasLatest != b.HasLatest || a.Latest != b.Latest {
		out = append(out, Diff{Field: "latest-version", A: fmt.Sprintf("(%d,%v)", a.Latest, a.HasLatest), B: fmt.Sprintf("(%d,%v)", b.Latest, b.HasLatest)})
	}
	if a.Earliest != b.Earliest {
		out = append(out, Diff{Field: "earliest-version", A: fmt.Sprint(a.Earliest), B: fmt.Sprint(b.Earliest)})
	}
	var vs []string
	for v := range a.Roots {
		vs = append(vs, v)
	}
	sort.Strings(vs)
	for _, v := range vs {
		x, y := strings.Join(a.Roots[v], ","), strings.Join(b.Roots[v], ",")
		if x == y {
			continue
		}
		d := Diff{Field: "roots-for-version", Key: v, A: short2(a.Roots[v]), B: short2(b.Roots[v])}
		inA := map[string]bool{}
		for _, r := range a.Roots[v] {
			inA[r] = true
		}
		inB := map[string]bool{}
		kept := true
		for _, r := range b.Roots[v] {
			inB[r] = true
			if !inA[r] && a.Status[v+"/"+r] != "discarded" {
				kept = false
			}
		}
		for _, r := range a.Roots[v] {
			if !inB[r] {
				kept = false
			}
		}
		d.DiscardedKeptByB = kept
		out = append(out, d)
	}
	var ks []string
	for k := range a.HasRoot {
		ks = append(ks, k)
	}
	sort.Strings(ks)
	for _, k := range ks {
		if a.HasRoot[k] != b.HasRoot[k] {
			out = append(out, Diff{Field: "hasroot-" + a.Status[k], Key: k, A: fmt.Sprint(a.HasRoot[k]), B: fmt.Sprint(b.HasRoot[k]),
				DiscardedKeptByB: a.Status[k] == "discarded" && b.HasRoot[k]})
		}
	}
	for _, k := range ks {
		st := a.Status[k]
		if st != "finalized" && st != "pruned" {
			continue
		}
		if a.Reads[k] != b.Reads[k] {
			out = append(out, Diff{Field: "read-" + st, Key: k, A: a.Reads[k], B: b.Reads[k]})
		}
	}
	return out
}

func short2(rs []string) string {
	var out []string
	for _, r := range rs {
		if i := strings.Index(r, "/"); i >= 0 && len(r) > i+9 {
			r = r[:i+9]
		}
		out = append(out, r)
	}
	return "[" + strings.Join(out, " ") + "]"
}
