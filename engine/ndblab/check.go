package ndblab

import (
	"fmt"
	"sort"
	"strings"

	"github.com/oasisprotocol/oasis-core/go/common/crypto/hash"
	"github.com/oasisprotocol/oasis-core/go/storage/mkvs/node"
)

// Finding is one violation found by the oracle, with its classified signature.
type Finding struct {
	Signature string         `json:"signature"`
	What      string         `json:"what"`
	Detail    map[string]any `json:"detail,omitempty"`
	// Fatal findings leave the database (or the model's knowledge of it) damaged: everything
	// observed later in the same history would be a consequence, so the history stops there.
	Fatal bool `json:"-"`
}

// Signatures of the two shapes known from the design phase (DESIGN.md section 6, D4 and D5).
const (
	SigD4     = "badger/finalize/discarded-sibling-recreated-preexisting-node"
	SigD5Leaf = "badger/prune/leaf-shared-by-io-and-state-root-of-pruned-version"
	SigD5Sub  = "badger/prune/subtree-shared-by-io-and-state-root-of-pruned-version"
	// Shapes first seen by this check.
	SigPruneEmptyRoot    = "badger/prune/fails-on-committed-empty-root"
	SigPBDiscardedKept   = "pathbadger/finalize/discarded-root-still-claimed-present-but-not-intact"
	SigDiffDiscardedKept = "differential/finalize/pathbadger-still-lists-discarded-root"
	// Badger-only shape (same-version child roots).
	SigKeptTreeDangling   = "commit/same-root-committed-twice/kept-tree-persists-dangling-references" // prefixed with the backend
	SigBadgerIntermediate = "badger/finalize/same-version-ancestor-of-finalized-root-claimed-present-but-not-intact"
)

func short(h hash.Hash) string { return h.String()[:12] }

func typeName(t uint8) string {
	if t == TIO {
		return "io"
	}
	return "state"
}

// CheckAll is the C06 oracle, run after op res: every finalized root of a
// retained version is fully read back and compared with the model, versions
// below earliest are absent, discarded roots are absent or intact, metadata
// answers equal the model.
func (l *Lab) CheckAll(res OpResult) []Finding {
	var out []Finding
	m := l.M
	op := res.Op
	opName := op.Kind
	if op.Kind == KProbe {
		opName = "probe-" + op.Probe
	}
	add := func(sig, what string, detail map[string]any) {
		if detail == nil {
			detail = map[string]any{}
		}
		detail["after_op"] = fmt.Sprintf("%d:%s", res.Idx, op.String())
		detail["backend"] = l.Backend
		out = append(out, Finding{Signature: sig, What: what, Detail: detail, Fatal: true})
	}

	if res.Panic != "" {
		add("panic/"+l.Backend+"/"+opName, "panic in "+op.String()+": "+res.Panic, nil)
		return out
	}
	if res.Unexpected() {
		// An op on a parent root that is already known broken is a consequence, not a new finding.
		if op.Kind == KCommit {
			if p, _, _ := m.ParentOf(op); p != nil && p.Broken {
				l.Stats["propagated.commit-on-broken-parent"]++
				return out
			}
		}
		if f, ok := l.classifyOpError(res); ok {
			out = append(out, f)
			return out
		}
		add(fmt.Sprintf("c06/%s/%s/unexpected-result/got-%s-want-%s", l.Backend, opName, orOK(res.Class), orOK(res.Expect)),
			fmt.Sprintf("%s returned %q (%s), the sequential model expects %q", op.String(), res.Class, res.ErrText, res.Expect), nil)
		return out
	}

	// Metadata.
	e := l.DB.GetEarliestVersion()
	lv, ok := l.DB.GetLatestVersion()
	l.Stats["meta.calls"] += 2
	if ok != m.HasLatest || (ok && lv != m.Latest) {
		add(fmt.Sprintf("c06/%s/%s/latest-version-wrong", l.Backend, opName),
			fmt.Sprintf("GetLatestVersion = (%d,%v), model (%d,%v)", lv, ok, m.Latest, m.HasLatest), nil)
	}
	if m.HasLatest && e != m.Earliest {
		add(fmt.Sprintf("c06/%s/%s/earliest-version-wrong", l.Backend, opName),
			fmt.Sprintf("GetEarliestVersion = %d, model %d", e, m.Earliest), nil)
	}

	// Roots per version.
	for _, v := range m.Versions() {
		roots, err := l.DB.GetRootsForVersion(v)
		l.Stats["meta.calls"]++
		if err != nil {
			add(fmt.Sprintf("c06/%s/%s/getrootsforversion-error", l.Backend, opName), fmt.Sprintf("GetRootsForVersion(%d): %v", v, err), nil)
			continue
		}
		listed := map[*RootInfo]bool{}
		for _, r := range roots {
			ri := m.Find(v, uint8(r.Type), r.Hash)
			if ri == nil {
				add(fmt.Sprintf("c06/%s/%s/getrootsforversion-phantom-root", l.Backend, opName),
					fmt.Sprintf("GetRootsForVersion(%d) lists %s/%s which was never committed", v, r.Type, r.Hash), nil)
				continue
			}
			listed[ri] = true
		}
		for _, ri := range m.ByVer[v] {
			switch ri.Status {
			case StFinalized, StPending:
				if !listed[ri] && !(ri.Status == StPending && l.M.MPVersion != 0) {
					add(fmt.Sprintf("c06/%s/%s/getrootsforversion-misses-%s-root", l.Backend, opName, statusName(ri.Status)),
						fmt.Sprintf("GetRootsForVersion(%d) does not list %s", v, ri), nil)
				}
			case StPruned, StGone:
				if listed[ri] {
					add(fmt.Sprintf("c06/%s/%s/getrootsforversion-lists-pruned-root", l.Backend, opName),
						fmt.Sprintf("GetRootsForVersion(%d) lists %s although the version is below earliest", v, ri), nil)
				}
			}
		}
	}

	// Every root the model knows.
	for _, ri := range m.Roots {
		if ri.Hash.IsEmpty() {
			// An empty root is always implicitly present and has no nodes.
			continue
		}
		root := ri.Root()
		has := l.hasRoot(root)
		switch ri.Status {
		case StFinalized:
			if ri.Broken {
				continue
			}
			if !has {
				add(fmt.Sprintf("c06/%s/%s/hasroot-false-for-retained-finalized-root", l.Backend, opName),
					fmt.Sprintf("HasRoot(%s) = false while version %d is in [%d,%d]", ri, ri.Ver, m.Earliest, m.Latest), nil)
			}
			l.DB.TakeGetFails()
			rr := ReadRoot(l.DB, root, ri.Content, l.ProofKeys)
			l.countRead(rr)
			if !rr.OK() {
				out = append(out, l.classifyBrokenRoot(res, opName, ri, rr)...)
			}
		case StPruned, StGone:
			if has {
				add(fmt.Sprintf("c06/%s/%s/hasroot-true-below-earliest", l.Backend, opName),
					fmt.Sprintf("HasRoot(%s) = true although version %d < earliest %d", ri, ri.Ver, m.Earliest), nil)
			}
			if ri.Status == StPruned && l.Stats["reads.pruned"] < 1<<40 {
				rr := ReadRoot(l.DB, root, ri.Content, 0)
				l.Stats["reads.pruned"]++
				if rr.Err == "" && len(ri.Content) > 0 {
					add(fmt.Sprintf("c06/%s/%s/pruned-version-still-readable", l.Backend, opName),
						fmt.Sprintf("root %s of pruned version %d is still served (mismatch=%q)", ri, ri.Ver, rr.Mismatch), nil)
				}
				l.DB.TakeGetFails()
			}
		case StPending:
			// A committed candidate that is not finalized yet: the database claims it (Commit
			// returned), so it must read back with exactly its own contents - the proposer goes on
			// executing on it and storage sync serves it. (The incomplete root of a checkpoint
			// restore in progress is exempt.)
			if l.M.MPVersion != 0 || ri.Broken {
				continue
			}
			l.DB.TakeGetFails()
			rr := ReadRoot(l.DB, root, ri.Content, 1)
			l.Stats["reads.pending"]++
			l.DB.TakeGetFails()
			if !rr.OK() && l.Backend == Badger {
				// The hashed backend's listed findings (nodes shared between roots deleted by
				// Finalize / Prune) break candidates built on the damaged parent too: the same
				// classifier as for finalized roots attributes them.
				out = append(out, l.classifyBrokenRoot(res, opName, ri, rr)...)
			} else if !rr.OK() {
				ri.Broken = true
				sym := "the read-back fails with " + rr.ErrClass + " (" + rr.Err + ")"
				if rr.Mismatch != "" {
					sym = "the read-back returns foreign contents without an error (" + rr.Mismatch + ")"
				}
				out = append(out, Finding{Signature: fmt.Sprintf("c06/%s/%s/pending-candidate-not-readable-with-its-own-contents", l.Backend, stageOf(op)),
					What: fmt.Sprintf("candidate %s was committed and is not finalized or discarded yet (HasRoot=%v), but %s", ri, has, sym),
					Detail: map[string]any{"root": ri.String(), "content_pairs": len(ri.Content), "backend": l.Backend,
						"after_op": fmt.Sprintf("%d:%s", res.Idx, op.String()), "read_error": rr.Err, "mismatch": rr.Mismatch}})
			}
		case StDiscarded, StIntermediate:
			// Either absent (HasRoot=false or ErrRootNotFound on access) or readable with exactly its own contents.
			l.DB.TakeGetFails()
			rr := ReadRoot(l.DB, root, ri.Content, 1)
			l.Stats["reads.discarded"]++
			l.DB.TakeGetFails()
			switch {
			case rr.OK():
				l.Stats["discarded.readable-intact"]++
			case !has:
				l.Stats["discarded.absent-hasroot-false"]++
				if rr.Mismatch != "" {
					l.Stats["discarded.absent-but-serves-other-data"]++
				}
			case rr.ErrClass == "ErrRootNotFound":
				l.Stats["discarded.absent-rootnotfound"]++
			default:
				if ri.Broken {
					continue
				}
				ri.Broken = true
				sym := "the read-back fails with " + rr.ErrClass + " (" + rr.Err + ")"
				if rr.Mismatch != "" {
					sym = "the read-back returns foreign contents without an error (" + rr.Mismatch + ")"
				}
				sig := fmt.Sprintf("c06/%s/%s/discarded-root-claimed-present-but-not-intact", l.Backend, stageOf(op))
				if l.Backend == PathBadger && ri.Status == StDiscarded && (op.Kind == KFinalize || op.Kind == KMPFinal) && ri.Ver == op.Ver {
					sig = SigPBDiscardedKept
				}
				if l.Backend == Badger && ri.Status == StIntermediate && op.Kind == KFinalize && ri.Ver == op.Ver {
					sig = SigBadgerIntermediate
				}
				out = append(out, Finding{Signature: sig,
					What: fmt.Sprintf("candidate %s was not among the roots finalized by %s ("+statusName(ri.Status)+"), yet HasRoot = true (and GetRootsForVersion lists it) and %s; a root the database claims to have must be readable with exactly its own contents", ri, op.String(), sym),
					Detail: map[string]any{"root": ri.String(), "content_pairs": len(ri.Content), "backend": l.Backend,
						"after_op": fmt.Sprintf("%d:%s", res.Idx, op.String()), "read_error": rr.Err, "mismatch": rr.Mismatch}})
			}
		}
	}
	return out
}

func stageOf(op Op) string {
	if op.Kind == KProbe {
		return "probe-" + op.Probe
	}
	return op.Kind
}

func statusName(s int) string {
	return [...]string{"pending", "finalized", "discarded", "pruned", "gone", "intermediate"}[s]
}

func orOK(s string) string {
	if s == "" {
		return "ok"
	}
	return strings.NewReplacer(" ", "_", "/", "_").Replace(s)
}

func (l *Lab) hasRoot(root node.Root) (has bool) {
	defer func() {
		if p := recover(); p != nil {
			has = false
			l.Stats["hasroot.panic"]++
		}
	}()
	l.Stats["meta.calls"]++
	return l.DB.HasRoot(root)
}

func (l *Lab) countRead(rr ReadResult) {
	l.Stats["reads.roots"]++
	l.Stats["reads.pairs-iterated"] += int64(rr.Iterated)
	l.Stats["reads.gets"] += int64(rr.Gets)
	l.Stats["reads.proofs"] += int64(rr.Proofs)
}

// classifyOpError recognises a failing operation whose cause can be derived from the recorded events.
func (l *Lab) classifyOpError(res OpResult) (Finding, bool) {
	op := res.Op
	if l.Backend == Badger && op.Kind == KPrune && res.Class == "ErrNodeNotFound" && res.Expect == "" {
		// Prune walks every root of the version that has no derived roots with api.Visit; a
		// committed empty root has no root node to fetch (and links from an empty root are not recorded).
		for _, r := range l.M.ByVer[op.Ver] {
			if r.Status == StFinalized && r.Hash.IsEmpty() {
				return Finding{
					Signature: SigPruneEmptyRoot,
					What:      fmt.Sprintf("%s fails with %q: version %d has the committed and finalized empty root %s; Prune can never advance past this version (the sequential model and pathbadger prune it)", op.String(), res.ErrText, op.Ver, r),
					Detail:    map[string]any{"backend": l.Backend, "after_op": fmt.Sprintf("%d:%s", res.Idx, op.String()), "empty_root": r.String()},
					Fatal:     true,
				}, true
			}
		}
	}
	if op.Kind == KCommit && res.AfterShortcut && res.Class == "ErrNodeNotFound" {
		return Finding{
			Fatal:     true,
			Signature: l.Backend + "/" + SigKeptTreeDangling,
			What:      fmt.Sprintf("%s fails with %q: the long-lived tree T%d follows node references that were never written (an earlier commit of that tree produced a root that already existed and the backend dropped the batch)", op.String(), res.ErrText, op.Tree),
			Detail:    map[string]any{"backend": l.Backend, "after_op": fmt.Sprintf("%d:%s", res.Idx, op.String())},
		}, true
	}
	if (op.Kind == KCommit || op.Kind == KPrune) && res.Class == "ErrNodeNotFound" && res.Expect == "" {
		// A tree write / commit / prune walk that cannot load a node of a retained finalized root:
		// the node was lost earlier (latent until something has to load it on its own).
		var ver uint64 = op.Ver
		sigs := map[string]string{}
		for _, gf := range l.DB.TakeGetFails() {
			if gf.Class != "ErrNodeNotFound" {
				continue
			}
			if sig, ok := l.Damaged[gf.Hash]; ok {
				sigs[sig] = "node " + short(gf.Hash) + " (already attributed)"
				continue
			}
			sig, why := l.classifyMissingNode(res, stageOf(op), gf.Root.Version, gf.Hash, gf.Class)
			l.Damaged[gf.Hash] = sig
			sigs[sig] = why
		}
		_ = ver
		for sig, why := range sigs {
			return Finding{
				Signature: sig,
				What:      fmt.Sprintf("%s fails with %q because a node of a retained finalized root cannot be loaded: %s", op.String(), res.ErrText, why),
				Detail:    map[string]any{"backend": l.Backend, "after_op": fmt.Sprintf("%d:%s", res.Idx, op.String())},
				Fatal:     true,
			}, true
		}
	}
	return Finding{}, false
}

// classifyBrokenRoot derives the signature of an unreadable / wrong finalized
// root from the recorded events: the operation that preceded the first
// failure, the hashes of the missing nodes, the node sets of the roots they
// occur in, who created / re-created them and whether they pre-existed.
func (l *Lab) classifyBrokenRoot(res OpResult, opName string, ri *RootInfo, rr ReadResult) []Finding {
	fs := l.classifyBrokenRoot0(res, opName, ri, rr)
	if ri.ViaTree > 0 && ri.AfterShortcut {
		// The root was committed through a long-lived tree which, in an earlier commit, had
		// produced a root that already existed (committed by another tree): the backend dropped
		// that batch, but the tree kept the node references it had handed out. Used only when
		// no more specific explanation (D4/D5, ...) was found.
		for i := range fs {
			if !strings.HasPrefix(fs[i].Signature, "c06/") {
				continue
			}
			fs[i].Signature = l.Backend + "/" + SigKeptTreeDangling
			fs[i].What = fmt.Sprintf("%s [the root was committed through the long-lived tree T%d; an earlier commit of that tree produced a root that another tree had already committed in the same version, the backend dropped the batch (root already exists) but the tree went on using node references that were never written, and its next commit persisted them]", fs[i].What, ri.ViaTree)
		}
	}
	return fs
}

func (l *Lab) classifyBrokenRoot0(res OpResult, opName string, ri *RootInfo, rr ReadResult) []Finding {
	ri.Broken = true
	op := res.Op
	detail := map[string]any{
		"backend": l.Backend, "root": ri.String(), "after_op": fmt.Sprintf("%d:%s", res.Idx, op.String()),
		"read_error": rr.Err, "read_stage": rr.Stage, "mismatch": rr.Mismatch,
	}
	if rr.Mismatch != "" {
		return []Finding{{
			Fatal:     true,
			Signature: fmt.Sprintf("c06/%s/%s/finalized-root-serves-wrong-data", l.Backend, opName),
			What:      fmt.Sprintf("finalized root %s returned wrong data without an error after %s: %s", ri, op.String(), rr.Mismatch),
			Detail:    detail,
		}}
	}
	if ri.Restored && op.Kind == KMPFinal {
		// A restored checkpoint root that cannot be read right after its Finalize.
		attempt := "first-attempt"
		if l.MPStarts[ri.Ver] > 1 {
			attempt = "restarted-at-same-version"
		}
		return []Finding{{
			Fatal:     true,
			Signature: fmt.Sprintf("%s/restore/%s/restored-root-not-readable-after-finalize", l.Backend, attempt),
			What:      fmt.Sprintf("checkpoint root %s was restored chunk by chunk (StartMultipartInsert was called %d time(s) for version %d) and finalized without an error, but its read-back fails: %s (%s)", ri, l.MPStarts[ri.Ver], ri.Ver, rr.Err, rr.Stage),
			Detail:    detail,
		}}
	}
	missing, classes := Missing(l.DB, ri.Root())
	l.DB.TakeGetFails()
	var ms []string
	for _, h := range missing {
		ms = append(ms, short(h))
	}
	detail["missing_nodes"] = ms
	detail["missing_classes"] = classes
	if len(missing) == 0 {
		return []Finding{{
			Fatal:     true,
			Signature: fmt.Sprintf("c06/%s/%s/finalized-root-unreadable-%s", l.Backend, opName, orOK(rr.ErrClass)),
			What:      fmt.Sprintf("finalized root %s is unreadable after %s: %s (no missing node found by a GetNode walk)", ri, op.String(), rr.Err),
			Detail:    detail,
		}}
	}

	sigs := map[string][]string{}
	for i, h := range missing {
		if sig, ok := l.Damaged[h]; ok {
			// Same node as an earlier finding: a consequence (e.g. the child root inherits the hole).
			l.Stats["propagated.root-inherits-damaged-node"]++
			_ = sig
			continue
		}
		sig, why := l.classifyMissingNode(res, opName, ri.Ver, h, classes[i])
		l.Damaged[h] = sig
		sigs[sig] = append(sigs[sig], why)
	}
	var out []Finding
	var names []string
	for s := range sigs {
		names = append(names, s)
	}
	sort.Strings(names)
	for _, s := range names {
		d := map[string]any{}
		for k, v := range detail {
			d[k] = v
		}
		d["nodes"] = sigs[s]
		out = append(out, Finding{
			Fatal:     true,
			Signature: s,
			What:      fmt.Sprintf("finalized root %s (version %d in [%d,%d]) is unreadable after %s: %s; %s", ri, ri.Ver, l.M.Earliest, l.M.Latest, op.String(), rr.Err, strings.Join(sigs[s], "; ")),
			Detail:    d,
		})
	}
	return out
}

// classifyMissingNode returns the signature for one node hash that is missing
// under a root of version rootVer, from the recorded history: in which roots'
// node sets it occurs, which commits wrote it, whether it pre-existed.
func (l *Lab) classifyMissingNode(res OpResult, opName string, rootVer uint64, h hash.Hash, class string) (string, string) {
	m := l.M
	kind := "node"
	var inRoots, putBy []string
	firstVer := ^uint64(0)
	for _, r := range m.Roots {
		if leaf, ok := r.Nodes[h]; ok {
			inRoots = append(inRoots, r.String()+":"+statusName(r.Status))
			kind = "internal node"
			if leaf {
				kind = "leaf"
			}
		}
		if _, ok := r.Nodes[h]; (ok || r.Put[h]) && r.Ver < firstVer {
			firstVer = r.Ver
		}
		if r.Put[h] {
			putBy = append(putBy, r.String()+":"+statusName(r.Status))
		}
	}
	why := fmt.Sprintf("missing %s %s (%s) occurs in roots %v, was written by commits of %v, first seen in version %d", kind, short(h), class, inRoots, putBy, firstVer)

	if l.Backend == Badger && class == "ErrNodeNotFound" {
		// d4 explains the loss by Finalize(w): a candidate discarded by it had re-created
		// (PutNode) the node although it existed since an earlier version, and no root finalized
		// in w wrote it: Finalize deletes it at w's timestamp, hiding the older copy from every
		// reader at version >= w. (The hole can stay latent while the node is only reached
		// embedded in its parent.)
		d4 := func(w uint64) (string, bool) {
			if w > rootVer || firstVer >= w {
				return "", false
			}
			for _, d := range m.ByVer[w] {
				if !(d.Status == StDiscarded || d.Status == StGone) || !d.Put[h] {
					continue
				}
				for _, f := range m.ByVer[w] {
					if (f.Status == StFinalized || f.Status == StPruned || f.Status == StIntermediate) && f.Put[h] {
						return "", false
					}
				}
				return fmt.Sprintf("; the discarded candidate %s re-created it in version %d although it pre-existed since version %d, and no root finalized in version %d wrote it, so Finalize(%d) deleted it at that version's timestamp", d, w, firstVer, w, w), true
			}
			return "", false
		}
		// d5 explains the loss by Prune(w): the node is part of a finalized IO root (a root
		// without derived roots) of the pruned version w < rootVer and of the finalized state
		// root of w that later versions derive from.
		d5 := func(w uint64) (string, string, bool) {
			if w >= rootVer {
				return "", "", false
			}
			for _, io := range m.ByVer[w] {
				if io.Type != TIO || io.Status != StPruned {
					continue
				}
				if _, ok := io.Nodes[h]; !ok {
					continue
				}
				for _, st := range m.ByVer[w] {
					if st.Type != TState || st.Status != StPruned {
						continue
					}
					leaf, ok := st.Nodes[h]
					if !ok {
						continue
					}
					created := "inherited from an earlier version by"
					if st.Put[h] {
						created = "also written in that version by"
					}
					wy := fmt.Sprintf("; Prune(%d) walked the IO root %s (no derived roots) and deleted the node, which was %s the state root %s that later versions derive from", w, io, created, st)
					if leaf {
						return SigD5Leaf, wy, true
					}
					return SigD5Sub, wy, true
				}
			}
			return "", "", false
		}
		// The operation that was just executed is the first suspect, then older ones (latent damage).
		op := res.Op
		if op.Kind == KPrune {
			if sig, wy, ok := d5(op.Ver); ok {
				return sig, why + wy
			}
		}
		if op.Kind == KFinalize || op.Kind == KMPFinal {
			if wy, ok := d4(op.Ver); ok {
				return SigD4, why + wy
			}
		}
		for _, w := range m.Versions() {
			if wy, ok := d4(w); ok {
				return SigD4, why + " (latent since then)" + wy
			}
		}
		for _, w := range m.Versions() {
			if sig, wy, ok := d5(w); ok {
				return sig, why + " (latent since then)" + wy
			}
		}
	}
	return fmt.Sprintf("c06/%s/%s/retained-root-loses-%s-%s", l.Backend, opName, strings.ReplaceAll(kind, " ", "-"), orOK(class)), why
}
