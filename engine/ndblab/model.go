package ndblab

import (
	"fmt"
	"sort"

	"github.com/oasisprotocol/oasis-core/go/common/crypto/hash"
)

// Root status in the model.
const (
	StPending   = 0
	StFinalized = 1
	StDiscarded = 2
	StPruned    = 3 // was finalized, its version has been pruned
	StGone      = 4 // was discarded, its version has been pruned
	// StIntermediate: a same-version ancestor of a finalized root that was not itself passed to
	// Finalize (hashed badger only; it treats finalization as transitive and keeps the root in its
	// metadata, but garbage-collects the nodes that the finalized descendant removed). The
	// property treats it like any root that was not finalized: absent or intact.
	StIntermediate = 5
)

// RootInfo is what the model knows about one root (version, type, hash).
type RootInfo struct {
	Ver     uint64
	Type    uint8
	Hash    hash.Hash
	Cands   []int // candidate ids that produced this root
	Content map[string]string
	Status  int
	Parent  *RootInfo // nil: built from empty
	// CommitOp is the index of the (first) op that committed this root.
	CommitOp int
	// Restored marks a checkpoint root.
	Restored bool
	// ViaTree > 0: (also) committed through the kept tree of that slot.
	ViaTree int
	// AfterShortcut: first commit of that tree after one of its batches was dropped because the
	// root it produced already existed.
	AfterShortcut bool

	// Filled by the driver (observations, used by the classifier only).
	Nodes   map[hash.Hash]bool // node hash -> is leaf (walked with api.Visit right after commit)
	Put     map[hash.Hash]bool // hashes passed to Batch.PutNode by the commit(s) of this root
	Removed map[hash.Hash]bool // hashes passed to Batch.RemoveNodes
	// Broken is set once the oracle has reported this root unreadable.
	Broken bool
}

func (r *RootInfo) String() string {
	t := "state"
	if r.Type == TIO {
		t = "io"
	}
	return fmt.Sprintf("v%d/%s/%s%v", r.Ver, t, r.Hash.String()[:8], r.Cands)
}

// Model is the sequential specification of the NodeDB as far as C06/C07 need it.
type Model struct {
	Roots     []*RootInfo
	ByVer     map[uint64][]*RootInfo
	HasLatest bool
	Latest    uint64
	Earliest  uint64
	LastState *RootInfo // last finalized state root
	// Multipart restore in progress (0 = none).
	MPVersion uint64
	// Trees maps a kept-tree slot to the root that tree committed last.
	Trees map[int]*RootInfo
}

// KeptUsable reports whether the kept tree of op's slot can be used for op: it
// exists and the root it committed last is the last finalized state root.
func (m *Model) KeptUsable(op Op) bool {
	if op.Tree <= 0 || op.Type != TState || op.Parent != ParentPrev {
		return false
	}
	t := m.Trees[op.Tree]
	return t != nil && t == m.LastState
}

// NewModel returns an empty model.
func NewModel() *Model {
	return &Model{ByVer: map[uint64][]*RootInfo{}}
}

// Find returns the root of (ver, type, hash), or nil.
func (m *Model) Find(ver uint64, typ uint8, h hash.Hash) *RootInfo {
	for _, r := range m.ByVer[ver] {
		if r.Type == typ && r.Hash.Equal(&h) {
			return r
		}
	}
	return nil
}

// Cand returns the root produced by candidate id of version ver.
func (m *Model) Cand(ver uint64, id int) *RootInfo {
	for _, r := range m.ByVer[ver] {
		for _, c := range r.Cands {
			if c == id {
				return r
			}
		}
	}
	return nil
}

// ParentOf resolves the parent root of a commit op (nil = empty tree) and its content.
func (m *Model) ParentOf(op Op) (*RootInfo, map[string]string, error) {
	switch {
	case op.Parent == ParentEmpty:
		return nil, map[string]string{}, nil
	case op.Parent == ParentPrev:
		if op.Type != TState {
			return nil, nil, fmt.Errorf("only state roots derive from the previous version")
		}
		if m.LastState == nil {
			return nil, map[string]string{}, nil
		}
		return m.LastState, m.LastState.Content, nil
	default:
		p := m.Cand(op.Ver, op.Parent)
		if p == nil {
			return nil, nil, fmt.Errorf("parent candidate %d of version %d unknown", op.Parent, op.Ver)
		}
		return p, p.Content, nil
	}
}

// ApplyCommit records the root produced by a successful commit.
func (m *Model) ApplyCommit(opIdx int, op Op, h hash.Hash) *RootInfo {
	parent, base, _ := m.ParentOf(op)
	content := applyW(base, op.W)
	if m.Trees == nil {
		m.Trees = map[int]*RootInfo{}
	}
	if r := m.Find(op.Ver, op.Type, h); r != nil {
		r.Cands = append(r.Cands, op.Cand)
		if op.Tree > 0 {
			r.ViaTree = op.Tree
			m.Trees[op.Tree] = r
		}
		return r
	}
	r := &RootInfo{
		Ver: op.Ver, Type: op.Type, Hash: h, Cands: []int{op.Cand}, Content: content,
		Status: StPending, Parent: parent, CommitOp: opIdx,
		Nodes: map[hash.Hash]bool{}, Put: map[hash.Hash]bool{}, Removed: map[hash.Hash]bool{},
	}
	if op.Tree > 0 {
		r.ViaTree = op.Tree
		m.Trees[op.Tree] = r
	}
	m.Roots = append(m.Roots, r)
	m.ByVer[op.Ver] = append(m.ByVer[op.Ver], r)
	return r
}

// ApplyRestored records a restored checkpoint root (pending until mp-finalize).
func (m *Model) ApplyRestored(opIdx int, ver uint64, h hash.Hash, content map[string]string) *RootInfo {
	if r := m.Find(ver, TState, h); r != nil {
		if r.Status == StDiscarded {
			r.Status = StPending // restore restarted after an abort
			r.Broken = false
		}
		return r
	}
	r := &RootInfo{
		Ver: ver, Type: TState, Hash: h, Cands: []int{0}, Content: content, Status: StPending,
		CommitOp: opIdx, Restored: true,
		Nodes: map[hash.Hash]bool{}, Put: map[hash.Hash]bool{}, Removed: map[hash.Hash]bool{},
	}
	m.Roots = append(m.Roots, r)
	m.ByVer[ver] = append(m.ByVer[ver], r)
	return r
}

// DropPendingVersion marks the pending roots of a version as discarded (aborted restore).
func (m *Model) DropPendingVersion(ver uint64) {
	for _, r := range m.ByVer[ver] {
		if r.Status == StPending {
			r.Status = StDiscarded
		}
	}
}

// FinalSet returns the roots finalized by a finalize op: the named candidates
// plus (hashed badger semantics) their same-version ancestors.
func (m *Model) FinalSet(op Op) []*RootInfo {
	set := map[*RootInfo]bool{}
	for _, id := range op.Final {
		r := m.Cand(op.Ver, id)
		for r != nil && r.Ver == op.Ver {
			set[r] = true
			r = r.Parent
		}
	}
	var out []*RootInfo
	for _, r := range m.ByVer[op.Ver] {
		if set[r] {
			out = append(out, r)
		}
	}
	return out
}

// ApplyFinalize applies a successful Finalize.
func (m *Model) ApplyFinalize(op Op) (finalized, discarded []*RootInfo) {
	fin := map[*RootInfo]bool{}
	for _, r := range m.FinalSet(op) {
		fin[r] = true
	}
	named := map[*RootInfo]bool{}
	for _, id := range op.Final {
		if r := m.Cand(op.Ver, id); r != nil {
			named[r] = true
		}
	}
	for _, r := range m.ByVer[op.Ver] {
		if r.Status != StPending {
			continue
		}
		if fin[r] && !named[r] {
			r.Status = StIntermediate
			continue
		}
		if fin[r] {
			r.Status = StFinalized
			finalized = append(finalized, r)
			if r.Type == TState {
				m.LastState = r
			}
		} else {
			r.Status = StDiscarded
			discarded = append(discarded, r)
		}
	}
	if !m.HasLatest {
		m.Earliest = op.Ver
	}
	m.HasLatest = true
	m.Latest = op.Ver
	m.MPVersion = 0
	return
}

// ApplyPrune applies a successful Prune(ver).
func (m *Model) ApplyPrune(ver uint64) {
	for _, r := range m.ByVer[ver] {
		switch r.Status {
		case StFinalized:
			r.Status = StPruned
		case StDiscarded, StPending, StIntermediate:
			r.Status = StGone
		}
	}
	m.Earliest = ver + 1
}

// ExpectPrune is the error class the sequential model expects from Prune(ver).
func (m *Model) ExpectPrune(ver uint64) string {
	switch {
	case m.MPVersion != 0:
		return "ErrMultipartInProgress"
	case !m.HasLatest || m.Latest < ver:
		return "ErrNotFinalized"
	case ver != m.Earliest:
		return "ErrNotEarliest"
	case ver == m.Latest:
		return "ErrCannotPruneLatestVersion"
	}
	return ""
}

// ExpectFinalize is the error class the model expects from Finalize of version ver.
func (m *Model) ExpectFinalize(ver uint64) string {
	switch {
	case m.MPVersion != 0 && m.MPVersion != ver:
		return "ErrInvalidMultipartVersion"
	case m.HasLatest && ver <= m.Latest:
		return "ErrAlreadyFinalized"
	case m.HasLatest && m.MPVersion == 0 && m.Latest+1 != ver:
		return "ErrNotFinalized"
	}
	return ""
}

// Retained returns the finalized roots of versions in [earliest, latest].
func (m *Model) Retained() []*RootInfo {
	var out []*RootInfo
	for _, r := range m.Roots {
		if r.Status == StFinalized {
			out = append(out, r)
		}
	}
	return out
}

// Versions returns all versions with roots, sorted.
func (m *Model) Versions() []uint64 {
	var vs []uint64
	for v := range m.ByVer {
		vs = append(vs, v)
	}
	sort.Slice(vs, func(a, b int) bool { return vs[a] < vs[b] })
	return vs
}
