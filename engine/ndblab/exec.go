package ndblab

import (
	"bytes"
	"context"
	"fmt"
	"os"

	"github.com/oasisprotocol/oasis-core/go/common/crypto/hash"
	"github.com/oasisprotocol/oasis-core/go/storage/mkvs"
	"github.com/oasisprotocol/oasis-core/go/storage/mkvs/checkpoint"
	"github.com/oasisprotocol/oasis-core/go/storage/mkvs/db/api"
	"github.com/oasisprotocol/oasis-core/go/storage/mkvs/node"
)

// Lab executes one history against one real node database and keeps the model.
type Lab struct {
	Backend string
	Dir     string // "" = memory only
	Raw     api.NodeDB
	DB      *Recorder
	M       *Model
	H       *History
	// Expected root hash per commit/restore op index (from a reference run; optional).
	Hashes map[int]hash.Hash
	// ProofKeys is the number of keys per root read through a verified SyncGet proof.
	ProofKeys int
	// Stats counts operations by kind, reads, etc.
	Stats map[string]int64
	// Damaged maps a node hash already attributed to a finding to its signature.
	Damaged map[hash.Hash]string
	// TmpDir is used for checkpoint files.
	TmpDir string
	// BeforeOp / AfterOp are called around the NodeDB call(s) of op i (crash hooks).
	BeforeOp func(i int)
	AfterOp  func(i int)

	// MPStarts counts successful StartMultipartInsert calls per version.
	MPStarts map[uint64]int

	// TreeShortcut[slot] is set once a commit through the kept tree of that slot produced a root
	// that already existed in the database (the backends then drop the batch).
	TreeShortcut map[int]bool
	trees        map[int]mkvs.Tree

	cps      map[int]*cpData
	restorer checkpoint.Restorer

	// ReverseChunks makes "all remaining chunks" restore ops import the chunks from the last to the
	// first (set by the recovery child of the crash runner: a restarted node gets the chunks from
	// its peers in another order than before the crash; any order is legitimate).
	ReverseChunks bool
}

type cpData struct {
	meta    *checkpoint.Metadata
	chunks  [][]byte
	content map[string]string
	next    int // next chunk to restore
}

// NewLab opens the database and returns a lab for history h.
func NewLab(backend, dir string, h *History) (*Lab, error) {
	raw, err := OpenWith(backend, dir, h != nil && h.DiscardWriteLogs)
	if err != nil {
		return nil, err
	}
	return &Lab{
		Backend: backend, Dir: dir, Raw: raw, DB: NewRecorder(raw), M: NewModel(), H: h,
		ProofKeys: 3, Stats: map[string]int64{}, Damaged: map[hash.Hash]string{}, cps: map[int]*cpData{}, MPStarts: map[uint64]int{}, TreeShortcut: map[int]bool{}, trees: map[int]mkvs.Tree{},
	}, nil
}

// Close closes the database.
func (l *Lab) Close() {
	l.dropTrees()
	if l.Raw != nil {
		l.Raw.Close()
		l.Raw = nil
	}
}

func (l *Lab) dropTrees() {
	for k, t := range l.trees {
		t.Close()
		delete(l.trees, k)
	}
	l.M.Trees = nil
}

// OpResult is the outcome of one executed op.
type OpResult struct {
	Op      Op
	Idx     int
	Skipped bool   // probe not applicable / op not executable in this state
	Class   string // error class observed ("" = success)
	Expect  string // error class the model expects
	ErrText string
	Root    *RootInfo   // commit / restore: the root
	Final   []*RootInfo // finalize: newly finalized
	Disc    []*RootInfo // finalize: newly discarded
	Panic   string
	// KeptTree: the commit went through a long-lived tree that had committed before.
	KeptTree bool
	// AfterShortcut: ... and the previous commit of that tree was dropped by the backend.
	AfterShortcut bool
}

// Unexpected reports whether the observed outcome differs from the model's expectation.
func (r *OpResult) Unexpected() bool { return !r.Skipped && (r.Class != r.Expect || r.Panic != "") }

// Checkpoint builds (once) the checkpoint cp of the history in a private
// in-memory source database and returns its metadata, chunks and content.
func (l *Lab) checkpoint(cp int) (*cpData, error) {
	if d := l.cps[cp]; d != nil {
		return d, nil
	}
	spec := l.H.Checkpoints[cp]
	src, err := Open(Badger, "")
	if err != nil {
		return nil, err
	}
	defer src.Close()
	ctx := context.Background()
	tree := mkvs.New(nil, src, node.RootTypeState)
	content := map[string]string{}
	for _, kv := range spec.Content {
		if err = tree.Insert(ctx, kv.K, kv.V); err != nil {
			return nil, err
		}
		content[string(kv.K)] = string(kv.V)
	}
	_, h, err := tree.Commit(ctx, Ns, spec.Ver)
	if err != nil {
		return nil, err
	}
	root := NodeRoot(spec.Ver, TState, h)
	if err = src.Finalize([]node.Root{root}); err != nil {
		return nil, err
	}
	base := l.TmpDir
	if base == "" {
		base = os.TempDir()
	}
	dir, err := os.MkdirTemp(base, "ndblab-cp")
	if err != nil {
		return nil, err
	}
	defer os.RemoveAll(dir)
	fc, err := checkpoint.NewFileCreator(dir, src)
	if err != nil {
		return nil, err
	}
	meta, err := fc.CreateCheckpoint(ctx, root, 64, 0)
	if err != nil {
		return nil, err
	}
	d := &cpData{meta: meta, content: content}
	for i := range meta.Chunks {
		cm, err := meta.GetChunkMetadata(uint64(i))
		if err != nil {
			return nil, err
		}
		var buf bytes.Buffer
		if err = fc.GetCheckpointChunk(ctx, cm, &buf); err != nil {
			return nil, err
		}
		d.chunks = append(d.chunks, buf.Bytes())
	}
	l.cps[cp] = d
	l.Stats["restore.checkpoints-built"]++
	l.Stats["restore.checkpoint-chunks"] += int64(len(d.chunks))
	return d, nil
}

// Do executes op i of the history and updates the model when the op succeeded.
func (l *Lab) Do(i int) (res OpResult) {
	op := l.H.Ops[i]
	res.Op, res.Idx = op, i
	ctx := context.Background()
	defer func() {
		if p := recover(); p != nil {
			res.Panic = fmt.Sprintf("%v", p)
		}
	}()
	l.Stats["op."+op.Kind]++
	before := func() {
		if l.BeforeOp != nil {
			l.BeforeOp(i)
		}
	}
	after := func() {
		if l.AfterOp != nil {
			l.AfterOp(i)
		}
	}

	switch op.Kind {
	case KCommit:
		parent, _, err := l.M.ParentOf(op)
		if err != nil {
			res.Skipped, res.ErrText = true, err.Error()
			return
		}
		var tree mkvs.Tree
		kept := l.M.KeptUsable(op) && l.trees[op.Tree] != nil
		switch {
		case kept:
			tree = l.trees[op.Tree]
			l.Stats["commit.via-kept-tree"]++
		case parent == nil:
			tree = mkvs.New(nil, l.DB, node.RootType(op.Type))
		default:
			tree = mkvs.NewWithRoot(nil, l.DB, parent.Root())
		}
		if op.Tree > 0 && !kept {
			if old := l.trees[op.Tree]; old != nil {
				old.Close()
			}
			l.trees[op.Tree] = tree
			l.TreeShortcut[op.Tree] = false
		}
		if op.Tree <= 0 {
			defer tree.Close()
		}
		res.KeptTree = kept
		// The first commit of a kept tree after one of its batches was dropped (root already
		// existed) is the one that would persist references that were never written.
		res.AfterShortcut = kept && l.TreeShortcut[op.Tree]
		dropKept := func() {
			if op.Tree > 0 {
				tree.Close()
				delete(l.trees, op.Tree)
				delete(l.M.Trees, op.Tree)
			}
		}
		for _, w := range op.W {
			if w.Del {
				err = tree.Remove(ctx, w.K)
			} else {
				v := w.V
				if v == nil {
					v = []byte{}
				}
				err = tree.Insert(ctx, w.K, v)
			}
			if err != nil {
				res.Class, res.ErrText = ErrClass(err), "tree write before commit: "+err.Error()
				dropKept()
				return
			}
		}
		l.DB.TakeBatch()
		before()
		_, h, err := tree.Commit(ctx, Ns, op.Ver)
		after()
		if err != nil {
			res.Class, res.ErrText = ErrClass(err), err.Error()
			dropKept()
			return
		}
		if want, ok := l.Hashes[i]; ok && !want.Equal(&h) {
			res.Class, res.ErrText = "root-hash-differs", fmt.Sprintf("commit produced root %s, reference run produced %s", h, want)
			return
		}
		existed := l.M.Find(op.Ver, op.Type, h) != nil
		if existed && op.Tree > 0 {
			l.TreeShortcut[op.Tree] = true
			l.Stats["commit.kept-tree-root-already-existed"]++
		}
		r := l.M.ApplyCommit(i, op, h)
		if !existed && op.Tree > 0 {
			if res.AfterShortcut {
				r.AfterShortcut = true
			}
			l.TreeShortcut[op.Tree] = false
		}
		put, rem := l.DB.TakeBatch()
		if !existed {
			// (A second commit of an existing root is dropped by the backends.)
			for k := range put {
				r.Put[k] = true
			}
			for k := range rem {
				r.Removed[k] = true
			}
		}
		if ns, err := NodeSet(l.DB, r.Root()); err == nil {
			for k, v := range ns {
				r.Nodes[k] = v
			}
		} else {
			l.Stats["nodeset.walk-failed"]++
		}
		l.DB.TakeGetFails()
		res.Root = r

	case KFinalize, KMPFinal:
		res.Expect = l.M.ExpectFinalize(op.Ver)
		var roots []node.Root
		if op.Kind == KMPFinal {
			d, err := l.checkpoint(op.CP)
			if err != nil {
				res.Skipped, res.ErrText = true, err.Error()
				return
			}
			roots = []node.Root{d.meta.Root}
			if r := l.M.Find(op.Ver, TState, d.meta.Root.Hash); r != nil {
				op.Final = r.Cands[:1]
			}
		} else {
			for _, id := range op.Final {
				r := l.M.Cand(op.Ver, id)
				if r == nil {
					res.Skipped, res.ErrText = true, fmt.Sprintf("candidate %d of v%d unknown", id, op.Ver)
					return
				}
				roots = append(roots, r.Root())
			}
		}
		before()
		err := l.DB.Finalize(roots)
		after()
		res.Class = ErrClass(err)
		if err != nil {
			res.ErrText = err.Error()
			return
		}
		res.Final, res.Disc = l.M.ApplyFinalize(op)
		if op.Kind == KMPFinal && l.restorer != nil {
			l.restorer = nil
		}

	case KPrune:
		res.Expect = l.M.ExpectPrune(op.Ver)
		before()
		err := l.DB.Prune(op.Ver)
		after()
		res.Class = ErrClass(err)
		if err != nil {
			res.ErrText = err.Error()
			return
		}
		l.M.ApplyPrune(op.Ver)

	case KProbe:
		switch op.Probe {
		case "prune":
			res.Expect = l.M.ExpectPrune(op.Ver)
			if res.Expect == "" {
				res.Skipped = true
				return
			}
			err := l.DB.Prune(op.Ver)
			res.Class = ErrClass(err)
			if err != nil {
				res.ErrText = err.Error()
			}
		case "finalize-again":
			res.Expect = l.M.ExpectFinalize(op.Ver)
			if res.Expect == "" {
				res.Skipped = true
				return
			}
			var roots []node.Root
			for _, id := range op.Final {
				if r := l.M.Cand(op.Ver, id); r != nil {
					roots = append(roots, r.Root())
				}
			}
			if len(roots) == 0 {
				res.Skipped = true
				return
			}
			err := l.DB.Finalize(roots)
			res.Class = ErrClass(err)
			if err != nil {
				res.ErrText = err.Error()
			}
		default:
			res.Skipped = true
		}

	case KMPStart:
		d, err := l.checkpoint(op.CP)
		if err != nil {
			res.Skipped, res.ErrText = true, err.Error()
			return
		}
		before()
		err = l.DB.StartMultipartInsert(op.Ver)
		after()
		res.Class = ErrClass(err)
		if err != nil {
			res.ErrText = err.Error()
			return
		}
		l.M.MPVersion = op.Ver
		l.MPStarts[op.Ver]++
		d.next = 0
		l.restorer, _ = checkpoint.NewRestorer(l.DB)
		if err = l.restorer.StartRestore(ctx, d.meta); err != nil {
			res.Class, res.ErrText = ErrClass(err), err.Error()
		}

	case KMPChunk:
		d, err := l.checkpoint(op.CP)
		if err != nil || l.restorer == nil {
			res.Skipped, res.ErrText = true, fmt.Sprintf("no restore in progress (%v)", err)
			return
		}
		last := len(d.chunks)
		if op.Chunk == -2 {
			last = 1
		}
		before()
		for d.next < last {
			idx := d.next
			if l.ReverseChunks && op.Chunk != -2 {
				idx = last - 1 - (d.next - 0)
				if idx < 0 {
					idx = 0
				}
			}
			_, err = l.restorer.RestoreChunk(ctx, uint64(idx), bytes.NewReader(d.chunks[idx]))
			if err != nil {
				break
			}
			d.next++
			l.Stats["restore.chunks"]++
		}
		after()
		res.Class = ErrClass(err)
		if err != nil {
			res.ErrText = err.Error()
			return
		}
		// The checkpoint root is known to the database from the first chunk on (pending).
		ri := l.M.ApplyRestored(i, op.Ver, d.meta.Root.Hash, d.content)
		if d.next == len(d.chunks) {
			res.Root = ri
		}

	case KMPAbort:
		before()
		err := l.DB.AbortMultipartInsert()
		after()
		res.Class = ErrClass(err)
		if err != nil {
			res.ErrText = err.Error()
			return
		}
		if l.restorer != nil {
			_ = l.restorer.AbortRestore(ctx)
			l.restorer = nil
		}
		if l.M.MPVersion != 0 {
			l.M.DropPendingVersion(l.M.MPVersion)
		}
		l.M.MPVersion = 0

	case KCompact:
		before()
		err := l.DB.Compact()
		after()
		res.Class = ErrClass(err)
		if err != nil {
			res.ErrText = err.Error()
		}

	case KReopen:
		if l.Dir == "" {
			res.Skipped = true // a memory-only database cannot be reopened
			return
		}
		before()
		l.dropTrees() // a tree cannot outlive its database
		l.Raw.Close()
		raw, err := OpenWith(l.Backend, l.Dir, l.H != nil && l.H.DiscardWriteLogs)
		after()
		if err != nil {
			res.Class, res.ErrText = ErrClass(err), "reopen: "+err.Error()
			l.Raw = nil
			return
		}
		l.Raw = raw
		l.DB = NewRecorder(raw)
		l.restorer = nil

	default:
		res.Skipped = true
	}
	return
}

// GroupStart returns the index of the mp-start op that begins the restore
// group containing op i (i itself if i is not part of a restore group, or is
// the group's mp-finalize whose multipart state survives only in memory).
func (h *History) GroupStart(i int) int {
	isMP := func(k string) bool { return k == KMPStart || k == KMPChunk || k == KMPAbort || k == KMPFinal }
	if !isMP(h.Ops[i].Kind) {
		return i
	}
	j := i
	for j > 0 && isMP(h.Ops[j-1].Kind) && h.Ops[j-1].Kind != KMPFinal {
		j--
	}
	return j
}

// ApplyModel applies the effect of op i to the model without touching the
// database (used when an interrupted operation turns out to be already done,
// and to rebuild the model of a history prefix from the root hashes of a
// reference run).
func (l *Lab) ApplyModel(i int) {
	applyModel(l.M, l.H, i, l.Hashes)
}

func applyModel(m *Model, h *History, i int, hashes map[int]hash.Hash) {
	op := h.Ops[i]
	switch op.Kind {
	case KCommit:
		if hh, ok := hashes[i]; ok {
			m.ApplyCommit(i, op, hh)
		}
	case KFinalize:
		m.ApplyFinalize(op)
	case KPrune:
		m.ApplyPrune(op.Ver)
	case KReopen:
		m.Trees = nil
	case KMPStart:
		m.MPVersion = op.Ver
	case KMPAbort:
		if m.MPVersion != 0 {
			m.DropPendingVersion(m.MPVersion)
		}
		m.MPVersion = 0
	case KMPChunk:
		if hh, ok := cpHash(h, hashes, op.CP); ok {
			content := map[string]string{}
			for _, kv := range h.Checkpoints[op.CP].Content {
				content[string(kv.K)] = string(kv.V)
			}
			m.ApplyRestored(i, op.Ver, hh, content)
		}
	case KMPFinal:
		for _, r := range m.ByVer[op.Ver] {
			if r.Restored && r.Status == StPending {
				op.Final = r.Cands[:1]
			}
		}
		m.ApplyFinalize(op)
	}
}

// ReplayModel rebuilds the model after ops [0, upTo) of h from the root hashes
// and result classes of a reference run (ops that failed there are skipped).
func ReplayModel(h *History, hashes map[int]hash.Hash, classes []string, upTo int) *Model {
	m := NewModel()
	for i := 0; i < upTo && i < len(h.Ops); i++ {
		if i < len(classes) && classes[i] != "" {
			continue
		}
		if h.Ops[i].Kind == KProbe {
			continue
		}
		applyModel(m, h, i, hashes)
	}
	return m
}

// cpHash finds the root hash of checkpoint cp among the recorded hashes (it is
// recorded at the mp-chunk op that completed the restore).
func cpHash(h *History, hashes map[int]hash.Hash, cp int) (hash.Hash, bool) {
	for i, op := range h.Ops {
		if op.Kind == KMPChunk && op.CP == cp {
			if hh, ok := hashes[i]; ok {
				return hh, true
			}
		}
	}
	return hash.Hash{}, false
}
