package main

import (
	"flag"
	"fmt"
	"os"
	"sort"
	"time"

	"github.com/oasisprotocol/oasis-core/go/common/logging"

	"verif/engine/chainsim"
)

func main() {
	seed := flag.Uint64("seed", 1, "")
	blocks := flag.Int("blocks", 40, "")
	profile := flag.String("profile", "default", "")
	paths := flag.Bool("paths", true, "")
	verbose := flag.Bool("v", false, "")
	flag.Parse()
	if *verbose {
		_ = logging.Initialize(os.Stderr, logging.FmtLogfmt, logging.LevelDebug, nil)
	}
	dir, _ := os.MkdirTemp("", "simdev")
	defer os.RemoveAll(dir)
	cfg := chainsim.HistoryConfig{Seed: *seed, Profile: *profile, Blocks: *blocks, Paths: *paths}
	if *paths {
		cfg.Replicas = []chainsim.ReplicaConfig{
			{Name: "bmem", Backend: "badger"},
			{Name: "pdisk", Backend: "pathbadger", Dir: dir + "/p"},
			{Name: "bdisk", Backend: "badger", Dir: dir + "/b"},
		}
	}
	t0 := time.Now()
	h, err := chainsim.NewHistory(cfg)
	if err != nil {
		fmt.Println("ERR", err)
		os.Exit(2)
	}
	h.Run()
	fmt.Printf("seed=%d height=%d epochs=%d panics=%d div=%d precond=%q rejected=%d paths=%v wall=%v\n", *seed, h.Height, h.EpochTransitions, len(h.Panics), len(h.Divergences), h.PreconditionLost, h.RejectedProposals, h.PathUsed, time.Since(t0))
	fmt.Printf("params=%+v\n", h.Sc.P)
	for _, p := range h.Panics {
		fmt.Println("PANIC", p.Error())
		if *verbose {
			fmt.Println(p.Stack)
		}
	}
	for _, d := range h.Divergences {
		fmt.Printf("DIV %+v\n", *d)
	}
	var ks []string
	for k := range h.Gen.Stats {
		ks = append(ks, k)
	}
	sort.Strings(ks)
	for _, k := range ks {
		fmt.Printf("  %-50s %d\n", k, h.Gen.Stats[k])
	}
	for k, v := range h.Gen.FailLogs {
		fmt.Printf("  FAIL %3d %s\n", v, k)
	}
	h.Close()
	h.CloseBuilder()
}
