package main

import (
	"flag"
	"fmt"
	"os"
	"sort"
	"sync"
	"sync/atomic"
	"time"

	beacon "github.com/oasisprotocol/oasis-core/go/beacon/api"
	"github.com/oasisprotocol/oasis-core/go/common/logging"
	"github.com/oasisprotocol/oasis-core/go/consensus/api/transaction"
	"github.com/oasisprotocol/oasis-core/go/consensus/cometbft/abci"

	"verif/engine/chainsim"
)

// printRep prints what the monitors report (dev aid).
type printRep struct{ counts map[string]int64 }

func (p *printRep) Violation(sig, what string, w any) {
	fmt.Printf("VIOLATION %s: %s\n   %v\n", sig, what, w)
}
func (p *printRep) Count(name string, n int64) { p.counts[name] += n }
func (p *printRep) Distinct(set, key string)   {}
func (p *printRep) Nontrivial(key string)      {}
func (p *printRep) Sample(v any)               {}
func (p *printRep) Inconclusive(msg string)    { fmt.Println("INCONCLUSIVE", msg) }

func main() {
	seed := flag.Uint64("seed", 1, "")
	blocks := flag.Int("blocks", 40, "")
	profile := flag.String("profile", "default", "")
	paths := flag.Bool("paths", true, "")
	verbose := flag.Bool("v", false, "")
	rtMode := flag.String("runtime", "", "runtime mode: on|off (default: per scenario PRNG)")
	kmMode := flag.String("km", "", "key manager mode: on|off (default: per profile)")
	kmChurp := flag.Bool("km-genesis-churp", false, "put a CHURP instance into the genesis document")
	estBeacon := flag.Bool("estimate-beacon", false, "call EstimateGas with a beacon.VRFProve transaction concurrently to block execution on every test replica (build with -race: witness of the beacon application's unsynchronised backend field)")
	flag.Parse()
	chainsim.RuntimeMode = *rtMode
	chainsim.KeyManagerMode = *kmMode
	chainsim.KeyManagerGenesisChurp = *kmChurp
	if *verbose {
		_ = logging.Initialize(os.Stderr, logging.FmtLogfmt, logging.LevelDebug, nil)
	}
	dir, _ := os.MkdirTemp("", "simdev")
	defer os.RemoveAll(dir)
	cfg := chainsim.HistoryConfig{Seed: *seed, Profile: *profile, Blocks: *blocks, Paths: *paths}
	if *paths {
		cfg.Replicas = []chainsim.ReplicaConfig{
			{Name: "bmem", Backend: "badger"},
			{Name: "pdisk", Backend: "pathbadger", Dir: dir + "/p"},
			{Name: "bdisk", Backend: "badger", Dir: dir + "/b"},
		}
	}
	t0 := time.Now()
	rep := &printRep{counts: map[string]int64{}}
	cm := &chainsim.CommitteeMonitor{Rep: rep}
	rm := &chainsim.RoundMonitor{Rep: rep}
	em := &chainsim.ElectionMonitor{Rep: rep}
	km := &chainsim.KeyManagerMonitor{Rep: rep}
	regm := &chainsim.RegistryMonitor{Rep: rep}
	vm := &chainsim.VRFMonitor{Rep: rep, Recompute: true}
	h, err := chainsim.NewHistory(cfg, em, cm, rm, km, regm, vm)
	if err != nil {
		fmt.Println("ERR", err)
		os.Exit(2)
	}
	var stop atomic.Bool
	var wg sync.WaitGroup
	var estimates atomic.Int64
	if *estBeacon {
		tx := transaction.NewTransaction(0, nil, beacon.MethodVRFProve, &beacon.VRFProve{})
		pk := h.Sc.Entities[0].Nodes[0].Keys.ID.PK
		for _, r := range h.Tests {
			wg.Add(1)
			go func(r *chainsim.Replica) {
				defer wg.Done()
				for !stop.Load() {
					t := *tx
					r.WithAlive(func(srv *abci.ApplicationServer) {
						defer func() { _ = recover() }()
						_, _ = srv.EstimateGas(pk, &t)
					})
					estimates.Add(1)
					time.Sleep(200 * time.Microsecond)
				}
			}(r)
		}
	}
	h.Run()
	stop.Store(true)
	wg.Wait()
	if *estBeacon {
		fmt.Printf("concurrent EstimateGas(beacon.VRFProve) calls: %d\n", estimates.Load())
	}
	fmt.Printf("seed=%d height=%d epochs=%d panics=%d div=%d precond=%q rejected=%d paths=%v wall=%v\n", *seed, h.Height, h.EpochTransitions, len(h.Panics), len(h.Divergences), h.PreconditionLost, h.RejectedProposals, h.PathUsed, time.Since(t0))
	fmt.Printf("params=%+v\n", h.Sc.P)
	for _, p := range h.Panics {
		fmt.Println("PANIC", p.Error())
		if *verbose {
			fmt.Println(p.Stack)
		}
	}
	for _, d := range h.Divergences {
		fmt.Printf("DIV %+v\n", *d)
	}
	var ks []string
	for k := range h.Gen.Stats {
		ks = append(ks, k)
	}
	sort.Strings(ks)
	for _, k := range ks {
		fmt.Printf("  %-50s %d\n", k, h.Gen.Stats[k])
	}
	for k, v := range h.Gen.FailLogs {
		fmt.Printf("  FAIL %3d %s\n", v, k)
	}
	if h.Sc.Runtime != nil {
		cm.Report(rep)
		rm.Report(rep)
		var cs []string
		for k := range rep.counts {
			cs = append(cs, k)
		}
		sort.Strings(cs)
		for _, k := range cs {
			fmt.Printf("  RT %-55s %d\n", k, rep.counts[k])
		}
		fmt.Printf("  RT plans %v\n", h.Gen.RuntimePlans())
	}
	if h.Sc.IsVRF() {
		vrep := &printRep{counts: map[string]int64{}}
		chainsim.ReportVRF(h, vrep)
		var cs []string
		for k := range vrep.counts {
			cs = append(cs, k)
		}
		sort.Strings(cs)
		for _, k := range cs {
			fmt.Printf("  VRF %-60s %d\n", k, vrep.counts[k])
		}
	}
	if h.Sc.KM != nil {
		krep := &printRep{counts: map[string]int64{}}
		km.Report(krep)
		var cs []string
		for k := range krep.counts {
			cs = append(cs, k)
		}
		sort.Strings(cs)
		for _, k := range cs {
			fmt.Printf("  KM %-60s %d\n", k, krep.counts[k])
		}
		fmt.Printf("  KM notes %v\n", h.Gen.Notes)
	}
	h.Close()
	h.CloseBuilder()
}
