package chainsim

import (
	"math/rand/v2"
	"time"

	"github.com/oasisprotocol/oasis-core/go/common"
	"github.com/oasisprotocol/oasis-core/go/common/cbor"
	"github.com/oasisprotocol/oasis-core/go/common/crypto/signature"
	"github.com/oasisprotocol/oasis-core/go/common/entity"
	"github.com/oasisprotocol/oasis-core/go/common/node"
	"github.com/oasisprotocol/oasis-core/go/common/quantity"
	"github.com/oasisprotocol/oasis-core/go/consensus/api/transaction"
	registry "github.com/oasisprotocol/oasis-core/go/registry/api"
	scheduler "github.com/oasisprotocol/oasis-core/go/scheduler/api"
	staking "github.com/oasisprotocol/oasis-core/go/staking/api"
)

// Idle owner (scenario part of the `registry` profile, even scenario seeds): a genesis entity
// WITHOUT any node that owns a compute runtime listed among the genesis document's SUSPENDED
// runtimes (the state of a chain whose runtime operator gave up its nodes long ago). Nothing ever
// resumes that runtime. Every sixth block the owner asks to be deregistered, which the registry
// has to refuse for as long as the (suspended) runtime exists; the registry monitor's rule "an
// entity that owns a runtime is never absent" observes the outcome.
//
// The part draws nothing from the scenario's PRNG (keys come from a generator of its own) and the
// entity is not part of Scenario.Entities / Signers, so every other draw of the scenario and of the
// transaction generator stays what it was.

// IdleOwnerRuntimeID is the identifier of the idle owner's runtime.
var IdleOwnerRuntimeID = common.NewTestNamespaceFromSeed([]byte("verif chainsim idle owner runtime"), common.NamespaceTest)

func (s *Scenario) addIdleOwner(profile string) {
	if profile != "registry" || s.Seed%2 != 0 {
		return
	}
	kr := rand.New(rand.NewPCG(s.Seed, 0x1d1e0e))
	e := &SimEntity{Account: newAccount("idle-owner", signature.SignerEntity, kr), InGenesis: true}
	doc := s.Doc
	se, err := entity.SignEntity(e.Signer, registry.RegisterGenesisEntitySignatureContext, EntityDescriptor(e, nil))
	if err != nil {
		panic(err)
	}
	doc.Registry.Entities = append(doc.Registry.Entities, se)

	id := IdleOwnerRuntimeID
	rt := &registry.Runtime{
		Versioned:   cbor.NewVersioned(registry.LatestRuntimeDescriptorVersion),
		ID:          id,
		EntityID:    e.PK,
		Kind:        registry.KindCompute,
		TEEHardware: node.TEEHardwareInvalid,
		Executor: registry.ExecutorParameters{
			GroupSize:                  1,
			GroupBackupSize:            0,
			AllowedStragglers:          0,
			RoundTimeout:               5,
			MaxMessages:                4,
			MinLiveRoundsForEvaluation: 1,
		},
		TxnScheduler: registry.TxnSchedulerParameters{
			BatchFlushTimeout: time.Second,
			MaxBatchSize:      10,
			MaxBatchSizeBytes: 16 * 1024,
			MaxInMessages:     4,
			ProposerTimeout:   2 * time.Second,
		},
		AdmissionPolicy: registry.RuntimeAdmissionPolicy{AnyNode: &registry.AnyNodeRuntimeAdmissionPolicy{}},
		Constraints: map[scheduler.CommitteeKind]map[scheduler.Role]registry.SchedulingConstraints{
			scheduler.KindComputeExecutor: {
				scheduler.RoleWorker: {MinPoolSize: &registry.MinPoolSizeConstraint{Limit: 1}},
			},
		},
		GovernanceModel: registry.GovernanceEntity,
		Deployments:     []*registry.VersionInfo{{Version: rtVersion1, ValidFrom: 0}},
	}
	rt.Genesis.StateRoot.Empty()
	doc.Registry.SuspendedRuntimes = append(doc.Registry.SuspendedRuntimes, rt)

	// Stake: a self-delegation that covers the entity and the runtime claim with a wide margin.
	st := &doc.Staking
	var need quantity.Quantity
	for _, k := range []staking.ThresholdKind{staking.KindEntity, staking.KindRuntimeCompute} {
		th := st.Parameters.Thresholds[k]
		_ = need.Add(&th)
	}
	_ = need.Add(quantity.NewFromUint64(10_000))
	acct := &staking.Account{General: staking.GeneralAccount{Balance: q(500_000)}}
	acct.Escrow.Active.Balance = *need.Clone()
	acct.Escrow.Active.TotalShares = *need.Clone()
	st.Ledger[e.Addr] = acct
	if st.Delegations[e.Addr] == nil {
		st.Delegations[e.Addr] = map[staking.Address]*staking.Delegation{}
	}
	st.Delegations[e.Addr][e.Addr] = &staking.Delegation{Shares: *need.Clone()}
	_ = st.TotalSupply.Add(&acct.General.Balance)
	_ = st.TotalSupply.Add(&need)
	s.IdleOwner = e
}

// idleOwnerTx is the idle owner's deregistration attempt of this block (nil in most blocks).
func (g *TxGen) idleOwnerTx(height int64) *GenTx {
	io := g.h.Sc.IdleOwner
	if io == nil || height%6 != 2 {
		return nil
	}
	fee := &transaction.Fee{Gas: 4000}
	_ = fee.Amount.FromUint64(4000 * g.h.Sc.P.MinGasPrice)
	gt := g.finish(io.Account, registry.NewDeregisterEntityTx(g.nonce(io.Account), fee), "idle-owner-deregister")
	gt.Intent = "post:entity-owns-suspended-runtime" // fails after authentication
	return gt
}
