package chainsim

// Key manager support for the scenarios (DESIGN.md E1): a *test* key manager
// runtime (runtime ID with the test and key manager flags, no TEE hardware) in
// the genesis document, key manager nodes registered for it and readers for the
// key manager part of the consensus state.
//
// For a test key manager runtime without TEE hardware the key manager
// application uses the hard-coded insecure keys: every node's init response,
// published secret, CHURP application and confirmation is verified against
// keymanagerApi.InsecureRAK (whose private signer is keymanagerApi.TestSigners[0])
// and secrets are "encrypted" to keymanagerApi.InsecureREK. Policy documents
// only need self-consistent signatures (keymanagerApi.TestSigners[1:]).

import (
	"context"
	"crypto/sha3"
	"fmt"
	"math/rand/v2"

	beacon "github.com/oasisprotocol/oasis-core/go/beacon/api"
	"github.com/oasisprotocol/oasis-core/go/common"
	"github.com/oasisprotocol/oasis-core/go/common/cbor"
	"github.com/oasisprotocol/oasis-core/go/common/crypto/signature"
	"github.com/oasisprotocol/oasis-core/go/common/entity"
	"github.com/oasisprotocol/oasis-core/go/common/node"
	"github.com/oasisprotocol/oasis-core/go/common/quantity"
	"github.com/oasisprotocol/oasis-core/go/common/sgx"
	"github.com/oasisprotocol/oasis-core/go/common/version"
	beaconState "github.com/oasisprotocol/oasis-core/go/consensus/cometbft/apps/beacon/state"
	churpState "github.com/oasisprotocol/oasis-core/go/consensus/cometbft/apps/keymanager/churp/state"
	secretsState "github.com/oasisprotocol/oasis-core/go/consensus/cometbft/apps/keymanager/secrets/state"
	registryState "github.com/oasisprotocol/oasis-core/go/consensus/cometbft/apps/registry/state"
	keymanagerApi "github.com/oasisprotocol/oasis-core/go/keymanager/api"
	"github.com/oasisprotocol/oasis-core/go/keymanager/churp"
	"github.com/oasisprotocol/oasis-core/go/keymanager/secrets"
	registry "github.com/oasisprotocol/oasis-core/go/registry/api"
	staking "github.com/oasisprotocol/oasis-core/go/staking/api"
	"github.com/oasisprotocol/oasis-core/go/storage/mkvs"
)

// KeyManagerMode overrides the scenario PRNG's decision whether a scenario has
// a key manager runtime: "" = decided by the profile (always for profile
// "keymanager", about 1/3 of the "runtime" profile scenarios, never otherwise),
// "on", "off".
var KeyManagerMode = ""

// KeyManagerGenesisChurp puts one CHURP instance into the genesis document of
// key manager scenarios (development aid; off in all checks, see KM_FINDINGS.md).
var KeyManagerGenesisChurp = false

// KMParams are the knobs of the scenario's key manager (zero without one).
type KMParams struct {
	// Nodes is the number of key manager nodes in the genesis document; LateNodes are registered later.
	Nodes, LateNodes int
	// ChurpThreshold is the global stake threshold of one CHURP instance.
	ChurpThreshold uint64
	// NodeExtraThreshold is the runtime's own constant threshold for key manager nodes (0 = none).
	NodeExtraThreshold uint64
	// RotationInterval is the master secret rotation interval the owner puts into policies (0 = rotation stays disabled).
	RotationInterval uint64
	// GenesisPolicy: the genesis document carries a status with a policy (serial 1).
	GenesisPolicy bool
	// WithRSK: the nodes report a runtime signing key.
	WithRSK bool
	// ClientRuntime: the scenario's compute runtime names the key manager as its key manager.
	ClientRuntime bool
}

var kmVersion = version.Version{Major: 0, Minor: 3, Patch: 0}

// kmRAK signs what a key manager enclave would sign with its runtime attestation key.
func kmRAK() signature.Signer { return keymanagerApi.TestSigners[0] }

// IsKeyManager reports whether the node has the key manager role.
func (n *SimNode) IsKeyManager() bool { return n.Roles&node.RoleKeyManager != 0 }

// kmPolicyChecksum is the policy checksum a node has to report for a policy (nil policy: empty).
func kmPolicyChecksum(p *secrets.SignedPolicySGX) []byte {
	if p == nil {
		return nil
	}
	h := sha3.Sum256(cbor.Marshal(p))
	return h[:]
}

// kmSignPolicy signs a secrets policy with the test policy signers.
func kmSignPolicy(pol secrets.PolicySGX, signers []signature.Signer) *secrets.SignedPolicySGX {
	sp := &secrets.SignedPolicySGX{Policy: pol}
	raw := cbor.Marshal(pol)
	for _, s := range signers {
		sig, err := signature.Sign(s, secrets.PolicySGXSignatureContext, raw)
		if err != nil {
			panic(err)
		}
		sp.Signatures = append(sp.Signatures, *sig)
	}
	return sp
}

func kmEnclave(rng *rand.Rand) sgx.EnclaveIdentity {
	var e sgx.EnclaveIdentity
	for i := range e.MrEnclave {
		e.MrEnclave[i] = byte(rng.Uint32())
	}
	for i := range e.MrSigner {
		e.MrSigner[i] = byte(rng.Uint32())
	}
	return e
}

// kmExtraInfo is the signed init response a key manager node registers with.
func kmExtraInfo(ir *secrets.InitResponse, signer signature.Signer) []byte {
	sir, err := secrets.SignInitResponse(signer, ir)
	if err != nil {
		panic(err)
	}
	return cbor.Marshal(sir)
}

// kmNodeRuntime builds the runtime entry of a key manager node.
func (s *Scenario) kmNodeRuntime(ir *secrets.InitResponse) []*node.Runtime {
	return []*node.Runtime{{ID: s.KM.ID, Version: kmVersion, ExtraInfo: kmExtraInfo(ir, kmRAK())}}
}

// addKeyManager decides (after all other scenario draws) whether the scenario
// has a key manager and, if so, extends the genesis document.
func (s *Scenario) addKeyManager(rng *rand.Rand, profile string) {
	on := profile == "keymanager"
	if profile == "runtime" {
		on = rng.IntN(3) == 0
	}
	if profile == "vrf" { // VRF beacon support: sometimes with key manager nodes
		on = rng.IntN(4) == 0
	}
	switch KeyManagerMode {
	case "on":
		on = true
	case "off":
		on = false
	}
	if !on {
		return
	}
	p := &s.P
	doc := s.Doc
	kp := KMParams{
		Nodes:              2 + rng.IntN(3),
		LateNodes:          rng.IntN(2),
		ChurpThreshold:     []uint64{0, 50, 300, 2500}[rng.IntN(4)],
		NodeExtraThreshold: []uint64{0, 0, 40}[rng.IntN(3)],
		RotationInterval:   uint64(rng.IntN(3)),
		GenesisPolicy:      rng.IntN(2) == 0,
		WithRSK:            rng.IntN(3) == 0,
		ClientRuntime:      s.Runtime != nil && rng.IntN(2) == 0,
	}
	if profile == "keymanager" && kp.RotationInterval == 0 && rng.IntN(3) != 0 {
		kp.RotationInterval = 1
	}

	var seed [8]byte
	for i := range seed {
		seed[i] = byte(s.Seed >> (8 * i))
	}
	id := common.NewTestNamespaceFromSeed(append([]byte("verif chainsim key manager "), seed[:]...), common.NamespaceKeyManager)

	// The key manager is owned by one of the first two genesis entities (never slashed) or by the third
	// one, whose escrow can fall below its stake claims (suspension of the key manager runtime).
	ownerIdx := rng.IntN(2)
	if rng.IntN(4) == 0 {
		ownerIdx = 2
	}
	s.KMOwner = s.Entities[ownerIdx]
	rt := &registry.Runtime{
		Versioned:       cbor.NewVersioned(registry.LatestRuntimeDescriptorVersion),
		ID:              id,
		EntityID:        s.KMOwner.PK,
		Kind:            registry.KindKeyManager,
		TEEHardware:     node.TEEHardwareInvalid,
		AdmissionPolicy: registry.RuntimeAdmissionPolicy{AnyNode: &registry.AnyNodeRuntimeAdmissionPolicy{}},
		GovernanceModel: registry.GovernanceEntity,
		Deployments:     []*registry.VersionInfo{{Version: kmVersion, ValidFrom: 0}},
	}
	if kp.NodeExtraThreshold > 0 {
		rt.Staking.Thresholds = map[staking.ThresholdKind]quantity.Quantity{staking.KindNodeKeyManager: q(kp.NodeExtraThreshold)}
	}
	rt.Genesis.StateRoot.Empty()
	s.KM = rt
	if kp.WithRSK {
		s.KMRSK = newAccount("km/rsk", signature.SignerNode, rng)
	}

	// --- genesis status -----------------------------------------------------------
	var genesisPolicy *secrets.SignedPolicySGX
	if kp.GenesisPolicy {
		genesisPolicy = kmSignPolicy(secrets.PolicySGX{
			Serial:   1,
			ID:       id,
			Enclaves: map[sgx.EnclaveIdentity]*secrets.EnclavePolicySGX{kmEnclave(rng): {MayQuery: map[common.Namespace][]sgx.EnclaveIdentity{}, MayReplicate: []sgx.EnclaveIdentity{}}},
		}, keymanagerApi.TestSigners[1:])
		doc.KeyManager.Statuses = []*secrets.Status{{ID: id, Policy: genesisPolicy}}
	}
	doc.KeyManager.Parameters.GasCosts = secrets.DefaultGasCosts
	doc.KeyManager.Churp = &churp.Genesis{Parameters: churp.DefaultConsensusParameters}
	if KeyManagerGenesisChurp {
		pol := churp.SignedPolicySGX{Policy: churp.PolicySGX{Identity: churp.Identity{ID: 200, RuntimeID: id}}}
		if err := pol.Sign(keymanagerApi.TestSigners[1:]); err != nil {
			panic(err)
		}
		doc.KeyManager.Churp.Statuses = []*churp.Status{{Identity: churp.Identity{ID: 200, RuntimeID: id}, HandoffInterval: 1, Policy: pol}}
	}

	// --- key manager nodes ----------------------------------------------------------
	ir := &secrets.InitResponse{PolicyChecksum: kmPolicyChecksum(genesisPolicy)}
	if s.KMRSK != nil {
		ir.RSK = &s.KMRSK.PK
	}
	for i := 0; i < kp.Nodes+kp.LateNodes; i++ {
		ei := (ownerIdx + i) % p.NumValidators
		e := s.Entities[ei]
		n := newSimNode(fmt.Sprintf("node%d.k%d", ei, i), e, node.RoleKeyManager, rng)
		n.InGenesis = i < kp.Nodes
		n.Runtimes = s.kmNodeRuntime(ir)
		e.Nodes = append(e.Nodes, n)
		s.KMNodes = append(s.KMNodes, n)
	}
	p.WithKeyManager = true
	p.KM = kp

	// --- registry genesis: runtimes, re-signed entities (node lists grew) and nodes ------
	doc.Registry.Runtimes = append(doc.Registry.Runtimes, rt)
	if kp.ClientRuntime {
		s.Runtime.KeyManager = &id
	}
	doc.Registry.Entities = nil
	doc.Registry.Nodes = nil
	for _, e := range s.Entities {
		if !e.InGenesis {
			continue
		}
		se, err := entity.SignEntity(e.Signer, registry.RegisterGenesisEntitySignatureContext, EntityDescriptor(e, e.Nodes))
		if err != nil {
			panic(err)
		}
		doc.Registry.Entities = append(doc.Registry.Entities, se)
		for _, n := range e.Nodes {
			if !n.InGenesis {
				continue
			}
			nd := NodeDescriptor(n, beacon.EpochTime(p.MaxNodeExp))
			sn, err := node.MultiSignNode(NodeSigners(n), registry.RegisterGenesisNodeSignatureContext, nd)
			if err != nil {
				panic(err)
			}
			doc.Registry.Nodes = append(doc.Registry.Nodes, sn)
			n.Desc = nd
		}
	}

	// --- staking genesis --------------------------------------------------------------
	st := &doc.Staking
	st.Parameters.Thresholds[staking.KindKeyManagerChurp] = q(kp.ChurpThreshold)
	for _, n := range s.KMNodes {
		// Key manager nodes pay for registrations, published secrets, applications and confirmations.
		st.Ledger[n.Keys.ID.Addr] = &staking.Account{General: staking.GeneralAccount{Balance: q(3_000_000)}}
	}
	// Entities drawn with a stake of a few base units cannot cover key manager node claims:
	// with a key manager they get an ordinary self-delegation on top.
	for _, e := range s.Entities {
		acct := st.Ledger[e.Addr]
		if !e.InGenesis || acct == nil || acct.Escrow.Active.Balance.Cmp(quantity.NewFromUint64(2000)) >= 0 {
			continue
		}
		_ = acct.Escrow.Active.Balance.Add(quantity.NewFromUint64(5000))
		_ = acct.Escrow.Active.TotalShares.Add(quantity.NewFromUint64(5000))
		if st.Delegations[e.Addr] == nil {
			st.Delegations[e.Addr] = map[staking.Address]*staking.Delegation{}
		}
		if d := st.Delegations[e.Addr][e.Addr]; d != nil {
			_ = d.Shares.Add(quantity.NewFromUint64(5000))
		} else {
			st.Delegations[e.Addr][e.Addr] = &staking.Delegation{Shares: q(5000)}
		}
	}
	total := quantity.NewQuantity()
	for _, acct := range st.Ledger {
		_ = total.Add(&acct.General.Balance)
		_ = total.Add(&acct.Escrow.Active.Balance)
		_ = total.Add(&acct.Escrow.Debonding.Balance)
	}
	_ = total.Add(&st.CommonPool)
	_ = total.Add(&st.GovernanceDeposits)
	_ = total.Add(&st.LastBlockFees)
	st.TotalSupply = *total

	if p.MaxBlockGas != 0 {
		// Room for the key manager nodes' registrations and publications.
		p.MaxBlockGas += 30_000
		doc.Consensus.Parameters.MaxBlockGas += 30_000
	}
}

// KMSnapshot is the committed key manager state of the scenario's key manager.
type KMSnapshot struct {
	// Epoch is the committed epoch; NextEpochAt is the height of the scheduled epoch transition (0 = none).
	Epoch       beacon.EpochTime
	NextEpochAt int64
	Suspended   bool
	Status      *secrets.Status // nil = none yet
	Master      *secrets.SignedEncryptedMasterSecret
	Ephemeral   *secrets.SignedEncryptedEphemeralSecret
	Churps      []*churp.Status
}

// Churp returns the CHURP instance with the given identifier (nil if none).
func (s *KMSnapshot) Churp(id uint8) *churp.Status {
	for _, c := range s.Churps {
		if c.ID == id {
			return c
		}
	}
	return nil
}

// readKM reads the key manager part of a state tree.
func readKM(tree mkvs.ImmutableKeyValueTree, id common.Namespace) (*KMSnapshot, error) {
	ctx := context.Background()
	out := &KMSnapshot{}
	bs := beaconState.NewImmutableState(tree)
	ep, _, err := bs.GetEpoch(ctx)
	if err != nil {
		return nil, fmt.Errorf("epoch: %w", err)
	}
	out.Epoch = ep
	if fut, err := bs.GetFutureEpoch(ctx); err == nil && fut != nil {
		out.NextEpochAt = fut.Height
	}
	if _, err := registryState.NewImmutableState(tree).SuspendedRuntime(ctx, id); err == nil {
		out.Suspended = true
	}
	ss := secretsState.NewImmutableState(tree)
	switch st, err := ss.Status(ctx, id); err {
	case nil:
		out.Status = st
	case secrets.ErrNoSuchStatus:
	default:
		return nil, fmt.Errorf("status: %w", err)
	}
	switch ms, err := ss.MasterSecret(ctx, id); err {
	case nil:
		out.Master = ms
	case secrets.ErrNoSuchMasterSecret:
	default:
		return nil, fmt.Errorf("master secret: %w", err)
	}
	switch es, err := ss.EphemeralSecret(ctx, id); err {
	case nil:
		out.Ephemeral = es
	case secrets.ErrNoSuchEphemeralSecret:
	default:
		return nil, fmt.Errorf("ephemeral secret: %w", err)
	}
	if out.Churps, err = churpState.NewImmutableState(tree).Statuses(ctx, id); err != nil {
		return nil, fmt.Errorf("churp statuses: %w", err)
	}
	return out, nil
}

// ReadKM reads the key manager state from the reference replica's committed state
// at a height (0 = latest). It returns nil when the scenario has no key manager or
// nothing has been committed yet.
func (h *History) ReadKM(height int64) *KMSnapshot {
	if h.Sc.KM == nil || h.Ref.Height == 0 {
		return nil
	}
	st, err := CommittedState(h.Ref, height)
	if err != nil {
		panic(fmt.Errorf("key manager snapshot: %w", err))
	}
	defer st.Close()
	snap, err := readKM(st, h.Sc.KM.ID)
	if err != nil {
		panic(fmt.Errorf("key manager snapshot: %w", err))
	}
	return snap
}
