package chainsim

import (
	"context"

	"github.com/oasisprotocol/oasis-core/go/common/cbor"
	vaultState "github.com/oasisprotocol/oasis-core/go/consensus/cometbft/apps/vault/state"
	staking "github.com/oasisprotocol/oasis-core/go/staking/api"
	vault "github.com/oasisprotocol/oasis-core/go/vault/api"
)

// Vault traffic: vault creation, (multi-signature) action authorization and
// cancellation, with the same mix of valid and deliberately wrong requests as
// the other makers. The vault application is part of every replica; its state
// lives in the same tree, so the generic monitors (atomicity of failed
// transactions, supply conservation, replica agreement, no-halt) see it.

// vaultInfo is what the generator needs to know about one vault of the
// committed state of the reference replica.
type vaultInfo struct {
	V       *vault.Vault
	Pending []*vault.PendingAction
}

// vaults reads the vaults from the reference replica's committed state.
func (g *TxGen) vaults() []*vaultInfo {
	r := g.h.Ref
	if r.Height == 0 {
		return nil
	}
	st, err := CommittedState(r, 0)
	if err != nil {
		return nil
	}
	defer st.Close()
	ctx := context.Background()
	vs := vaultState.NewImmutableState(st)
	all, err := vs.Vaults(ctx)
	if err != nil {
		return nil
	}
	var out []*vaultInfo
	for _, v := range all {
		pa, _ := vs.PendingActions(ctx, v.Address())
		out = append(out, &vaultInfo{V: v, Pending: pa})
	}
	return out
}

func (g *TxGen) signerByAddr(a staking.Address) *Account {
	for _, s := range g.h.Sc.Signers {
		if s.Addr == a {
			return s
		}
	}
	return nil
}

// authority draws a multi-signature authority over the scenario's signers.
func (g *TxGen) authority(max int) vault.Authority {
	n := 1 + g.rng.IntN(max)
	var au vault.Authority
	seen := map[staking.Address]bool{}
	for len(au.Addresses) < n {
		a := g.pickSigner().Addr
		if seen[a] {
			if g.rng.IntN(8) == 0 {
				break
			}
			continue
		}
		seen[a] = true
		au.Addresses = append(au.Addresses, a)
	}
	if len(au.Addresses) == 0 {
		au.Addresses = append(au.Addresses, g.pickSigner().Addr)
	}
	au.Threshold = uint8(1 + g.rng.IntN(len(au.Addresses)))
	return au
}

func (g *TxGen) mkVaultCreate() *GenTx {
	a := g.pickSigner()
	c := &vault.Create{AdminAuthority: g.authority(3), SuspendAuthority: g.authority(3)}
	intent := "valid"
	switch g.rng.IntN(12) {
	case 0:
		c.AdminAuthority.Threshold = 0
		intent = "post:bad-authority"
	case 1:
		c.SuspendAuthority.Threshold = uint8(len(c.SuspendAuthority.Addresses) + 1)
		intent = "post:bad-authority"
	case 2:
		c.AdminAuthority.Addresses = append(c.AdminAuthority.Addresses, c.AdminAuthority.Addresses[0])
		intent = "post:bad-authority"
	}
	tx := vault.NewCreateTx(g.nonce(a), g.feeSure(12000), c)
	gt := g.finish(a, tx, "vault-create")
	gt.Intent = intent
	gt.OnSuccess = func() { g.Notes["vault-create"]++ }
	return gt
}

// vaultAction draws an action for a vault.
func (g *TxGen) vaultAction(vi *vaultInfo) vault.Action {
	switch g.rng.IntN(10) {
	case 0:
		return vault.Action{Suspend: &vault.ActionSuspend{}}
	case 1:
		return vault.Action{Resume: &vault.ActionResume{}}
	case 2, 3:
		var lim staking.Transfer
		_ = lim.Amount.FromUint64(uint64(g.rng.IntN(500)))
		return vault.Action{UpdateWithdrawPolicy: &vault.ActionUpdateWithdrawPolicy{
			Address: g.pickSigner().Addr,
			Policy:  vault.WithdrawPolicy{LimitAmount: lim.Amount, LimitInterval: uint64(g.rng.IntN(4))},
		}}
	case 4:
		au := g.authority(3)
		if g.rng.IntN(2) == 0 {
			return vault.Action{UpdateAuthority: &vault.ActionUpdateAuthority{AdminAuthority: &au}}
		}
		return vault.Action{UpdateAuthority: &vault.ActionUpdateAuthority{SuspendAuthority: &au}}
	default:
		// Execute a staking message with the vault as the caller.
		acct := g.view().Account(vi.V.Address())
		switch g.rng.IntN(4) {
		case 0:
			return vault.Action{ExecuteMessage: &vault.ActionExecuteMessage{Method: staking.MethodAllow,
				Body: cbor.Marshal(&staking.Allow{Beneficiary: g.pickSigner().Addr, AmountChange: g.amount(&acct.General.Balance)})}}
		case 1:
			return vault.Action{ExecuteMessage: &vault.ActionExecuteMessage{Method: staking.MethodAddEscrow,
				Body: cbor.Marshal(&staking.Escrow{Account: g.escrowTarget(), Amount: g.amount(&acct.General.Balance)})}}
		case 2:
			return vault.Action{ExecuteMessage: &vault.ActionExecuteMessage{Method: staking.MethodBurn,
				Body: cbor.Marshal(&staking.Burn{Amount: g.amount(&acct.General.Balance)})}}
		default:
			return vault.Action{ExecuteMessage: &vault.ActionExecuteMessage{Method: staking.MethodTransfer,
				Body: cbor.Marshal(&staking.Transfer{To: g.pickAddr(), Amount: g.amount(&acct.General.Balance)})}}
		}
	}
}

func (g *TxGen) mkVaultAuthorize() *GenTx {
	vs := g.vaults()
	if len(vs) == 0 {
		// Fund-less chain start: create one instead.
		return g.mkVaultCreate()
	}
	vi := vs[g.rng.IntN(len(vs))]
	aa := &vault.AuthorizeAction{Vault: vi.V.Address(), Nonce: vi.V.Nonce}
	intent := "valid"
	var a *Account
	// Continue a pending action (same action, another member) most of the time.
	if len(vi.Pending) > 0 && g.rng.IntN(4) != 0 {
		pa := vi.Pending[g.rng.IntN(len(vi.Pending))]
		aa.Action, aa.Nonce = pa.Action, pa.Nonce
		for _, au := range pa.Action.Authorities(vi.V) {
			for _, ad := range au.Addresses {
				if s := g.signerByAddr(ad); s != nil && (a == nil || g.rng.IntN(2) == 0) {
					a = s
				}
			}
		}
		if g.rng.IntN(8) == 0 {
			aa.Action = g.vaultAction(vi) // different action under the same nonce
			intent = "post:maybe-different-action"
		}
	} else {
		aa.Action = g.vaultAction(vi)
		for _, au := range aa.Action.Authorities(vi.V) {
			for _, ad := range au.Addresses {
				if s := g.signerByAddr(ad); s != nil && (a == nil || g.rng.IntN(2) == 0) {
					a = s
				}
			}
		}
	}
	if a == nil {
		a = g.pickSigner()
		intent = "post:maybe-forbidden"
	}
	switch g.rng.IntN(14) {
	case 0:
		aa.Nonce += 1 + uint64(g.rng.IntN(2))
		intent = "post:bad-action-nonce"
	case 1:
		a = g.pickSigner() // probably not a member
		intent = "post:maybe-forbidden"
	case 2:
		aa.Vault = g.pickSigner().Addr // not a vault
		intent = "post:no-such-vault"
	case 3:
		aa.Action = vault.Action{}
		intent = "post:empty-action"
	}
	tx := vault.NewAuthorizeActionTx(g.nonce(a), g.feeSure(25000), aa)
	gt := g.finish(a, tx, "vault-authorize")
	gt.Intent = intent
	gt.OnSuccess = func() { g.Notes["vault-authorize"]++ }
	return gt
}

func (g *TxGen) mkVaultCancel() *GenTx {
	vs := g.vaults()
	if len(vs) == 0 {
		return g.mkVaultCreate()
	}
	vi := vs[g.rng.IntN(len(vs))]
	// Prefer vaults with a pending action.
	for _, c := range vs {
		if len(c.Pending) > 0 && g.rng.IntN(2) == 0 {
			vi = c
			break
		}
	}
	ca := &vault.CancelAction{Vault: vi.V.Address(), Nonce: vi.V.Nonce}
	intent := "valid"
	// Any member of any authority may try; whether it may cancel depends on the pending action.
	var members []staking.Address
	for _, au := range vi.V.Authorities() {
		members = append(members, au.Addresses...)
	}
	var a *Account
	if len(members) > 0 {
		a = g.signerByAddr(members[g.rng.IntN(len(members))])
	}
	if a == nil || g.rng.IntN(10) == 0 {
		a = g.pickSigner()
		intent = "post:maybe-forbidden"
	}
	if len(vi.Pending) == 0 {
		intent = "post:no-pending-action"
	}
	if g.rng.IntN(12) == 0 {
		ca.Nonce++
		intent = "post:bad-action-nonce"
	}
	tx := vault.NewCancelActionTx(g.nonce(a), g.feeSure(12000), ca)
	gt := g.finish(a, tx, "vault-cancel")
	gt.Intent = intent
	gt.OnSuccess = func() { g.Notes["vault-cancel"]++ }
	return gt
}

// mkVaultFund moves funds into a vault or withdraws from one under its withdraw policy.
func (g *TxGen) mkVaultFund() *GenTx {
	vs := g.vaults()
	if len(vs) == 0 {
		return g.mkVaultCreate()
	}
	vi := vs[g.rng.IntN(len(vs))]
	a := g.pickSigner()
	if g.rng.IntN(2) == 0 {
		acct := g.view().Account(a.Addr)
		tx := staking.NewTransferTx(g.nonce(a), g.fee(10), &staking.Transfer{To: vi.V.Address(), Amount: g.amount(&acct.General.Balance)})
		return g.finish(a, tx, "vault-fund")
	}
	acct := g.view().Account(vi.V.Address())
	tx := staking.NewWithdrawTx(g.nonce(a), g.feeSure(3000), &staking.Withdraw{From: vi.V.Address(), Amount: g.amount(&acct.General.Balance)})
	gt := g.finish(a, tx, "vault-withdraw")
	gt.Intent = "post:maybe-policy"
	gt.OnSuccess = func() { g.Notes["vault-withdraw"]++ }
	return gt
}
