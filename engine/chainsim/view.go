package chainsim

import (
	"bytes"
	"context"
	"fmt"
	"sort"

	cmtcrypto "github.com/cometbft/cometbft/crypto"

	"github.com/oasisprotocol/oasis-core/go/common/crypto/signature"
	"github.com/oasisprotocol/oasis-core/go/common/entity"
	"github.com/oasisprotocol/oasis-core/go/common/node"
	cmt "github.com/oasisprotocol/oasis-core/go/consensus/cometbft/api"
	beaconState "github.com/oasisprotocol/oasis-core/go/consensus/cometbft/apps/beacon/state"
	governanceState "github.com/oasisprotocol/oasis-core/go/consensus/cometbft/apps/governance/state"
	registryState "github.com/oasisprotocol/oasis-core/go/consensus/cometbft/apps/registry/state"
	stakingState "github.com/oasisprotocol/oasis-core/go/consensus/cometbft/apps/staking/state"
	tmcrypto "github.com/oasisprotocol/oasis-core/go/consensus/cometbft/crypto"
	governance "github.com/oasisprotocol/oasis-core/go/governance/api"
	registry "github.com/oasisprotocol/oasis-core/go/registry/api"
	staking "github.com/oasisprotocol/oasis-core/go/staking/api"
	"github.com/oasisprotocol/oasis-core/go/storage/mkvs"
)

// KV is one state entry.
type KV struct{ K, V []byte }

// Dump returns the full ordered contents of a tree.
func Dump(ctx context.Context, t mkvs.ImmutableKeyValueTree) []KV {
	it := t.NewIterator(ctx)
	defer it.Close()
	var out []KV
	for it.Rewind(); it.Valid(); it.Next() {
		out = append(out, KV{append([]byte(nil), it.Key()...), append([]byte(nil), it.Value()...)})
	}
	if err := it.Err(); err != nil {
		panic(fmt.Errorf("state dump failed: %w", err))
	}
	return out
}

// DiffEntry is one differing key between two dumps.
type DiffEntry struct {
	K        []byte
	Old, New []byte // nil = absent
}

// Diff computes the differences between two ordered dumps.
func Diff(a, b []KV) []DiffEntry {
	var out []DiffEntry
	i, j := 0, 0
	for i < len(a) || j < len(b) {
		switch {
		case j >= len(b) || (i < len(a) && bytes.Compare(a[i].K, b[j].K) < 0):
			out = append(out, DiffEntry{K: a[i].K, Old: nz(a[i].V)})
			i++
		case i >= len(a) || bytes.Compare(a[i].K, b[j].K) > 0:
			out = append(out, DiffEntry{K: b[j].K, New: nz(b[j].V)})
			j++
		default:
			if !bytes.Equal(a[i].V, b[j].V) {
				out = append(out, DiffEntry{K: a[i].K, Old: nz(a[i].V), New: nz(b[j].V)})
			}
			i++
			j++
		}
	}
	return out
}

func nz(b []byte) []byte {
	if b == nil {
		return []byte{}
	}
	return b
}

// CommittedState opens the committed state of a replica at a height (0 = latest).
func CommittedState(r *Replica, height int64) (*cmt.ImmutableState, error) {
	return cmt.NewImmutableStateAt(context.Background(), r.State(), height)
}

// View is the harness's picture of the committed state of the reference
// replica, refreshed after every block (used to generate mostly-valid
// transactions and by monitors).
type View struct {
	h *History

	Epoch      uint64
	Accounts   map[staking.Address]*staking.Account
	Nodes      map[signature.PublicKey]*node.Node
	NodeStatus map[signature.PublicKey]*registry.NodeStatus
	Entities   map[signature.PublicKey]*entity.Entity
	Proposals  []*governance.Proposal
	StakingP   *staking.ConsensusParameters
	RegistryP  *registry.ConsensusParameters
	GovP       *governance.ConsensusParameters
}

// NewView creates the view and performs the first refresh.
func NewView(h *History) *View {
	v := &View{h: h}
	v.Refresh()
	return v
}

// Refresh re-reads the committed state.
func (v *View) Refresh() {
	ctx := context.Background()
	r := v.h.Ref
	var tree mkvs.ImmutableKeyValueTree
	if r.Height == 0 {
		// Before the first block only the genesis document is available.
		v.fromGenesis()
		return
	}
	st, err := CommittedState(r, 0)
	if err != nil {
		panic(fmt.Errorf("view: %w", err))
	}
	defer st.Close()
	tree = st

	bs := beaconState.NewImmutableState(tree)
	ep, _, err := bs.GetEpoch(ctx)
	if err != nil {
		panic(err)
	}
	v.Epoch = uint64(ep)

	ss := stakingState.NewImmutableState(tree)
	v.Accounts = map[staking.Address]*staking.Account{}
	addrs, err := ss.Addresses(ctx)
	if err != nil {
		panic(err)
	}
	for _, a := range addrs {
		acct, err := ss.Account(ctx, a)
		if err != nil {
			panic(err)
		}
		v.Accounts[a] = acct
	}
	if v.StakingP, err = ss.ConsensusParameters(ctx); err != nil {
		panic(err)
	}

	rs := registryState.NewImmutableState(tree)
	v.Nodes = map[signature.PublicKey]*node.Node{}
	v.NodeStatus = map[signature.PublicKey]*registry.NodeStatus{}
	nodes, err := rs.Nodes(ctx)
	if err != nil {
		panic(err)
	}
	for _, n := range nodes {
		v.Nodes[n.ID] = n
		if s, err := rs.NodeStatus(ctx, n.ID); err == nil {
			v.NodeStatus[n.ID] = s
		}
	}
	v.Entities = map[signature.PublicKey]*entity.Entity{}
	ents, err := rs.Entities(ctx)
	if err != nil {
		panic(err)
	}
	for _, e := range ents {
		v.Entities[e.ID] = e
	}
	if v.RegistryP, err = rs.ConsensusParameters(ctx); err != nil {
		panic(err)
	}

	gs := governanceState.NewImmutableState(tree)
	if v.Proposals, err = gs.Proposals(ctx); err != nil {
		panic(err)
	}
	if v.GovP, err = gs.ConsensusParameters(ctx); err != nil {
		panic(err)
	}
}

func (v *View) fromGenesis() {
	d := v.h.Sc.Doc
	v.Epoch = uint64(d.Beacon.Base)
	v.Accounts = map[staking.Address]*staking.Account{}
	for a, acct := range d.Staking.Ledger {
		c := *acct
		v.Accounts[a] = &c
	}
	sp, rp, gp := d.Staking.Parameters, d.Registry.Parameters, d.Governance.Parameters
	v.StakingP, v.RegistryP, v.GovP = &sp, &rp, &gp
	v.Nodes = map[signature.PublicKey]*node.Node{}
	v.NodeStatus = map[signature.PublicKey]*registry.NodeStatus{}
	v.Entities = map[signature.PublicKey]*entity.Entity{}
	for _, e := range v.h.Sc.Entities {
		if e.InGenesis {
			v.Entities[e.PK] = EntityDescriptor(e, e.Nodes)
		}
		for _, n := range e.Nodes {
			if n.InGenesis {
				v.Nodes[n.Keys.ID.PK] = n.Desc
				v.NodeStatus[n.Keys.ID.PK] = &registry.NodeStatus{}
			}
		}
	}
}

// Account returns the account (empty if unknown).
func (v *View) Account(a staking.Address) *staking.Account {
	if acct := v.Accounts[a]; acct != nil {
		return acct
	}
	return &staking.Account{}
}

// SortedAddrs returns all account addresses, sorted.
func (v *View) SortedAddrs() []staking.Address {
	var out []staking.Address
	for a := range v.Accounts {
		out = append(out, a)
	}
	sort.Slice(out, func(i, j int) bool { return bytes.Compare(out[i][:], out[j][:]) < 0 })
	return out
}

// NodeByConsensusAddr returns the harness node owning a CometBFT validator address.
func (s *Scenario) NodeByConsensusAddr(addr cmtcrypto.Address) *SimNode {
	for _, e := range s.Entities {
		for _, n := range e.Nodes {
			pk := n.Keys.Consensus.PK
			if bytes.Equal(tmcrypto.PublicKeyToCometBFT(&pk).Address(), addr) {
				return n
			}
		}
	}
	return nil
}

// AllNodes lists all harness nodes.
func (s *Scenario) AllNodes() []*SimNode {
	var out []*SimNode
	for _, e := range s.Entities {
		out = append(out, e.Nodes...)
	}
	return out
}
