package chainsim

import (
	"context"
	"encoding/binary"
	"fmt"
	"math/big"
	"sort"

	"github.com/cometbft/cometbft/abci/types"

	"github.com/oasisprotocol/oasis-core/go/common/cbor"
	"github.com/oasisprotocol/oasis-core/go/common/crypto/signature"
	"github.com/oasisprotocol/oasis-core/go/common/quantity"
	"github.com/oasisprotocol/oasis-core/go/consensus/api/transaction"
	cmt "github.com/oasisprotocol/oasis-core/go/consensus/cometbft/api"
	stakingState "github.com/oasisprotocol/oasis-core/go/consensus/cometbft/apps/staking/state"
	tmstaking "github.com/oasisprotocol/oasis-core/go/consensus/cometbft/staking"
	staking "github.com/oasisprotocol/oasis-core/go/staking/api"
)

// TxObs is what the tap recorder saw of one delivered transaction on the
// reference replica.
type TxObs struct {
	Height int64
	Index  int
	Raw    []byte
	Pre    []KV
	Post   []KV
	Diff   []DiffEntry
	Err    error // nil = executed successfully
	// PreFees / PostFees are the block's fee accumulator before/after.
	PreFees, PostFees *big.Int
	Gen               *GenTx // set by the recorder when known
	// Events are the events the transaction emitted (runtime support: slashing by roothash evidence).
	Events []types.Event
}

// TxMonitor is notified of every delivered transaction (with state dumps).
type TxMonitor interface {
	OnTx(h *History, o *TxObs)
}

// StepObs is the state before/after one application's BeginBlock/EndBlock.
type StepObs struct {
	Height int64
	Stage  string // "beginblock" | "endblock"
	App    string
	Pre    []KV
	Post   []KV
}

// StepMonitor is notified of every application block step (thorough tier).
type StepMonitor interface {
	OnStep(h *History, s *StepObs, ctx *cmt.Context)
}

// Recorder is a Monitor that turns taps into TxObs / StepObs for its subscribers.
type Recorder struct {
	BaseMonitor
	TxSubs   []TxMonitor
	StepSubs []StepMonitor
	// Steps enables the (expensive) per-application-step dumps.
	Steps bool

	cur     *TxObs
	curStep *StepObs
	idx     int
	height  int64
	// pending observations of the current block (Gen is attached in OnBlock order)
	block []*TxObs
}

// OnTap implements Monitor.
func (r *Recorder) OnTap(h *History, stage, app string, ctx *cmt.Context, extra any) {
	bg := context.Background()
	switch stage {
	case "beginblock.pre":
		if ctx.CurrentHeight() != r.height {
			r.height = ctx.CurrentHeight()
			r.idx = 0
			r.block = nil
		}
		fallthrough
	case "endblock.pre":
		if r.Steps && len(r.StepSubs) > 0 {
			r.curStep = &StepObs{Height: ctx.CurrentHeight(), Stage: stage[:len(stage)-4], App: app, Pre: Dump(bg, ctx.State())}
		}
	case "beginblock.post", "endblock.post":
		if r.curStep != nil {
			r.curStep.Post = Dump(bg, ctx.State())
			for _, s := range r.StepSubs {
				s.OnStep(h, r.curStep, ctx)
			}
			r.curStep = nil
		}
	case "delivertx.pre":
		raw, _ := extra.([]byte)
		r.cur = &TxObs{Height: ctx.CurrentHeight(), Index: r.idx, Raw: append([]byte(nil), raw...), Pre: Dump(bg, ctx.State()), PreFees: blockFees(ctx)}
		r.idx++
	case "delivertx.post":
		if r.cur == nil {
			return
		}
		o := r.cur
		r.cur = nil
		o.Post = Dump(bg, ctx.State())
		o.PostFees = blockFees(ctx)
		o.Events = ctx.GetEvents() // runtime support
		o.Diff = Diff(o.Pre, o.Post)
		if e, ok := extra.(error); ok && e != nil {
			o.Err = e
		}
		if g := h.Gen.current; o.Index < len(g) {
			o.Gen = g[o.Index]
		}
		for _, s := range r.TxSubs {
			s.OnTx(h, o)
		}
	}
}

func blockFees(ctx *cmt.Context) *big.Int {
	defer func() { _ = recover() }()
	f := stakingState.BlockFees(ctx)
	return f.ToBigInt()
}

// --- independent parsing of the staking state --------------------------------

// StakeSnap is the staking ledger parsed directly from a raw state dump.
type StakeSnap struct {
	TotalSupply, CommonPool, LastBlockFees, GovDeposits *big.Int
	Accounts                                            map[staking.Address]*staking.Account
	// Deleg[escrow][delegator] = shares (key format 0x53), DelegRev[delegator][escrow] (0x5A).
	Deleg, DelegRev map[staking.Address]map[staking.Address]*big.Int
	// Debond[escrow][delegator] = list (key format 0x54: delegator, escrow, epoch).
	Debond map[staking.Address]map[staking.Address][]DebondEntry
	// Queue lists the debonding queue keys (0x55: epoch, delegator, escrow).
	Queue []QueueEntry
}

// DebondEntry is one debonding delegation.
type DebondEntry struct {
	Epoch  uint64
	Shares *big.Int
	End    uint64
}

// QueueEntry is one debonding queue key.
type QueueEntry struct {
	Epoch             uint64
	Delegator, Escrow staking.Address
}

const addrSize = 21

func qty(v []byte) *big.Int {
	var x quantity.Quantity
	if err := cbor.Unmarshal(v, &x); err != nil {
		panic(fmt.Errorf("stake snapshot: bad quantity: %w", err))
	}
	return x.ToBigInt()
}

// ParseStake parses the staking part of a state dump.
func ParseStake(d []KV) *StakeSnap {
	s := &StakeSnap{
		TotalSupply: new(big.Int), CommonPool: new(big.Int), LastBlockFees: new(big.Int), GovDeposits: new(big.Int),
		Accounts: map[staking.Address]*staking.Account{},
		Deleg:    map[staking.Address]map[staking.Address]*big.Int{},
		DelegRev: map[staking.Address]map[staking.Address]*big.Int{},
		Debond:   map[staking.Address]map[staking.Address][]DebondEntry{},
	}
	addr := func(b []byte) (a staking.Address) { copy(a[:], b); return }
	put := func(m map[staking.Address]map[staking.Address]*big.Int, a, b staking.Address, v *big.Int) {
		if m[a] == nil {
			m[a] = map[staking.Address]*big.Int{}
		}
		m[a][b] = v
	}
	for _, kv := range d {
		if len(kv.K) == 0 {
			continue
		}
		k := kv.K
		switch k[0] {
		case 0x50:
			if len(k) != 1+addrSize {
				continue
			}
			var acct staking.Account
			if err := cbor.Unmarshal(kv.V, &acct); err != nil {
				panic(fmt.Errorf("stake snapshot: bad account: %w", err))
			}
			s.Accounts[addr(k[1:])] = &acct
		case 0x51:
			s.TotalSupply = qty(kv.V)
		case 0x52:
			s.CommonPool = qty(kv.V)
		case 0x57:
			s.LastBlockFees = qty(kv.V)
		case 0x59:
			s.GovDeposits = qty(kv.V)
		case 0x53, 0x5A:
			if len(k) != 1+2*addrSize {
				continue
			}
			var del staking.Delegation
			if err := cbor.Unmarshal(kv.V, &del); err != nil {
				panic(fmt.Errorf("stake snapshot: bad delegation: %w", err))
			}
			a, b := addr(k[1:1+addrSize]), addr(k[1+addrSize:])
			if k[0] == 0x53 {
				put(s.Deleg, a, b, del.Shares.ToBigInt())
			} else {
				put(s.DelegRev, a, b, del.Shares.ToBigInt())
			}
		case 0x54:
			if len(k) != 1+2*addrSize+8 {
				continue
			}
			var deb staking.DebondingDelegation
			if err := cbor.Unmarshal(kv.V, &deb); err != nil {
				panic(fmt.Errorf("stake snapshot: bad debonding delegation: %w", err))
			}
			delegator, escrow := addr(k[1:1+addrSize]), addr(k[1+addrSize:1+2*addrSize])
			ep := binary.BigEndian.Uint64(k[1+2*addrSize:])
			if s.Debond[escrow] == nil {
				s.Debond[escrow] = map[staking.Address][]DebondEntry{}
			}
			s.Debond[escrow][delegator] = append(s.Debond[escrow][delegator], DebondEntry{Epoch: ep, Shares: deb.Shares.ToBigInt(), End: uint64(deb.DebondEndTime)})
		case 0x55:
			if len(k) != 1+8+2*addrSize {
				continue
			}
			s.Queue = append(s.Queue, QueueEntry{Epoch: binary.BigEndian.Uint64(k[1:9]), Delegator: addr(k[9 : 9+addrSize]), Escrow: addr(k[9+addrSize:])})
		}
	}
	return s
}

// SortedAccounts returns the account addresses in ascending order.
func (s *StakeSnap) SortedAccounts() []staking.Address {
	var out []staking.Address
	for a := range s.Accounts {
		out = append(out, a)
	}
	sort.Slice(out, func(i, j int) bool { return string(out[i][:]) < string(out[j][:]) })
	return out
}

// Problem is one violated clause found in a snapshot.
type Problem struct {
	Kind   string
	Detail string
}

// CheckLedger evaluates the conservation and share-bookkeeping clauses of C05
// on a snapshot. inBlockFees is the block's fee accumulator (nil outside blocks).
func (s *StakeSnap) CheckLedger(inBlockFees *big.Int) []Problem {
	var out []Problem
	sum := new(big.Int)
	sum.Add(sum, s.CommonPool).Add(sum, s.LastBlockFees).Add(sum, s.GovDeposits)
	if inBlockFees != nil {
		sum.Add(sum, inBlockFees)
	}
	for _, a := range s.SortedAccounts() {
		acct := s.Accounts[a]
		sum.Add(sum, acct.General.Balance.ToBigInt())
		sum.Add(sum, acct.Escrow.Active.Balance.ToBigInt())
		sum.Add(sum, acct.Escrow.Debonding.Balance.ToBigInt())
	}
	if sum.Cmp(s.TotalSupply) != 0 {
		out = append(out, Problem{"supply-sum-mismatch", fmt.Sprintf("total supply %s != sum of balances, escrows, common pool, governance deposits, fees %s (difference %s)", s.TotalSupply, sum, new(big.Int).Sub(s.TotalSupply, sum))})
	}
	// Share totals.
	all := map[staking.Address]bool{}
	for a := range s.Accounts {
		all[a] = true
	}
	for a := range s.Deleg {
		all[a] = true
	}
	for a := range s.Debond {
		all[a] = true
	}
	var addrs []staking.Address
	for a := range all {
		addrs = append(addrs, a)
	}
	sort.Slice(addrs, func(i, j int) bool { return string(addrs[i][:]) < string(addrs[j][:]) })
	for _, a := range addrs {
		acct := s.Accounts[a]
		if acct == nil {
			acct = &staking.Account{}
		}
		ds := new(big.Int)
		for _, sh := range s.Deleg[a] {
			ds.Add(ds, sh)
		}
		if ds.Cmp(acct.Escrow.Active.TotalShares.ToBigInt()) != 0 {
			out = append(out, Problem{"active-shares-mismatch", fmt.Sprintf("account %s: active total shares %s != sum of delegations %s", a, acct.Escrow.Active.TotalShares.ToBigInt(), ds)})
		}
		db := new(big.Int)
		for _, l := range s.Debond[a] {
			for _, e := range l {
				db.Add(db, e.Shares)
			}
		}
		if db.Cmp(acct.Escrow.Debonding.TotalShares.ToBigInt()) != 0 {
			out = append(out, Problem{"debonding-shares-mismatch", fmt.Sprintf("account %s: debonding total shares %s != sum of debonding delegations %s", a, acct.Escrow.Debonding.TotalShares.ToBigInt(), db)})
		}
	}
	// Both directions of the delegation index agree.
	for esc, m := range s.Deleg {
		for del, sh := range m {
			if r := s.DelegRev[del][esc]; r == nil || r.Cmp(sh) != 0 {
				out = append(out, Problem{"delegation-index-mismatch", fmt.Sprintf("delegation %s -> %s: forward index has %s, reverse index has %v", del, esc, sh, r)})
			}
		}
	}
	for del, m := range s.DelegRev {
		for esc, sh := range m {
			if f := s.Deleg[esc][del]; f == nil || f.Cmp(sh) != 0 {
				out = append(out, Problem{"delegation-index-mismatch", fmt.Sprintf("delegation %s -> %s: reverse index has %s, forward index has %v", del, esc, sh, f)})
			}
		}
	}
	return out
}

// StakingEvents decodes the staking events of a set of ABCI events.
func StakingEvents(height int64, evs []types.Event) []*staking.Event {
	out, err := tmstaking.EventsFromCometBFT(nil, height, evs)
	if err != nil {
		// Events of other applications are skipped by the decoder; an error means
		// a malformed staking event.
		panic(fmt.Errorf("staking events: %w", err))
	}
	return out
}

// BlockStakingEvents returns all staking events of a block result that took
// effect (BeginBlock, successful transactions, EndBlock).
func BlockStakingEvents(height int64, res *BlockResult) []*staking.Event {
	var evs []types.Event
	evs = append(evs, res.Begin.Events...)
	for _, t := range res.Txs {
		evs = append(evs, t.Events...)
	}
	evs = append(evs, res.End.Events...)
	return StakingEvents(height, evs)
}

// --- independent transaction decoding ------------------------------------------

// DecodedTx is the harness's own reading of raw transaction bytes.
type DecodedTx struct {
	EnvelopeOK bool
	Signer     signature.PublicKey
	SigValid   bool // valid under this chain's transaction context
	TxOK       bool
	Tx         transaction.Transaction
}

// DecodeTx decodes and verifies raw transaction bytes independently of the
// code under test's signature machinery.
func DecodeTx(raw []byte, chainContext string) *DecodedTx {
	d := &DecodedTx{}
	var st transaction.SignedTransaction
	// (The repository's cbor.Unmarshal returns nil for empty input without decoding anything: a
	// zero-length transaction is not a decodable envelope.)
	if len(raw) == 0 {
		return d
	}
	if err := cbor.Unmarshal(raw, &st); err != nil {
		return d
	}
	d.EnvelopeOK = true
	d.Signer = st.Signature.PublicKey
	d.SigValid = RawVerify(st.Signature.PublicKey, TxContext(chainContext), st.Blob, st.Signature.Signature)
	if err := cbor.Unmarshal(st.Blob, &d.Tx); err == nil {
		d.TxOK = true
	}
	return d
}
