package chainsim

// Key manager traffic (key manager support): all methods of the key manager
// application - secrets UpdatePolicy / PublishMasterSecret /
// PublishEphemeralSecret and CHURP Create / Update / Apply / Confirm - each
// either valid at the moment of generation or invalid in exactly one respect
// ("km:<what is wrong>"; these fail after authentication).
//
// What is valid is derived from the committed key manager state of the
// reference replica (policy serial, status generation and checksum, committee,
// next handoff epoch, applications) and the epoch in which the next block will
// execute, plus what the generator already issued for the block being built.
// A block that performs an epoch transition regenerates the status and may
// finalize or reset handoffs before its transactions run; key manager
// transactions generated for such a block are labelled
// "post:at-epoch-transition" (they fail, if at all, after authentication).

import (
	"bytes"
	"fmt"
	"strings"

	"github.com/oasisprotocol/curve25519-voi/primitives/x25519"

	beacon "github.com/oasisprotocol/oasis-core/go/beacon/api"
	"github.com/oasisprotocol/oasis-core/go/common"
	"github.com/oasisprotocol/oasis-core/go/common/cbor"
	"github.com/oasisprotocol/oasis-core/go/common/crypto/hash"
	"github.com/oasisprotocol/oasis-core/go/common/crypto/signature"
	"github.com/oasisprotocol/oasis-core/go/common/node"
	"github.com/oasisprotocol/oasis-core/go/common/sgx"
	keymanagerApi "github.com/oasisprotocol/oasis-core/go/keymanager/api"
	"github.com/oasisprotocol/oasis-core/go/keymanager/churp"
	"github.com/oasisprotocol/oasis-core/go/keymanager/secrets"
	staking "github.com/oasisprotocol/oasis-core/go/staking/api"
)

// kmSecondInBlock labels a request that repeats one issued earlier for the same block: it fails as a
// duplicate unless the earlier one fails (it may have been invalidated on purpose after it was built).
const kmSecondInBlock = "post:second-in-block"

// kmMaxDriven is the number of CHURP instances whose handoffs the nodes take part in.
const kmMaxDriven = 3

// kmDriver generates the key manager traffic of a history.
type kmDriver struct {
	g *TxGen
	// Per block being generated.
	height     int64
	snap       *KMSnapshot
	epoch      beacon.EpochTime // epoch in which the block will execute
	transition bool             // the block performs an epoch transition
	issued     map[string]bool
	creates    int // Create transactions expected to succeed in this block
}

func (g *TxGen) kmDriver() *kmDriver {
	if g.km == nil {
		g.km = &kmDriver{g: g}
	}
	return g.km
}

// begin prepares the driver for the block at height.
func (d *kmDriver) begin(height int64) {
	d.height = height
	d.snap = d.g.h.ReadKM(0)
	d.issued = map[string]bool{}
	d.creates = 0
	d.transition = false
	if d.snap != nil {
		d.epoch = d.snap.Epoch
		if d.snap.NextEpochAt == height {
			d.epoch++
			d.transition = true
		}
	}
}

func (d *kmDriver) id() common.Namespace { return d.g.h.Sc.KM.ID }

// label sets the intent of a key manager transaction. In a block that performs an epoch
// transition, and while the runtime is suspended (a node registration earlier in the block
// may resume it), the outcome depends on what happens before the transaction runs.
func (d *kmDriver) label(gt *GenTx, intent string) *GenTx {
	switch {
	case d.transition:
		intent = "post:at-epoch-transition"
	case d.snap.Suspended:
		intent = "post:runtime-suspended"
	}
	gt.Intent = intent
	return gt
}

// sure reports whether a labelled transaction is expected to take effect.
func sure(gt *GenTx) bool { return gt.Intent == "valid" || strings.HasPrefix(gt.Intent, "post:") }

func (d *kmDriver) randBytes(n int) []byte {
	b := make([]byte, n)
	for i := range b {
		b[i] = byte(d.g.rng.Uint32())
	}
	return b
}

// --- nodes ------------------------------------------------------------------------

// initResponse is what an up-to-date key manager enclave reports for the committed status.
func (d *kmDriver) initResponse(replicate bool) *secrets.InitResponse {
	ir := &secrets.InitResponse{}
	if k := d.g.h.Sc.KMRSK; k != nil {
		ir.RSK = &k.PK
	}
	s := d.snap
	if s == nil || s.Status == nil {
		if sts := d.g.h.Sc.Doc.KeyManager.Statuses; len(sts) > 0 {
			ir.PolicyChecksum = kmPolicyChecksum(sts[0].Policy)
		}
		return ir
	}
	ir.Checksum = s.Status.Checksum
	pol := s.Status.Policy
	if s.Status.NextPolicy != nil {
		pol = s.Status.NextPolicy
	}
	ir.PolicyChecksum = kmPolicyChecksum(pol)
	if m := s.Master; replicate && m != nil && m.Secret.Epoch == s.Epoch+1 && m.Secret.Generation == s.Status.NextGeneration() {
		ir.NextChecksum = m.Secret.Secret.Checksum
	}
	return ir
}

// registeredInit returns the init response in the node's registered descriptor (nil if none).
func (d *kmDriver) registeredInit(n *SimNode) *secrets.InitResponse {
	cur := d.g.view().Nodes[n.Keys.ID.PK]
	if cur == nil {
		return nil
	}
	for _, rt := range cur.Runtimes {
		if rt.ID == d.id() {
			var sir secrets.SignedInitResponse
			if cbor.Unmarshal(rt.ExtraInfo, &sir) != nil {
				return nil
			}
			return &sir.InitResponse
		}
	}
	return nil
}

// nodeRuntimes is the runtime entry a key manager node registers with now.
func (d *kmDriver) nodeRuntimes(n *SimNode) []*node.Runtime {
	// Now and then an enclave lags: it does not replicate the proposed master secret in time.
	return d.g.h.Sc.kmNodeRuntime(d.initResponse(d.g.rng.IntN(7) != 0))
}

// live reports whether the node is registered, unexpired in the executing epoch and has the key manager role.
func (d *kmDriver) live(n *SimNode) bool {
	cur := d.g.view().Nodes[n.Keys.ID.PK]
	return cur != nil && cur.Expiration >= d.epoch && cur.HasRoles(node.RoleKeyManager) && d.registeredInit(n) != nil
}

// committee lists the harness nodes in the committed status' node list.
func (d *kmDriver) committee() []*SimNode {
	var out []*SimNode
	if d.snap == nil || d.snap.Status == nil {
		return nil
	}
	for _, id := range d.snap.Status.Nodes {
		if n := d.g.h.Sc.NodeByID(id); n != nil && d.g.view().Nodes[id] != nil {
			out = append(out, n)
		}
	}
	return out
}

// outsider picks an account that is not a member of the key manager committee.
func (d *kmDriver) outsider() *Account {
	sc := d.g.h.Sc
	in := map[signature.PublicKey]bool{}
	if d.snap != nil && d.snap.Status != nil {
		for _, id := range d.snap.Status.Nodes {
			in[id] = true
		}
	}
	var cands []*Account
	for _, n := range sc.AllNodes() {
		if !in[n.Keys.ID.PK] {
			cands = append(cands, n.Keys.ID)
		}
	}
	cands = append(cands, sc.Users[d.g.rng.IntN(len(sc.Users))], sc.KMOwner.Account)
	return cands[d.g.rng.IntN(len(cands))]
}

// otherRuntimeID is a runtime identifier that is not a registered key manager.
func (d *kmDriver) otherRuntimeID() common.Namespace {
	if rt := d.g.h.Sc.Runtime; rt != nil && d.g.rng.IntN(2) == 0 {
		return rt.ID // registered, but a compute runtime
	}
	id := d.id()
	id[9] ^= 0x10 // not registered
	return id
}

// --- secrets ----------------------------------------------------------------------

func (d *kmDriver) encryptedSecret() secrets.EncryptedSecret {
	var pk x25519.PublicKey
	copy(pk[:], d.randBytes(32))
	return secrets.EncryptedSecret{
		Checksum:    d.randBytes(secrets.ChecksumSize),
		PubKey:      pk,
		Ciphertexts: map[x25519.PublicKey][]byte{keymanagerApi.InsecureREK: d.randBytes(48 + d.g.rng.IntN(16))},
	}
}

func kmSignRaw(s signature.Signer, ctx signature.Context, v any) signature.RawSignature {
	sig, err := signature.SignRaw(s, ctx, cbor.Marshal(v))
	if err != nil {
		panic(err)
	}
	return *sig
}

// secretsSigner decides the signer of a published secret and what the committed
// state already makes of the transaction: "valid", or the reason why any
// publication must fail now. fault is the single fault asked for ("" = none).
func (d *kmDriver) secretsSigner(fault string) (*Account, string) {
	sc := d.g.h.Sc
	com := d.committee()
	var live []*SimNode
	for _, n := range com {
		if d.live(n) {
			live = append(live, n)
		}
	}
	switch {
	case d.snap.Status == nil:
		return sc.KMNodes[d.g.rng.IntN(len(sc.KMNodes))].Keys.ID, "km:no-status"
	case fault == "km:non-committee-node" || len(live) == 0:
		return d.outsider(), "km:non-committee-node"
	case len(com) != len(d.snap.Status.Nodes):
		// The application looks up every member of the committee.
		return live[d.g.rng.IntN(len(live))].Keys.ID, "post:committee-member-unknown"
	}
	return live[d.g.rng.IntN(len(live))].Keys.ID, "valid"
}

func (d *kmDriver) mkEphemeral(what string) *GenTx {
	g := d.g
	signer, intent := d.secretsSigner(what)
	sec := secrets.EncryptedEphemeralSecret{ID: d.id(), Epoch: d.epoch + 1, Secret: d.encryptedSecret()}
	rak := kmRAK()
	key := fmt.Sprintf("eph:%d", sec.Epoch)
	if intent == "valid" {
		// Only one secret per epoch; a further fault is applied only to an otherwise valid publication.
		switch {
		case d.snap.Ephemeral != nil && d.snap.Ephemeral.Secret.Epoch == sec.Epoch:
			intent = "km:duplicate"
		case d.issued[key]:
			intent = kmSecondInBlock
		case what != "" && what != "km:duplicate":
			intent = what
		}
	}
	switch intent {
	case "km:wrong-epoch":
		sec.Epoch = d.epoch + beacon.EpochTime(2*g.rng.IntN(2)) // this epoch or the one after the next
		if d.snap.Ephemeral != nil && d.snap.Ephemeral.Secret.Epoch == sec.Epoch {
			sec.Epoch = d.epoch + 2
		}
	case "km:bad-rak-signature":
		rak = keymanagerApi.TestSigners[1]
	case "km:unknown-rek":
		var other x25519.PublicKey
		copy(other[:], d.randBytes(32))
		sec.Secret.Ciphertexts[other] = d.randBytes(48)
	case "km:not-enough-ciphertexts":
		sec.Secret.Ciphertexts = map[x25519.PublicKey][]byte{}
	case "km:not-a-key-manager":
		sec.ID = d.otherRuntimeID()
	}
	sig := secrets.SignedEncryptedEphemeralSecret{Secret: sec, Signature: kmSignRaw(rak, secrets.EncryptedEphemeralSecretSignatureContext, sec)}
	if intent == "km:bad-rak-signature" && g.rng.IntN(2) == 0 {
		sig.Signature = kmSignRaw(kmRAK(), secrets.EncryptedEphemeralSecretSignatureContext, sec)
		sig.Signature[g.rng.IntN(64)] ^= 1 << uint(g.rng.IntN(8))
	}
	tx := secrets.NewPublishEphemeralSecretTx(g.nonce(signer), g.feeSure(4000), &sig)
	gt := d.label(g.finish(signer, tx, "km-ephemeral"), intent)
	if sure(gt) {
		d.issued[key] = true
	}
	gt.OnSuccess = func() { g.Notes["km-ephemeral-secret"]++ }
	return gt
}

func (d *kmDriver) mkMaster(what string) *GenTx {
	g := d.g
	signer, intent := d.secretsSigner(what)
	sec := secrets.EncryptedMasterSecret{ID: d.id(), Epoch: d.epoch + 1, Secret: d.encryptedSecret()}
	rotationOK := true
	if st := d.snap.Status; st != nil {
		sec.Generation = st.NextGeneration()
		rotationOK = st.VerifyRotationEpoch(sec.Epoch) == nil
	}
	rak := kmRAK()
	key := fmt.Sprintf("master:%d", sec.Epoch)
	if intent == "valid" {
		// Only one proposal per epoch and only when rotation is due; a further fault is applied
		// only to an otherwise valid publication.
		switch {
		case d.snap.Master != nil && d.snap.Master.Secret.Epoch == sec.Epoch:
			intent = "km:duplicate"
		case d.issued[key]:
			intent = kmSecondInBlock
		case !rotationOK:
			intent = "km:rotation-not-allowed"
		case what != "" && what != "km:duplicate" && what != "km:rotation-not-allowed":
			intent = what
		}
	}
	switch intent {
	case "km:wrong-epoch":
		sec.Epoch = d.epoch + beacon.EpochTime(2*g.rng.IntN(2))
		if d.snap.Master != nil && d.snap.Master.Secret.Epoch == sec.Epoch {
			sec.Epoch = d.epoch + 2
		}
	case "km:wrong-generation":
		sec.Generation += 1 + uint64(g.rng.IntN(2))
	case "km:bad-rak-signature":
		rak = keymanagerApi.TestSigners[1]
	case "km:unknown-rek":
		var other x25519.PublicKey
		copy(other[:], d.randBytes(32))
		sec.Secret.Ciphertexts[other] = d.randBytes(48)
	case "km:not-enough-ciphertexts":
		sec.Secret.Ciphertexts = map[x25519.PublicKey][]byte{}
	case "km:not-a-key-manager":
		sec.ID = d.otherRuntimeID()
	}
	sig := secrets.SignedEncryptedMasterSecret{Secret: sec, Signature: kmSignRaw(rak, secrets.EncryptedMasterSecretSignatureContext, sec)}
	tx := secrets.NewPublishMasterSecretTx(g.nonce(signer), g.feeSure(4000), &sig)
	gt := d.label(g.finish(signer, tx, fmt.Sprintf("km-master gen %d", sec.Generation)), intent)
	if sure(gt) {
		d.issued[key] = true
	}
	gt.OnSuccess = func() { g.Notes["km-master-secret-proposal"]++ }
	return gt
}

// --- policy -----------------------------------------------------------------------

func (d *kmDriver) mkUpdatePolicy(what string) *GenTx {
	g := d.g
	sc := g.h.Sc
	signer := sc.KMOwner.Account
	intent := "valid"
	var cur *secrets.SignedPolicySGX
	if d.snap.Status != nil {
		cur = d.snap.Status.Policy
	} else if sts := sc.Doc.KeyManager.Statuses; len(sts) > 0 {
		cur = sts[0].Policy
	}
	pol := secrets.PolicySGX{
		Serial: 1 + uint32(g.rng.IntN(2)),
		ID:     d.id(),
		Enclaves: map[sgx.EnclaveIdentity]*secrets.EnclavePolicySGX{
			kmEnclave(g.rng): {MayQuery: map[common.Namespace][]sgx.EnclaveIdentity{}, MayReplicate: []sgx.EnclaveIdentity{kmEnclave(g.rng)}},
		},
		MasterSecretRotationInterval: beacon.EpochTime(sc.P.KM.RotationInterval),
		MaxEphemeralSecretAge:        beacon.EpochTime(g.rng.IntN(4)),
	}
	if cur != nil {
		pol.Serial += cur.Policy.Serial
	}
	if rt := sc.Runtime; rt != nil && sc.P.KM.ClientRuntime {
		for _, ep := range pol.Enclaves {
			ep.MayQuery[rt.ID] = []sgx.EnclaveIdentity{kmEnclave(g.rng)}
		}
	}
	signers := keymanagerApi.TestSigners[1:]
	switch what {
	case "km:non-owner":
		for signer == sc.KMOwner.Account {
			signer = g.pickSigner()
		}
		intent = what
	case "km:stale-serial":
		if cur != nil {
			pol.Serial = cur.Policy.Serial - uint32(g.rng.IntN(2))*min(cur.Policy.Serial, 1)
			intent = what
		}
	case "km:not-a-key-manager":
		pol.ID = d.otherRuntimeID()
		intent = what
	case "km:bad-policy-signature":
		intent = what
	}
	sp := kmSignPolicy(pol, signers)
	if intent == "km:bad-policy-signature" {
		i := g.rng.IntN(len(sp.Signatures))
		sp.Signatures[i].Signature[g.rng.IntN(64)] ^= 1 << uint(g.rng.IntN(8))
	}
	tx := secrets.NewUpdatePolicyTx(g.nonce(signer), g.feeSure(6000), sp)
	gt := d.label(g.finish(signer, tx, fmt.Sprintf("km-policy serial %d", pol.Serial)), intent)
	gt.OnSuccess = func() { g.Notes["km-policy-update"]++ }
	return gt
}

// --- CHURP ------------------------------------------------------------------------

func (d *kmDriver) churpPolicy(ident churp.Identity, serial uint32) churp.SignedPolicySGX {
	g := d.g
	pol := churp.SignedPolicySGX{Policy: churp.PolicySGX{
		Identity: ident,
		Serial:   serial,
		MayShare: []sgx.EnclaveIdentity{kmEnclave(g.rng)},
		MayJoin:  []sgx.EnclaveIdentity{kmEnclave(g.rng)},
	}}
	if rt := g.h.Sc.Runtime; rt != nil && g.rng.IntN(2) == 0 {
		pol.Policy.MayQuery = map[common.Namespace][]sgx.EnclaveIdentity{rt.ID: {kmEnclave(g.rng)}}
	}
	if err := pol.Sign(keymanagerApi.TestSigners[1 : 1+g.rng.IntN(len(keymanagerApi.TestSigners))]); err != nil {
		panic(err)
	}
	return pol
}

// stakeCovers reports whether the owner's escrow covers its claims plus extra CHURP claims.
func (d *kmDriver) stakeCovers(extra int) bool {
	v := d.g.view()
	if v.StakingP.DebugBypassStake {
		return true
	}
	acct := v.Account(d.g.h.Sc.KMOwner.Addr)
	total, err := acct.Escrow.StakeAccumulator.TotalClaims(v.StakingP.Thresholds, nil)
	if err != nil {
		return false
	}
	th := v.StakingP.Thresholds[staking.KindKeyManagerChurp]
	for i := 0; i < extra; i++ {
		_ = total.Add(&th)
	}
	return acct.Escrow.Active.Balance.Cmp(total) >= 0
}

func (d *kmDriver) freeChurpID() uint8 {
	for id := 0; id < 256; id++ {
		if d.snap.Churp(uint8(id)) == nil && !d.issued[fmt.Sprintf("create:%d", id)] {
			return uint8(id)
		}
	}
	return 255
}

func (d *kmDriver) mkChurpCreate(what string) *GenTx {
	g := d.g
	sc := g.h.Sc
	nn := len(sc.KMNodes)
	req := churp.CreateRequest{
		Identity:        churp.Identity{ID: d.freeChurpID(), RuntimeID: d.id()},
		Threshold:       uint8(g.rng.IntN(2)),
		ExtraShares:     uint8(g.rng.IntN(2)),
		HandoffInterval: beacon.EpochTime([]int{0, 1, 1, 2, 3}[g.rng.IntN(5)]),
	}
	if int(req.Threshold)+2 > nn {
		req.Threshold = 0
	}
	if int(req.Threshold)+int(req.ExtraShares)+1 > nn {
		req.ExtraShares = 0
	}
	if g.rng.IntN(25) == 0 {
		req.HandoffInterval = []beacon.EpochTime{1 << 63, beacon.EpochInvalid - 1, beacon.EpochInvalid}[g.rng.IntN(3)]
	}
	serial := uint32(0)
	signer := sc.KMOwner.Account
	intent := "valid"
	switch what {
	case "km:non-owner":
		for signer == sc.KMOwner.Account {
			signer = g.pickSigner()
		}
		intent = what
	case "km:duplicate-churp-id":
		if len(d.snap.Churps) > 0 {
			req.ID = d.snap.Churps[g.rng.IntN(len(d.snap.Churps))].ID
			intent = what
		}
	case "km:bad-threshold":
		req.Threshold = uint8(128 + g.rng.IntN(128))
		intent = what
	case "km:bad-suite":
		req.SuiteID = uint8(1 + g.rng.IntN(3))
		intent = what
	case "km:policy-serial-nonzero":
		serial = uint32(1 + g.rng.IntN(3))
		intent = what
	case "km:not-a-key-manager":
		req.RuntimeID = d.otherRuntimeID()
		intent = what
	case "km:policy-id-mismatch", "km:bad-policy-signature":
		intent = what
	}
	req.Policy = d.churpPolicy(req.Identity, serial)
	switch intent {
	case "km:policy-id-mismatch":
		other := req.Identity
		other.ID++
		req.Policy = d.churpPolicy(other, 0)
	case "km:bad-policy-signature":
		for len(req.Policy.Signatures) == 0 {
			req.Policy = d.churpPolicy(req.Identity, 0)
		}
		req.Policy.Signatures[0].Signature[g.rng.IntN(64)] ^= 1 << uint(g.rng.IntN(8))
	}
	if intent == "valid" && !d.stakeCovers(d.creates+1) {
		intent = "km:insufficient-stake"
	}
	tx := churp.NewCreateTx(g.nonce(signer), g.feeSure(6000), &req)
	gt := d.label(g.finish(signer, tx, fmt.Sprintf("km-churp-create %d t=%d e=%d interval=%d", req.ID, req.Threshold, req.ExtraShares, req.HandoffInterval)), intent)
	if sure(gt) {
		d.issued[fmt.Sprintf("create:%d", req.ID)] = true
		d.creates++
	}
	gt.OnSuccess = func() { g.Notes["km-churp-create"]++ }
	return gt
}

func (d *kmDriver) mkChurpUpdate(what string) *GenTx {
	g := d.g
	sc := g.h.Sc
	signer := sc.KMOwner.Account
	intent := "valid"
	var st *churp.Status
	if len(d.snap.Churps) > 0 {
		st = d.snap.Churps[g.rng.IntN(len(d.snap.Churps))]
	}
	if st == nil || what == "km:no-such-churp" {
		req := churp.UpdateRequest{Identity: churp.Identity{ID: d.freeChurpID(), RuntimeID: d.id()}}
		e := uint8(g.rng.IntN(2))
		req.ExtraShares = &e
		tx := churp.NewUpdateTx(g.nonce(signer), g.feeSure(5000), &req)
		return d.label(g.finish(signer, tx, "km-churp-update"), "km:no-such-churp")
	}
	req := churp.UpdateRequest{Identity: st.Identity}
	note := "km-churp-update"
	switch g.rng.IntN(4) {
	case 0:
		e := uint8(g.rng.IntN(2))
		if g.rng.IntN(12) == 0 {
			e = uint8(2 + g.rng.IntN(254)) // more shares than there are nodes: no handoff can complete
		}
		req.ExtraShares = &e
	case 1:
		iv := beacon.EpochTime([]int{0, 1, 2, 3}[g.rng.IntN(4)])
		if g.rng.IntN(10) == 0 {
			// Extreme intervals: the computation of the next handoff epoch must not overflow into a halt.
			iv = []beacon.EpochTime{1 << 63, beacon.EpochInvalid - 1, beacon.EpochInvalid, beacon.EpochInvalid - beacon.EpochTime(d.epoch) - 1}[g.rng.IntN(4)]
		}
		req.HandoffInterval = &iv
		note = fmt.Sprintf("km-churp-update interval=%d", iv)
	default:
		pol := d.churpPolicy(st.Identity, st.Policy.Policy.Serial+1)
		req.Policy = &pol
	}
	switch what {
	case "km:non-owner":
		for signer == sc.KMOwner.Account {
			signer = g.pickSigner()
		}
		intent = what
	case "km:empty-update":
		req.ExtraShares, req.HandoffInterval, req.Policy = nil, nil, nil
		intent = what
	case "km:stale-serial":
		pol := d.churpPolicy(st.Identity, st.Policy.Policy.Serial+uint32(2*g.rng.IntN(2)))
		req.ExtraShares, req.HandoffInterval, req.Policy = nil, nil, &pol
		intent = what
	case "km:policy-id-mismatch":
		other := st.Identity
		other.ID++
		pol := d.churpPolicy(other, st.Policy.Policy.Serial+1)
		req.ExtraShares, req.HandoffInterval, req.Policy = nil, nil, &pol
		intent = what
	case "km:bad-policy-signature":
		pol := d.churpPolicy(st.Identity, st.Policy.Policy.Serial+1)
		for len(pol.Signatures) == 0 {
			pol = d.churpPolicy(st.Identity, st.Policy.Policy.Serial+1)
		}
		pol.Signatures[0].Signature[g.rng.IntN(64)] ^= 1 << uint(g.rng.IntN(8))
		req.ExtraShares, req.HandoffInterval, req.Policy = nil, nil, &pol
		intent = what
	case "km:not-a-key-manager":
		req.RuntimeID = d.otherRuntimeID()
		intent = what
	}
	if intent == "valid" && req.Policy != nil {
		// Two policy updates of one instance in a block: the second one's serial is stale.
		key := fmt.Sprintf("churp-policy:%d", st.ID)
		if d.issued[key] {
			intent = kmSecondInBlock
		}
		d.issued[key] = true
	}
	tx := churp.NewUpdateTx(g.nonce(signer), g.feeSure(5000), &req)
	gt := d.label(g.finish(signer, tx, note), intent)
	gt.OnSuccess = func() { g.Notes["km-churp-update"]++ }
	return gt
}

// churpChecksum is the checksum all honest nodes confirm for a handoff.
func churpChecksum(id uint8, epoch beacon.EpochTime) hash.Hash {
	return hash.NewFromBytes([]byte(fmt.Sprintf("verif churp verification matrix %d %d", id, epoch)))
}

// mkChurpApply builds the application of node n (nil = pick) for CHURP instance st.
func (d *kmDriver) mkChurpApply(st *churp.Status, n *SimNode, what string) *GenTx {
	g := d.g
	signer := n.Keys.ID
	intent := "valid"
	key := fmt.Sprintf("apply:%d:%s", st.ID, n.Name)
	_, applied := st.Applications[n.Keys.ID.PK]
	switch {
	case !d.live(n):
		intent = "post:node-not-registered-or-expired"
	case st.HandoffsDisabled():
		intent = "km:handoffs-disabled"
	case st.NextHandoff != d.epoch+1:
		intent = "km:submissions-closed"
	case applied:
		intent = "km:duplicate"
	case d.issued[key]:
		intent = kmSecondInBlock
	}
	app := churp.ApplicationRequest{Identity: st.Identity, Epoch: st.NextHandoff, Checksum: hash.NewFromBytes(d.randBytes(16))}
	rak := kmRAK()
	if intent == "valid" {
		switch what {
		case "km:wrong-epoch":
			app.Epoch += 1 + beacon.EpochTime(g.rng.IntN(2))
			intent = what
		case "km:bad-rak-signature":
			rak = keymanagerApi.TestSigners[2]
			intent = what
		case "km:non-km-node":
			signer = d.nonKMAccount()
			intent = what
		case "km:no-such-churp":
			app.ID = d.freeChurpID()
			intent = what
		case "km:not-a-key-manager":
			app.RuntimeID = d.otherRuntimeID()
			intent = what
		}
	}
	req := churp.SignedApplicationRequest{Application: app, Signature: kmSignRaw(rak, churp.ApplicationRequestSignatureContext, app)}
	tx := churp.NewApplyTx(g.nonce(signer), g.feeSure(4000), &req)
	gt := d.label(g.finish(signer, tx, fmt.Sprintf("km-churp-apply %d %s", st.ID, n.Name)), intent)
	if sure(gt) {
		d.issued[key] = true
	}
	gt.OnSuccess = func() { g.Notes["km-churp-apply"]++ }
	return gt
}

func (d *kmDriver) mkChurpConfirm(st *churp.Status, n *SimNode, what string) *GenTx {
	g := d.g
	signer := n.Keys.ID
	intent := "valid"
	key := fmt.Sprintf("confirm:%d:%s", st.ID, n.Name)
	app, applied := st.Applications[n.Keys.ID.PK]
	switch {
	case !d.live(n):
		intent = "post:node-not-registered-or-expired"
	case st.HandoffsDisabled():
		intent = "km:handoffs-disabled"
	case st.NextHandoff != d.epoch:
		intent = "km:confirmations-closed"
	case !applied:
		intent = "km:application-not-found"
	case app.Reconstructed:
		intent = "km:duplicate"
	case d.issued[key]:
		intent = kmSecondInBlock
	}
	conf := churp.ConfirmationRequest{Identity: st.Identity, Epoch: st.NextHandoff, Checksum: churpChecksum(st.ID, st.NextHandoff)}
	if st.NextChecksum != nil {
		conf.Checksum = *st.NextChecksum
	}
	rak := kmRAK()
	if intent == "valid" {
		switch what {
		case "km:wrong-epoch":
			conf.Epoch += 1 + beacon.EpochTime(g.rng.IntN(2))
			intent = what
		case "km:bad-rak-signature":
			rak = keymanagerApi.TestSigners[2]
			intent = what
		case "km:checksum-mismatch":
			if st.NextChecksum != nil {
				conf.Checksum = hash.NewFromBytes(d.randBytes(16))
				intent = what
			}
		case "km:no-such-churp":
			conf.ID = d.freeChurpID()
			intent = what
		}
	}
	req := churp.SignedConfirmationRequest{Confirmation: conf, Signature: kmSignRaw(rak, churp.ConfirmationRequestSignatureContext, conf)}
	tx := churp.NewConfirmTx(g.nonce(signer), g.feeSure(4000), &req)
	gt := d.label(g.finish(signer, tx, fmt.Sprintf("km-churp-confirm %d %s", st.ID, n.Name)), intent)
	if sure(gt) {
		d.issued[key] = true
	}
	gt.OnSuccess = func() { g.Notes["km-churp-confirm"]++ }
	return gt
}

// nonKMAccount picks the identity of a registered node without the key manager role, or a user.
func (d *kmDriver) nonKMAccount() *Account {
	sc := d.g.h.Sc
	var cands []*Account
	for _, n := range sc.AllNodes() {
		if !n.IsKeyManager() && d.g.view().Nodes[n.Keys.ID.PK] != nil {
			cands = append(cands, n.Keys.ID)
		}
	}
	cands = append(cands, sc.Users[d.g.rng.IntN(len(sc.Users))])
	return cands[d.g.rng.IntN(len(cands))]
}

func (d *kmDriver) pickKMNode() *SimNode {
	ns := d.g.h.Sc.KMNodes
	return ns[d.g.rng.IntN(len(ns))]
}

// driven lists the CHURP instances the nodes take part in.
func (d *kmDriver) driven() []*churp.Status {
	out := d.snap.Churps
	if len(out) > kmMaxDriven {
		out = out[:kmMaxDriven]
	}
	return out
}

// --- the per-block script --------------------------------------------------------------

// txs returns the key manager transactions that keep the protocol moving: node
// re-registrations with the current init response, secrets for the next epoch,
// applications and confirmations of due handoffs.
func (d *kmDriver) txs() []*GenTx {
	g := d.g
	rng := g.rng
	if d.snap == nil || d.height < 2 {
		return nil
	}
	var out []*GenTx
	emit := func(gt *GenTx) {
		if gt == nil {
			return
		}
		out = append(out, gt)
		if gt.Signer != nil && gt.Tx != nil && gt.Tx.Nonce == g.nonce(gt.Signer) {
			g.bump(gt.Signer) // all of these pass authentication
		}
	}
	// Enclaves follow the status: a node whose registered init response is out of date re-registers.
	for _, n := range g.h.Sc.KMNodes {
		have := d.registeredInit(n)
		if have == nil || g.view().Entities[n.Entity.PK] == nil {
			continue // not registered (yet, or any more): left to the maintenance rules
		}
		want := d.initResponse(true)
		if !bytes.Equal(cbor.Marshal(have), cbor.Marshal(want)) && rng.IntN(5) != 0 {
			if _, pending := g.pending[n.Keys.ID.Addr]; pending {
				continue // already re-registered by the maintenance rules in this block
			}
			gt := g.renewNode(n, 0)
			gt.Note += " km-init-response"
			emit(gt)
		}
	}
	if d.snap.Suspended && rng.IntN(4) != 0 {
		return out // while the runtime is suspended every key manager transaction is refused: mostly wait
	}
	if d.snap.Status != nil && len(d.committee()) > 0 {
		if e := d.snap.Ephemeral; (e == nil || e.Secret.Epoch != d.epoch+1) && rng.IntN(2) == 0 {
			emit(d.mkEphemeral(""))
		}
		if m := d.snap.Master; (m == nil || m.Secret.Epoch != d.epoch+1) && d.snap.Status.VerifyRotationEpoch(d.epoch+1) == nil && rng.IntN(3) == 0 {
			emit(d.mkMaster(""))
		}
	}
	// The owner sets up the first CHURP instances.
	if len(d.snap.Churps) < 2 && rng.IntN(3) == 0 {
		emit(d.mkChurpCreate(""))
	}
	for _, st := range d.driven() {
		if st.HandoffsDisabled() {
			continue
		}
		for _, n := range g.h.Sc.KMNodes {
			if !d.live(n) {
				continue
			}
			app, applied := st.Applications[n.Keys.ID.PK]
			// A few nodes sit out a handoff or never confirm (decided per node and handoff).
			mood := hash.NewFromBytes([]byte(fmt.Sprintf("%s %d %d", n.Name, st.ID, st.NextHandoff)))[0]
			switch {
			case st.NextHandoff == d.epoch+1 && !applied && mood%8 != 0 && rng.IntN(3) != 0:
				emit(d.mkChurpApply(st, n, ""))
			case st.NextHandoff == d.epoch && applied && !app.Reconstructed && mood%8 != 1 && rng.IntN(2) == 0:
				emit(d.mkChurpConfirm(st, n, ""))
			}
		}
	}
	return out
}

// --- weighted makers --------------------------------------------------------------------

func (g *TxGen) kmReady() *kmDriver {
	if g.h.Sc.KM == nil {
		return nil
	}
	d := g.kmDriver()
	if d.snap == nil {
		return nil
	}
	return d
}

func (g *TxGen) mkKMUpdatePolicy() *GenTx {
	d := g.kmReady()
	if d == nil {
		return nil
	}
	what := ""
	if g.rng.IntN(4) == 0 {
		what = []string{"km:non-owner", "km:stale-serial", "km:bad-policy-signature", "km:not-a-key-manager"}[g.rng.IntN(4)]
	}
	return d.mkUpdatePolicy(what)
}

var kmSecretFaults = []string{"km:non-committee-node", "km:wrong-epoch", "km:bad-rak-signature", "km:duplicate", "km:unknown-rek", "km:not-enough-ciphertexts", "km:not-a-key-manager"}

func (g *TxGen) mkKMSecret() *GenTx {
	d := g.kmReady()
	if d == nil {
		return nil
	}
	what := ""
	if g.rng.IntN(3) == 0 {
		what = kmSecretFaults[g.rng.IntN(len(kmSecretFaults))]
	}
	if g.rng.IntN(2) == 0 {
		return d.mkEphemeral(what)
	}
	if what == "" && g.rng.IntN(4) == 0 {
		what = []string{"km:wrong-generation", "km:rotation-not-allowed"}[g.rng.IntN(2)]
	}
	return d.mkMaster(what)
}

func (g *TxGen) mkKMChurp() *GenTx {
	d := g.kmReady()
	if d == nil {
		return nil
	}
	rng := g.rng
	fault := func(menu ...string) string {
		if rng.IntN(3) != 0 {
			return ""
		}
		return menu[rng.IntN(len(menu))]
	}
	c := rng.IntN(10)
	if len(d.snap.Churps) == 0 {
		c = 0
	}
	switch {
	case c < 2:
		if len(d.snap.Churps) >= 6 && !(g.h.Sc.P.KM.ChurpThreshold >= 2500 && len(d.snap.Churps) < 12) {
			return d.mkChurpUpdate(fault("km:non-owner", "km:no-such-churp", "km:empty-update", "km:stale-serial"))
		}
		return d.mkChurpCreate(fault("km:non-owner", "km:duplicate-churp-id", "km:bad-threshold", "km:bad-suite", "km:policy-serial-nonzero", "km:policy-id-mismatch", "km:bad-policy-signature", "km:not-a-key-manager"))
	case c < 5:
		return d.mkChurpUpdate(fault("km:non-owner", "km:no-such-churp", "km:empty-update", "km:stale-serial", "km:policy-id-mismatch", "km:bad-policy-signature", "km:not-a-key-manager"))
	case c < 8:
		f := fault("km:wrong-epoch", "km:bad-rak-signature", "km:non-km-node", "km:no-such-churp", "km:not-a-key-manager")
		st, n := d.pickDue(f != "", func(st *churp.Status, n *SimNode) bool {
			_, applied := st.Applications[n.Keys.ID.PK]
			return st.NextHandoff == d.epoch+1 && !applied && !d.issued[fmt.Sprintf("apply:%d:%s", st.ID, n.Name)]
		})
		return d.mkChurpApply(st, n, f)
	default:
		f := fault("km:wrong-epoch", "km:bad-rak-signature", "km:checksum-mismatch", "km:no-such-churp")
		st, n := d.pickDue(f != "", func(st *churp.Status, n *SimNode) bool {
			app, applied := st.Applications[n.Keys.ID.PK]
			return st.NextHandoff == d.epoch && applied && !app.Reconstructed && !d.issued[fmt.Sprintf("confirm:%d:%s", st.ID, n.Name)] &&
				(f != "km:checksum-mismatch" || st.NextChecksum != nil)
		})
		return d.mkChurpConfirm(st, n, f)
	}
}

// pickDue picks a CHURP instance and a key manager node; with prefer set, a pair for which the
// step is due now (so that a single fault can be applied to an otherwise valid request), if any.
func (d *kmDriver) pickDue(prefer bool, due func(*churp.Status, *SimNode) bool) (*churp.Status, *SimNode) {
	rng := d.g.rng
	if prefer {
		type pair struct {
			st *churp.Status
			n  *SimNode
		}
		var cands []pair
		for _, st := range d.snap.Churps {
			if st.HandoffsDisabled() {
				continue
			}
			for _, n := range d.g.h.Sc.KMNodes {
				if d.live(n) && due(st, n) {
					cands = append(cands, pair{st, n})
				}
			}
		}
		if len(cands) > 0 {
			c := cands[rng.IntN(len(cands))]
			return c.st, c.n
		}
	}
	return d.snap.Churps[rng.IntN(len(d.snap.Churps))], d.pickKMNode()
}

// KMCommitteeSize returns the size of the committed key manager committee (development aid).
func (g *TxGen) KMCommitteeSize() int {
	if d := g.kmReady(); d != nil && d.snap.Status != nil {
		return len(d.snap.Status.Nodes)
	}
	return 0
}
