package chainsim

import (
	"bytes"
	"context"
	"crypto/sha512"

	"github.com/oasisprotocol/oasis-core/go/common/cbor"
	"github.com/oasisprotocol/oasis-core/go/common/crypto/signature"
	"github.com/oasisprotocol/oasis-core/go/common/entity"
	stakingState "github.com/oasisprotocol/oasis-core/go/consensus/cometbft/apps/staking/state"
	staking "github.com/oasisprotocol/oasis-core/go/staking/api"
	"github.com/oasisprotocol/oasis-core/go/storage/mkvs"
	"github.com/oasisprotocol/oasis-core/go/storage/mkvs/node"
)

// hashOf is the repository's hash (SHA-512/256) computed independently.
func hashOf(b []byte) []byte {
	h := sha512.Sum512_256(b)
	return h[:]
}

// newMemState loads a dump into an in-memory tree so that typed state readers
// can be used on a recorded state.
func newMemState(d []KV) mkvs.KeyValueTree {
	t := mkvs.New(nil, nil, node.RootTypeState, mkvs.WithoutWriteLog())
	ctx := context.Background()
	for _, kv := range d {
		if err := t.Insert(ctx, kv.K, kv.V); err != nil {
			panic(err)
		}
	}
	return t
}

// preEntity returns the node list of a registered entity in a dump (nil if not registered).
func preEntity(d []KV, id signature.PublicKey) []signature.PublicKey {
	key := append([]byte{0x10}, hashOf(id[:])...)
	for _, kv := range d {
		if bytes.Equal(kv.K, key) {
			var se entity.SignedEntity
			if err := cbor.Unmarshal(kv.V, &se); err != nil {
				return nil
			}
			var e entity.Entity
			if err := cbor.Unmarshal(se.Blob, &e); err != nil {
				return nil
			}
			if e.Nodes == nil {
				return []signature.PublicKey{}
			}
			return e.Nodes
		}
	}
	return nil
}

func stakingParams(t mkvs.ImmutableKeyValueTree) (*staking.ConsensusParameters, error) {
	return stakingState.NewImmutableState(t).ConsensusParameters(context.Background())
}
