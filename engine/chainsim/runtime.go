package chainsim

// Runtime support for the scenarios (DESIGN.md E1, C11 app level, C14 committees):
// one non-TEE compute runtime in the genesis document, compute nodes registered
// for it, the runtime's staking account, and readers for the roothash state.

import (
	"context"
	"fmt"
	"math/rand/v2"
	"time"

	beacon "github.com/oasisprotocol/oasis-core/go/beacon/api"
	"github.com/oasisprotocol/oasis-core/go/common"
	"github.com/oasisprotocol/oasis-core/go/common/cbor"
	"github.com/oasisprotocol/oasis-core/go/common/crypto/signature"
	"github.com/oasisprotocol/oasis-core/go/common/entity"
	"github.com/oasisprotocol/oasis-core/go/common/node"
	"github.com/oasisprotocol/oasis-core/go/common/quantity"
	"github.com/oasisprotocol/oasis-core/go/common/version"
	roothashState "github.com/oasisprotocol/oasis-core/go/consensus/cometbft/apps/roothash/state"
	registry "github.com/oasisprotocol/oasis-core/go/registry/api"
	roothash "github.com/oasisprotocol/oasis-core/go/roothash/api"
	"github.com/oasisprotocol/oasis-core/go/roothash/api/message"
	scheduler "github.com/oasisprotocol/oasis-core/go/scheduler/api"
	staking "github.com/oasisprotocol/oasis-core/go/staking/api"
)

// RuntimeMode overrides the scenario PRNG's decision whether a scenario has a
// compute runtime: "" = decided by the scenario PRNG (always for profile
// "runtime", about 1/3 of the other scenarios), "on", "off".
var RuntimeMode = ""

// RuntimeParams are the knobs of the scenario's compute runtime (zero when the
// scenario has no runtime).
type RuntimeParams struct {
	GroupSize, BackupSize, Stragglers int
	RoundTimeout                      int64
	MaxMessages, MaxInMessages        uint32
	// Scheduling constraints (0 / false = not set). They apply to the roles listed in ConstrainedRoles.
	MaxNodesPerEntity int
	MinPoolSize       int
	ValidatorSetOnly  bool
	ConstrainedRoles  string // "both" | "worker" | "backup"
	// Stake.
	ComputeExtraThreshold uint64 // per-runtime constant threshold of compute nodes
	SlashEquivocation     uint64
	SlashBadResults       uint64
	SlashLiveness         uint64
	LivenessFreeze        uint64
	RewardPercent         uint8
	MinInMsgFee           uint64
	// Liveness.
	MinLiveRoundsPercent uint8
	MaxLivenessFailures  uint8
	// Deployments: a second deployment becomes active at this epoch (0 = single deployment).
	SecondDeploymentAt uint64
	// Staking parameter.
	AllowEscrowMessages bool
	// Genesis compute nodes (validator nodes with the compute role + compute-only nodes).
	GenesisComputeNodes int
	MaxEvidenceAge      uint64
}

var (
	rtVersion1 = version.Version{Major: 1, Minor: 0, Patch: 0}
	rtVersion2 = version.Version{Major: 1, Minor: 1, Patch: 0}
	// rtVersionBogus is a version no deployment has (a node registered only for it is never eligible).
	rtVersionBogus = version.Version{Major: 0, Minor: 9, Patch: 9}
)

func newSimNode(name string, e *SimEntity, roles node.RolesMask, rng *rand.Rand) *SimNode {
	return &SimNode{
		Name:   name,
		Entity: e,
		Roles:  roles,
		Keys: NodeKeys{
			ID:        newAccount(name+"/id", signature.SignerNode, rng),
			Consensus: newAccount(name+"/consensus", signature.SignerConsensus, rng),
			P2P:       newAccount(name+"/p2p", signature.SignerP2P, rng),
			TLS:       newAccount(name+"/tls", signature.SignerNode, rng),
			VRF:       newAccount(name+"/vrf", signature.SignerVRF, rng),
		},
	}
}

// IsCompute reports whether the node has the compute worker role.
func (n *SimNode) IsCompute() bool { return n.Roles&node.RoleComputeWorker != 0 }

// addRuntime decides (from the scenario PRNG, after all other draws) whether the
// scenario has a compute runtime and, if so, extends the genesis document.
func (s *Scenario) addRuntime(rng *rand.Rand, profile string) {
	on := profile == "runtime"
	if profile == "vrf" { // VRF beacon support: committee elections under VRF need the compute runtime
		on = rng.IntN(8) != 0
	} else if !on {
		on = rng.IntN(3) == 0
	}
	if profile == "registry" && s.Seed%4 == 0 {
		// Two-runtime scenarios: the idle owner's suspended runtime exists (even seeds of this profile) and
		// compute nodes of the scenario's own runtime sign up for it.
		on = true
	}
	switch RuntimeMode {
	case "on":
		on = true
	case "off":
		on = false
	}
	if !on {
		return
	}
	s.P.WithRuntime = true
	p := &s.P
	doc := s.Doc

	rp := RuntimeParams{
		GroupSize:             2 + rng.IntN(2),
		BackupSize:            rng.IntN(3),
		RoundTimeout:          2 + rng.Int64N(3),
		MaxMessages:           4 + uint32(rng.IntN(5)),
		MaxInMessages:         uint32([]int{0, 2, 8}[rng.IntN(3)]),
		ConstrainedRoles:      []string{"both", "both", "worker", "backup"}[rng.IntN(4)],
		ComputeExtraThreshold: []uint64{0, 0, 50, 200}[rng.IntN(4)],
		SlashEquivocation:     []uint64{0, 50, 2000}[rng.IntN(3)],
		SlashBadResults:       []uint64{0, 10, 300}[rng.IntN(3)],
		SlashLiveness:         []uint64{0, 0, 1, 20}[rng.IntN(4)],
		LivenessFreeze:        rng.Uint64N(3),
		RewardPercent:         []uint8{0, 30, 100}[rng.IntN(3)],
		MinInMsgFee:           []uint64{0, 0, 5}[rng.IntN(3)],
		MinLiveRoundsPercent:  []uint8{0, 50, 90}[rng.IntN(3)],
		MaxLivenessFailures:   uint8(rng.IntN(4)),
		AllowEscrowMessages:   rng.IntN(3) != 0,
		MaxEvidenceAge:        2 + rng.Uint64N(6),
	}
	if profile == "runtime" {
		rp.RoundTimeout = 3 + rng.Int64N(4)
		if rp.MaxInMessages == 0 && rng.IntN(2) == 0 {
			rp.MaxInMessages = 4
		}
	}
	rp.Stragglers = rng.IntN(2)
	if rp.BackupSize > 0 && rp.Stragglers > rp.BackupSize {
		rp.Stragglers = rp.BackupSize
	}
	if rng.IntN(3) == 0 {
		rp.MaxNodesPerEntity = 1 + rng.IntN(2)
	}
	if rng.IntN(3) == 0 {
		rp.MinPoolSize = 2 + rng.IntN(4)
	}
	rp.ValidatorSetOnly = rng.IntN(5) == 0
	if rng.IntN(3) == 0 {
		rp.SecondDeploymentAt = 3 + rng.Uint64N(4)
	}

	var seed [8]byte
	for i := range seed {
		seed[i] = byte(s.Seed >> (8 * i))
	}
	id := common.NewTestNamespaceFromSeed(append([]byte("verif chainsim runtime "), seed[:]...), common.NamespaceTest)

	// --- compute nodes -----------------------------------------------------
	rtsOf := func() []*node.Runtime {
		// Mostly the first version; with a second deployment some nodes already carry both.
		out := []*node.Runtime{{ID: id, Version: rtVersion1}}
		if rp.SecondDeploymentAt != 0 && rng.IntN(2) == 0 {
			out = append(out, &node.Runtime{ID: id, Version: rtVersion2})
		}
		return out
	}
	for i, e := range s.Entities {
		for _, n := range e.Nodes {
			switch {
			case n.InGenesis && i < 2:
				// The validator nodes of the first two entities stay pure validators (they keep
				// the documented election precondition: never frozen or suspended by the runtime).
			case n.InGenesis && rng.IntN(2) == 0:
				n.Roles |= node.RoleComputeWorker
			case !n.InGenesis && rng.IntN(2) == 0:
				n.Roles |= node.RoleComputeWorker
			}
		}
		// Compute-only nodes.
		k := rng.IntN(3)
		if e.InGenesis && i < 2 {
			k = 1 + rng.IntN(2)
		}
		if !e.InGenesis {
			k = rng.IntN(2)
		}
		for c := 0; c < k; c++ {
			n := newSimNode(fmt.Sprintf("node%d.c%d", i, c), e, node.RoleComputeWorker, rng)
			n.InGenesis = e.InGenesis
			e.Nodes = append(e.Nodes, n)
		}
	}
	// Usually make sure that enough genesis compute nodes exist for a committee.
	pool := func() int {
		c := 0
		for _, e := range s.Entities {
			ec := 0
			for _, n := range e.Nodes {
				if n.InGenesis && n.IsCompute() {
					ec++
				}
			}
			if rp.MaxNodesPerEntity > 0 && ec > rp.MaxNodesPerEntity {
				ec = rp.MaxNodesPerEntity
			}
			c += ec
		}
		return c
	}
	need := max(rp.GroupSize, rp.BackupSize, rp.MinPoolSize)
	if rng.IntN(8) != 0 {
		for i := 0; pool() < need+1 && i < 3*p.NumValidators; i++ {
			ei := i % p.NumValidators
			e := s.Entities[ei]
			ec := 0
			for _, n := range e.Nodes {
				if n.InGenesis && n.IsCompute() {
					ec++
				}
			}
			if rp.MaxNodesPerEntity > 0 && ec >= rp.MaxNodesPerEntity {
				continue // would not enlarge the pool
			}
			n := newSimNode(fmt.Sprintf("node%d.x%d", ei, i), e, node.RoleComputeWorker, rng)
			n.InGenesis = true
			e.Nodes = append(e.Nodes, n)
		}
	}
	for _, n := range s.AllNodes() {
		if n.IsCompute() {
			n.Runtimes = rtsOf()
			if rng.IntN(12) == 0 && n.Entity != s.Entities[0] {
				// A node registered for a version no deployment has.
				n.Runtimes = []*node.Runtime{{ID: id, Version: rtVersionBogus}}
			}
			if n.InGenesis {
				rp.GenesisComputeNodes++
			}
		}
	}

	// --- runtime descriptor --------------------------------------------------
	cons := registry.SchedulingConstraints{}
	if rp.MaxNodesPerEntity > 0 {
		cons.MaxNodes = &registry.MaxNodesConstraint{Limit: uint16(rp.MaxNodesPerEntity)}
	}
	if rp.MinPoolSize > 0 {
		cons.MinPoolSize = &registry.MinPoolSizeConstraint{Limit: uint16(rp.MinPoolSize)}
	}
	if rp.ValidatorSetOnly {
		cons.ValidatorSet = &registry.ValidatorSetConstraint{}
	}
	roleCons := map[scheduler.Role]registry.SchedulingConstraints{}
	if rp.ConstrainedRoles != "backup" {
		roleCons[scheduler.RoleWorker] = cons
	}
	if rp.ConstrainedRoles != "worker" {
		roleCons[scheduler.RoleBackupWorker] = cons
	}
	slashing := map[staking.SlashReason]staking.Slash{}
	if rp.SlashEquivocation > 0 {
		slashing[staking.SlashRuntimeEquivocation] = staking.Slash{Amount: q(rp.SlashEquivocation)}
	}
	if rp.SlashBadResults > 0 {
		slashing[staking.SlashRuntimeIncorrectResults] = staking.Slash{Amount: q(rp.SlashBadResults)}
	}
	if rp.SlashLiveness > 0 || rp.MaxLivenessFailures > 0 {
		slashing[staking.SlashRuntimeLiveness] = staking.Slash{Amount: q(rp.SlashLiveness), FreezeInterval: beacon.EpochTime(rp.LivenessFreeze)}
	}
	// The runtime is owned by the first genesis entity (never slashed in the scenarios) or by the third
	// one, whose escrow can fall below its stake claims (runtime suspension for lack of stake).
	s.RuntimeOwner = s.Entities[0]
	if rng.IntN(2) == 0 {
		s.RuntimeOwner = s.Entities[2]
	}
	rt := &registry.Runtime{
		Versioned:   cbor.NewVersioned(registry.LatestRuntimeDescriptorVersion),
		ID:          id,
		EntityID:    s.RuntimeOwner.PK,
		Kind:        registry.KindCompute,
		TEEHardware: node.TEEHardwareInvalid,
		Executor: registry.ExecutorParameters{
			GroupSize:                  uint16(rp.GroupSize),
			GroupBackupSize:            uint16(rp.BackupSize),
			AllowedStragglers:          uint16(rp.Stragglers),
			RoundTimeout:               rp.RoundTimeout,
			MaxMessages:                rp.MaxMessages,
			MinLiveRoundsPercent:       rp.MinLiveRoundsPercent,
			MinLiveRoundsForEvaluation: 1,
			MaxLivenessFailures:        rp.MaxLivenessFailures,
		},
		TxnScheduler: registry.TxnSchedulerParameters{
			BatchFlushTimeout: time.Second,
			MaxBatchSize:      10,
			MaxBatchSizeBytes: 16 * 1024,
			MaxInMessages:     rp.MaxInMessages,
			ProposerTimeout:   2 * time.Second,
		},
		AdmissionPolicy: registry.RuntimeAdmissionPolicy{AnyNode: &registry.AnyNodeRuntimeAdmissionPolicy{}},
		Constraints: map[scheduler.CommitteeKind]map[scheduler.Role]registry.SchedulingConstraints{
			scheduler.KindComputeExecutor: roleCons,
		},
		Staking: registry.RuntimeStakingParameters{
			Slashing:                             slashing,
			RewardSlashEquvocationRuntimePercent: rp.RewardPercent,
			RewardSlashBadResultsRuntimePercent:  rp.RewardPercent,
			MinInMessageFee:                      q(rp.MinInMsgFee),
		},
		GovernanceModel: registry.GovernanceEntity,
		Deployments:     []*registry.VersionInfo{{Version: rtVersion1, ValidFrom: 0}},
	}
	if rp.ComputeExtraThreshold > 0 {
		rt.Staking.Thresholds = map[staking.ThresholdKind]quantity.Quantity{staking.KindNodeCompute: q(rp.ComputeExtraThreshold)}
	}
	if rp.SecondDeploymentAt != 0 {
		rt.Deployments = append(rt.Deployments, &registry.VersionInfo{Version: rtVersion2, ValidFrom: beacon.EpochTime(rp.SecondDeploymentAt)})
		// The order of the list carries no meaning (validation sorts a copy): every other scenario
		// lists the upcoming deployment first.
		if s.Seed%2 == 1 {
			rt.Deployments[0], rt.Deployments[1] = rt.Deployments[1], rt.Deployments[0]
		}
	}
	rt.Genesis.StateRoot.Empty()
	s.Runtime = rt
	s.RuntimeAddr = staking.NewRuntimeAddress(id)
	p.RT = rp

	// --- registry genesis: re-sign entities (node lists grew) and nodes ------------
	doc.Registry.Runtimes = []*registry.Runtime{rt}
	doc.Registry.Entities = nil
	doc.Registry.Nodes = nil
	for _, e := range s.Entities {
		if !e.InGenesis {
			continue
		}
		se, err := entity.SignEntity(e.Signer, registry.RegisterGenesisEntitySignatureContext, EntityDescriptor(e, e.Nodes))
		if err != nil {
			panic(err)
		}
		doc.Registry.Entities = append(doc.Registry.Entities, se)
		for _, n := range e.Nodes {
			if !n.InGenesis {
				continue
			}
			nd := NodeDescriptor(n, beacon.EpochTime(p.MaxNodeExp))
			sn, err := node.MultiSignNode(NodeSigners(n), registry.RegisterGenesisNodeSignatureContext, nd)
			if err != nil {
				panic(err)
			}
			doc.Registry.Nodes = append(doc.Registry.Nodes, sn)
			n.Desc = nd
		}
	}

	// --- staking genesis -----------------------------------------------------------
	st := &doc.Staking
	st.Parameters.AllowEscrowMessages = rp.AllowEscrowMessages
	for _, n := range s.AllNodes() {
		acct := st.Ledger[n.Keys.ID.Addr]
		if acct == nil {
			acct = &staking.Account{}
			st.Ledger[n.Keys.ID.Addr] = acct
		}
		if n.IsCompute() {
			// Compute nodes pay for one commitment transaction per round.
			acct.General.Balance = q(3_000_000)
		} else if acct.General.Balance.IsZero() {
			acct.General.Balance = q(200_000)
		}
	}
	rtAcct := &staking.Account{General: staking.GeneralAccount{Balance: q(uint64(20_000 + rng.IntN(60_000)))}}
	st.Ledger[s.RuntimeAddr] = rtAcct
	// The runtime holds a delegation in a validator entity's escrow account (for ReclaimEscrow messages).
	if rng.IntN(3) != 0 {
		e := s.Entities[1+rng.IntN(p.NumValidators-1)]
		amt := uint64(200 + rng.IntN(2000))
		acct := st.Ledger[e.Addr]
		_ = acct.Escrow.Active.Balance.Add(quantity.NewFromUint64(amt))
		_ = acct.Escrow.Active.TotalShares.Add(quantity.NewFromUint64(amt))
		st.Delegations[e.Addr][s.RuntimeAddr] = &staking.Delegation{Shares: q(amt)}
	}
	// Some users allow the runtime to withdraw from their accounts (for Withdraw messages).
	for _, u := range s.Users {
		if rng.IntN(3) == 0 {
			acct := st.Ledger[u.Addr]
			if acct.General.Allowances == nil {
				acct.General.Allowances = map[staking.Address]quantity.Quantity{}
			}
			acct.General.Allowances[s.RuntimeAddr] = q(uint64(100 + rng.IntN(5000)))
		}
	}
	// Entities drawn with a stake of a few base units cannot cover compute-node and runtime stake
	// claims: with a runtime they get an ordinary self-delegation on top.
	for _, e := range s.Entities {
		acct := st.Ledger[e.Addr]
		if !e.InGenesis || acct == nil || acct.Escrow.Active.Balance.Cmp(quantity.NewFromUint64(2000)) >= 0 {
			continue
		}
		_ = acct.Escrow.Active.Balance.Add(quantity.NewFromUint64(5000))
		_ = acct.Escrow.Active.TotalShares.Add(quantity.NewFromUint64(5000))
		if d := st.Delegations[e.Addr][e.Addr]; d != nil {
			_ = d.Shares.Add(quantity.NewFromUint64(5000))
		} else {
			if st.Delegations[e.Addr] == nil {
				st.Delegations[e.Addr] = map[staking.Address]*staking.Delegation{}
			}
			st.Delegations[e.Addr][e.Addr] = &staking.Delegation{Shares: q(5000)}
		}
	}
	// Total supply: everything in the ledger plus the common pool.
	total := quantity.NewQuantity()
	for _, acct := range st.Ledger {
		_ = total.Add(&acct.General.Balance)
		_ = total.Add(&acct.Escrow.Active.Balance)
		_ = total.Add(&acct.Escrow.Debonding.Balance)
	}
	_ = total.Add(&st.CommonPool)
	_ = total.Add(&st.GovernanceDeposits)
	_ = total.Add(&st.LastBlockFees)
	st.TotalSupply = *total

	// --- other parameters ----------------------------------------------------------
	doc.RootHash.Parameters.MaxEvidenceAge = rp.MaxEvidenceAge
	if p.MaxBlockGas != 0 {
		// Room for one commitment transaction per committee member and block.
		p.MaxBlockGas += 40_000
		doc.Consensus.Parameters.MaxBlockGas += 40_000
	}
}

// ComputeNodes lists the harness nodes with the compute worker role.
func (s *Scenario) ComputeNodes() []*SimNode {
	var out []*SimNode
	for _, n := range s.AllNodes() {
		if n.IsCompute() {
			out = append(out, n)
		}
	}
	return out
}

// NodeByID returns the harness node with the given identity key.
func (s *Scenario) NodeByID(id signature.PublicKey) *SimNode {
	for _, n := range s.AllNodes() {
		if n.Keys.ID.PK == id {
			return n
		}
	}
	return nil
}

// RuntimeSnapshot is the committed roothash state of the scenario's runtime.
type RuntimeSnapshot struct {
	State       *roothash.RuntimeState
	InQueue     []*message.IncomingMessage
	LastResults *roothash.RoundResults
	Params      *roothash.ConsensusParameters
}

// ReadRuntime reads the runtime's roothash state from the reference replica's
// committed state at a height (0 = latest). It returns nil when the scenario has
// no runtime or nothing has been committed yet.
func (h *History) ReadRuntime(height int64) *RuntimeSnapshot {
	if h.Sc.Runtime == nil || h.Ref.Height == 0 {
		return nil
	}
	st, err := CommittedState(h.Ref, height)
	if err != nil {
		panic(fmt.Errorf("runtime snapshot: %w", err))
	}
	defer st.Close()
	ctx := context.Background()
	rs := roothashState.NewImmutableState(st)
	out := &RuntimeSnapshot{}
	if out.State, err = rs.RuntimeState(ctx, h.Sc.Runtime.ID); err != nil {
		panic(fmt.Errorf("runtime snapshot: runtime state: %w", err))
	}
	if out.Params, err = rs.ConsensusParameters(ctx); err != nil {
		panic(fmt.Errorf("runtime snapshot: parameters: %w", err))
	}
	if meta, err := rs.IncomingMessageQueueMeta(ctx, h.Sc.Runtime.ID); err == nil && meta.Size > 0 {
		out.InQueue, _ = rs.IncomingMessageQueue(ctx, h.Sc.Runtime.ID, 0, meta.Size)
	}
	out.LastResults, _ = rs.LastRoundResults(ctx, h.Sc.Runtime.ID)
	return out
}
