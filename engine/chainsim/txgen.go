package chainsim

import (
	"fmt"
	"math/big"
	"math/rand/v2"
	"sort"
	"strings"

	"github.com/cometbft/cometbft/abci/types"

	beacon "github.com/oasisprotocol/oasis-core/go/beacon/api"
	"github.com/oasisprotocol/oasis-core/go/common/cbor"
	"github.com/oasisprotocol/oasis-core/go/common/crypto/signature"
	"github.com/oasisprotocol/oasis-core/go/common/entity"
	"github.com/oasisprotocol/oasis-core/go/common/node"
	"github.com/oasisprotocol/oasis-core/go/common/quantity"
	"github.com/oasisprotocol/oasis-core/go/consensus/api/transaction"
	governance "github.com/oasisprotocol/oasis-core/go/governance/api"
	registry "github.com/oasisprotocol/oasis-core/go/registry/api"
	roothash "github.com/oasisprotocol/oasis-core/go/roothash/api"
	staking "github.com/oasisprotocol/oasis-core/go/staking/api"
	upgrade "github.com/oasisprotocol/oasis-core/go/upgrade/api"
)

// GenTx is a generated transaction with the harness's intent attached.
type GenTx struct {
	Raw    []byte
	Signer *Account // key that signed the envelope (nil for garbage)
	Tx     *transaction.Transaction
	Method string
	// Intent: "valid" or the single respect in which the transaction was made invalid.
	Intent string
	Note   string
	// OnSuccess is harness bookkeeping run when the transaction executed with code OK.
	OnSuccess func()
}

// TxGen generates transactions for a history.
type TxGen struct {
	// newRuntimes counts generated registrations of additional runtimes (distinct IDs).
	newRuntimes int
	h           *History
	rng         *rand.Rand
	// pending nonces inside the block being generated
	pending map[staking.Address]uint64
	// current holds the generated transactions of the block being executed.
	current []*GenTx
	// Extra, if set, may add transactions to a block (check-specific attacks).
	Extra func(g *TxGen, height int64, base []*GenTx) []*GenTx
	// past holds previously submitted raw transactions (for replays).
	past []*GenTx
	// weights by maker name
	makers []maker
	// Submitted/executed counters by method and outcome.
	Stats map[string]int
	// Notes counts successful transactions by their harness note (e.g. key rotations).
	Notes map[string]int
	// FailLogs counts failure messages of transactions meant to be valid (tuning aid).
	FailLogs map[string]int
	// rt drives the rounds of the scenario's runtime (runtime support; nil without a runtime).
	rt *rtDriver
	// km generates the key manager traffic (key manager support; nil without a key manager).
	km *kmDriver
	// vrf generates the VRF proof traffic (VRF beacon support; nil without the VRF backend).
	vrf *vrfDriver
}

type maker struct {
	name   string
	weight int
	f      func(g *TxGen) *GenTx
}

// NewTxGen creates the generator for a history.
func NewTxGen(h *History) *TxGen {
	g := &TxGen{h: h, rng: rand.New(rand.NewPCG(h.Cfg.Seed, 0x7a6e0001)), Stats: map[string]int{}, FailLogs: map[string]int{}, Notes: map[string]int{}}
	w := func(base int, prof string, boost int) int {
		if h.Cfg.Profile == prof {
			return base * boost
		}
		return base
	}
	g.makers = []maker{
		{"transfer", 10, (*TxGen).mkTransfer},
		{"burn", 3, (*TxGen).mkBurn},
		{"addescrow", 8, (*TxGen).mkAddEscrow},
		{"reclaim", 8, (*TxGen).mkReclaim},
		{"amend", 2, (*TxGen).mkAmend},
		{"allow", 3, (*TxGen).mkAllow},
		{"withdraw", 3, (*TxGen).mkWithdraw},
		{"regentity", w(2, "registry", 4), (*TxGen).mkRegisterEntity},
		{"deregentity", w(1, "registry", 4), (*TxGen).mkDeregisterEntity},
		{"regnode", w(3, "registry", 5), (*TxGen).mkRegisterNode},
		{"unfreeze", w(2, "registry", 2), (*TxGen).mkUnfreeze},
		{"proposal", 2, (*TxGen).mkProposal},
		{"vote", 4, (*TxGen).mkVote},
		{"freshness", 1, (*TxGen).mkFreshness},
		{"garbage", 1, (*TxGen).mkGarbage},
		{"replay", 2, (*TxGen).mkReplay},
		// "post:" intents fail (if at all) after authentication.
		{"vault-create", 1, (*TxGen).mkVaultCreate},
		{"vault-authorize", 4, (*TxGen).mkVaultAuthorize},
		{"vault-cancel", 1, (*TxGen).mkVaultCancel},
		{"vault-fund", 2, (*TxGen).mkVaultFund},
	}
	if h.Sc.Runtime != nil { // runtime support
		g.makers = append(g.makers,
			maker{"rt-submitmsg", w(4, "runtime", 2), (*TxGen).mkSubmitMsg},
			maker{"rt-evidence", w(3, "runtime", 2), (*TxGen).mkEvidence},
			maker{"rt-register", w(2, "registry", 3), (*TxGen).mkRegisterRuntime},
		)
	}
	if h.Sc.KM != nil { // key manager support
		g.makers = append(g.makers,
			maker{"km-policy", w(1, "keymanager", 2), (*TxGen).mkKMUpdatePolicy},
			maker{"km-secret", w(3, "keymanager", 2), (*TxGen).mkKMSecret},
			maker{"km-churp", w(5, "keymanager", 2), (*TxGen).mkKMChurp},
		)
	}
	return g
}

func (g *TxGen) view() *View { return g.h.View }

// Rng exposes the generator's PRNG to check-specific extensions.
func (g *TxGen) Rng() *rand.Rand { return g.rng }

// CarrierTx builds an ordinary, correctly signed transaction of some user account with the given
// method and body (used by check-specific attacks that need to get a payload executed by a handler).
func (g *TxGen) CarrierTx(method transaction.MethodName, body any) *GenTx {
	a := g.h.Sc.Users[g.rng.IntN(len(g.h.Sc.Users))]
	tx := transaction.NewTransaction(g.nonce(a), g.feeSure(8000), method, body)
	gt := g.finish(a, tx, "carrier")
	gt.Intent = "post:carrier"
	g.bump(a)
	return gt
}

// History returns the history the generator belongs to.
func (g *TxGen) History() *History { return g.h }

func (g *TxGen) nonce(a *Account) uint64 {
	if n, ok := g.pending[a.Addr]; ok {
		return n
	}
	return g.view().Account(a.Addr).General.Nonce
}

func (g *TxGen) bump(a *Account) { g.pending[a.Addr] = g.nonce(a) + 1 }

func (g *TxGen) pickSigner() *Account { return g.h.Sc.Signers[g.rng.IntN(len(g.h.Sc.Signers))] }

func (g *TxGen) pickAddr() staking.Address {
	switch g.rng.IntN(30) {
	case 0:
		return staking.CommonPoolAddress
	case 1:
		return staking.FeeAccumulatorAddress
	case 2:
		return staking.GovernanceDepositsAddress
	case 3:
		// fresh address
		var pk signature.PublicKey
		for i := range pk {
			pk[i] = byte(g.rng.Uint32())
		}
		return staking.NewAddress(pk)
	case 4, 5:
		n := g.h.Sc.AllNodes()
		return n[g.rng.IntN(len(n))].Keys.ID.Addr
	case 6:
		return staking.BurnAddress
	default:
		return g.pickSigner().Addr
	}
}

func bigQ(b *big.Int) quantity.Quantity {
	var x quantity.Quantity
	if err := x.FromBigInt(b); err != nil {
		panic(err)
	}
	return x
}

// amount picks an amount relative to a balance.
func (g *TxGen) amount(balance *quantity.Quantity) quantity.Quantity {
	bal := balance.ToBigInt()
	switch g.rng.IntN(28) {
	case 0:
		return q(0)
	case 1:
		return q(1)
	case 2:
		return bigQ(bal) // everything
	case 3:
		return bigQ(new(big.Int).Add(bal, big.NewInt(1))) // one too many
	case 4:
		return bigQ(new(big.Int).SetUint64(^uint64(0)))
	case 5:
		return bigQ(new(big.Int).Lsh(big.NewInt(1), 128))
	case 6:
		return bigQ(new(big.Int).Lsh(big.NewInt(1), 255))
	default:
		if bal.Sign() == 0 {
			return q(uint64(g.rng.IntN(50)))
		}
		d := big.NewInt(int64(2 + g.rng.IntN(40)))
		v := new(big.Int).Div(bal, d)
		v.Add(v, big.NewInt(int64(g.rng.IntN(20))))
		return bigQ(v)
	}
}

// fee builds a fee with a gas limit sufficient for the given operation cost.
func (g *TxGen) fee(opCost uint64) *transaction.Fee {
	gas := opCost + 1500 + uint64(g.rng.IntN(500))
	price := g.h.Sc.P.MinGasPrice
	switch g.rng.IntN(6) {
	case 0:
		price++
	case 1:
		price += 2
	}
	f := &transaction.Fee{Gas: transaction.Gas(gas)}
	_ = f.Amount.FromUint64(gas * price)
	if g.h.Sc.P.MinGasPrice == 0 && g.rng.IntN(4) == 0 {
		// Without a minimum gas price any amount is acceptable: tiny fees exercise the
		// rounding of the fee split (shares that round to zero, remainders).
		_ = f.Amount.FromUint64(uint64(1 + g.rng.IntN(24)))
	}
	if g.h.Sc.P.MinGasPrice > 0 && g.rng.IntN(8) == 0 {
		// Below the consensus minimum gas price: rejected by every node alike, whoever signed it.
		_ = f.Amount.FromUint64(0)
	}
	if g.rng.IntN(25) == 0 {
		return nil // no fee at all
	}
	return f
}

func (g *TxGen) sign(a *Account, tx *transaction.Transaction) []byte {
	st, err := transaction.Sign(a.Signer, tx)
	if err != nil {
		panic(err)
	}
	return cbor.Marshal(st)
}

func (g *TxGen) finish(a *Account, tx *transaction.Transaction, note string) *GenTx {
	gt := &GenTx{Signer: a, Tx: tx, Method: string(tx.Method), Intent: "valid", Note: note}
	gt.Raw = g.sign(a, tx)
	return gt
}

// --- makers ----------------------------------------------------------------

func (g *TxGen) mkTransfer() *GenTx {
	a := g.pickSigner()
	acct := g.view().Account(a.Addr)
	to := g.pickAddr()
	if g.rng.IntN(10) == 0 {
		to = a.Addr
	}
	tx := staking.NewTransferTx(g.nonce(a), g.fee(10), &staking.Transfer{To: to, Amount: g.amount(&acct.General.Balance)})
	return g.finish(a, tx, "")
}

func (g *TxGen) mkBurn() *GenTx {
	a := g.pickSigner()
	acct := g.view().Account(a.Addr)
	amt := g.amount(&acct.General.Balance)
	if g.rng.IntN(3) != 0 {
		amt = q(uint64(g.rng.IntN(200)))
	}
	tx := staking.NewBurnTx(g.nonce(a), g.fee(10), &staking.Burn{Amount: amt})
	return g.finish(a, tx, "")
}

func (g *TxGen) escrowTarget() staking.Address {
	sc := g.h.Sc
	switch g.rng.IntN(8) {
	case 0:
		return g.pickAddr()
	case 1:
		return sc.Users[g.rng.IntN(len(sc.Users))].Addr
	default:
		return sc.Entities[g.rng.IntN(len(sc.Entities))].Addr
	}
}

func (g *TxGen) mkAddEscrow() *GenTx {
	a := g.pickSigner()
	acct := g.view().Account(a.Addr)
	to := g.escrowTarget()
	if g.rng.IntN(6) == 0 {
		to = a.Addr
	}
	tx := staking.NewAddEscrowTx(g.nonce(a), g.fee(12), &staking.Escrow{Account: to, Amount: g.amount(&acct.General.Balance)})
	return g.finish(a, tx, "")
}

func (g *TxGen) mkReclaim() *GenTx {
	a := g.pickSigner()
	// The first two genesis entities keep their self-delegation (election precondition).
	for a == g.h.Sc.Entities[0].Account || a == g.h.Sc.Entities[1].Account {
		a = g.pickSigner()
	}
	// Find an escrow account the signer has a delegation in.
	var from staking.Address
	var shares quantity.Quantity
	found := false
	dels := g.h.delegationsOf(a.Addr)
	if len(dels) > 0 {
		i := g.rng.IntN(len(dels))
		from, shares, found = dels[i].escrow, dels[i].shares, true
	}
	if !found || g.rng.IntN(10) == 0 {
		from = g.escrowTarget()
	}
	tx := staking.NewReclaimEscrowTx(g.nonce(a), g.fee(14), &staking.ReclaimEscrow{Account: from, Shares: g.amount(&shares)})
	return g.finish(a, tx, "")
}

func (g *TxGen) mkAmend() *GenTx {
	sc := g.h.Sc
	a := sc.Entities[g.rng.IntN(len(sc.Entities))].Account
	if g.rng.IntN(5) == 0 {
		a = g.pickSigner()
	}
	ep := beacon.EpochTime(g.view().Epoch)
	var cs staking.CommissionSchedule
	lead := beacon.EpochTime(2 + g.rng.IntN(3))
	cs.Bounds = append(cs.Bounds, staking.CommissionRateBoundStep{Start: ep + lead, RateMin: q(0), RateMax: q(uint64(20_000 + g.rng.IntN(80_000)))})
	cs.Rates = append(cs.Rates, staking.CommissionRateStep{Start: ep + lead, Rate: q(uint64(g.rng.IntN(30_000)))})
	if g.rng.IntN(3) == 0 {
		cs.Rates = append(cs.Rates, staking.CommissionRateStep{Start: ep + lead + 1, Rate: q(uint64(g.rng.IntN(20_000)))})
	}
	tx := staking.NewAmendCommissionScheduleTx(g.nonce(a), g.fee(16), &staking.AmendCommissionSchedule{Amendment: cs})
	return g.finish(a, tx, "")
}

func (g *TxGen) mkAllow() *GenTx {
	a := g.pickSigner()
	acct := g.view().Account(a.Addr)
	tx := staking.NewAllowTx(g.nonce(a), g.fee(11), &staking.Allow{
		Beneficiary:  g.pickAddr(),
		Negative:     g.rng.IntN(4) == 0,
		AmountChange: g.amount(&acct.General.Balance),
	})
	return g.finish(a, tx, "")
}

func (g *TxGen) mkWithdraw() *GenTx {
	a := g.pickSigner()
	// Prefer an account that granted the signer an allowance.
	from := g.pickAddr()
	var allowance quantity.Quantity
	for _, addr := range g.view().SortedAddrs() {
		if al, ok := g.view().Accounts[addr].General.Allowances[a.Addr]; ok && g.rng.IntN(2) == 0 {
			from, allowance = addr, al
			break
		}
	}
	tx := staking.NewWithdrawTx(g.nonce(a), g.fee(13), &staking.Withdraw{From: from, Amount: g.amount(&allowance)})
	return g.finish(a, tx, "")
}

func (g *TxGen) mkRegisterEntity() *GenTx {
	sc := g.h.Sc
	e := sc.Entities[g.rng.IntN(len(sc.Entities))]
	nodes := e.Nodes
	switch g.rng.IntN(4) {
	case 0:
		nodes = nodes[:g.rng.IntN(len(nodes)+1)] // shrink node list
	case 1:
		// list a foreign node too
		o := sc.Entities[g.rng.IntN(len(sc.Entities))]
		nodes = append(append([]*SimNode(nil), nodes...), o.Nodes[g.rng.IntN(len(o.Nodes))])
	}
	ed := EntityDescriptor(e, nodes)
	se, err := entity.SignEntity(e.Signer, registry.RegisterEntitySignatureContext, ed)
	if err != nil {
		panic(err)
	}
	signer := e.Account
	intent := "valid"
	switch g.rng.IntN(8) {
	case 0:
		signer = g.pickSigner() // tx signed by somebody else than the descriptor
		if signer != e.Account {
			intent = "wrong-tx-signer"
		}
	case 1:
		// Forged descriptor: it names entity e, but is signed (and submitted) by another entity's
		// key. Descriptor signer and transaction signer agree; neither is the entity named inside.
		// (No further PRNG draw: the attacker is the next entity in the list.)
		for i, o := range sc.Entities {
			if o == e {
				a := sc.Entities[(i+1)%len(sc.Entities)]
				if a != e {
					if se, err = entity.SignEntity(a.Signer, registry.RegisterEntitySignatureContext, ed); err != nil {
						panic(err)
					}
					signer = a.Account
					intent = "wrong-tx-signer" // fails after authentication, like a wrong transaction signer
				}
				break
			}
		}
	}
	tx := registry.NewRegisterEntityTx(g.nonce(signer), g.fee(1000+1000*uint64(len(ed.Nodes))), se)
	gt := g.finish(signer, tx, e.Name)
	gt.Intent = intent
	return gt
}

func (g *TxGen) mkDeregisterEntity() *GenTx {
	sc := g.h.Sc
	e := sc.Entities[g.rng.IntN(len(sc.Entities))]
	// Mostly entities without live nodes (otherwise it is an expected failure).
	tx := registry.NewDeregisterEntityTx(g.nonce(e.Account), g.fee(1000))
	return g.finish(e.Account, tx, e.Name)
}

// nodeGas is the gas a node registration needs (runtime support: a node registered for a
// runtime also pays the per-epoch runtime maintenance operation for every epoch of its expiration).
func (g *TxGen) nodeGas(n *SimNode) uint64 {
	if len(n.Runtimes) == 0 {
		return 1000
	}
	return 1000 + 1000*uint64(len(n.Runtimes))*(uint64(g.view().RegistryP.MaxNodeExpiration)+1)
}

// signNode signs a node descriptor with the given signers under the registration context.
func signNode(signers []signature.Signer, nd *node.Node) *node.MultiSignedNode {
	sn, err := node.MultiSignNode(signers, registry.RegisterNodeSignatureContext, nd)
	if err != nil {
		panic(err)
	}
	return sn
}

// renewNode builds a valid re-registration of a node (used for maintenance).
func (g *TxGen) renewNode(n *SimNode, extra int) *GenTx {
	ep := g.view().Epoch
	exp := ep + uint64(g.view().RegistryP.MaxNodeExpiration)
	if extra > 0 && exp > ep+1 {
		exp -= uint64(g.rng.IntN(extra + 1))
		if exp <= ep+1 {
			exp = ep + 2
		}
	}
	// runtime support: some nodes add the runtime's second deployment version when it is about to become active.
	oldRts, newRts := n.Runtimes, n.Runtimes
	joinsIdle := false
	if at := g.h.Sc.P.RT.SecondDeploymentAt; at != 0 && len(n.Runtimes) == 1 && n.Runtimes[0].Version == rtVersion1 && ep+2 >= at && g.rng.IntN(3) == 0 {
		newRts = append(append([]*node.Runtime(nil), n.Runtimes...), &node.Runtime{ID: n.Runtimes[0].ID, Version: rtVersion2})
	}
	// Second runtime: in every other scenario with an idle owner, compute nodes of the scenario's runtime
	// sooner or later also sign up for the idle owner's runtime (which resumes it): a node that serves two
	// runtimes, with the stake claim of two (the renewal of an ACTIVE node adds a runtime).
	if io := g.h.Sc.IdleOwner; io != nil && g.h.Sc.Seed%4 == 0 && n.IsCompute() && !n.IsKeyManager() && len(n.Runtimes) > 0 && g.rng.IntN(4) == 0 {
		has := false
		for _, r := range newRts {
			if r.ID == IdleOwnerRuntimeID {
				has = true
			}
		}
		// The first sign-up (which resumes the suspended runtime) waits until a passed proposal has moved a
		// roothash limit below what that runtime declares (4 / 4), or until the history is half over.
		if !has && (g.h.Height*2 >= int64(g.h.Cfg.Blocks) || g.roothashLimitsBelow(4)) {
			newRts = append(append([]*node.Runtime(nil), newRts...), &node.Runtime{ID: IdleOwnerRuntimeID, Version: rtVersion1})
			joinsIdle = true
		}
	}
	// key manager support: a key manager node registers with the init response for the current status.
	if n.IsKeyManager() && g.h.Sc.KM != nil {
		newRts = g.kmDriver().nodeRuntimes(n)
	}
	n.Runtimes = newRts
	nd := NodeDescriptor(n, beacon.EpochTime(exp))
	sn := signNode(NodeSigners(n), nd)
	tx := registry.NewRegisterNodeTx(g.nonce(n.Keys.ID), g.fee(g.nodeGas(n)), sn)
	n.Runtimes = oldRts
	gt := g.finish(n.Keys.ID, tx, n.Name)
	gt.OnSuccess = func() {
		n.Desc = nd
		n.Runtimes = newRts
		if joinsIdle {
			g.Notes["node-joined-second-runtime"]++
		}
	}
	return gt
}

func (g *TxGen) mkRegisterNode() *GenTx {
	nodes := g.h.Sc.AllNodes()
	n := nodes[g.rng.IntN(len(nodes))]
	mode := g.rng.IntN(14)
	switch {
	case mode == 12 && n.IsCompute() && !n.IsKeyManager() && len(n.Runtimes) > 0 && g.rng.IntN(3) == 0:
		// A descriptor that lists one runtime with a repeated version (twice the same, or three entries
		// whose repeated version is not the first): must be refused, never stored (a stored list with
		// redundant versions makes every later update of the node fail hard).
		// Preferably as the FIRST registration of a node that is not registered at the moment (no update
		// rules of an existing descriptor stand in the way).
		for _, i := range g.rng.Perm(len(nodes)) {
			if c := nodes[i]; c.IsCompute() && !c.IsKeyManager() && len(c.Runtimes) > 0 && g.view().Nodes[c.Keys.ID.PK] == nil && g.view().Entities[c.Entity.PK] != nil {
				n = c
				break
			}
		}
		oldRts := n.Runtimes
		first := n.Runtimes[0]
		other := rtVersion2
		if first.Version == rtVersion2 {
			other = rtVersion1
		}
		var list []*node.Runtime
		switch g.rng.IntN(3) {
		case 0:
			list = []*node.Runtime{{ID: first.ID, Version: first.Version}, {ID: first.ID, Version: first.Version}}
		case 1:
			list = []*node.Runtime{{ID: first.ID, Version: first.Version}, {ID: first.ID, Version: other}, {ID: first.ID, Version: other}}
		default:
			list = []*node.Runtime{{ID: first.ID, Version: other}, {ID: first.ID, Version: first.Version}, {ID: first.ID, Version: first.Version}}
		}
		for _, r := range oldRts[1:] {
			if r.ID != first.ID {
				list = append(list, r)
			}
		}
		n.Runtimes = list
		nd := NodeDescriptor(n, beacon.EpochTime(g.view().Epoch+2))
		sn := signNode(NodeSigners(n), nd)
		tx := registry.NewRegisterNodeTx(g.nonce(n.Keys.ID), g.feeSure(g.nodeGas(n)+4000), sn)
		n.Runtimes = oldRts
		gt := g.finish(n.Keys.ID, tx, n.Name+" redundant-runtime-versions")
		gt.Intent = "post:redundant-runtime-versions"
		return gt
	case mode == 12:
		// Change the roles of a node: upgrades are allowed, downgrades of a live node are not
		// (rejected late, after the stake claims were recomputed).
		oldRoles, oldRts := n.Roles, n.Runtimes
		switch {
		case n.Roles&node.RoleValidator != 0 && n.Roles&node.RoleComputeWorker != 0:
			if g.rng.IntN(2) == 0 {
				n.Roles &^= node.RoleValidator
			} else {
				n.Roles &^= node.RoleComputeWorker
				n.Runtimes = nil
			}
		case n.Roles&node.RoleValidator != 0 && g.h.Sc.Runtime != nil && g.rng.IntN(2) == 0:
			// validator -> compute-only
			n.Roles = node.RoleComputeWorker
			n.Runtimes = []*node.Runtime{{ID: g.h.Sc.Runtime.ID, Version: rtVersion1}}
		default:
			n.Roles |= node.RoleObserver
		}
		newRoles := n.Roles
		nd := NodeDescriptor(n, beacon.EpochTime(g.view().Epoch+2))
		sn := signNode(NodeSigners(n), nd)
		n.Roles, n.Runtimes = oldRoles, oldRts
		tx := registry.NewRegisterNodeTx(g.nonce(n.Keys.ID), g.feeSure(g.nodeGas(n)+4000), sn)
		gt := g.finish(n.Keys.ID, tx, n.Name+" role-change")
		gt.Intent = "post:role-change"
		gt.OnSuccess = func() {
			// Only role additions that keep the harness's bookkeeping valid are adopted.
			if newRoles&oldRoles == oldRoles && newRoles&node.RoleComputeWorker == oldRoles&node.RoleComputeWorker {
				n.Roles, n.Desc = newRoles, nd
			}
			g.Notes["role-change"]++
		}
		return gt
	case mode == 13:
		// Re-register a node under another entity (one that lists it, if any does; otherwise make
		// another entity list it first). Expired nodes that are still registered are preferred:
		// fewer update restrictions apply to them.
		if g.rng.IntN(4) != 0 {
			var exp []*SimNode
			for _, c := range nodes {
				if cur := g.view().Nodes[c.Keys.ID.PK]; cur != nil && uint64(cur.Expiration) < g.view().Epoch {
					exp = append(exp, c)
				}
			}
			if len(exp) > 0 {
				n = exp[g.rng.IntN(len(exp))]
			}
		}
		old := n.Entity
		var cands, listing []*SimEntity
		for _, e := range g.h.Sc.Entities {
			if e == old {
				continue
			}
			cands = append(cands, e)
			if re := g.view().Entities[e.PK]; re != nil {
				for _, id := range re.Nodes {
					if id.Equal(n.Keys.ID.PK) {
						listing = append(listing, e)
					}
				}
			}
		}
		if len(cands) == 0 || g.view().Nodes[n.Keys.ID.PK] == nil {
			return g.renewNode(n, 2)
		}
		o := cands[g.rng.IntN(len(cands))]
		if len(listing) > 0 {
			o = listing[g.rng.IntN(len(listing))]
		} else if g.view().Entities[o.PK] != nil && g.rng.IntN(3) != 0 {
			ed := EntityDescriptor(o, append(append([]*SimNode(nil), o.Nodes...), n))
			se, err := entity.SignEntity(o.Signer, registry.RegisterEntitySignatureContext, ed)
			if err != nil {
				panic(err)
			}
			tx := registry.NewRegisterEntityTx(g.nonce(o.Account), g.feeSure(2000+1000*uint64(len(ed.Nodes))), se)
			return g.finish(o.Account, tx, o.Name+" lists foreign node "+n.Name)
		}
		n.Entity = o
		nd := NodeDescriptor(n, beacon.EpochTime(g.view().Epoch+2))
		sn := signNode(NodeSigners(n), nd)
		n.Entity = old
		tx := registry.NewRegisterNodeTx(g.nonce(n.Keys.ID), g.feeSure(g.nodeGas(n)+4000), sn)
		gt := g.finish(n.Keys.ID, tx, n.Name+" entity-change to "+o.Name)
		gt.Intent = "post:entity-change"
		gt.OnSuccess = func() { g.Notes["entity-change"]++ }
		return gt
	case mode < 4:
		return g.renewNode(n, 2)
	case mode < 7:
		// Rotate or exchange P2P / TLS / VRF keys among themselves.
		old := n.Keys
		nk := n.Keys
		switch g.rng.IntN(5) {
		case 0:
			nk.P2P, nk.TLS = old.TLS, old.P2P
		case 1:
			nk.P2P, nk.VRF = old.VRF, old.P2P
		case 2:
			nk.TLS, nk.VRF = old.VRF, old.TLS
		case 3:
			nk.P2P, nk.TLS, nk.VRF = old.TLS, old.VRF, old.P2P
		case 4:
			nk.P2P = newAccount(n.Name+"/p2p'", signature.SignerP2P, g.rng)
		}
		n.Keys = nk
		nd := NodeDescriptor(n, beacon.EpochTime(g.view().Epoch+uint64(g.view().RegistryP.MaxNodeExpiration)))
		sn := signNode(NodeSigners(n), nd)
		n.Keys = old
		tx := registry.NewRegisterNodeTx(g.nonce(n.Keys.ID), g.fee(g.nodeGas(n)), sn)
		gt := g.finish(n.Keys.ID, tx, n.Name+" key-rotation")
		gt.OnSuccess = func() { n.Keys = nk; n.Desc = nd }
		return gt
	case mode < 9:
		// Missing / extra signature.
		nd := NodeDescriptor(n, beacon.EpochTime(g.view().Epoch+2))
		signers := NodeSigners(n)
		intent := "missing-signature"
		if x := g.rng.IntN(3); x == 0 {
			i := g.rng.IntN(len(signers))
			signers = append(append([]signature.Signer(nil), signers[:i]...), signers[i+1:]...)
		} else if x == 1 {
			// The right NUMBER of signatures, but one key's signature is missing and another of
			// the node's keys signs twice.
			i := 1 + g.rng.IntN(len(signers)-1)
			j := g.rng.IntN(len(signers))
			if j == i {
				j = 0
			}
			signers = append([]signature.Signer(nil), signers...)
			signers[i] = signers[j]
		} else {
			signers = append(append([]signature.Signer(nil), signers...), g.pickSigner().Signer)
			intent = "extra-signature"
		}
		sn := signNode(signers, nd)
		tx := registry.NewRegisterNodeTx(g.nonce(n.Keys.ID), g.fee(g.nodeGas(n)), sn)
		gt := g.finish(n.Keys.ID, tx, n.Name)
		gt.Intent = intent
		return gt
	case mode < 10:
		// Transaction signed by a key other than the node key.
		nd := NodeDescriptor(n, beacon.EpochTime(g.view().Epoch+2))
		sn := signNode(NodeSigners(n), nd)
		s := g.pickSigner()
		tx := registry.NewRegisterNodeTx(g.nonce(s), g.fee(g.nodeGas(n)), sn)
		gt := g.finish(s, tx, n.Name)
		gt.Intent = "wrong-tx-signer"
		return gt
	case mode < 11:
		// Claim a key of another node (duplicate sub-key).
		o := nodes[g.rng.IntN(len(nodes))]
		old := n.Keys
		nk := n.Keys
		switch g.rng.IntN(4) {
		case 0:
			nk.P2P = o.Keys.P2P
		case 1:
			nk.TLS = o.Keys.TLS
		case 2:
			nk.VRF = o.Keys.Consensus
		case 3:
			// the other node's IDENTITY key as a sub-key of this node
			nk.P2P = o.Keys.ID
		}
		n.Keys = nk
		nd := NodeDescriptor(n, beacon.EpochTime(g.view().Epoch+2))
		sn := signNode(NodeSigners(n), nd)
		n.Keys = old
		tx := registry.NewRegisterNodeTx(g.nonce(n.Keys.ID), g.fee(g.nodeGas(n)), sn)
		gt := g.finish(n.Keys.ID, tx, n.Name+" steals key of "+o.Name)
		if o != n {
			gt.Intent = "duplicate-subkey"
		}
		gt.OnSuccess = func() { n.Keys = nk; n.Desc = nd }
		return gt
	default:
		// Expiration out of range.
		nd := NodeDescriptor(n, beacon.EpochTime(g.view().Epoch+uint64(g.view().RegistryP.MaxNodeExpiration)+1+uint64(g.rng.IntN(3))))
		if g.rng.IntN(2) == 0 {
			nd.Expiration = beacon.EpochTime(g.view().Epoch)
		}
		sn := signNode(NodeSigners(n), nd)
		tx := registry.NewRegisterNodeTx(g.nonce(n.Keys.ID), g.fee(g.nodeGas(n)), sn)
		gt := g.finish(n.Keys.ID, tx, n.Name)
		gt.Intent = "bad-expiration"
		return gt
	}
}

// MkIdentityAsSubKey re-registers the first registered node of the scenario with the IDENTITY
// key of the second one as its P2P key (start-up witness of the listed C17 finding: the
// registry checks sub-keys against other nodes' sub-keys only).
func (g *TxGen) MkIdentityAsSubKey() *GenTx {
	var regd []*SimNode
	for _, n := range g.h.Sc.AllNodes() {
		if g.view().Nodes[n.Keys.ID.PK] != nil {
			regd = append(regd, n)
		}
	}
	if len(regd) < 2 {
		return nil
	}
	n, o := regd[0], regd[1]
	old := n.Keys
	nk := n.Keys
	nk.P2P = o.Keys.ID
	n.Keys = nk
	nd := NodeDescriptor(n, beacon.EpochTime(g.view().Epoch+2))
	sn := signNode(NodeSigners(n), nd)
	n.Keys = old
	tx := registry.NewRegisterNodeTx(g.nonce(n.Keys.ID), g.feeSure(g.nodeGas(n)+4000), sn)
	gt := g.finish(n.Keys.ID, tx, n.Name+" takes the identity key of "+o.Name+" as its P2P key")
	gt.Intent = "duplicate-subkey"
	gt.OnSuccess = func() { n.Keys = nk; n.Desc = nd }
	return gt
}

func (g *TxGen) mkUnfreeze() *GenTx {
	nodes := g.h.Sc.AllNodes()
	n := nodes[g.rng.IntN(len(nodes))]
	// Prefer frozen nodes.
	for _, c := range nodes {
		if s := g.view().NodeStatus[c.Keys.ID.PK]; s != nil && s.IsFrozen() && g.rng.IntN(2) == 0 {
			n = c
			break
		}
	}
	s := n.Entity.Account
	if g.rng.IntN(6) == 0 {
		s = g.pickSigner()
	}
	tx := registry.NewUnfreezeNodeTx(g.nonce(s), g.fee(1000), &registry.UnfreezeNode{NodeID: n.Keys.ID.PK})
	return g.finish(s, tx, n.Name)
}

func (g *TxGen) mkProposal() *GenTx {
	a := g.pickSigner()
	var pc governance.ProposalContent
	kind := g.rng.IntN(5)
	lowLimits := false
	if g.h.Sc.IdleOwner != nil && g.h.Sc.Seed%4 == 0 && g.h.Sc.Runtime != nil && g.rng.IntN(2) == 0 {
		// Scenarios in which nodes sign up for the idle owner's SUSPENDED runtime (limits 4 / 4): the
		// roothash limits move below what that runtime declares, so its resumption meets them.
		kind, lowLimits = 4, true
	}
	switch kind {
	case 4:
		// Roothash parameter change: the limits a runtime descriptor is validated against move below or
		// above what registered runtimes declare (registered runtimes keep their values; later
		// registrations, updates and resumptions meet the new limits).
		if g.h.Sc.Runtime == nil {
			vp := beacon.EpochTime(1 + g.rng.IntN(3))
			ch := governance.ConsensusParameterChanges{VotingPeriod: &vp}
			pc.ChangeParameters = &governance.ChangeParametersProposal{Module: governance.ModuleName, Changes: cbor.Marshal(ch)}
			break
		}
		var ch roothash.ConsensusParameterChanges
		m := []uint32{2, 4, 6, 16, 32, 40}[g.rng.IntN(6)]
		im := []uint32{0, 2, 4, 8, 32}[g.rng.IntN(5)]
		if lowLimits {
			m, im = uint32(2+g.rng.IntN(2)), uint32(g.rng.IntN(4))
		}
		switch g.rng.IntN(3) {
		case 0:
			ch.MaxRuntimeMessages = &m
		case 1:
			ch.MaxInRuntimeMessages = &im
		default:
			ch.MaxRuntimeMessages, ch.MaxInRuntimeMessages = &m, &im
		}
		pc.ChangeParameters = &governance.ChangeParametersProposal{Module: roothash.ModuleName, Changes: cbor.Marshal(ch)}
	case 0:
		// Staking parameter change.
		v := q(uint64(g.rng.IntN(30)))
		ch := staking.ConsensusParameterChanges{MinTransferAmount: &v}
		if g.rng.IntN(2) == 0 {
			d := beacon.EpochTime(1 + g.rng.IntN(3))
			ch.DebondingInterval = &d
		}
		pc.ChangeParameters = &governance.ChangeParametersProposal{Module: staking.ModuleName, Changes: cbor.Marshal(ch)}
	case 1:
		// Governance parameter change.
		vp := beacon.EpochTime(1 + g.rng.IntN(3))
		ch := governance.ConsensusParameterChanges{VotingPeriod: &vp}
		if g.rng.IntN(2) == 0 {
			// The deposit asked of later proposals moves while earlier proposals, which deposited the old
			// amount, are still open.
			dep := q([]uint64{0, 50, 100, 150, 300}[g.rng.IntN(5)])
			ch = governance.ConsensusParameterChanges{MinProposalDeposit: &dep}
			if g.rng.IntN(2) == 0 {
				ch.VotingPeriod = &vp
			}
		}
		pc.ChangeParameters = &governance.ChangeParametersProposal{Module: governance.ModuleName, Changes: cbor.Marshal(ch)}
	case 2:
		ep := beacon.EpochTime(g.view().Epoch + 300 + uint64(g.rng.IntN(50)))
		pc.Upgrade = &governance.UpgradeProposal{Descriptor: upgrade.Descriptor{
			Versioned: cbor.NewVersioned(upgrade.LatestDescriptorVersion),
			Handler:   "verif-nonexistent-handler",
			Target:    upgradeTarget(),
			Epoch:     ep,
		}}
	case 3:
		pc.CancelUpgrade = &governance.CancelUpgradeProposal{ProposalID: uint64(g.rng.IntN(4))}
	}
	switch g.rng.IntN(10) {
	case 0:
		pc.Metadata = &governance.ProposalMetadata{Title: "t", Description: "d"}
	case 1:
	default:
		pc.Metadata = &governance.ProposalMetadata{Title: "verif proposal", Description: "d"}
	}
	tx := governance.NewSubmitProposalTx(g.nonce(a), g.fee(1000), &pc)
	return g.finish(a, tx, "")
}

func (g *TxGen) mkVote() *GenTx {
	sc := g.h.Sc
	a := sc.Entities[g.rng.IntN(len(sc.Entities))].Account
	if g.rng.IntN(4) == 0 {
		a = g.pickSigner()
	}
	id := uint64(g.rng.IntN(3))
	var active []uint64
	for _, p := range g.view().Proposals {
		if p.State == governance.StateActive {
			active = append(active, p.ID)
		}
	}
	if len(active) > 0 && g.rng.IntN(8) != 0 {
		id = active[g.rng.IntN(len(active))]
	}
	vote := []governance.Vote{governance.VoteYes, governance.VoteYes, governance.VoteYes, governance.VoteNo, governance.VoteAbstain, governance.Vote(9)}[g.rng.IntN(6)]
	tx := governance.NewCastVoteTx(g.nonce(a), g.fee(1000), &governance.ProposalVote{ID: id, Vote: vote})
	return g.finish(a, tx, "")
}

func (g *TxGen) mkFreshness() *GenTx {
	nodes := g.h.Sc.AllNodes()
	n := nodes[g.rng.IntN(len(nodes))]
	var blob [32]byte
	for i := range blob {
		blob[i] = byte(g.rng.Uint32())
	}
	tx := registry.NewProveFreshnessTx(g.nonce(n.Keys.ID), g.fee(1000), blob)
	return g.finish(n.Keys.ID, tx, "")
}

func (g *TxGen) mkGarbage() *GenTx {
	n := g.rng.IntN(200)
	b := make([]byte, n)
	for i := range b {
		b[i] = byte(g.rng.Uint32())
	}
	return &GenTx{Raw: b, Method: "garbage", Intent: "garbage"}
}

func (g *TxGen) mkReplay() *GenTx {
	if len(g.past) == 0 {
		return g.mkTransfer()
	}
	p := g.past[g.rng.IntN(len(g.past))]
	c := *p
	c.Intent = "replay"
	c.OnSuccess = nil
	return &c
}

// --- invalidation ------------------------------------------------------------

// spoil makes a valid transaction invalid in exactly one respect.
func (g *TxGen) spoil(gt *GenTx) *GenTx {
	if gt.Tx == nil || gt.Signer == nil || gt.Intent != "valid" {
		return gt
	}
	tx := *gt.Tx
	out := &GenTx{Signer: gt.Signer, Method: gt.Method, Note: gt.Note}
	switch g.rng.IntN(9) {
	case 0:
		tx.Nonce++
		out.Intent = "nonce-gap"
	case 1:
		if tx.Nonce == 0 {
			tx.Nonce = 1 << 40
		} else {
			tx.Nonce--
		}
		out.Intent = "nonce-old"
	case 2:
		// corrupt the signature
		raw := g.sign(gt.Signer, &tx)
		var st transaction.SignedTransaction
		_ = cbor.Unmarshal(raw, &st)
		st.Signature.Signature[g.rng.IntN(64)] ^= 1 << uint(g.rng.IntN(8))
		out.Raw = cbor.Marshal(st)
		out.Tx = &tx
		out.Intent = "bad-signature"
		return out
	case 3:
		// gas limit too low: any value below what a successful execution needs
		f := transaction.Fee{}
		if tx.Fee != nil {
			f = *tx.Fee
		}
		f.Gas = transaction.Gas(g.rng.IntN(1200))
		tx.Fee = &f
		out.Intent = "gas-too-low"
	case 4:
		// fee higher than the balance
		f := transaction.Fee{Gas: 100000}
		bal := g.view().Account(gt.Signer.Addr).General.Balance.ToBigInt()
		f.Amount = bigQ(new(big.Int).Add(bal, big.NewInt(int64(1+g.rng.IntN(5)))))
		tx.Fee = &f
		out.Intent = "fee-unaffordable"
	case 5:
		// malformed body
		if len(tx.Body) > 1 {
			tx.Body = tx.Body[:g.rng.IntN(len(tx.Body))]
		} else {
			tx.Body = []byte{0xff}
		}
		out.Intent = "malformed-body"
	case 6:
		tx.Method = transaction.MethodName("staking.NoSuchMethod")
		out.Intent = "unknown-method"
	case 7:
		// signed under the wrong (no chain separation) context: raw forge
		out.Raw = ForgeSignedTx(gt.Signer, &tx, string(transaction.SignatureContext))
		out.Tx = &tx
		out.Intent = "wrong-context"
		return out
	case 8:
		// body of another method
		tx.Body = cbor.Marshal(map[string]int{"x": 1})
		out.Intent = "malformed-body"
	}
	out.Tx = &tx
	out.Raw = g.sign(gt.Signer, &tx)
	return out
}

// Next generates the user transactions of the next block.
func (g *TxGen) Next(height int64) []*GenTx {
	g.pending = map[staking.Address]uint64{}
	var out []*GenTx
	add := func(gt *GenTx) {
		if gt == nil {
			return
		}
		out = append(out, gt)
		if gt.Signer != nil && gt.Tx != nil && (gt.Intent == "valid" || gt.Intent == "gas-too-low" || gt.Intent == "malformed-body" ||
			gt.Intent == "wrong-tx-signer" || gt.Intent == "missing-signature" || gt.Intent == "extra-signature" ||
			gt.Intent == "duplicate-subkey" || gt.Intent == "bad-expiration" || gt.Intent == "forbidden-update" || gt.Intent == "former-owner-update" ||
			strings.HasPrefix(gt.Intent, "rt:") || strings.HasPrefix(gt.Intent, "km:") || strings.HasPrefix(gt.Intent, "vrf:") || strings.HasPrefix(gt.Intent, "post:")) && gt.Tx.Nonce == g.nonce(gt.Signer) { // runtime / key manager support: "rt:" and "km:" intents fail after authentication
			g.bump(gt.Signer)
		}
	}

	if g.h.Sc.KM != nil { // key manager support: the init responses of this block follow the committed status
		g.kmDriver().begin(height)
	}

	add(g.idleOwnerTx(height)) // idleowner.go (no PRNG draw)

	// Maintenance: keep validator nodes registered (the documented election precondition).
	v := g.view()
	for _, n := range g.h.Sc.AllNodes() {
		cur := v.Nodes[n.Keys.ID.PK]
		switch {
		case cur != nil:
			if uint64(cur.Expiration) <= v.Epoch+1 {
				lazy := g.h.Cfg.Profile == "election" || g.h.Cfg.Profile == "registry" || g.h.Cfg.Profile == "hostile"
				if lazy && !n.InGenesis && g.rng.IntN(3) == 0 {
					continue // let some non-genesis nodes expire
				}
				if lazy && n.InGenesis && n.Entity != g.h.Sc.Entities[0] && n.Entity != g.h.Sc.Entities[1] && g.rng.IntN(6) == 0 {
					continue
				}
				// runtime support: some compute-only nodes are allowed to expire.
				if n.IsCompute() && n.Roles&node.RoleValidator == 0 && (g.rng.IntN(10) == 0 || (g.h.Cfg.Profile == "runtime" && g.rng.IntN(4) == 0)) {
					continue
				}
				// key manager support: now and then a key manager node is allowed to expire.
				if n.IsKeyManager() && n.Roles&node.RoleValidator == 0 && g.rng.IntN(12) == 0 {
					continue
				}
				add(g.renewNode(n, 0))
			}
		case !n.InGenesis && v.Entities[n.Entity.PK] != nil && g.rng.IntN(6) == 0:
			// Register an additional node of a registered entity.
			add(g.renewNode(n, 1))
		}
	}
	// Entities not in genesis: make them eligible by giving them stake and registering.
	for _, e := range g.h.Sc.Entities {
		if e.InGenesis || v.Entities[e.PK] != nil || g.rng.IntN(5) != 0 {
			continue
		}
		acct := v.Account(e.Addr)
		if acct.Escrow.Active.Balance.IsZero() {
			tx := staking.NewAddEscrowTx(g.nonce(e.Account), g.fee(12), &staking.Escrow{Account: e.Addr, Amount: q(uint64(5000 + 1000*g.rng.IntN(8)))})
			add(g.finish(e.Account, tx, "bootstrap stake"))
			continue
		}
		ed := EntityDescriptor(e, e.Nodes)
		se, err := entity.SignEntity(e.Signer, registry.RegisterEntitySignatureContext, ed)
		if err != nil {
			panic(err)
		}
		tx := registry.NewRegisterEntityTx(g.nonce(e.Account), g.fee(1000+1000*uint64(len(ed.Nodes))), se)
		add(g.finish(e.Account, tx, "bootstrap entity"))
	}

	// runtime support: the commitments that drive the runtime's rounds.
	if g.h.Sc.Runtime != nil {
		for _, gt := range g.runtimeDriver().txs(height) {
			add(gt)
		}
	}

	// key manager support: re-registrations that follow the status, secrets, applications and confirmations.
	if g.h.Sc.KM != nil {
		for _, gt := range g.kmDriver().txs() {
			add(gt)
		}
	}

	// VRF beacon support: the proofs of this block and their invalid variants.
	if g.h.Sc.IsVRF() {
		for _, gt := range g.vrfDriver().txs(height) {
			add(gt)
		}
	}

	total := 0
	for _, m := range g.makers {
		total += m.weight
	}
	n := g.rng.IntN(9)
	if height <= 1 {
		n = g.rng.IntN(3)
	}
	for i := 0; i < n; i++ {
		x := g.rng.IntN(total)
		var mk maker
		for _, m := range g.makers {
			if x < m.weight {
				mk = m
				break
			}
			x -= m.weight
		}
		gt := mk.f(g)
		if gt == nil {
			continue
		}
		if g.rng.IntN(5) == 0 {
			gt = g.spoil(gt)
		}
		add(gt)
	}
	// Shuffle lightly: swap two random transactions sometimes (reordering of nonces).
	if len(out) > 2 && g.rng.IntN(6) == 0 {
		i, j := g.rng.IntN(len(out)), g.rng.IntN(len(out))
		out[i], out[j] = out[j], out[i]
	}
	// While the runtime is suspended, descriptor updates (by the owner and by others) are frequent.
	if g.h.Sc.Runtime != nil && g.rng.IntN(3) == 0 && g.runtimeSuspended() {
		add(g.mkRegisterRuntime())
	}
	// Debonding storm: every delegator of one escrow account (the account itself included)
	// reclaims in the same block, so several debonding delegations of one pool complete in the
	// same epoch transition.
	if len(g.h.Sc.Entities) > 2 && g.rng.IntN(10) == 0 {
		v := g.h.Sc.Entities[2+g.rng.IntN(len(g.h.Sc.Entities)-2)]
		for _, a := range g.h.Sc.Signers {
			for _, d := range g.h.delegationsOf(a.Addr) {
				if d.escrow != v.Addr || d.shares.IsZero() || g.rng.IntN(5) == 0 {
					continue
				}
				sh := d.shares
				if g.rng.IntN(2) == 0 {
					sh = g.amount(&d.shares)
				}
				tx := staking.NewReclaimEscrowTx(g.nonce(a), g.feeSure(2000), &staking.ReclaimEscrow{Account: v.Addr, Shares: sh})
				add(g.finish(a, tx, "debond-storm"))
			}
		}
	}
	// Governance storm: two proposals submitted in the same block (they close on the same
	// epoch boundary), and, while proposals are active, blocks in which every entity votes on
	// every active proposal (turnout of each proposal close to the whole voting stake).
	if g.rng.IntN(14) == 0 {
		add(g.mkProposal())
		add(g.mkProposal())
	}
	var active []uint64
	for _, p := range g.view().Proposals {
		if p.State == governance.StateActive {
			active = append(active, p.ID)
		}
	}
	if len(active) > 0 && g.rng.IntN(4) == 0 {
		sort.Slice(active, func(i, j int) bool { return active[i] < active[j] })
		for _, e := range g.h.Sc.Entities {
			for _, id := range active {
				vote := []governance.Vote{governance.VoteYes, governance.VoteYes, governance.VoteNo, governance.VoteAbstain}[g.rng.IntN(4)]
				tx := governance.NewCastVoteTx(g.nonce(e.Account), g.feeSure(2000), &governance.ProposalVote{ID: id, Vote: vote})
				add(g.finish(e.Account, tx, "vote-storm"))
			}
		}
	}
	if g.Extra != nil {
		out = append(out, g.Extra(g, height, out)...)
	}
	g.current = out
	return out
}

// Observe records results of the generated transactions of a block.
func (g *TxGen) Observe(gtxs []*GenTx, res *BlockResult) {
	for i, gt := range gtxs {
		if i >= len(res.Txs) {
			break
		}
		r := res.Txs[i]
		outcome := "fail"
		if r.Code == types.CodeTypeOK {
			outcome = "ok"
			if gt.OnSuccess != nil {
				gt.OnSuccess()
			}
			if strings.Contains(gt.Note, "key-rotation") {
				g.Notes["key-rotation"]++
			}
		}
		g.Stats[fmt.Sprintf("%s/%s/%s", gt.Method, gt.Intent, outcome)]++
		if outcome == "fail" && gt.Intent == "valid" {
			l := r.Log
			if len(l) > 90 {
				l = l[:90]
			}
			g.FailLogs[gt.Method+": "+l]++
		}
		if gt.Signer != nil && len(g.past) < 400 {
			g.past = append(g.past, gt)
		}
	}
}
