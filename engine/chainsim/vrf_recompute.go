package chainsim

// VRF beacon support: independent recomputation of an executor committee under
// the VRF backend, written from the definitions (cryptographic sortition by the
// TupleHash of each candidate's VRF output), not by calling the scheduler.
//
// Definitions used (scheduler application, VRF mode, weak alphas not allowed):
//   - candidates: registered nodes in registry order that are not frozen, not
//     expired at the epoch, election-eligible at the epoch (status), whose
//     entity's escrow covers its claims, that are suitable executor workers of
//     the runtime (compute role, registered for the active deployment version,
//     not suspended for the runtime, no TEE capability for a non-TEE runtime)
//     and that have a proof in the previous epoch's proof map; for a role with a
//     validator-set constraint the entity must have an elected validator;
//   - per role (workers first, then backup workers; a role of size 0 is
//     skipped): with a per-entity maximum L > 0 the candidates are ordered by
//     H_dedup(beta) and at most L per entity are kept, in that order; fewer
//     candidates than the minimum pool size or than the role size: no committee;
//     the candidates are ordered by H_committee(beta) and the first <size> are
//     taken; meeting an entity that already has its maximum while taking: no
//     committee;
//   - H_x(beta) = TupleHash256(customisation x; chain context, epoch (8 bytes
//     big endian), runtime ID, kind byte, role byte, beta), 32 bytes, compared
//     as byte strings; x = "oasis-core:vrf/committee" / "oasis-core:vrf/dedup".

import (
	"bytes"
	"context"
	"encoding/binary"
	"fmt"
	"math/big"
	"sort"

	"github.com/oasisprotocol/curve25519-voi/primitives/ed25519/extra/ecvrf"

	beacon "github.com/oasisprotocol/oasis-core/go/beacon/api"
	"github.com/oasisprotocol/oasis-core/go/common/crypto/signature"
	"github.com/oasisprotocol/oasis-core/go/common/crypto/tuplehash"
	"github.com/oasisprotocol/oasis-core/go/common/node"
	cmt "github.com/oasisprotocol/oasis-core/go/consensus/cometbft/api"
	registryState "github.com/oasisprotocol/oasis-core/go/consensus/cometbft/apps/registry/state"
	schedulerState "github.com/oasisprotocol/oasis-core/go/consensus/cometbft/apps/scheduler/state"
	registry "github.com/oasisprotocol/oasis-core/go/registry/api"
	scheduler "github.com/oasisprotocol/oasis-core/go/scheduler/api"
	staking "github.com/oasisprotocol/oasis-core/go/staking/api"
	"github.com/oasisprotocol/oasis-core/go/storage/mkvs"
)

func vrfHashedBeta(custom string, chainContext []byte, epoch beacon.EpochTime, rt *registry.Runtime, kind scheduler.CommitteeKind, role scheduler.Role, beta []byte) []byte {
	h := tuplehash.New256(32, []byte(custom))
	_, _ = h.Write(chainContext)
	var e [8]byte
	binary.BigEndian.PutUint64(e[:], uint64(epoch))
	_, _ = h.Write(e[:])
	_, _ = h.Write(rt.ID[:])
	_, _ = h.Write([]byte{byte(kind)})
	_, _ = h.Write([]byte{byte(role)})
	_, _ = h.Write(beta)
	return h.Sum(nil)
}

type vrfCand struct {
	n   *node.Node
	key []byte
}

func (m *VRFMonitor) recompute(h *History, ctx *cmt.Context, pre mkvs.KeyValueTree, rt *registry.Runtime, got *scheduler.Committee, epoch beacon.EpochTime, prevState *beacon.PrevVRFState, sp *scheduler.ConsensusParameters, detail map[string]any) {
	bg := context.Background()
	skip := func() { m.RecomputeSkipped++ }
	if sp.DebugBypassStake || sp.DebugForceElect != nil || rt.TEEHardware != node.TEEHardwareInvalid {
		skip()
		return
	}
	rs := registryState.NewImmutableState(pre)
	nodes, err := rs.Nodes(bg)
	if err != nil {
		skip()
		return
	}
	stp, err := stakingParams(pre)
	if err != nil {
		skip()
		return
	}
	var dump []KV
	{
		it := pre.NewIterator(bg)
		for it.Rewind(); it.Valid(); it.Next() {
			dump = append(dump, KV{append([]byte(nil), it.Key()...), append([]byte(nil), it.Value()...)})
		}
		it.Close()
	}
	stake := ParseStake(dump)
	stakeOK := func(a staking.Address) bool {
		acct := stake.Accounts[a]
		if acct == nil {
			acct = &staking.Account{}
		}
		total := new(big.Int)
		for _, ths := range acct.Escrow.StakeAccumulator.Claims {
			for _, t := range ths {
				switch {
				case t.Global != nil:
					q, ok := stp.Thresholds[*t.Global]
					if !ok {
						return false
					}
					total.Add(total, q.ToBigInt())
				case t.Constant != nil:
					total.Add(total, t.Constant.ToBigInt())
				}
			}
		}
		return acct.Escrow.Active.Balance.ToBigInt().Cmp(total) >= 0
	}
	pend, err := schedulerState.NewImmutableState(ctx.State()).PendingValidators(ctx)
	if err != nil {
		skip()
		return
	}
	valEntities := map[signature.PublicKey]bool{}
	for _, v := range pend {
		valEntities[v.EntityID] = true
	}
	active := activeDeployment(rt, epoch)
	chainCtx := []byte(h.Sc.Doc.ChainContext())
	kind := scheduler.KindComputeExecutor
	cons := rt.Constraints[kind]
	sizes := map[scheduler.Role]int{scheduler.RoleWorker: int(rt.Executor.GroupSize), scheduler.RoleBackupWorker: int(rt.Executor.GroupBackupSize)}

	var want []*scheduler.CommitteeNode
	none := false
	if sizes[scheduler.RoleWorker] == 0 {
		none = true
	}
	var base []*node.Node
	betas := map[signature.PublicKey][]byte{}
	for _, n := range nodes {
		st, err := rs.NodeStatus(bg, n.ID)
		if err != nil {
			skip()
			return
		}
		if !st.IsEligibleForElection(epoch) {
			continue
		}
		if committeeEligibility(n, st, rt, active, epoch, stakeOK) != "" {
			continue
		}
		p := prevState.Pi[n.ID]
		if p == nil {
			continue
		}
		beta, err := ecvrf.ProofToHash(p.Proof[:])
		if err != nil {
			skip()
			return
		}
		betas[n.ID] = beta
		base = append(base, n)
	}
	order := func(custom string, role scheduler.Role, in []*node.Node) []*node.Node {
		var cs []vrfCand
		seen := map[string]bool{}
		for _, n := range in {
			k := vrfHashedBeta(custom, chainCtx, epoch, rt, kind, role, betas[n.ID])
			if seen[string(k)] {
				continue // colliding digests: the first one wins
			}
			seen[string(k)] = true
			cs = append(cs, vrfCand{n, k})
		}
		sort.SliceStable(cs, func(i, j int) bool { return bytes.Compare(cs[i].key, cs[j].key) < 0 })
		out := make([]*node.Node, 0, len(cs))
		for _, c := range cs {
			out = append(out, c.n)
		}
		return out
	}
	for _, role := range []scheduler.Role{scheduler.RoleWorker, scheduler.RoleBackupWorker} {
		if none {
			break
		}
		if sizes[role] == 0 {
			continue
		}
		var pool []*node.Node
		for _, n := range base {
			if cons[role].ValidatorSet != nil && !valEntities[n.EntityID] {
				continue
			}
			pool = append(pool, n)
		}
		if mn := cons[role].MaxNodes; mn != nil && mn.Limit > 0 {
			per := map[signature.PublicKey]int{}
			var kept []*node.Node
			for _, n := range order("oasis-core:vrf/dedup", role, pool) {
				if per[n.EntityID] >= int(mn.Limit) {
					continue
				}
				per[n.EntityID]++
				kept = append(kept, n)
			}
			pool = kept
		}
		minPool := 0
		if mp := cons[role].MinPoolSize; mp != nil {
			minPool = int(mp.Limit)
		}
		if len(pool) < minPool || len(pool) < sizes[role] {
			none = true
			break
		}
		per := map[signature.PublicKey]int{}
		var elected []*scheduler.CommitteeNode
		for _, n := range order("oasis-core:vrf/committee", role, pool) {
			if len(elected) >= sizes[role] {
				break
			}
			if mn := cons[role].MaxNodes; mn != nil {
				if per[n.EntityID] >= int(mn.Limit) {
					none = true
					break
				}
				per[n.EntityID]++
			}
			elected = append(elected, &scheduler.CommitteeNode{Role: role, PublicKey: n.ID})
		}
		if none || len(elected) != sizes[role] {
			none = true
			break
		}
		want = append(want, elected...)
	}
	if none {
		want = nil
	}
	show := func(ms []*scheduler.CommitteeNode) string {
		s := ""
		for _, x := range ms {
			s += fmt.Sprintf("%d:%s ", x.Role, x.PublicKey)
		}
		return s
	}
	var have []*scheduler.CommitteeNode
	if got != nil {
		have = got.Members
	}
	same := len(have) == len(want)
	for i := 0; same && i < len(have); i++ {
		if have[i] == nil || have[i].Role != want[i].Role || have[i].PublicKey != want[i].PublicKey {
			same = false
		}
	}
	if same {
		m.RecomputedEqual++
		return
	}
	d := map[string]any{"elected": show(have), "recomputed": show(want)}
	for k, v := range detail {
		d[k] = v
	}
	m.viol(h, ctx.CurrentHeight(), "committee-differs-from-recomputation", fmt.Sprintf("the executor committee of %s for epoch %d is not the one the hashed-beta sortition over the stored proofs yields: elected [%s], recomputed [%s]", rt.ID, epoch, show(have), show(want)), d)
}
