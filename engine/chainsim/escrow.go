package chainsim

import (
	"context"
	"fmt"
	"math/big"
	"strings"

	cmt "github.com/oasisprotocol/oasis-core/go/consensus/cometbft/api"
	staking "github.com/oasisprotocol/oasis-core/go/staking/api"
)

// EscrowMonitor is the chain-level (level 2) monitor of C15.
type EscrowMonitor struct {
	BaseMonitor
	Rep Reporter

	// pending reclaimed delegations: key (owner, escrow, end epoch) -> debonding shares
	pending map[string]*pendingDebond
	// committed price per escrow account at the previous block boundary
	prev      *StakeSnap
	epochSeen uint64
	// intervalSeen is the debonding interval after the previous block.
	intervalSeen  uint64
	intervalKnown bool

	// Stats
	TxChecked, PairsChecked, Reclaims, Payments, Slashes, SlashFractionChecks, PriceDrops int
}

type pendingDebond struct {
	Owner, Escrow staking.Address
	End           uint64
	Shares        *big.Int
	StartedAt     int64
}

func pkey(o, e staking.Address, end uint64) string { return fmt.Sprintf("%s|%s|%d", o, e, end) }

func redeemable(shares, balance, total *big.Int) *big.Int {
	if total.Sign() == 0 {
		return new(big.Int)
	}
	v := new(big.Int).Mul(shares, balance)
	return v.Quo(v, total)
}

// OnTx: no other delegator's redeemable value falls through somebody's transaction.
func (m *EscrowMonitor) OnTx(h *History, o *TxObs) {
	if len(o.Diff) == 0 {
		return
	}
	d := DecodeTx(o.Raw, h.Sc.Doc.ChainContext())
	if !d.EnvelopeOK {
		return
	}
	signer := staking.NewAddress(d.Signer)
	pre, post := ParseStake(o.Pre), ParseStake(o.Post)
	m.TxChecked++
	method := "?"
	if d.TxOK {
		method = string(d.Tx.Method)
	}
	// runtime support: a successful transaction may itself slash (roothash equivocation evidence);
	// the price of the slashed pools falls legitimately, by the same fraction in both pools.
	slashedByTx := map[staking.Address]bool{}
	if o.Err == nil {
		for _, ev := range StakingEvents(o.Height, o.Events) {
			if ev.Escrow == nil || ev.Escrow.Take == nil {
				continue
			}
			t := ev.Escrow.Take
			slashedByTx[t.Owner] = true
			if acct := pre.Accounts[t.Owner]; acct != nil {
				a, d := acct.Escrow.Active.Balance.ToBigInt(), acct.Escrow.Debonding.Balance.ToBigInt()
				sd := t.DebondingAmount.ToBigInt()
				sa := new(big.Int).Sub(t.Amount.ToBigInt(), sd)
				lhs := new(big.Int).Sub(new(big.Int).Mul(sa, d), new(big.Int).Mul(sd, a))
				lhs.Abs(lhs)
				bound := a
				if d.Cmp(a) > 0 {
					bound = d
				}
				m.SlashFractionChecks++
				if sa.Cmp(a) > 0 || sd.Cmp(d) > 0 || (lhs.Cmp(bound) >= 0 && bound.Sign() > 0) {
					w := txWitness(h, o)
					m.Rep.Violation("c15/l2/slash-takes-different-fractions/"+method, fmt.Sprintf("slash of %s by a transaction took %s of active balance %s and %s of debonding balance %s", t.Owner, sa, a, sd, d), w)
				}
			}
		}
	}
	m.priceCheck(h, "tx/"+method, o.Height, pre, post, slashedByTx, txWitness(h, o))
	for esc, dels := range pre.Deleg {
		pa, qa := pre.Accounts[esc], post.Accounts[esc]
		if pa == nil || qa == nil || slashedByTx[esc] {
			continue
		}
		for del, sh := range dels {
			if del == signer {
				continue
			}
			m.PairsChecked++
			before := redeemable(sh, pa.Escrow.Active.Balance.ToBigInt(), pa.Escrow.Active.TotalShares.ToBigInt())
			psh := post.Deleg[esc][del]
			if psh == nil {
				psh = new(big.Int)
			}
			after := redeemable(psh, qa.Escrow.Active.Balance.ToBigInt(), qa.Escrow.Active.TotalShares.ToBigInt())
			if after.Cmp(before) < 0 {
				w := txWitness(h, o)
				w["escrow"], w["delegator"] = esc.String(), del.String()
				m.Rep.Violation("c15/l2/other-delegators-active-value-fell/"+method, fmt.Sprintf("redeemable active value of delegator %s in pool %s fell from %s to %s through a transaction signed by %s", del, esc, before, after, signer), w)
			}
		}
	}
	for esc, dels := range pre.Debond {
		pa, qa := pre.Accounts[esc], post.Accounts[esc]
		if pa == nil || qa == nil || slashedByTx[esc] {
			continue
		}
		for del, list := range dels {
			if del == signer {
				continue
			}
			sh := new(big.Int)
			for _, e := range list {
				sh.Add(sh, e.Shares)
			}
			psh := new(big.Int)
			for _, e := range post.Debond[esc][del] {
				psh.Add(psh, e.Shares)
			}
			before := redeemable(sh, pa.Escrow.Debonding.Balance.ToBigInt(), pa.Escrow.Debonding.TotalShares.ToBigInt())
			after := redeemable(psh, qa.Escrow.Debonding.Balance.ToBigInt(), qa.Escrow.Debonding.TotalShares.ToBigInt())
			// Nothing but rounding can raise it either: the debonding pool earns no rewards, so what one
			// delegator's claim gains through another account's transaction was taken from that account
			// (shares minted below the pool's price). Rounding moves less than the worth of one share.
			if qs := qa.Escrow.Debonding.TotalShares.ToBigInt(); qs.Sign() > 0 {
				tol := new(big.Int).Div(qa.Escrow.Debonding.Balance.ToBigInt(), qs)
				tol.Add(tol, big.NewInt(2))
				if gain := new(big.Int).Sub(after, before); gain.Cmp(tol) > 0 {
					w := txWitness(h, o)
					w["escrow"], w["delegator"] = esc.String(), del.String()
					w["pool_before"] = fmt.Sprintf("balance %s shares %s", pa.Escrow.Debonding.Balance, pa.Escrow.Debonding.TotalShares)
					w["pool_after"] = fmt.Sprintf("balance %s shares %s", qa.Escrow.Debonding.Balance, qa.Escrow.Debonding.TotalShares)
					m.Rep.Violation("c15/l2/other-delegators-debonding-value-rose/"+method, fmt.Sprintf("redeemable debonding value of delegator %s in pool %s rose from %s to %s (more than the worth of one share) through a transaction signed by %s: shares were minted below the pool's price", del, esc, before, after, signer), w)
				}
			}
			if after.Cmp(before) < 0 {
				w := txWitness(h, o)
				w["escrow"], w["delegator"] = esc.String(), del.String()
				m.Rep.Violation("c15/l2/other-delegators-debonding-value-fell/"+method, fmt.Sprintf("redeemable debonding value of delegator %s in pool %s fell from %s to %s through a transaction signed by %s", del, esc, before, after, signer), w)
			}
		}
	}
}

// OnStep: slashing takes the same fraction from the active and debonding pools
// (checked on the staking application's BeginBlock, where evidence is processed);
// debonding payments are computed at the debonding pool's price (EndBlock).
func (m *EscrowMonitor) OnStep(h *History, s *StepObs, ctx *cmt.Context) {
	// Share price may fall in an application step only for accounts slashed in this block phase.
	taken := map[staking.Address]bool{}
	for _, ev := range StakingEvents(s.Height, ctx.GetEvents()) {
		if ev.Escrow != nil && ev.Escrow.Take != nil {
			taken[ev.Escrow.Take.Owner] = true
		}
	}
	m.priceCheck(h, s.Stage+"/"+s.App, s.Height, ParseStake(s.Pre), ParseStake(s.Post), taken, nil)
	if !strings.Contains(s.App, "staking") {
		return
	}
	switch s.Stage {
	case "beginblock":
		// Balances at the time of each slash are reconstructed backwards from the state after the
		// step (evidence is processed last in the staking application's BeginBlock, after fee
		// disbursement and the proposer reward, which may have changed the active balance).
		post := ParseStake(s.Post)
		type take struct{ sa, sd *big.Int }
		byOwner := map[staking.Address][]take{}
		var owners []staking.Address
		for _, ev := range StakingEvents(s.Height, ctx.GetEvents()) {
			if ev.Escrow == nil || ev.Escrow.Take == nil {
				continue
			}
			t := ev.Escrow.Take
			sd := t.DebondingAmount.ToBigInt()
			sa := new(big.Int).Sub(t.Amount.ToBigInt(), sd)
			if byOwner[t.Owner] == nil {
				owners = append(owners, t.Owner)
			}
			byOwner[t.Owner] = append(byOwner[t.Owner], take{sa, sd})
		}
		for _, o := range owners {
			acct := post.Accounts[o]
			if acct == nil {
				continue
			}
			a, d := acct.Escrow.Active.Balance.ToBigInt(), acct.Escrow.Debonding.Balance.ToBigInt()
			ts := byOwner[o]
			for i := len(ts) - 1; i >= 0; i-- {
				sa, sd := ts[i].sa, ts[i].sd
				a, d = new(big.Int).Add(a, sa), new(big.Int).Add(d, sd) // balances right before this slash
				// |sa*d - sd*a| < max(a, d): both pools lose the same fraction up to the rounding of one base unit each.
				lhs := new(big.Int).Sub(new(big.Int).Mul(sa, d), new(big.Int).Mul(sd, a))
				lhs.Abs(lhs)
				bound := a
				if d.Cmp(a) > 0 {
					bound = d
				}
				m.SlashFractionChecks++
				if sa.Sign() < 0 || (lhs.Cmp(bound) >= 0 && bound.Sign() > 0) {
					m.Rep.Violation("c15/l2/slash-takes-different-fractions", fmt.Sprintf("slash of %s took %s of active balance %s and %s of debonding balance %s", o, sa, a, sd, d), map[string]any{"height": s.Height, "params": h.Sc.P})
				}
			}
		}
	case "endblock":
		// Payments made in this step, at the debonding pool's price before the step.
		pre := ParseStake(s.Pre)
		bal := map[staking.Address][2]*big.Int{}
		for _, ev := range StakingEvents(s.Height, ctx.GetEvents()) {
			if ev.Escrow == nil || ev.Escrow.Reclaim == nil {
				continue
			}
			r := ev.Escrow.Reclaim
			cur, ok := bal[r.Escrow]
			if !ok {
				acct := pre.Accounts[r.Escrow]
				if acct == nil {
					continue
				}
				cur = [2]*big.Int{acct.Escrow.Debonding.Balance.ToBigInt(), acct.Escrow.Debonding.TotalShares.ToBigInt()}
			}
			want := redeemable(r.Shares.ToBigInt(), cur[0], cur[1])
			if want.Cmp(r.Amount.ToBigInt()) != 0 {
				m.Rep.Violation("c15/l2/debonding-paid-at-wrong-price", fmt.Sprintf("debonding of %s shares from pool %s (balance %s, shares %s) paid %s, pro rata is %s", r.Shares.ToBigInt(), r.Escrow, cur[0], cur[1], r.Amount.ToBigInt(), want), map[string]any{"height": s.Height, "params": h.Sc.P})
			}
			bal[r.Escrow] = [2]*big.Int{new(big.Int).Sub(cur[0], r.Amount.ToBigInt()), new(big.Int).Sub(cur[1], r.Shares.ToBigInt())}
		}
	}
}

// OnBlock: share price falls only with a TakeEscrow event; reclaimed
// delegations are paid exactly once, at the first epoch transition at or after
// their debonding end epoch, and not before.
func (m *EscrowMonitor) OnBlock(h *History, b *Block, txs []*GenTx, ref *BlockResult) {
	if m.pending == nil {
		m.pending = map[string]*pendingDebond{}
	}
	st, err := CommittedState(h.Ref, b.Height)
	if err != nil {
		panic(err)
	}
	snap := ParseStake(Dump(context.Background(), st))
	st.Close()
	evs := BlockStakingEvents(b.Height, ref)
	slashed := map[staking.Address]bool{}
	epoch := h.View.Epoch
	// The block following the initial height is, "for historic reasons" (abci/state.go EpochChanged),
	// never treated as an epoch transition by the applications, even if the beacon changes the epoch there.
	epochChanged := epoch != m.lastEpochSeen(h) && b.Height != h.Sc.Doc.Height+1
	for _, ev := range evs {
		if ev.Escrow == nil {
			continue
		}
		switch {
		case ev.Escrow.Take != nil:
			slashed[ev.Escrow.Take.Owner] = true
			m.Slashes++
		case ev.Escrow.DebondingStart != nil:
			ds := ev.Escrow.DebondingStart
			m.Reclaims++
			// The debonding end epoch is the epoch of the block executing the reclaim plus the
			// debonding interval in force (before or after this block's parameter changes).
			preI, postI := m.debondInterval(h), uint64(h.View.StakingP.DebondingInterval)
			if e := uint64(ds.DebondEndTime); e != epoch+preI && e != epoch+postI {
				m.Rep.Violation("c15/l2/debonding-end-epoch-wrong", fmt.Sprintf("reclaim by %s from %s executed in epoch %d with debonding interval %d records debonding end epoch %d", ds.Owner, ds.Escrow, epoch, preI, e),
					map[string]any{"height": b.Height, "params": h.Sc.P, "interval_before_block": preI, "interval_after_block": postI})
			}
			k := pkey(ds.Owner, ds.Escrow, uint64(ds.DebondEndTime))
			if p := m.pending[k]; p != nil {
				p.Shares.Add(p.Shares, ds.DebondingShares.ToBigInt())
			} else {
				m.pending[k] = &pendingDebond{Owner: ds.Owner, Escrow: ds.Escrow, End: uint64(ds.DebondEndTime), Shares: ds.DebondingShares.ToBigInt(), StartedAt: b.Height}
			}
		}
	}
	paid := map[string]bool{}
	for _, ev := range evs {
		if ev.Escrow == nil || ev.Escrow.Reclaim == nil {
			continue
		}
		r := ev.Escrow.Reclaim
		m.Payments++
		// Find the pending entry this payment belongs to (same owner, escrow, shares, matured).
		var match string
		for k, p := range m.pending {
			if p.Owner == r.Owner && p.Escrow == r.Escrow && p.Shares.Cmp(r.Shares.ToBigInt()) == 0 && !paid[k] && p.End <= epoch {
				if match == "" || p.End < m.pending[match].End {
					match = k
				}
			}
		}
		switch {
		case match == "":
			early := false
			for _, p := range m.pending {
				if p.Owner == r.Owner && p.Escrow == r.Escrow && p.End > epoch {
					early = true
				}
			}
			if early {
				m.Rep.Violation("c15/l2/debonding-paid-before-end-epoch", fmt.Sprintf("delegation of %s in %s was paid out (%s shares) at epoch %d before its debonding end epoch", r.Owner, r.Escrow, r.Shares.ToBigInt(), epoch), map[string]any{"height": b.Height, "params": h.Sc.P})
			} else {
				m.Rep.Violation("c15/l2/debonding-paid-without-pending-reclaim", fmt.Sprintf("payment of %s shares to %s from %s at epoch %d matches no outstanding reclaimed delegation (paid twice?)", r.Shares.ToBigInt(), r.Owner, r.Escrow, epoch), map[string]any{"height": b.Height, "params": h.Sc.P})
			}
		default:
			if !epochChanged {
				m.Rep.Violation("c15/l2/debonding-paid-outside-epoch-transition", fmt.Sprintf("payment to %s at height %d which is not an epoch transition block", r.Owner, b.Height), map[string]any{"height": b.Height, "params": h.Sc.P})
			}
			paid[match] = true
		}
	}
	for k := range paid {
		delete(m.pending, k)
	}
	if epochChanged {
		for _, p := range m.pending {
			if p.End <= epoch {
				m.Rep.Violation("c15/l2/matured-debonding-not-paid", fmt.Sprintf("delegation of %s in %s (%s debonding shares, end epoch %d, reclaimed at height %d) was not paid at the epoch transition to epoch %d", p.Owner, p.Escrow, p.Shares, p.End, p.StartedAt, epoch), map[string]any{"height": b.Height, "params": h.Sc.P})
			}
		}
		for k, p := range m.pending {
			if p.End <= epoch {
				delete(m.pending, k)
			}
		}
	}
	// "Paid out exactly once": a debonding delegation that was removed without its shares being
	// redeemed (or redeemed without being removed) leaves the pool's share total out of step
	// with the delegations that own it.
	for _, pr := range snap.CheckLedger(nil) {
		if pr.Kind == "debonding-shares-mismatch" || pr.Kind == "active-shares-mismatch" {
			m.Rep.Violation("c15/l2/"+pr.Kind, pr.Detail, map[string]any{"height": b.Height, "params": h.Sc.P})
		}
	}
	_ = slashed
	m.prev = snap
	m.epochSeen = epoch
	m.intervalSeen, m.intervalKnown = uint64(h.View.StakingP.DebondingInterval), true
}

// debondInterval returns the debonding interval in force before the current block.
func (m *EscrowMonitor) debondInterval(h *History) uint64 {
	if m.intervalKnown {
		return m.intervalSeen
	}
	return uint64(h.Sc.Doc.Staking.Parameters.DebondingInterval)
}

func (m *EscrowMonitor) lastEpochSeen(h *History) uint64 { return m.epochSeen }

// priceCheck reports pools whose share price fell between two consecutive
// observed states although no TakeEscrow event for the account was emitted in between.
func (m *EscrowMonitor) priceCheck(h *History, where string, height int64, pre, post *StakeSnap, taken map[staking.Address]bool, w map[string]any) {
	for _, a := range post.SortedAccounts() {
		pa, qa := pre.Accounts[a], post.Accounts[a]
		if pa == nil {
			continue
		}
		for i, pools := range [][2]staking.SharePool{{pa.Escrow.Active, qa.Escrow.Active}, {pa.Escrow.Debonding, qa.Escrow.Debonding}} {
			pb, ps := pools[0].Balance.ToBigInt(), pools[0].TotalShares.ToBigInt()
			qb, qs := pools[1].Balance.ToBigInt(), pools[1].TotalShares.ToBigInt()
			if ps.Sign() == 0 || qs.Sign() == 0 {
				continue // price undefined on one side (pool emptied or just created)
			}
			if new(big.Int).Mul(qb, ps).Cmp(new(big.Int).Mul(pb, qs)) < 0 {
				m.PriceDrops++
				if !taken[a] {
					pool := []string{"active", "debonding"}[i]
					ww := map[string]any{"height": height, "params": h.Sc.P}
					for k, v := range w {
						ww[k] = v
					}
					m.Rep.Violation("c15/l2/share-price-fell-without-slash/"+pool+"/"+where, fmt.Sprintf("%s pool of %s: price fell from %s/%s to %s/%s (%s, height %d) without a TakeEscrow event", pool, a, pb, ps, qb, qs, where, height), ww)
				}
			}
		}
	}
}
