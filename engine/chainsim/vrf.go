package chainsim

// VRF beacon support: the production beacon backend (beacon.BackendVRF) as an
// additive scenario part. Only the profile "vrf" (and VRFMode "on") switches
// the genesis document to the VRF backend; every other profile keeps the
// insecure backend and draws exactly the PRNG values it drew before.

import (
	"context"
	"fmt"
	"math/rand/v2"

	"github.com/oasisprotocol/curve25519-voi/primitives/ed25519"
	"github.com/oasisprotocol/curve25519-voi/primitives/ed25519/extra/ecvrf"

	beacon "github.com/oasisprotocol/oasis-core/go/beacon/api"
	"github.com/oasisprotocol/oasis-core/go/common/crypto/signature"
	"github.com/oasisprotocol/oasis-core/go/consensus/api/transaction"
	beaconState "github.com/oasisprotocol/oasis-core/go/consensus/cometbft/apps/beacon/state"
	"github.com/oasisprotocol/oasis-core/go/storage/mkvs"
)

// VRFMode overrides the decision whether a scenario uses the VRF beacon
// backend: "" = by profile (always for profile "vrf", never otherwise), "on", "off".
// With "on" the VRF parameters of a non-"vrf" profile come from a PRNG stream
// of their own, so the other draws of that profile do not move.
var VRFMode = ""

// VRFParams are the knobs of the VRF beacon backend of a scenario.
type VRFParams struct {
	Threshold     uint64 // AlphaHighQualityThreshold
	ThresholdKind string // how the threshold relates to the number of genesis nodes
	Interval      int64
	Delay         int64 // ProofSubmissionDelay
	ProveGas      uint64
	GenesisNodes  int
}

// addVRF decides (after all other scenario draws) whether the scenario uses the
// VRF beacon backend and, if so, rewrites the beacon part of the genesis document.
func (s *Scenario) addVRF(rng *rand.Rand, profile string) {
	on := profile == "vrf"
	switch VRFMode {
	case "on":
		if !on {
			rng = rand.New(rand.NewPCG(s.Seed, 0x76726600))
		}
		on = true
	case "off":
		on = false
	}
	if !on {
		return
	}
	gn := len(s.Doc.Registry.Nodes)
	vp := VRFParams{Interval: s.P.EpochInterval, GenesisNodes: gn}
	if vp.Interval < 4 {
		vp.Interval = 4
	}
	vp.Delay = 1 + rng.Int64N(vp.Interval/2)
	an := len(s.AllNodes())
	switch k := rng.IntN(12); {
	case k == 0:
		vp.Threshold, vp.ThresholdKind = 1, "one"
	case k == 1:
		vp.Threshold, vp.ThresholdKind = 2, "two"
	case k == 2:
		vp.Threshold, vp.ThresholdKind = uint64(max(1, (gn+1)/2)), "half-of-genesis-nodes"
	case k < 5:
		vp.Threshold, vp.ThresholdKind = uint64(max(1, gn)), "all-genesis-nodes"
	case k < 9:
		// Reached when nearly every node the scenario knows is registered and proves: an epoch in which
		// a few nodes skip has a weak alpha although most committee members proved.
		vp.Threshold, vp.ThresholdKind = uint64(max(1, an*3/4)), "three-quarters-of-all-nodes"
	case k < 11:
		vp.Threshold, vp.ThresholdKind = uint64(max(1, an)), "all-nodes"
	default:
		vp.Threshold, vp.ThresholdKind = uint64(3*an+40), "more-than-all-nodes"
	}
	vp.ProveGas = []uint64{100, 1000, 1000}[rng.IntN(3)]
	s.P.WithVRF, s.P.VRF = true, vp
	s.P.EpochInterval = vp.Interval
	s.Doc.Beacon.Parameters = beacon.ConsensusParameters{
		Backend: beacon.BackendVRF,
		VRFParameters: &beacon.VRFParameters{
			AlphaHighQualityThreshold: vp.Threshold,
			Interval:                  vp.Interval,
			ProofSubmissionDelay:      vp.Delay,
			GasCosts:                  transaction.Costs{beacon.GasOpVRFProve: transaction.Gas(vp.ProveGas)},
		},
	}
}

// IsVRF reports whether the scenario runs the VRF beacon backend.
func (s *Scenario) IsVRF() bool { return s.P.WithVRF }

// VRFSnapshot is the VRF part of a beacon state.
type VRFSnapshot struct {
	Epoch       beacon.EpochTime
	EpochHeight int64
	Future      *beacon.EpochTimeState
	State       *beacon.VRFState
	Params      *beacon.ConsensusParameters
}

func readVRF(tree mkvs.ImmutableKeyValueTree) (*VRFSnapshot, error) {
	ctx := context.Background()
	bs := beaconState.NewImmutableState(tree)
	var (
		out VRFSnapshot
		err error
	)
	if out.Params, err = bs.ConsensusParameters(ctx); err != nil {
		return nil, fmt.Errorf("beacon parameters: %w", err)
	}
	if out.Epoch, out.EpochHeight, err = bs.GetEpoch(ctx); err != nil {
		return nil, fmt.Errorf("epoch: %w", err)
	}
	if out.Future, err = bs.GetFutureEpoch(ctx); err != nil {
		return nil, fmt.Errorf("future epoch: %w", err)
	}
	if out.State, err = bs.VRFState(ctx); err != nil {
		return nil, fmt.Errorf("VRF state: %w", err)
	}
	return &out, nil
}

// ReadVRF reads the VRF part of the reference replica's committed beacon state
// (height 0 = latest; nil before the first block or on error).
func (h *History) ReadVRF(height int64) *VRFSnapshot {
	if h.Ref.Height == 0 {
		return nil
	}
	st, err := CommittedState(h.Ref, height)
	if err != nil {
		return nil
	}
	defer st.Close()
	snap, err := readVRF(st)
	if err != nil {
		return nil
	}
	return snap
}

// vrfProve makes the proof of a key over alpha with the raw private key (the
// harness's signers change roles when the generator exchanges a node's keys, and
// the memory signer only proves in the VRF role).
func vrfProve(a *Account, alpha []byte) []byte {
	us, ok := a.Signer.(signature.UnsafeSigner)
	if !ok {
		panic("signer does not expose its key")
	}
	return ecvrf.Prove(ed25519.PrivateKey(us.UnsafeBytes()), alpha)
}

// vrfVerify verifies a proof independently of go/common/crypto/signature (directly with the
// ECVRF primitive) and returns the beta.
func vrfVerify(pk signature.PublicKey, alpha, pi []byte) (bool, []byte) {
	if len(pi) != ecvrf.ProofSize {
		return false, nil
	}
	return ecvrf.Verify(ed25519.PublicKey(pk[:]), pi, alpha)
}
