package chainsim

// VRF beacon support: generator of beacon.VRFProve traffic.
//
// In every epoch, once the submission window is open (height > SubmitAfter, and
// before the block that performs the next transition), the registered nodes
// submit a proof over the committed alpha, each at a height planned when the
// epoch starts. Epochs have a mood: "full" (everybody proves), "normal" (a node
// skips now and then), "sparse" (most nodes skip; the first two genesis
// entities' validators still prove, which keeps the documented election
// precondition) and "silent" (nobody proves: the validator election falls back
// to the entropy shuffle). On top of that come transactions that are invalid in
// exactly one respect (intent "vrf:<respect>"; they pass authentication and
// fail in the handler) and transactions whose outcome depends on what runs
// before them (intent "post:vrf-...").

import (
	"bytes"
	"sort"

	beacon "github.com/oasisprotocol/oasis-core/go/beacon/api"
	"github.com/oasisprotocol/oasis-core/go/common/crypto/signature"
	"github.com/oasisprotocol/oasis-core/go/common/node"
	"github.com/oasisprotocol/oasis-core/go/consensus/api/transaction"
	registry "github.com/oasisprotocol/oasis-core/go/registry/api"
)

type vrfSent struct {
	pi     []byte
	vrfPK  signature.PublicKey
	height int64
}

type vrfDriver struct {
	g *TxGen

	have  bool
	epoch beacon.EpochTime
	mood  string
	// plan is the height at which a node submits its proof in this epoch (absent = skips).
	plan map[*SimNode]int64
	// sent are the proofs accepted in this epoch (by node ID); tried the nodes that, having rotated their
	// VRF key after proving, already submitted the proof by the new key.
	sent  map[signature.PublicKey]*vrfSent
	tried map[signature.PublicKey]bool
	// Moods counts the epochs by mood.
	Moods map[string]int
	// prevAlpha is the alpha of the previous epoch.
	prevAlpha, curAlpha []byte
}

func (g *TxGen) vrfDriver() *vrfDriver {
	if g.vrf == nil {
		g.vrf = &vrfDriver{g: g, Moods: map[string]int{}}
	}
	return g.vrf
}

// exact reports whether the epoch's plan fixes the number of proofs (no unplanned provers then).
func (d *vrfDriver) exact() bool {
	return d.mood == "silent" || d.mood == "one-below-threshold" || d.mood == "exactly-threshold" || d.mood == "validators-withhold"
}

func (d *vrfDriver) anchor(n *SimNode) bool {
	sc := d.g.h.Sc
	return n.InGenesis && n.Roles&node.RoleValidator != 0 && (n.Entity == sc.Entities[0] || n.Entity == sc.Entities[1]) && n == n.Entity.Nodes[0]
}

func (d *vrfDriver) proveTx(n *SimNode, signer *Account, epoch beacon.EpochTime, pi []byte, fee *transaction.Fee) *GenTx {
	g := d.g
	tx := transaction.NewTransaction(g.nonce(signer), fee, beacon.MethodVRFProve, &beacon.VRFProve{Epoch: epoch, Pi: pi})
	name := "?"
	if n != nil {
		name = n.Name
	}
	return g.finish(signer, tx, name)
}

func (d *vrfDriver) sureFee() *transaction.Fee { return d.g.feeSure(d.g.h.Sc.P.VRF.ProveGas + 2500) }

// txs returns the VRF traffic of the block at height.
func (d *vrfDriver) txs(height int64) []*GenTx {
	g := d.g
	rng := g.rng
	snap := g.h.ReadVRF(0)
	if snap == nil || snap.State == nil || snap.Future == nil {
		return nil
	}
	st := snap.State
	transition := snap.Future.Height == height
	open := height > st.SubmitAfter
	v := g.view()

	var out []*GenTx
	emit := func(gt *GenTx) {
		if gt == nil {
			return
		}
		out = append(out, gt)
		if gt.Signer != nil && gt.Tx != nil && gt.Tx.Nonce == g.nonce(gt.Signer) {
			g.bump(gt.Signer) // all of these pass authentication
		}
	}
	label := func(gt *GenTx, intent string) *GenTx {
		if transition && intent != "valid" {
			// The alpha, the epoch and the proof map change in BeginBlock before the transaction runs;
			// it fails for one reason or another.
			intent = "post:vrf-at-epoch-transition"
		}
		gt.Intent = intent
		return gt
	}

	// New epoch: plan who proves when.
	if !d.have || st.Epoch != d.epoch {
		d.have, d.epoch = true, st.Epoch
		d.prevAlpha, d.curAlpha = d.curAlpha, append([]byte(nil), st.Alpha...)
		d.sent, d.tried = map[signature.PublicKey]*vrfSent{}, map[signature.PublicKey]bool{}
		d.plan = map[*SimNode]int64{}
		switch x := rng.IntN(14); {
		case x >= 12:
			// Only nodes without the validator role prove, plus fewer validator nodes than the scheduler's
			// minimum: enough proofs in the map, too few from validators (the validator election must fall
			// back to the epoch entropy, not fail).
			d.mood = "validators-withhold"
		case x < 3:
			d.mood = "full"
		case x < 6:
			d.mood = "normal"
		case x < 8:
			d.mood = "sparse"
		case x < 9:
			d.mood = "silent"
		case x < 11:
			d.mood = "one-below-threshold"
		default:
			d.mood = "exactly-threshold"
		}
		first, last := st.SubmitAfter+1, snap.Future.Height-1
		// The threshold moods: exactly threshold-1 / threshold of the registered nodes prove (those that
		// skip are taken from the nodes without the compute role first, so that a committee elected from
		// these proofs is followed by a weak alpha). Only when the threshold is within reach.
		var regd []*SimNode
		for _, n := range g.h.Sc.AllNodes() {
			if cur := v.Nodes[n.Keys.ID.PK]; cur != nil && cur.VRF.ID.Equal(n.Keys.VRF.PK) {
				regd = append(regd, n)
			}
		}
		chosen := map[*SimNode]bool{}
		if d.mood == "one-below-threshold" || d.mood == "exactly-threshold" {
			want := int(snap.Params.VRFParameters.AlphaHighQualityThreshold)
			if d.mood == "one-below-threshold" {
				want--
			}
			if want < 0 || want > len(regd) || snap.Params.VRFParameters.AlphaHighQualityThreshold > uint64(len(regd)) {
				d.mood = "normal"
			} else {
				// anchors, then compute nodes, then the others, each group in PRNG order
				perm := rng.Perm(len(regd))
				rank := func(n *SimNode) int {
					switch {
					case d.anchor(n):
						return 0
					case n.IsCompute():
						return 1
					}
					return 2
				}
				var order []*SimNode
				for r := 0; r < 3; r++ {
					for _, i := range perm {
						if rank(regd[i]) == r {
							order = append(order, regd[i])
						}
					}
				}
				for i := 0; i < want && i < len(order); i++ {
					chosen[order[i]] = true
				}
			}
		}
		if d.mood == "validators-withhold" {
			nonVal := 0
			for _, n := range regd {
				if n.Roles&node.RoleValidator == 0 {
					nonVal++
				}
			}
			if nonVal == 0 {
				d.mood = "normal"
			} else {
				left := g.h.Sc.P.MinValidators - 1
				for _, i := range rng.Perm(len(regd)) {
					n := regd[i]
					switch {
					case n.Roles&node.RoleValidator == 0:
						chosen[n] = true
					case left > 0 && rng.IntN(2) == 0:
						chosen[n] = true
						left--
					}
				}
			}
		}
		d.Moods[d.mood]++
		sparseP := 1 + rng.IntN(3) // of 4
		for _, n := range g.h.Sc.AllNodes() {
			prove := true
			switch d.mood {
			case "normal":
				prove = d.anchor(n) || rng.IntN(12) != 0
			case "sparse":
				prove = d.anchor(n) || rng.IntN(4) < sparseP
			case "silent":
				prove = false
			case "one-below-threshold", "exactly-threshold", "validators-withhold":
				prove = chosen[n]
			}
			at := first
			if last > first && rng.IntN(3) == 0 {
				at = first + rng.Int64N(last-first+1)
			}
			if prove && last >= first {
				d.plan[n] = at
			}
		}
	}

	// Planned (and overdue) proofs of registered nodes.
	if open {
		for _, n := range g.h.Sc.AllNodes() {
			at, ok := d.plan[n]
			cur := v.Nodes[n.Keys.ID.PK]
			if !ok || cur == nil || height < at || d.sent[n.Keys.ID.PK] != nil {
				continue
			}
			if height > at && rng.IntN(2) == 0 {
				continue // overdue (was not registered, or refused): retried now and then
			}
			if !cur.VRF.ID.Equal(n.Keys.VRF.PK) {
				continue // the harness lost track of the node's VRF key (a rotation it did not see succeed)
			}
			pi := vrfProve(n.Keys.VRF, st.Alpha)
			gt := d.proveTx(n, n.Keys.ID, st.Epoch, pi, d.sureFee())
			vrfPK, nn := n.Keys.VRF.PK, n
			gt.OnSuccess = func() {
				if d.epoch == st.Epoch && d.sent[nn.Keys.ID.PK] == nil {
					d.sent[nn.Keys.ID.PK] = &vrfSent{pi: pi, vrfPK: vrfPK, height: height}
				}
				g.Notes["vrf-proof"]++
			}
			if transition {
				gt.Intent = "post:vrf-at-epoch-transition"
			}
			emit(gt)
		}
	}

	// A node that changed its VRF key after proving in this epoch submits the (valid) proof by its new
	// key: another output than the stored one, which must be refused.
	if open && !transition {
		for _, n := range g.h.Sc.AllNodes() {
			s := d.sent[n.Keys.ID.PK]
			cur := v.Nodes[n.Keys.ID.PK]
			if s == nil || cur == nil || d.tried[n.Keys.ID.PK] || s.vrfPK.Equal(n.Keys.VRF.PK) || !cur.VRF.ID.Equal(n.Keys.VRF.PK) {
				continue
			}
			if _, p := g.pending[n.Keys.ID.Addr]; p {
				continue // re-registers in this block
			}
			d.tried[n.Keys.ID.PK] = true
			gt := d.proveTx(n, n.Keys.ID, st.Epoch, vrfProve(n.Keys.VRF, st.Alpha), d.sureFee())
			gt.Intent = "vrf:different-proof"
			emit(gt)
		}
	}

	// Variants: zero to two per block.
	nodes := g.h.Sc.AllNodes()
	var regd, proved []*SimNode
	for _, n := range nodes {
		if cur := v.Nodes[n.Keys.ID.PK]; cur != nil && cur.VRF.ID.Equal(n.Keys.VRF.PK) {
			regd = append(regd, n)
			if s := d.sent[n.Keys.ID.PK]; s != nil && s.vrfPK.Equal(n.Keys.VRF.PK) {
				proved = append(proved, n)
			}
		}
	}
	if len(regd) == 0 {
		return out
	}
	pick := func(l []*SimNode) *SimNode { return l[rng.IntN(len(l))] }
	busy := func(n *SimNode) bool { _, p := g.pending[n.Keys.ID.Addr]; return p }
	nv := 0
	switch x := rng.IntN(10); {
	case x < 4:
		nv = 1
	case x < 6:
		nv = 2
	}
	for i := 0; i < nv; i++ {
		n := pick(regd)
		validPi := func() []byte { return vrfProve(n.Keys.VRF, st.Alpha) }
		kind := rng.IntN(16)
		switch {
		case !open:
			// Before the window opens everything is premature; mostly otherwise valid proofs.
			if rng.IntN(3) != 0 {
				kind = 0
			}
		case len(proved) > 0 && rng.IntN(3) == 0:
			kind = 12 + rng.IntN(4) // resubmissions by nodes that already proved
		}
		switch kind {
		case 0: // premature (only before the window opens; afterwards it is a plain proof of a node that may have skipped)
			if open {
				continue
			}
			emit(label(d.proveTx(n, n.Keys.ID, st.Epoch, validPi(), d.sureFee()), "vrf:premature"))
		case 1: // wrong epoch
			ep := st.Epoch + 1
			if st.Epoch > 0 && rng.IntN(2) == 0 {
				ep = st.Epoch - 1
			}
			if !open {
				continue
			}
			emit(label(d.proveTx(n, n.Keys.ID, ep, validPi(), d.sureFee()), "vrf:wrong-epoch"))
		case 2: // proof over another alpha
			if !open {
				continue
			}
			alpha := append([]byte(nil), st.Alpha...)
			switch {
			case d.prevAlpha != nil && rng.IntN(2) == 0:
				alpha = d.prevAlpha
			case rng.IntN(2) == 0:
				alpha[rng.IntN(len(alpha))] ^= 1 << uint(rng.IntN(8))
			default:
				alpha = alpha[:len(alpha)-1]
			}
			emit(label(d.proveTx(n, n.Keys.ID, st.Epoch, vrfProve(n.Keys.VRF, alpha), d.sureFee()), "vrf:wrong-alpha"))
		case 3: // proof by another node's VRF key (or by another key of the node itself)
			if !open {
				continue
			}
			other := n.Keys.Consensus
			if o := pick(regd); o != n && rng.IntN(3) != 0 {
				other = o.Keys.VRF
			}
			emit(label(d.proveTx(n, n.Keys.ID, st.Epoch, vrfProve(other, st.Alpha), d.sureFee()), "vrf:foreign-vrf-key"))
		case 4, 5: // undecodable proof bytes
			if !open {
				continue
			}
			pi := validPi()
			sub := ""
			switch rng.IntN(7) {
			case 0:
				pi, sub = pi[:len(pi)-1], "one-byte-short"
			case 1:
				pi, sub = append(pi, byte(rng.Uint32())), "one-byte-long"
			case 2:
				for j := range pi {
					pi[j] = byte(rng.Uint32())
				}
				sub = "garbage"
			case 3:
				for j := range pi {
					pi[j] = 0xff
				}
				sub = "all-ff"
			case 4:
				pi, sub = pi[:rng.IntN(len(pi))], "truncated"
			case 5:
				pi, sub = []byte{}, "empty"
			case 6:
				pi[len(pi)-1], sub = 0xff, "non-canonical-scalar"
			}
			emit(label(d.proveTx(n, n.Keys.ID, st.Epoch, pi, d.sureFee()), "vrf:bad-pi/"+sub))
		case 6: // signer is not a node
			if !open {
				continue
			}
			s := g.pickSigner()
			if _, p := g.pending[s.Addr]; p && rng.IntN(2) == 0 {
				continue
			}
			emit(label(d.proveTx(n, s, st.Epoch, validPi(), d.sureFee()), "vrf:signer-not-a-node"))
		case 7: // node that is not registered (any more / yet)
			if !open {
				continue
			}
			var unreg []*SimNode
			for _, c := range nodes {
				if v.Nodes[c.Keys.ID.PK] == nil && !busy(c) {
					unreg = append(unreg, c)
				}
			}
			if len(unreg) == 0 {
				continue
			}
			c := pick(unreg)
			// (An earlier transaction of the block may register it.)
			emit(label(d.proveTx(c, c.Keys.ID, st.Epoch, vrfProve(c.Keys.VRF, st.Alpha), d.sureFee()), "post:vrf-unregistered-node"))
		case 8: // the disabled explicit epoch method
			s := g.pickSigner()
			if rng.IntN(2) == 0 {
				s = n.Keys.ID
			}
			ep := st.Epoch + beacon.EpochTime(rng.IntN(3))
			tx := transaction.NewTransaction(g.nonce(s), d.sureFee(), beacon.MethodSetEpoch, ep)
			gt := g.finish(s, tx, "set-epoch")
			gt.Intent = "vrf:set-epoch-disabled"
			emit(gt)
		case 9: // gas limit below the cost of the operation
			if !open {
				continue
			}
			cost := g.h.Sc.P.VRF.ProveGas
			gas := []uint64{0, 1, cost / 2, cost - 1, cost, cost + 100}[rng.IntN(6)]
			gt := d.proveTx(n, n.Keys.ID, st.Epoch, validPi(), g.feeSure(gas))
			gt.Intent = "gas-too-low"
			emit(gt)
		case 10: // an expired node that is still registered proves (accepted: the handler only looks the node up)
			if !open || d.exact() {
				continue
			}
			var exp []*SimNode
			for _, c := range regd {
				if uint64(v.Nodes[c.Keys.ID.PK].Expiration) < v.Epoch && d.sent[c.Keys.ID.PK] == nil {
					exp = append(exp, c)
				}
			}
			if len(exp) == 0 {
				continue
			}
			c := pick(exp)
			pi := vrfProve(c.Keys.VRF, st.Alpha)
			gt := label(d.proveTx(c, c.Keys.ID, st.Epoch, pi, d.sureFee()), "post:vrf-expired-node")
			vrfPK := c.Keys.VRF.PK
			gt.OnSuccess = func() {
				if d.epoch == st.Epoch && d.sent[c.Keys.ID.PK] == nil {
					d.sent[c.Keys.ID.PK] = &vrfSent{pi: pi, vrfPK: vrfPK, height: height}
				}
				g.Notes["vrf-proof-by-expired-node"]++
			}
			emit(gt)
		case 11: // a node that planned to skip proves after all, late in the window (keeps plans from being the only pattern)
			if !open || d.exact() || d.sent[n.Keys.ID.PK] != nil {
				continue
			}
			pi := validPi()
			gt := label(d.proveTx(n, n.Keys.ID, st.Epoch, pi, d.sureFee()), "valid")
			vrfPK, nn := n.Keys.VRF.PK, n
			gt.OnSuccess = func() {
				if d.epoch == st.Epoch && d.sent[nn.Keys.ID.PK] == nil {
					d.sent[nn.Keys.ID.PK] = &vrfSent{pi: pi, vrfPK: vrfPK, height: height}
				}
				g.Notes["vrf-proof"]++
			}
			if transition {
				gt.Intent = "post:vrf-at-epoch-transition"
			}
			emit(gt)
		case 12: // byte-identical resubmission (accepted, no change)
			if len(proved) == 0 || !open {
				continue
			}
			c := pick(proved)
			s := d.sent[c.Keys.ID.PK]
			gt := label(d.proveTx(c, c.Keys.ID, st.Epoch, s.pi, d.sureFee()), "post:vrf-resubmit-same")
			gt.OnSuccess = func() { g.Notes["vrf-resubmit-same"]++ }
			emit(gt)
		case 13: // a node that proved sends proof bytes that do not decode / do not verify
			if len(proved) == 0 || !open {
				continue
			}
			c := pick(proved)
			pi := append([]byte(nil), d.sent[c.Keys.ID.PK].pi...)
			sub := ""
			switch rng.IntN(4) {
			case 0:
				for j := range pi {
					pi[j] = 0xff
				}
				sub = "all-ff"
			case 1:
				pi[len(pi)-1], sub = 0xff, "non-canonical-scalar"
			case 2:
				for j := range pi {
					pi[j] = byte(rng.Uint32())
				}
				sub = "garbage"
			case 3:
				pi[rng.IntN(32)] ^= 1 << uint(rng.IntN(8))
				sub = "gamma-bit-flipped"
			}
			emit(label(d.proveTx(c, c.Keys.ID, st.Epoch, pi, d.sureFee()), "vrf:resubmit-bad-pi/"+sub))
		case 14: // a node that proved rotates its VRF key in the middle of the epoch
			if len(proved) == 0 {
				continue
			}
			c := pick(proved)
			if busy(c) || d.anchor(c) {
				continue
			}
			emit(d.rotate(c))
		case 15: // ... and a node that rotated after proving submits a (valid) proof by its new key: another beta
			if !open {
				continue
			}
			var rot []*SimNode
			for _, c := range regd {
				if s := d.sent[c.Keys.ID.PK]; s != nil && !s.vrfPK.Equal(c.Keys.VRF.PK) {
					rot = append(rot, c)
				}
			}
			if len(rot) == 0 {
				// None yet: rotate one now (the proof follows in a later block).
				if len(proved) == 0 {
					continue
				}
				c := pick(proved)
				if busy(c) || d.anchor(c) {
					continue
				}
				emit(d.rotate(c))
				continue
			}
			c := pick(rot)
			pi := vrfProve(c.Keys.VRF, st.Alpha)
			if bytes.Equal(pi, d.sent[c.Keys.ID.PK].pi) {
				continue
			}
			emit(label(d.proveTx(c, c.Keys.ID, st.Epoch, pi, d.sureFee()), "vrf:different-proof"))
		}
	}
	return out
}

// rotate re-registers a node with a fresh VRF key (all other keys and the expiration stay).
func (d *vrfDriver) rotate(n *SimNode) *GenTx {
	g := d.g
	cur := g.view().Nodes[n.Keys.ID.PK]
	if cur == nil {
		return nil
	}
	old := n.Keys
	nk := n.Keys
	nk.VRF = newAccount(n.Name+"/vrf'", signature.SignerVRF, g.rng)
	exp := uint64(cur.Expiration)
	if exp < g.view().Epoch+1 {
		exp = g.view().Epoch + 1
	}
	oldRts := n.Runtimes
	if n.IsKeyManager() && g.h.Sc.KM != nil {
		n.Runtimes = g.kmDriver().nodeRuntimes(n)
	}
	newRts := n.Runtimes
	n.Keys = nk
	nd := NodeDescriptor(n, beacon.EpochTime(exp))
	sn := signNode(NodeSigners(n), nd)
	n.Keys, n.Runtimes = old, oldRts
	tx := registry.NewRegisterNodeTx(g.nonce(n.Keys.ID), g.feeSure(g.nodeGas(n)+4000), sn)
	gt := g.finish(n.Keys.ID, tx, n.Name+" vrf-key-rotation")
	gt.Intent = "post:vrf-key-rotation"
	gt.OnSuccess = func() {
		n.Keys, n.Desc, n.Runtimes = nk, nd, newRts
		g.Notes["vrf-key-rotation-after-proof"]++
	}
	return gt
}

// sortedMoods lists the moods seen.
func (d *vrfDriver) sortedMoods() []string {
	var ks []string
	for k := range d.Moods {
		ks = append(ks, k)
	}
	sort.Strings(ks)
	return ks
}
