package chainsim

import (
	"bytes"
	"context"
	"crypto/sha256"
	"fmt"
	"github.com/oasisprotocol/oasis-core/go/common"
	"github.com/oasisprotocol/oasis-core/go/common/keyformat"
	"math"
	"math/big"
	"sort"
	"strings"

	beacon "github.com/oasisprotocol/oasis-core/go/beacon/api"
	"github.com/oasisprotocol/oasis-core/go/common/cbor"
	"github.com/oasisprotocol/oasis-core/go/common/crypto/signature"
	"github.com/oasisprotocol/oasis-core/go/common/node"
	consensus "github.com/oasisprotocol/oasis-core/go/consensus/api"
	cmt "github.com/oasisprotocol/oasis-core/go/consensus/cometbft/api"
	churpState "github.com/oasisprotocol/oasis-core/go/consensus/cometbft/apps/keymanager/churp/state"
	registryState "github.com/oasisprotocol/oasis-core/go/consensus/cometbft/apps/registry/state"
	schedulerState "github.com/oasisprotocol/oasis-core/go/consensus/cometbft/apps/scheduler/state"
	tmcrypto "github.com/oasisprotocol/oasis-core/go/consensus/cometbft/crypto"
	"github.com/oasisprotocol/oasis-core/go/keymanager/churp"
	registry "github.com/oasisprotocol/oasis-core/go/registry/api"
	scheduler "github.com/oasisprotocol/oasis-core/go/scheduler/api"
	staking "github.com/oasisprotocol/oasis-core/go/staking/api"
)

func hex8(b []byte) string {
	if len(b) > 8 {
		b = b[:8]
	}
	return fmt.Sprintf("%x", b)
}

func txWitness(h *History, o *TxObs) map[string]any {
	w := map[string]any{"height": o.Height, "tx_index": o.Index, "raw": fmt.Sprintf("%x", o.Raw), "params": h.Sc.P}
	if o.Err != nil {
		w["error"] = o.Err.Error()
	}
	if o.Gen != nil {
		w["method"], w["intent"], w["note"] = o.Gen.Method, o.Gen.Intent, o.Gen.Note
	}
	var ds []string
	for i, d := range o.Diff {
		if i >= 12 {
			ds = append(ds, fmt.Sprintf("... %d more", len(o.Diff)-i))
			break
		}
		ds = append(ds, fmt.Sprintf("key=%x old=%x new=%x", d.K, d.Old, d.New))
	}
	w["diff"] = ds
	return w
}

// ---------------------------------------------------------------------------
// C05: supply conservation and share bookkeeping.

// SupplyMonitor checks the ledger after every block (and at every tap when
// attached to a Recorder as TxMonitor/StepMonitor).
type SupplyMonitor struct {
	BaseMonitor
	Rep        Reporter
	prevSupply *big.Int
	// per-history stats
	Slashes, DebondDone, ClosedProposals int
	FeesSeen                             bool
	Checked                              int
	phase                                int
	curHeight                            int64
}

func (m *SupplyMonitor) report(h *History, where string, p Problem, extra map[string]any) {
	w := map[string]any{"where": where, "detail": p.Detail, "params": h.Sc.P, "height": h.Ref.Height + 1}
	for k, v := range extra {
		w[k] = v
	}
	m.Rep.Violation("c05/"+p.Kind+"/"+where, p.Detail, w)
}

// OnBlock implements Monitor.
func (m *SupplyMonitor) OnBlock(h *History, b *Block, txs []*GenTx, ref *BlockResult) {
	st, err := CommittedState(h.Ref, b.Height)
	if err != nil {
		panic(err)
	}
	snap := ParseStake(Dump(context.Background(), st))
	st.Close()
	m.Checked++
	for _, p := range snap.CheckLedger(nil) {
		m.report(h, "block", p, map[string]any{"height": b.Height})
	}
	burned := new(big.Int)
	for _, ev := range BlockStakingEvents(b.Height, ref) {
		switch {
		case ev.Burn != nil:
			burned.Add(burned, ev.Burn.Amount.ToBigInt())
		case ev.Escrow != nil && ev.Escrow.Take != nil:
			m.Slashes++
		case ev.Escrow != nil && ev.Escrow.Reclaim != nil:
			m.DebondDone++
		case ev.Transfer != nil && ev.Transfer.To == staking.FeeAccumulatorAddress:
			m.FeesSeen = true
		}
	}
	if m.prevSupply != nil {
		switch d := new(big.Int).Sub(m.prevSupply, snap.TotalSupply); {
		case d.Sign() < 0:
			m.report(h, "block", Problem{"supply-increased", fmt.Sprintf("total supply rose from %s to %s at height %d", m.prevSupply, snap.TotalSupply, b.Height)}, nil)
		case d.Cmp(burned) != 0:
			m.report(h, "block", Problem{"supply-decrease-not-equal-to-burns", fmt.Sprintf("total supply fell by %s at height %d but burn events sum to %s", d, b.Height, burned)}, nil)
		}
	}
	m.prevSupply = snap.TotalSupply
	for _, p := range h.View.Proposals {
		_ = p
	}
}

// The staking application disburses the fees carried over from the previous
// block in its BeginBlock without clearing the stored LastBlockFees value, and
// persists the new carry-over in its EndBlock from the in-memory accumulator.
// Inside a block the ledger therefore is: (phase 0, before staking.BeginBlock)
// stored LastBlockFees counts, accumulator empty; (phase 1, until
// staking.EndBlock) stored LastBlockFees is stale and the accumulator counts;
// (phase 2, afterwards) stored LastBlockFees counts again, accumulator is stale.
func (m *SupplyMonitor) ledger(snap *StakeSnap, acc *big.Int) []Problem {
	switch m.phase {
	case 1:
		c := *snap
		c.LastBlockFees = new(big.Int)
		return c.CheckLedger(acc)
	default:
		return snap.CheckLedger(nil)
	}
}

// OnTx implements TxMonitor: conservation around every transaction.
func (m *SupplyMonitor) OnTx(h *History, o *TxObs) {
	if o.Height != m.curHeight {
		return
	}
	snap := ParseStake(o.Post)
	for _, p := range m.ledger(snap, o.PostFees) {
		m.report(h, "after-tx", p, txWitness(h, o))
	}
}

// OnStep implements StepMonitor: conservation after every application step.
func (m *SupplyMonitor) OnStep(h *History, s *StepObs, ctx *cmt.Context) {
	if s.Height != m.curHeight {
		m.curHeight, m.phase = s.Height, 0
	}
	if strings.Contains(s.App, "staking") {
		if s.Stage == "beginblock" {
			m.phase = 1
		} else {
			m.phase = 2
		}
	}
	snap := ParseStake(s.Post)
	for _, p := range m.ledger(snap, blockFees(ctx)) {
		m.report(h, "after-"+s.Stage+"/"+s.App, p, map[string]any{"height": s.Height})
	}
}

// ---------------------------------------------------------------------------
// C08: a failed transaction changes nothing but fee and nonce.

// AtomicityMonitor checks the state diff of every failed transaction.
type AtomicityMonitor struct {
	Rep Reporter
	// Stats
	Failed, FailedAfterAuth, RejectedAtAuth, Succeeded, ModelDisagree int
}

func accountKey(a staking.Address) []byte { return append([]byte{0x50}, a[:]...) }

// authVerdict is the independent model of transaction authentication.
type authVerdict struct {
	Dec        *DecodedTx
	Rejected   bool   // must be rejected at or before authentication
	Why        string // reason when Rejected
	SignerAddr staking.Address
	Fee        *big.Int
}

func authModel(h *History, o *TxObs) authVerdict {
	d := DecodeTx(o.Raw, h.Sc.Doc.ChainContext())
	v := authVerdict{Dec: d, Fee: new(big.Int)}
	switch {
	case !d.EnvelopeOK:
		v.Rejected, v.Why = true, "envelope does not decode"
		return v
	case !d.SigValid:
		v.Rejected, v.Why = true, "signature invalid under this chain's transaction context"
		return v
	case !d.TxOK:
		v.Rejected, v.Why = true, "transaction does not decode"
		return v
	}
	v.SignerAddr = staking.NewAddress(d.Signer)
	if d.Tx.Fee != nil {
		v.Fee = d.Tx.Fee.Amount.ToBigInt()
	}
	if v.SignerAddr.IsReserved() {
		v.Rejected, v.Why = true, "reserved signer address"
		return v
	}
	pre := ParseStake(o.Pre)
	acct := pre.Accounts[v.SignerAddr]
	if acct == nil {
		acct = &staking.Account{}
	}
	if acct.General.Nonce != d.Tx.Nonce {
		v.Rejected, v.Why = true, fmt.Sprintf("nonce %d != account nonce %d", d.Tx.Nonce, acct.General.Nonce)
		return v
	}
	need := new(big.Int).Add(v.Fee, h.View.StakingP.MinTransactBalance.ToBigInt())
	if acct.General.Balance.ToBigInt().Cmp(need) < 0 {
		v.Rejected, v.Why = true, "balance below fee + minimum transact balance"
		return v
	}
	return v
}

// preAuthError reports whether an error is raised by the multiplexer before the
// authentication handler runs (method dispatch / size / system methods).
func preAuthError(err error) bool {
	s := err.Error()
	return strings.Contains(s, "mux: unknown method") || strings.Contains(s, "system methods are not allowed") ||
		strings.Contains(s, "oversized") || strings.Contains(s, "transaction: empty method")
}

// OnTx implements TxMonitor.
func (m *AtomicityMonitor) OnTx(h *History, o *TxObs) {
	if o.Err == nil {
		m.Succeeded++
		return
	}
	m.Failed++
	v := authModel(h, o)
	method := "?"
	if v.Dec.TxOK {
		method = string(v.Dec.Tx.Method)
	}
	sigOf := func(kind string) string { return "c08/" + kind + "/" + method }
	if v.Rejected || (v.Dec.TxOK && v.Dec.Tx.Method.IsCritical()) || preAuthError(o.Err) {
		m.RejectedAtAuth++
		if len(o.Diff) != 0 {
			w := txWitness(h, o)
			w["model"] = v.Why
			m.Rep.Violation(sigOf("rejected-tx-changed-state"), fmt.Sprintf("transaction rejected at/before authentication (%s; error %q) changed %d state keys", v.Why, o.Err, len(o.Diff)), w)
		}
		if o.PreFees != nil && o.PostFees != nil && o.PreFees.Cmp(o.PostFees) != 0 {
			m.Rep.Violation(sigOf("rejected-tx-changed-fee-accumulator"), "fee accumulator changed by a rejected transaction", txWitness(h, o))
		}
		return
	}
	// The model says the transaction passes authentication: cross-check with the error.
	es := o.Err.Error()
	// ("balance too low" is also returned by handlers after authentication and is therefore not usable here.)
	// (the vault application has its own "vault: invalid nonce" for action nonces.)
	if strings.Contains(es, "transaction: invalid nonce") || strings.Contains(es, "reserved account") {
		m.ModelDisagree++
		m.Rep.Inconclusive(fmt.Sprintf("authentication model disagrees with the code: model=pass error=%q (height %d tx %d)", es, o.Height, o.Index))
		return
	}
	m.FailedAfterAuth++
	key := accountKey(v.SignerAddr)
	bad := func(why string) {
		w := txWitness(h, o)
		w["expected"] = fmt.Sprintf("only account %s: nonce+1, balance-%s", v.SignerAddr, v.Fee)
		m.Rep.Violation(sigOf("failed-tx-left-writes"), fmt.Sprintf("failed transaction (error %q) %s", o.Err, why), w)
	}
	if len(o.Diff) != 1 || !bytes.Equal(o.Diff[0].K, key) {
		if len(o.Diff) == 0 {
			w := txWitness(h, o)
			m.Rep.Violation(sigOf("failed-tx-fee-or-nonce-not-charged"), fmt.Sprintf("transaction failed after authentication (error %q) but neither fee nor nonce were charged", o.Err), w)
			return
		}
		bad(fmt.Sprintf("changed %d keys other than exactly the signer's account", len(o.Diff)))
		return
	}
	var oldA, newA staking.Account
	if o.Diff[0].Old != nil {
		if err := cbor.Unmarshal(o.Diff[0].Old, &oldA); err != nil {
			bad("old account undecodable")
			return
		}
	}
	if o.Diff[0].New == nil {
		bad("removed the signer's account")
		return
	}
	if err := cbor.Unmarshal(o.Diff[0].New, &newA); err != nil {
		bad("new account undecodable")
		return
	}
	if newA.General.Nonce != oldA.General.Nonce+1 {
		bad(fmt.Sprintf("nonce went from %d to %d", oldA.General.Nonce, newA.General.Nonce))
		return
	}
	wantBal := new(big.Int).Sub(oldA.General.Balance.ToBigInt(), v.Fee)
	if newA.General.Balance.ToBigInt().Cmp(wantBal) != 0 {
		bad(fmt.Sprintf("balance went from %s to %s, expected %s", oldA.General.Balance.ToBigInt(), newA.General.Balance.ToBigInt(), wantBal))
		return
	}
	newA.General.Nonce, newA.General.Balance = oldA.General.Nonce, oldA.General.Balance
	if !bytes.Equal(cbor.Marshal(oldA), cbor.Marshal(newA)) {
		bad("changed other fields of the signer's account")
		return
	}
	if o.PreFees != nil && o.PostFees != nil && new(big.Int).Sub(o.PostFees, o.PreFees).Cmp(v.Fee) != 0 {
		bad(fmt.Sprintf("fee accumulator grew by %s instead of the fee %s", new(big.Int).Sub(o.PostFees, o.PreFees), v.Fee))
	}
}

// ---------------------------------------------------------------------------
// C09: only authentic, correctly sequenced transactions execute, once.

// AuthMonitor checks every transaction that took effect.
type AuthMonitor struct {
	Rep        Reporter
	seen       map[[32]byte]int64 // bytes that took effect -> height
	TookEffect int
	NoEffect   int
	ByIntent   map[string][2]int // intent -> [took effect, no effect]
}

// OnTx implements TxMonitor.
func (m *AuthMonitor) OnTx(h *History, o *TxObs) {
	if m.seen == nil {
		m.seen = map[[32]byte]int64{}
		m.ByIntent = map[string][2]int{}
	}
	took := o.Err == nil || len(o.Diff) > 0
	intent := "system"
	if o.Gen != nil {
		intent = o.Gen.Intent
	}
	c := m.ByIntent[intent]
	if took {
		c[0]++
		m.TookEffect++
	} else {
		c[1]++
		m.NoEffect++
	}
	m.ByIntent[intent] = c
	if !took {
		// A decodable envelope whose signature does not verify (independent check) must be
		// refused BY signature verification. Being refused only later (nonce, balance, method)
		// means the verifier accepted it: with a matching nonce it would have taken effect.
		if o.Err != nil && intent != "system" {
			if d := DecodeTx(o.Raw, h.Sc.Doc.ChainContext()); d.EnvelopeOK && !d.SigValid {
				m.Rep.Count("invalid_signature_envelopes_refused", 1)
				es := o.Err.Error()
				if !strings.Contains(es, "signed:") && !strings.Contains(es, "signature") && !strings.Contains(es, "oversized") && !strings.Contains(es, "malformed") {
					w := txWitness(h, o)
					m.Rep.Violation("c09/invalid-signature-passed-verification/intent="+intent, "an envelope whose signature does not verify over exactly its bytes under this chain's transaction context was not refused by signature verification but later, with: "+es, w)
				}
			}
		}
		return
	}
	d := DecodeTx(o.Raw, h.Sc.Doc.ChainContext())
	viol := func(kind, what string) {
		w := txWitness(h, o)
		m.Rep.Violation("c09/"+kind, what, w)
	}
	if intent == "forged-without-key" {
		// The harness built this envelope without any private key: whatever a verifier
		// thinks of it, nobody signed these bytes.
		viol("unsigned-forgery-took-effect", "an envelope constructed without any private key (small-order public key, message-independent signature) took effect")
		return
	}
	if !d.EnvelopeOK || !d.TxOK {
		viol("undecodable-bytes-took-effect", "bytes that do not decode as a signed transaction took effect")
		return
	}
	if !d.SigValid {
		viol("took-effect-without-valid-signature/intent="+intent, "transaction took effect although its signature does not verify over exactly its bytes under this chain's transaction context")
		return
	}
	if _, isSystem := consensus.SystemMethods[d.Tx.Method]; isSystem {
		return // block metadata: signed by the proposer, no nonce (not a user transaction)
	}
	hs := sha256.Sum256(o.Raw)
	if prev, ok := m.seen[hs]; ok {
		viol("same-bytes-took-effect-twice", fmt.Sprintf("the same signed bytes took effect at height %d and again at height %d", prev, o.Height))
	}
	m.seen[hs] = o.Height
	if d.Tx.Method.IsCritical() {
		return
	}
	addr := staking.NewAddress(d.Signer)
	pre, post := ParseStake(o.Pre), ParseStake(o.Post)
	var preN, postN uint64
	if a := pre.Accounts[addr]; a != nil {
		preN = a.General.Nonce
	}
	if a := post.Accounts[addr]; a != nil {
		postN = a.General.Nonce
	}
	if preN != d.Tx.Nonce {
		viol("took-effect-with-wrong-nonce", fmt.Sprintf("transaction with nonce %d took effect while the signer's nonce was %d", d.Tx.Nonce, preN))
	}
	if postN != preN+1 {
		viol("nonce-not-advanced-by-one", fmt.Sprintf("signer nonce went from %d to %d", preN, postN))
	}
	if preN >= 1<<63-1 {
		m.Rep.Count("executed_with_nonce_at_or_above_2^63-1", 1)
		if preN == math.MaxUint64 {
			m.Rep.Count("executed_with_nonce_2^64-1_(wraps_to_0)", 1)
		}
	}
	for a, acct := range post.Accounts {
		if a == addr {
			continue
		}
		var pn uint64
		if pa := pre.Accounts[a]; pa != nil {
			pn = pa.General.Nonce
		}
		if acct.General.Nonce != pn {
			viol("other-account-nonce-changed", fmt.Sprintf("nonce of %s (not the signer) went from %d to %d", a, pn, acct.General.Nonce))
		}
	}
}

// ---------------------------------------------------------------------------
// C17: registry authority and key uniqueness.

// RegistryMonitor checks registry/staking consistency after every block and
// the authority of record changes in every transaction.
type RegistryMonitor struct {
	BaseMonitor
	Rep     Reporter
	Checked int
	// Stats
	KeySwaps, Expired, Dereg int
	NodeUpdates              int
	// OwnerIndexChecks counts block boundaries at which the runtime ownership index was compared.
	OwnerIndexChecks int
	// ChurpClaims is the largest number of CHURP stake claims implied at a block boundary (key manager support).
	ChurpClaims int
}

// runtimeOwnerIndexKeyFmt mirrors the registry's runtime-by-entity index key (0x19 | H(entity) | H(runtime)).
var runtimeOwnerIndexKeyFmt = keyformat.New(0x19, keyformat.H(&signature.PublicKey{}), keyformat.H(&common.Namespace{}))

func subKeys(n *node.Node) map[string]signature.PublicKey {
	return map[string]signature.PublicKey{"consensus": n.Consensus.ID, "p2p": n.P2P.ID, "tls": n.TLS.PubKey, "vrf": n.VRF.ID}
}

// OnBlock implements Monitor.
func (m *RegistryMonitor) OnBlock(h *History, b *Block, txs []*GenTx, ref *BlockResult) {
	ctx := context.Background()
	st, err := CommittedState(h.Ref, b.Height)
	if err != nil {
		panic(err)
	}
	defer st.Close()
	m.Checked++
	rs := registryState.NewImmutableState(st)
	viol := func(kind, what string, extra any) {
		m.Rep.Violation("c17/"+kind, what, map[string]any{"height": b.Height, "params": h.Sc.P, "detail": extra})
	}
	nodes, err := rs.Nodes(ctx)
	if err != nil {
		viol("state-unreadable/nodes", err.Error(), nil)
		return
	}
	ents, err := rs.Entities(ctx)
	if err != nil {
		viol("state-unreadable/entities", err.Error(), nil)
		return
	}
	rts, err := rs.AllRuntimes(ctx)
	if err != nil {
		viol("state-unreadable/runtimes", err.Error(), nil)
		return
	}
	entSet := map[signature.PublicKey]bool{}
	for _, e := range ents {
		entSet[e.ID] = true
	}
	// (r) the runtime ownership index (which entity may not deregister because it owns runtimes) lists
	// exactly the owners of the registered runtimes. On chains that do not maintain the index (no entry
	// at all) there is nothing to compare.
	{
		want := map[string]string{}
		for _, rt := range rts {
			eid, rid := rt.EntityID, rt.ID
			want[string(runtimeOwnerIndexKeyFmt.Encode(&eid, &rid))] = fmt.Sprintf("runtime %s owned by %s", rt.ID, rt.EntityID)
		}
		have := map[string]bool{}
		it := st.NewIterator(ctx)
		for it.Seek(runtimeOwnerIndexKeyFmt.Encode()); it.Valid(); it.Next() {
			if len(it.Key()) == 0 || it.Key()[0] != 0x19 {
				break
			}
			have[string(it.Key())] = true
		}
		it.Close()
		if len(have) > 0 {
			m.OwnerIndexChecks++
			for k := range have {
				if _, ok := want[k]; !ok {
					viol("runtime-owner-index/entry-without-runtime", fmt.Sprintf("the runtime ownership index has an entry (%x) that matches no registered runtime and its owner: an entity is recorded as owning a runtime it does not own (or that does not exist)", k), nil)
				}
			}
			for k, what := range want {
				if !have[k] {
					viol("runtime-owner-index/owner-not-indexed", fmt.Sprintf("%s: the ownership index has no entry for it, the owner can deregister while owning the runtime", what), nil)
				}
			}
		}
	}
	// (a) every current key of every node resolves to that node; keys unique.
	owner := map[signature.PublicKey]signature.PublicKey{}
	byEntity := map[signature.PublicKey][]signature.PublicKey{}
	// A node's identity key is one of its keys too: no other node may use it as a sub-key.
	for _, n := range nodes {
		owner[n.ID] = n.ID
	}
	for _, n := range nodes {
		byEntity[n.EntityID] = append(byEntity[n.EntityID], n.ID)
		for kind, k := range subKeys(n) {
			if o, dup := owner[k]; dup && o != n.ID {
				if o == k {
					// k is the identity key of node o and a sub-key of node n
					viol("key-associated-with-two-nodes/identity-key-of-another-node-as-sub-key", fmt.Sprintf("public key %s is the identity key of one registered node and the %s key of node %s", k, kind, n.ID), nil)
				} else {
					viol("key-associated-with-two-nodes/"+kind, fmt.Sprintf("public key %s is used by nodes %s and %s", k, o, n.ID), nil)
				}
			}
			owner[k] = n.ID
			got, err := rs.NodeBySubKey(ctx, k)
			switch {
			case err != nil:
				viol("node-not-found-under-its-key/"+kind, fmt.Sprintf("node %s is not found under its current %s key %s: %v", n.ID, kind, k, err), map[string]any{"node": n.ID.String()})
			case got.ID != n.ID:
				viol("key-resolves-to-other-node/"+kind, fmt.Sprintf("%s key %s of node %s resolves to node %s", kind, k, n.ID, got.ID), nil)
			}
		}
		ck := n.Consensus.ID
		got, err := rs.NodeByConsensusAddress(ctx, tmcrypto.PublicKeyToCometBFT(&ck).Address())
		switch {
		case err != nil:
			viol("node-not-found-under-consensus-address", fmt.Sprintf("node %s: %v", n.ID, err), nil)
		case got.ID != n.ID:
			viol("consensus-address-resolves-to-other-node", fmt.Sprintf("node %s vs %s", n.ID, got.ID), nil)
		}
		// (b) an entity with nodes is never absent.
		if !entSet[n.EntityID] {
			viol("node-without-entity", fmt.Sprintf("node %s is registered but its entity %s is not", n.ID, n.EntityID), nil)
		}
	}
	for _, rt := range rts {
		if !entSet[rt.EntityID] {
			viol("runtime-without-entity", fmt.Sprintf("runtime %s is registered but its entity %s is not", rt.ID, rt.EntityID), nil)
		}
	}
	// nodes-by-entity index equals what the primary records imply.
	for _, e := range ents {
		got, err := rs.GetEntityNodes(ctx, e.ID)
		if err != nil {
			viol("state-unreadable/entity-nodes", err.Error(), nil)
			continue
		}
		var a, c []string
		for _, n := range got {
			a = append(a, n.ID.String())
		}
		for _, id := range byEntity[e.ID] {
			c = append(c, id.String())
		}
		sort.Strings(a)
		sort.Strings(c)
		if strings.Join(a, ",") != strings.Join(c, ",") {
			viol("nodes-by-entity-index-mismatch", fmt.Sprintf("entity %s: index lists %v, node records imply %v", e.ID, a, c), nil)
		}
	}
	// (c) stake claims equal exactly those implied by registered entities, nodes, runtimes.
	want := map[staking.Address]map[staking.StakeClaim]bool{}
	addClaim := func(a staking.Address, c staking.StakeClaim) {
		if want[a] == nil {
			want[a] = map[staking.StakeClaim]bool{}
		}
		want[a][c] = true
	}
	for _, e := range ents {
		addClaim(staking.NewAddress(e.ID), registry.StakeClaimRegisterEntity)
	}
	for _, n := range nodes {
		addClaim(staking.NewAddress(n.EntityID), registry.StakeClaimForNode(n.ID))
	}
	for _, rt := range rts {
		if rt.GovernanceModel == registry.GovernanceConsensus {
			continue
		}
		if a, ok := rt.StakingAddress(); ok && a != nil {
			addClaim(*a, registry.StakeClaimForRuntime(rt.ID))
		}
	}
	// key manager support: every stored CHURP instance implies one claim on the account of its key
	// manager runtime's owner (the reference rule is churp.AddStakeClaims).
	churps, err := churpState.NewImmutableState(st).AllStatuses(ctx)
	if err != nil {
		viol("state-unreadable/churp-statuses", err.Error(), nil)
		return
	}
	churpClaims := map[staking.StakeClaim]bool{}
	for _, cs := range churps {
		var owner *registry.Runtime
		for _, rt := range rts {
			if rt.ID == cs.RuntimeID {
				owner = rt
			}
		}
		if owner == nil {
			viol("churp-instance-without-runtime", fmt.Sprintf("CHURP instance %d is stored for runtime %s, which is not registered", cs.ID, cs.RuntimeID), nil)
			continue
		}
		if a, ok := owner.StakingAddress(); ok && a != nil {
			c := churp.StakeClaim(cs.RuntimeID, cs.ID)
			addClaim(*a, c)
			churpClaims[c] = true
		}
	}
	m.ChurpClaims = max(m.ChurpClaims, len(churpClaims))
	snap := ParseStake(Dump(ctx, st))
	// The thresholds recorded with a claim are those its registered object implies now (runtime
	// descriptors never change their staking thresholds in generated histories).
	rtByID := map[common.Namespace]*registry.Runtime{}
	for _, rt := range rts {
		rtByID[rt.ID] = rt
	}
	sameThresholds := func(a staking.Address, c staking.StakeClaim, want []staking.StakeThreshold, what string) {
		acct := snap.Accounts[a]
		if acct == nil {
			return
		}
		have, ok := acct.Escrow.StakeAccumulator.Claims[c]
		if !ok {
			return // reported as a missing claim below
		}
		if !bytes.Equal(cbor.Marshal(have), cbor.Marshal(want)) {
			viol("stake-claim-with-other-thresholds", fmt.Sprintf("account %s records claim %q with thresholds %v, the registered %s implies %v", a, c, have, what, want), nil)
		}
	}
	for _, e := range ents {
		sameThresholds(staking.NewAddress(e.ID), registry.StakeClaimRegisterEntity, staking.GlobalStakeThresholds(staking.KindEntity), "entity")
	}
	for _, n := range nodes {
		var nrts []*registry.Runtime
		known := true
		for _, nr := range n.Runtimes {
			if rt := rtByID[nr.ID]; rt != nil {
				nrts = append(nrts, rt)
			} else {
				known = false
			}
		}
		if !known {
			continue
		}
		sameThresholds(staking.NewAddress(n.EntityID), registry.StakeClaimForNode(n.ID), registry.StakeThresholdsForNode(n, nrts), "node descriptor")
	}
	for _, rt := range rts {
		if rt.GovernanceModel == registry.GovernanceConsensus {
			continue
		}
		if a, ok := rt.StakingAddress(); ok && a != nil {
			sameThresholds(*a, registry.StakeClaimForRuntime(rt.ID), registry.StakeThresholdsForRuntime(rt), "runtime descriptor")
		}
	}
	for _, a := range snap.SortedAccounts() {
		// A CHURP claim is recorded with the global CHURP threshold.
		for c, ths := range snap.Accounts[a].Escrow.StakeAccumulator.Claims {
			if churpClaims[c] && !bytes.Equal(cbor.Marshal(ths), cbor.Marshal(churp.StakeThresholds())) {
				viol("churp-stake-claim-with-other-thresholds", fmt.Sprintf("account %s records claim %q with thresholds %v, a CHURP instance implies %v", a, c, ths, churp.StakeThresholds()), nil)
			}
		}
		have := map[staking.StakeClaim]bool{}
		for c := range snap.Accounts[a].Escrow.StakeAccumulator.Claims {
			have[c] = true
		}
		for c := range have {
			if !want[a][c] {
				viol("stale-stake-claim", fmt.Sprintf("account %s records claim %q with no registered object implying it", a, c), nil)
			}
		}
		for c := range want[a] {
			if !have[c] {
				if KeyManagerGenesisChurp && churpClaims[c] && strings.HasSuffix(string(c), ".200") {
					// The CHURP instance (id 200) that the genesis document of this history carries.
					viol("missing-stake-claim/churp-instance-of-the-genesis-document", fmt.Sprintf("account %s lacks claim %q although the CHURP instance listed in the genesis document is stored: InitChain of the key manager application stores genesis CHURP instances without adding their stake claim", a, c), nil)
					continue
				}
				viol("missing-stake-claim", fmt.Sprintf("account %s lacks claim %q implied by a registered object", a, c), nil)
			}
		}
	}
	for a, cs := range want {
		if snap.Accounts[a] == nil && len(cs) > 0 {
			viol("missing-stake-claim", fmt.Sprintf("account %s does not exist but claims %v are implied", a, cs), nil)
		}
	}
}

// OnTx implements TxMonitor: authority over record changes.
func (m *RegistryMonitor) OnTx(h *History, o *TxObs) {
	if len(o.Diff) == 0 {
		return
	}
	d := DecodeTx(o.Raw, h.Sc.Doc.ChainContext())
	if !d.EnvelopeOK {
		return
	}
	viol := func(kind, what string) {
		m.Rep.Violation("c17/authority/"+kind, what, txWitness(h, o))
	}
	// Runtime descriptors (0x13 active, 0x18 suspended; key = H(runtime id)): anybody's transaction
	// may move a descriptor between the two (a node registration resumes a suspended runtime), but
	// the descriptor of an entity-governed runtime changes only in a transaction of that entity.
	type rtChange struct{ old, new []byte }
	rtc := map[string]*rtChange{}
	for _, e := range o.Diff {
		if len(e.K) > 1 && (e.K[0] == 0x13 || e.K[0] == 0x18) {
			c := rtc[string(e.K[1:])]
			if c == nil {
				c = &rtChange{}
				rtc[string(e.K[1:])] = c
			}
			if e.Old != nil {
				c.old = e.Old
			}
			if e.New != nil {
				c.new = e.New
			}
		}
	}
	for id, c := range rtc {
		if c.old == nil || c.new == nil || bytes.Equal(c.old, c.new) {
			continue
		}
		var ort registry.Runtime
		if err := cbor.Unmarshal(c.old, &ort); err != nil {
			continue
		}
		if ort.GovernanceModel == registry.GovernanceEntity && !ort.EntityID.Equal(d.Signer) {
			viol("runtime-changed-by-other-than-governing-entity", fmt.Sprintf("descriptor of runtime %s (key %x), governed by entity %s, changed in a transaction signed by %s", ort.ID, id, ort.EntityID, d.Signer))
		}
	}
	for _, e := range o.Diff {
		if len(e.K) == 0 {
			continue
		}
		switch e.K[0] {
		case 0x10: // signed entity record, key = H(entity id)
			id := hashedKey(d.Signer)
			if !bytes.Equal(e.K[1:], id) {
				viol("entity-record-changed-by-other-signer", fmt.Sprintf("entity record %x changed in a transaction signed by %s", e.K[1:], d.Signer))
			}
		case 0x11: // signed node record, key = H(node id)
			id := hashedKey(d.Signer)
			if !bytes.Equal(e.K[1:], id) {
				viol("node-record-changed-by-other-signer", fmt.Sprintf("node record %x changed in a transaction signed by %s", e.K[1:], d.Signer))
				continue
			}
			m.NodeUpdates++
			if e.New != nil {
				m.checkNodeDescriptor(h, o, d, e.New, viol)
			}
		}
	}
}

func hashedKey(pk signature.PublicKey) []byte {
	// keyformat.H: the hash (SHA-512/256 truncated as the repo's hash.Hash) of the binary key.
	return hashOf(pk[:])
}

func (m *RegistryMonitor) checkNodeDescriptor(h *History, o *TxObs, d *DecodedTx, raw []byte, viol func(string, string)) {
	var sn node.MultiSignedNode
	if err := cbor.Unmarshal(raw, &sn); err != nil {
		viol("stored-node-undecodable", err.Error())
		return
	}
	var n node.Node
	if err := cbor.Unmarshal(sn.Blob, &n); err != nil {
		viol("stored-node-undecodable", err.Error())
		return
	}
	// Signatures from all of its keys (independently verified under the registration context).
	need := map[signature.PublicKey]string{n.ID: "node", n.Consensus.ID: "consensus", n.P2P.ID: "p2p", n.TLS.PubKey: "tls", n.VRF.ID: "vrf"}
	ctxStr := string(registry.RegisterNodeSignatureContext) // registered without chain separation
	have := map[signature.PublicKey]bool{}
	for _, s := range sn.Signatures {
		if RawVerify(s.PublicKey, ctxStr, sn.Blob, s.Signature) {
			have[s.PublicKey] = true
		}
	}
	for k, kind := range need {
		if !have[k] {
			viol("node-registered-without-signature/"+kind, fmt.Sprintf("node %s registered without a valid signature by its %s key", n.ID, kind))
		}
	}
	if len(sn.Signatures) != len(need) {
		viol("node-registered-with-unexpected-signature-count", fmt.Sprintf("node %s descriptor carries %d signatures, %d distinct keys", n.ID, len(sn.Signatures), len(need)))
	}
	// Membership in its entity's node list (pre-state).
	ent := preEntity(o.Pre, n.EntityID)
	if ent == nil {
		viol("node-registered-for-unregistered-entity", fmt.Sprintf("node %s registered for entity %s which is not registered", n.ID, n.EntityID))
		return
	}
	found := false
	for _, id := range ent {
		if id == n.ID {
			found = true
		}
	}
	if !found {
		viol("node-registered-outside-entity-node-list", fmt.Sprintf("node %s is not in the node list of entity %s", n.ID, n.EntityID))
	}
}

// ---------------------------------------------------------------------------
// C14: elections.

// ElectionMonitor recomputes eligibility at every election.
type ElectionMonitor struct {
	BaseMonitor
	Rep Reporter

	pre       []KV
	preEpoch  beacon.EpochTime
	elected   map[signature.PublicKey]*scheduler.Validator // by consensus key
	electedAt int64
	Elections int
	FullSets  int
	Ties      int
	Excluded  map[string]int
	// VRFFiltered / VRFFallback count the elections under the VRF backend in which the candidates were
	// (were not) restricted to nodes with a stored proof (VRF beacon support).
	VRFFiltered, VRFFallback int
}

// OnTap implements Monitor.
func (m *ElectionMonitor) OnTap(h *History, stage, app string, ctx *cmt.Context, extra any) {
	switch stage {
	case "elect.pre":
		m.pre = Dump(context.Background(), ctx.State())
		m.preEpoch, _ = extra.(beacon.EpochTime)
	case "elect.post":
		if m.pre == nil {
			return
		}
		ss := schedulerState.NewImmutableState(ctx.State())
		pend, err := ss.PendingValidators(ctx)
		if err != nil {
			m.Rep.Violation("c14/state-unreadable/pending-validators", err.Error(), nil)
			return
		}
		m.Elections++
		m.elected = pend
		m.electedAt = ctx.CurrentHeight()
		m.checkValidators(h, ctx, pend)
		m.pre = nil
	}
}

func (m *ElectionMonitor) checkValidators(h *History, ctx *cmt.Context, pend map[signature.PublicKey]*scheduler.Validator) {
	bg := context.Background()
	if m.Excluded == nil {
		m.Excluded = map[string]int{}
	}
	epoch := m.preEpoch
	viol := func(kind, what string, extra any) {
		m.Rep.Violation("c14/validators/"+kind, what, map[string]any{"height": ctx.CurrentHeight(), "epoch": epoch, "params": h.Sc.P, "detail": extra})
	}
	// Read the pre-election state through an in-memory tree of the dump.
	pre := newMemState(m.pre)
	rs := registryState.NewImmutableState(pre)
	nodes, err := rs.Nodes(bg)
	if err != nil {
		viol("state-unreadable", err.Error(), nil)
		return
	}
	sp, err := schedulerState.NewImmutableState(pre).ConsensusParameters(bg)
	if err != nil {
		viol("state-unreadable", err.Error(), nil)
		return
	}
	stake := ParseStake(m.pre)
	thresholds := h.View.StakingP.Thresholds
	// The thresholds may have been changed by governance: read them from the pre-state.
	if p, err := stakingParams(pre); err == nil {
		thresholds = p.Thresholds
	}
	claimsOK := func(a staking.Address) bool {
		acct := stake.Accounts[a]
		if acct == nil {
			acct = &staking.Account{}
		}
		total := new(big.Int)
		for _, ths := range acct.Escrow.StakeAccumulator.Claims {
			for _, t := range ths {
				switch {
				case t.Global != nil:
					q, ok := thresholds[*t.Global]
					if !ok {
						return false
					}
					total.Add(total, q.ToBigInt())
				case t.Constant != nil:
					total.Add(total, t.Constant.ToBigInt())
				}
			}
		}
		return acct.Escrow.Active.Balance.ToBigInt().Cmp(total) >= 0
	}
	escrow := func(a staking.Address) *big.Int {
		if acct := stake.Accounts[a]; acct != nil {
			return acct.Escrow.Active.Balance.ToBigInt()
		}
		return new(big.Int)
	}
	eligible := map[signature.PublicKey]*node.Node{} // by node id
	eligByEntity := map[signature.PublicKey][]*node.Node{}
	for _, n := range nodes {
		status, err := rs.NodeStatus(bg, n.ID)
		if err != nil {
			viol("state-unreadable", err.Error(), nil)
			return
		}
		switch {
		case status.IsFrozen():
			m.Excluded["frozen"]++
		case n.IsExpired(epoch):
			m.Excluded["expired"]++
		case !n.HasRoles(node.RoleValidator):
			m.Excluded["no-validator-role"]++
		case !sp.DebugBypassStake && !claimsOK(staking.NewAddress(n.EntityID)):
			m.Excluded["stake-claims-not-covered"]++
		default:
			eligible[n.ID] = n
		}
	}
	// VRF beacon support: under the VRF backend the candidates are the eligible validator nodes that
	// have a stored proof of the previous epoch, provided at least MinValidators of them have one
	// (otherwise all eligible validator nodes, shuffled by the epoch entropy as under the insecure
	// backend). Nothing changes under the insecure backend.
	var prevPi map[signature.PublicKey]*signature.Proof
	vrfFilter := false
	if snap, err := readVRF(pre); err == nil && snap.Params.Backend == beacon.BackendVRF && snap.State != nil && snap.State.PrevState != nil {
		prevPi = snap.State.PrevState.Pi
		withPi := 0
		for id := range eligible {
			if prevPi[id] != nil {
				withPi++
			}
		}
		vrfFilter = withPi >= sp.MinValidators
		if vrfFilter {
			m.VRFFiltered++
		} else {
			m.VRFFallback++
		}
	}
	for _, n := range nodes {
		if eligible[n.ID] == nil {
			continue
		}
		if vrfFilter && prevPi[n.ID] == nil {
			m.Excluded["no-vrf-proof"]++
			continue
		}
		eligByEntity[n.EntityID] = append(eligByEntity[n.EntityID], n)
	}
	perEntity := map[signature.PublicKey]int{}
	minElected := (*big.Int)(nil)
	for ck, v := range pend {
		n := eligible[v.ID]
		if n == nil {
			viol("ineligible-node-elected", fmt.Sprintf("node %s (entity %s) was elected validator but is not eligible (unregistered, expired at epoch %d, frozen, without validator role, or entity stake below its claims)", v.ID, v.EntityID, epoch), nil)
			continue
		}
		if vrfFilter && prevPi[v.ID] == nil {
			viol("elected-without-vrf-proof", fmt.Sprintf("node %s (entity %s) was elected validator for epoch %d without a stored VRF proof of the previous epoch although %d or more eligible validator nodes have one", v.ID, v.EntityID, epoch, sp.MinValidators), nil)
			continue
		}
		if n.Consensus.ID != ck || n.EntityID != v.EntityID {
			viol("elected-record-inconsistent", fmt.Sprintf("validator entry %s does not match node %s", ck, n.ID), nil)
		}
		perEntity[n.EntityID]++
		st := escrow(staking.NewAddress(n.EntityID))
		if minElected == nil || st.Cmp(minElected) < 0 {
			minElected = st
		}
		// Voting power as a function of stake.
		want := powerFromStake(st, sp.VotingPowerDistribution)
		if sp.DebugBypassStake {
			want = 1
		}
		if v.VotingPower != want {
			viol("voting-power-not-derived-from-stake", fmt.Sprintf("validator %s: power %d, stake %s implies %d", v.ID, v.VotingPower, st, want), nil)
		}
	}
	if len(pend) > sp.MaxValidators {
		viol("more-than-max-validators", fmt.Sprintf("%d validators elected, maximum %d", len(pend), sp.MaxValidators), nil)
	}
	if len(pend) < sp.MinValidators {
		viol("fewer-than-min-validators", fmt.Sprintf("%d validators elected, minimum %d", len(pend), sp.MinValidators), nil)
	}
	for e, c := range perEntity {
		if c > sp.MaxValidatorsPerEntity {
			viol("more-than-max-validators-per-entity", fmt.Sprintf("entity %s has %d validators, maximum %d", e, c, sp.MaxValidatorsPerEntity), nil)
		}
	}
	// Power is non-decreasing in stake.
	type ps struct {
		p int64
		s *big.Int
	}
	var pss []ps
	for _, v := range pend {
		pss = append(pss, ps{v.VotingPower, escrow(staking.NewAddress(v.EntityID))})
	}
	for i := range pss {
		for j := range pss {
			if pss[i].s.Cmp(pss[j].s) > 0 && pss[i].p < pss[j].p {
				viol("voting-power-decreasing-in-stake", fmt.Sprintf("stake %s has power %d but smaller stake %s has power %d", pss[i].s, pss[i].p, pss[j].s, pss[j].p), nil)
			}
		}
	}
	// Descending stake order: an eligible entity with free capacity may be left
	// out only if the set is full and its stake does not exceed the minimum elected stake.
	full := len(pend) >= sp.MaxValidators
	if full {
		m.FullSets++
	}
	seenStake := map[string]bool{}
	for e, ns := range eligByEntity {
		capacity := min(len(ns), sp.MaxValidatorsPerEntity)
		st := escrow(staking.NewAddress(e))
		if seenStake[st.String()] {
			m.Ties++
		}
		seenStake[st.String()] = true
		if perEntity[e] >= capacity {
			continue
		}
		if !full {
			viol("eligible-node-left-out-of-non-full-set", fmt.Sprintf("entity %s has %d eligible nodes but only %d elected while the set (%d) is below the maximum %d", e, len(ns), perEntity[e], len(pend), sp.MaxValidators), nil)
			continue
		}
		if minElected != nil && st.Cmp(minElected) > 0 {
			viol("higher-stake-entity-left-out", fmt.Sprintf("entity %s with stake %s was left out (has %d of %d possible validators) although an entity with stake %s was elected", e, st, perEntity[e], capacity, minElected), nil)
		}
	}
}

func powerFromStake(st *big.Int, dist scheduler.VotingPowerDistribution) int64 {
	p := new(big.Int).Set(st)
	if dist == scheduler.VotingPowerDistributionLinear {
		p.Quo(p, big.NewInt(16))
	}
	if p.Sign() == 0 {
		return 1
	}
	if dist == scheduler.VotingPowerDistributionSqrt {
		p.Sqrt(p)
	}
	return p.Int64()
}

// OnBlock implements Monitor: the validator updates must turn the previous
// validator set of the consensus engine into exactly the newly elected one.
func (m *ElectionMonitor) OnBlock(h *History, b *Block, txs []*GenTx, ref *BlockResult) {
	if m.elected == nil || m.electedAt != b.Height {
		if len(ref.End.ValidatorUpdates) != 0 {
			m.Rep.Violation("c14/validator-updates-without-election", fmt.Sprintf("block %d returned %d validator updates without an election", b.Height, len(ref.End.ValidatorUpdates)), map[string]any{"height": b.Height, "params": h.Sc.P})
		}
		return
	}
	got := h.ValSets[b.Height+2]
	want := map[string]int64{}
	for ck, v := range m.elected {
		k := ck
		want[fmt.Sprintf("%x", []byte(tmcrypto.PublicKeyToCometBFT(&k).Address()))] = v.VotingPower
	}
	have := map[string]int64{}
	for k, v := range got {
		have[k] = v.Power
	}
	if fmt.Sprint(sortedMap(want)) != fmt.Sprint(sortedMap(have)) {
		m.Rep.Violation("c14/validator-updates-do-not-yield-elected-set", fmt.Sprintf("after applying the validator updates of block %d the consensus engine's set is %v, the elected set is %v", b.Height, sortedMap(have), sortedMap(want)), map[string]any{"height": b.Height, "params": h.Sc.P})
	}
	m.elected = nil
}

func sortedMap(m map[string]int64) []string {
	var out []string
	for k, v := range m {
		out = append(out, fmt.Sprintf("%s:%d", k, v))
	}
	sort.Strings(out)
	return out
}

// ElectedAt returns the height of the last election the monitor saw on the reference replica.
func (m *ElectionMonitor) ElectedAt() int64 { return m.electedAt }
