package chainsim

import (
	"bytes"
	"context"
	"crypto/sha256"
	"encoding/binary"
	"fmt"
	"math/rand/v2"
	"os"
	"runtime/debug"
	"sort"
	"strings"
	"time"

	"github.com/cometbft/cometbft/abci/types"
	cmtcrypto "github.com/cometbft/cometbft/crypto"
	cmted "github.com/cometbft/cometbft/crypto/ed25519"

	cmt "github.com/oasisprotocol/oasis-core/go/consensus/cometbft/api"
)

// Path is the execution path a replica takes for one block.
type Path int

const (
	PathReplay      Path = iota // BeginBlock/DeliverTx/EndBlock/Commit without a proposal phase
	PathProposer                // PrepareProposal + ProcessProposal (cached) + cached finalisation
	PathValidator               // ProcessProposal executes, finalisation cached
	PathRoundChange             // processes another proposal first, then the decided one
	PathRestart                 // closes and reopens the on-disk state, then replays
	PathCrashMid                // ProcessProposal, then drops the process state, reopens, replays
)

func (p Path) String() string {
	return [...]string{"replay", "proposer", "validator", "roundchange", "restart", "crashmid"}[p]
}

// Validator is one member of the simulated CometBFT validator set.
type Validator struct {
	PubKey []byte // ed25519
	Addr   cmtcrypto.Address
	Power  int64
}

// ValSet is a validator set keyed by address (hex).
type ValSet map[string]*Validator

func (vs ValSet) clone() ValSet {
	o := ValSet{}
	for k, v := range vs {
		c := *v
		o[k] = &c
	}
	return o
}

// Sorted returns validators sorted by address.
func (vs ValSet) Sorted() []*Validator {
	var out []*Validator
	for _, v := range vs {
		out = append(out, v)
	}
	sort.Slice(out, func(i, j int) bool { return bytes.Compare(out[i].Addr, out[j].Addr) < 0 })
	return out
}

// Apply applies ABCI validator updates (power 0 removes).
func (vs ValSet) Apply(ups []types.ValidatorUpdate) ValSet {
	o := vs.clone()
	for _, u := range ups {
		pk := u.PubKey.GetEd25519()
		addr := cmted.PubKey(pk).Address()
		k := fmt.Sprintf("%x", []byte(addr))
		if u.Power == 0 {
			delete(o, k)
			continue
		}
		o[k] = &Validator{PubKey: append([]byte(nil), pk...), Addr: addr, Power: u.Power}
	}
	return o
}

// Panic is a recovered panic of the code under test.
type Panic struct {
	Where   string
	Replica string
	Height  int64
	Value   string
	Stack   string
}

func (p *Panic) Error() string {
	return fmt.Sprintf("panic in %s on %s at height %d: %s", p.Where, p.Replica, p.Height, p.Value)
}

func guard(where string, r *Replica, h int64, f func()) (p *Panic) {
	defer func() {
		if e := recover(); e != nil {
			p = &Panic{Where: where, Replica: r.Cfg.Name, Height: h, Value: fmt.Sprint(e), Stack: string(debug.Stack())}
			// The ABCI mutex may be held by the panicking call; make it usable again.
			r.mu.TryLock()
			r.mu.Unlock()
		}
	}()
	f()
	return nil
}

// Monitor observes a history.
type Monitor interface {
	// OnTap is called for every H1/H2 tap of the reference replica.
	OnTap(h *History, stage, app string, ctx *cmt.Context, extra any)
	// OnBlock is called after every replica has committed the block.
	OnBlock(h *History, b *Block, txs []*GenTx, ref *BlockResult)
	// OnEnd is called at the end of the history.
	OnEnd(h *History)
}

// BaseMonitor is a no-op Monitor to embed.
type BaseMonitor struct{}

func (BaseMonitor) OnTap(*History, string, string, *cmt.Context, any) {}
func (BaseMonitor) OnBlock(*History, *Block, []*GenTx, *BlockResult)  {}
func (BaseMonitor) OnEnd(*History)                                    {}

// HistoryConfig configures a history run.
type HistoryConfig struct {
	Seed    uint64
	Profile string
	Blocks  int
	// Replicas are the test replicas besides the reference replica.
	Replicas []ReplicaConfig
	// Paths enables PRNG-assigned execution paths for the test replicas
	// (otherwise they all replay).
	Paths bool
	// Between, if set, is invoked between ABCI calls of test replicas.
	Between func(r *Replica)
	Dir     string
	// FaultRead: the first two test replicas (on disk, same backend) are read-fault twins, see readfault.go.
	FaultRead bool
}

// DebugTamper prints details of tampered proposals (development aid).
var DebugTamper = os.Getenv("VERIF_DEBUG_TAMPER") != ""

// ReplicaDivergence describes a difference between a test replica and the reference.
type ReplicaDivergence struct {
	Replica string
	Path    string
	Height  int64
	What    string
	Detail  string
}

// History is one executed block history.
type History struct {
	Cfg   HistoryConfig
	Sc    *Scenario
	Rng   *rand.Rand
	Ref   *Replica
	Tests []*Replica
	Mons  []Monitor
	Gen   *TxGen
	View  *View
	// KMMon is the key manager monitor of the history (key manager support; nil without a key manager).
	KMMon *KeyManagerMonitor
	// VRFMon is the VRF monitor of the history (VRF beacon support; nil without the VRF backend).
	VRFMon *VRFMonitor

	Height  int64
	Time    time.Time
	ValSets map[int64]ValSet // validator set in force at each height
	Blocks  []*Block
	Results []*BlockResult
	// Cur is the block being executed (valid inside taps).
	Cur      *Block
	PathUsed map[Path]int

	// Outcome
	Panics           []*Panic
	Divergences      []*ReplicaDivergence
	PreconditionLost string // non-empty: the documented election precondition was lost
	// PreconditionBlock is the block whose execution reported the lost precondition.
	PreconditionBlock *Block
	RejectedProposals int
	// TamperedProposals counts tampered copies of an own proposal offered to the proposer replica.
	TamperedProposals int
	// OwnAbandoned counts round changes in which a test replica built its own (undecided) proposal.
	OwnAbandoned     int
	EpochTransitions int
	lastEpoch        uint64

	// Read-fault twins (readfault.go).
	ReadFault         ReadFaultStats
	ReadFaultFindings []*ReadFaultFinding
	ReadFaultSilent   []map[string]any
}

// tapOwner maps application states to histories (taps are process-global).
var tapOwner = map[cmt.ApplicationState]*History{}

func installTap() {
	cmt.VerifTapHook = func(stage, app string, ctx *cmt.Context, extra any) {
		if ctx == nil {
			return
		}
		var as cmt.ApplicationState
		func() {
			defer func() { _ = recover() }()
			as = ctx.AppState()
		}()
		h := tapOwner[as]
		if h == nil {
			return
		}
		for _, m := range h.Mons {
			m.OnTap(h, stage, app, ctx, extra)
		}
	}
}

// NewHistory sets up replicas and runs InitChain on all of them.
func NewHistory(cfg HistoryConfig, mons ...Monitor) (*History, error) {
	sc := NewScenario(cfg.Seed, cfg.Profile)
	if err := sc.Doc.SanityCheck(); err != nil {
		return nil, fmt.Errorf("generated genesis document fails its sanity check: %w", err)
	}
	SetupProcess(sc.Doc)
	// key manager support: every history with a key manager has a key manager monitor (for the counters;
	// a check that owns the monitor's assertions passes its own, with a reporter).
	var kmMon *KeyManagerMonitor
	if sc.KM != nil {
		for _, m := range mons {
			if k, ok := m.(*KeyManagerMonitor); ok {
				kmMon = k
			}
		}
		if kmMon == nil {
			kmMon = &KeyManagerMonitor{}
			mons = append(append([]Monitor(nil), mons...), kmMon)
		}
	}
	// VRF beacon support: every history on the VRF backend has a VRF monitor (for the counters; C14
	// passes its own, with a reporter).
	var vrfMon *VRFMonitor
	if sc.IsVRF() {
		for _, m := range mons {
			if k, ok := m.(*VRFMonitor); ok {
				vrfMon = k
			}
		}
		if vrfMon == nil {
			vrfMon = &VRFMonitor{}
			mons = append(append([]Monitor(nil), mons...), vrfMon)
		}
	}
	h := &History{
		Cfg: cfg, Sc: sc, Mons: mons, KMMon: kmMon, VRFMon: vrfMon,
		Rng:      rand.New(rand.NewPCG(cfg.Seed, 0x41157031)),
		ValSets:  map[int64]ValSet{},
		PathUsed: map[Path]int{},
		Time:     sc.Doc.Time,
	}
	ident := sc.Entities[0].Nodes[0]
	ref, err := NewReplica(sc.Doc, ReplicaConfig{Name: "ref", Backend: "badger", Identity: ident})
	if err != nil {
		return nil, err
	}
	h.Ref = ref
	tapOwner[ref.State()] = h
	installTap()
	vals, err := ref.InitChain()
	if err != nil {
		return nil, err
	}
	vs := ValSet{}.Apply(vals)
	h.ValSets[1], h.ValSets[2] = vs, vs
	for i, rc := range cfg.Replicas {
		if rc.Identity == nil {
			rc.Identity = sc.Entities[i%sc.P.NumValidators].Nodes[0]
		}
		r, err := NewReplica(sc.Doc, rc)
		if err != nil {
			return nil, fmt.Errorf("replica %s: %w", rc.Name, err)
		}
		if _, err := r.InitChain(); err != nil {
			return nil, err
		}
		if !bytes.Equal(r.AppHash, ref.AppHash) {
			h.Divergences = append(h.Divergences, &ReplicaDivergence{Replica: rc.Name, Height: 0, What: "initchain-apphash"})
		}
		h.Tests = append(h.Tests, r)
	}
	h.View = NewView(h)
	h.Gen = NewTxGen(h)
	return h, nil
}

// Close releases all replicas.
func (h *History) Close() {
	delete(tapOwner, h.Ref.State())
	h.Ref.Close()
	for _, r := range h.Tests {
		r.Close()
	}
}

func blockHash(b *Block) []byte {
	hs := sha256.New()
	var buf [8]byte
	binary.BigEndian.PutUint64(buf[:], uint64(b.Height))
	hs.Write(buf[:])
	binary.BigEndian.PutUint64(buf[:], uint64(b.Time.UnixNano()))
	hs.Write(buf[:])
	hs.Write(b.Proposer)
	for _, tx := range b.Txs {
		t := sha256.Sum256(tx)
		hs.Write(t[:])
	}
	for _, v := range b.LastCommit.Votes {
		hs.Write(v.Validator.Address)
		if v.SignedLastBlock {
			hs.Write([]byte{1})
		} else {
			hs.Write([]byte{0})
		}
	}
	for _, m := range b.Misbehavior {
		hs.Write(m.Validator.Address)
		binary.BigEndian.PutUint64(buf[:], uint64(m.Height))
		hs.Write(buf[:])
	}
	return hs.Sum(nil)
}

// isPrecondition reports whether a panic message is the scheduler's documented
// election precondition (not enough eligible validators).
func isPrecondition(msg string) bool {
	return bytes.Contains([]byte(msg), []byte("failed to elect any validators")) ||
		bytes.Contains([]byte(msg), []byte("insufficient validators")) ||
		// Every validator entity has zero escrow (needs all validators, not a minority): same precondition.
		bytes.Contains([]byte(msg), []byte("total voting stake is zero"))
}

// lastCommitFor builds the LastCommitInfo for the block at height (votes of the
// validator set of height-1).
func (h *History) lastCommitFor(height int64) types.CommitInfo {
	ci := types.CommitInfo{}
	if height <= h.Sc.Doc.Height {
		return ci
	}
	vs := h.ValSets[height-1].Sorted()
	mode := h.Rng.IntN(10)
	for _, v := range vs {
		signed := true
		switch {
		case mode == 0:
			signed = false // all absent
		case mode <= 3:
			signed = h.Rng.IntN(3) != 0
		}
		ci.Votes = append(ci.Votes, types.VoteInfo{
			Validator:       types.Validator{Address: v.Addr, Power: v.Power},
			SignedLastBlock: signed,
		})
	}
	return ci
}

func (h *History) misbehaviorFor(height int64) []types.Misbehavior {
	if height <= 2 {
		return nil
	}
	hostile := h.Cfg.Profile == "hostile"
	p := 25
	if hostile {
		p = 6
	}
	if h.Cfg.Profile == "evidence" {
		p = 3
	}
	if h.Rng.IntN(p) != 0 {
		return nil
	}
	var out []types.Misbehavior
	n := 1 + h.Rng.IntN(2)
	for i := 0; i < n; i++ {
		// Infraction heights up to 4 blocks back, and at odd heights up to 14 blocks back: old
		// enough to lie in an earlier epoch and below what pruning replicas still hold.
		maxAge := int64(4)
		if height%2 == 1 {
			maxAge = 14
		}
		evH := height - 1 - h.Rng.Int64N(min(height-1, maxAge))
		if evH < 1 {
			evH = 1
		}
		vs := h.ValSets[evH].Sorted()
		var val types.Validator
		switch {
		case len(vs) > 0 && h.Rng.IntN(5) != 0:
			v := vs[h.Rng.IntN(len(vs))]
			// The first two genesis entities never misbehave, so that the documented
			// election precondition (stake-eligible validators remain) is kept.
			if n := h.Sc.NodeByConsensusAddr(v.Addr); n != nil && (n.Entity == h.Sc.Entities[0] || n.Entity == h.Sc.Entities[1]) {
				continue
			}
			val = types.Validator{Address: v.Addr, Power: v.Power}
		default:
			// Unknown validator address.
			a := make([]byte, 20)
			for j := range a {
				a[j] = byte(h.Rng.Uint32())
			}
			val = types.Validator{Address: a, Power: 1 + h.Rng.Int64N(100)}
		}
		var total int64
		for _, v := range vs {
			total += v.Power
		}
		t := types.MisbehaviorType_DUPLICATE_VOTE
		if h.Rng.IntN(3) == 0 {
			t = types.MisbehaviorType_LIGHT_CLIENT_ATTACK
		}
		out = append(out, types.Misbehavior{
			Type: t, Validator: val, Height: evH,
			Time:             h.Time.Add(-time.Duration(height-evH) * time.Second),
			TotalVotingPower: total,
		})
	}
	return out
}

// Step executes one block on all replicas. It returns false when the history
// cannot continue (panic, lost precondition).
func (h *History) Step() bool {
	height := h.Ref.Height + 1
	if h.Ref.Height == 0 {
		height = h.Sc.Doc.Height
	}
	h.Time = h.Time.Add(time.Duration(1+h.Rng.IntN(6)) * time.Second)
	vs := h.ValSets[height]
	if len(vs) == 0 {
		h.PreconditionLost = "empty validator set"
		return false
	}
	sorted := vs.Sorted()
	proposer := sorted[h.Rng.IntN(len(sorted))]
	b := &Block{
		Height:      height,
		Time:        h.Time,
		Proposer:    proposer.Addr,
		LastCommit:  h.lastCommitFor(height),
		Misbehavior: h.misbehaviorFor(height),
		NextValHash: valSetHash(h.ValSets[height+1]),
	}
	gtxs := h.Gen.Next(height)
	var userTxs [][]byte
	for _, g := range gtxs {
		userTxs = append(userTxs, g.Raw)
	}

	// Assign paths.
	paths := make([]Path, len(h.Tests))
	propIdx := -1
	if h.Cfg.Paths && len(h.Tests) > 0 {
		propIdx = h.Rng.IntN(len(h.Tests))
		for i, r := range h.Tests {
			switch {
			case i == propIdx:
				paths[i] = PathProposer
			default:
				c := h.Rng.IntN(10)
				switch {
				case c < 4:
					paths[i] = PathValidator
				case c < 6:
					paths[i] = PathReplay
				case c < 8:
					paths[i] = PathRoundChange
				case c == 8 && r.Cfg.Dir != "" && height > h.Sc.Doc.Height:
					paths[i] = PathRestart
				case c == 9 && r.Cfg.Dir != "" && height > h.Sc.Doc.Height:
					paths[i] = PathCrashMid
				default:
					paths[i] = PathValidator
				}
			}
		}
	}

	// Proposal phase: some replica must build the block (system transactions).
	var proposerRep *Replica
	if propIdx >= 0 {
		proposerRep = h.Tests[propIdx]
	} else {
		proposerRep = h.proposalBuilder()
	}
	propNode := h.Sc.NodeByConsensusAddr(proposer.Addr)
	if propNode == nil {
		h.Panics = append(h.Panics, &Panic{Where: "harness", Replica: "-", Height: height, Value: "proposer without known keys"})
		return false
	}
	proposerRep.SetConsensusSigner(propNode.Keys.Consensus.Signer)
	var txs [][]byte
	if p := guard("PrepareProposal", proposerRep, height, func() { txs = proposerRep.Prepare(b, userTxs) }); p != nil {
		h.Panics = append(h.Panics, p)
		return false
	}
	if len(txs) == 0 {
		// Empty proposal: PrepareProposal failed internally (panic recovered by the mux).
		msg := "PrepareProposal returned an empty proposal for an honestly built block"
		h.Panics = append(h.Panics, &Panic{Where: "PrepareProposal(empty)", Replica: proposerRep.Cfg.Name, Height: height, Value: msg})
		// Find out why by replaying on the reference, which panics with the reason.
		b.Txs = userTxs
		b.Hash = nil
		if p := guard("Finalize(diagnose)", h.Ref, height, func() { h.Ref.Finalize(b, nil) }); p != nil {
			if isPrecondition(p.Value) {
				h.Panics = h.Panics[:len(h.Panics)-1]
				h.PreconditionLost = p.Value
				h.PreconditionBlock = b
			} else {
				h.Panics = append(h.Panics, p)
			}
		}
		return false
	}
	b.Txs = txs
	b.Hash = blockHash(b)
	if propIdx < 0 {
		// The builder replica is throw-away state: forget its proposal.
		h.resetBuilder()
	}

	// Reference replica: plain replay with taps.
	h.Cur = b
	var ref *BlockResult
	if p := guard("Finalize", h.Ref, height, func() { ref = h.Ref.Finalize(b, nil) }); p != nil {
		if isPrecondition(p.Value) {
			h.PreconditionLost = p.Value
			h.PreconditionBlock = b
		} else {
			h.Panics = append(h.Panics, p)
		}
		return false
	}

	// Read-fault twins.
	faultTwins := h.Cfg.FaultRead && len(h.Tests) >= 2 && !h.ReadFault.Dead
	if faultTwins && height > h.Sc.Doc.Height && h.Rng.IntN(2) == 0 {
		if !h.stepReadFault(b, gtxs, ref) {
			return false
		}
		faultTwins = true
	} else {
		faultTwins = false
	}

	// Test replicas.
	for i, r := range h.Tests {
		if h.Cfg.FaultRead && i < 2 && (faultTwins || h.ReadFault.Dead) {
			continue // executed by stepReadFault / diverged silently and left alone
		}
		path := paths[i]
		h.PathUsed[path]++
		var res *BlockResult
		between := func() {}
		if h.Cfg.Between != nil {
			rr := r
			between = func() { h.Cfg.Between(rr) }
		}
		p := guard("path:"+path.String(), r, height, func() {
			switch path {
			case PathReplay:
			case PathProposer:
				// A tampered copy of the proposer's own proposal (same header and transaction count,
				// one signature bit of a transaction that executed successfully flipped) cannot lead
				// to the state root the metadata transaction commits to, so it must be rejected and
				// must not be served from what the proposer cached while preparing.
				if h.Rng.IntN(3) == 0 && ref != nil {
					var ok []int
					for ti := 0; ti < len(b.Txs)-1 && ti < len(ref.Txs); ti++ {
						// (Only when no other transaction of the block could take the altered one's place: a
						// replayed copy, or a differently encoded envelope around the same signed content,
						// was rejected for its used nonce only and would now take effect with the same result.)
						dup := false
						for tj := 0; tj < len(b.Txs)-1 && tj < len(ref.Txs); tj++ {
							if tj != ti && (bytes.Equal(b.Txs[tj], b.Txs[ti]) || strings.Contains(ref.Txs[tj].Log, "invalid nonce")) {
								dup = true
							}
						}
						if ref.Txs[ti].Code == types.CodeTypeOK && !dup {
							ok = append(ok, ti)
						}
					}
					if len(ok) > 0 {
						ti := ok[h.Rng.IntN(len(ok))]
						if raw := flipSignatureBit(b.Txs[ti], h.Rng.IntN(512)); raw != nil {
							tb := *b
							tb.Txs = append([][]byte(nil), b.Txs...)
							tb.Txs[ti] = raw
							h.TamperedProposals++
							if DebugTamper {
								gt := h.Gen.current[ti]
								fmt.Printf("DEBUG tamper height=%d tx=%d method=%s intent=%s refcode=%d reflog=%q equal=%v\n", height, ti, gt.Method, gt.Intent, ref.Txs[ti].Code, ref.Txs[ti].Log, bytes.Equal(raw, b.Txs[ti]))
							}
							acc := r.Process(&tb)
							if acc && DebugTamper {
								for tj, gt := range h.Gen.current {
									if tj < len(ref.Txs) {
										fmt.Printf("DEBUG   block tx %d %s intent=%s note=%q code=%d log=%q signer=%v nonce=%v\n", tj, gt.Method, gt.Intent, gt.Note, ref.Txs[tj].Code, ref.Txs[tj].Log, gt.Signer != nil && h.Gen.current[ti].Signer == gt.Signer, func() any {
											if gt.Tx != nil {
												return gt.Tx.Nonce
											}
											return nil
										}())
									}
								}
							}
							if acc {
								h.Divergences = append(h.Divergences, &ReplicaDivergence{Replica: r.Cfg.Name, Path: path.String(), Height: height, What: "tampered-own-proposal-accepted",
									Detail: fmt.Sprintf("transaction %d of the proposal with one signature bit flipped; ProcessProposal accepted the block", ti)})
							}
						}
					}
				}
				if !r.Process(b) {
					h.RejectedProposals++
					h.Divergences = append(h.Divergences, &ReplicaDivergence{Replica: r.Cfg.Name, Path: path.String(), Height: height, What: "own-proposal-rejected"})
				}
			case PathValidator:
				if !r.Process(b) {
					h.RejectedProposals++
					h.Divergences = append(h.Divergences, &ReplicaDivergence{Replica: r.Cfg.Name, Path: path.String(), Height: height, What: "honest-proposal-rejected"})
				}
			case PathRoundChange:
				if h.Rng.IntN(2) == 0 {
					// Round 0: this replica is the proposer and builds (and executes) its own valid
					// proposal with other contents; it is not decided. Round 1: the block of another
					// proposer is decided. Nothing of the abandoned proposal may leak into it.
					vals := h.ValSets[height].Sorted()
					ap := vals[h.Rng.IntN(len(vals))]
					if an := h.Sc.NodeByConsensusAddr(ap.Addr); an != nil {
						own := *b
						own.Proposer = ap.Addr
						own.Time = b.Time.Add(-2 * time.Millisecond)
						user := append([][]byte(nil), b.Txs[:len(b.Txs)-1]...)
						switch h.Rng.IntN(3) {
						case 0:
							user = user[:len(user)/2]
						case 1:
							user = user[len(user)/2:]
						}
						r.SetConsensusSigner(an.Keys.Consensus.Signer)
						if txs := r.Prepare(&own, user); len(txs) > 0 && h.Rng.IntN(2) == 0 {
							own.Txs = txs
							own.Hash = blockHash(&own)
							r.Process(&own)
						}
						h.OwnAbandoned++
					}
					if h.Rng.IntN(2) == 0 {
						if !r.Process(b) {
							h.RejectedProposals++
							h.Divergences = append(h.Divergences, &ReplicaDivergence{Replica: r.Cfg.Name, Path: path.String(), Height: height, What: "honest-proposal-rejected-after-own-abandoned-proposal"})
						}
					}
					break
				}
				alt := *b
				alt.Txs = append([][]byte(nil), b.Txs[:len(b.Txs)-1]...)
				if len(alt.Txs) > 0 {
					alt.Txs = alt.Txs[:len(alt.Txs)/2]
				}
				alt.Time = b.Time.Add(-time.Millisecond)
				alt.Hash = blockHash(&alt)
				// The alternative proposal lacks a valid metadata transaction for its
				// contents, so it must be rejected; what matters is that its execution
				// leaves no trace in the decided block.
				r.Process(&alt)
				if h.Rng.IntN(2) == 0 {
					if !r.Process(b) {
						h.RejectedProposals++
						h.Divergences = append(h.Divergences, &ReplicaDivergence{Replica: r.Cfg.Name, Path: path.String(), Height: height, What: "honest-proposal-rejected-after-round-change"})
					}
				}
			case PathRestart:
				if err := r.Restart(); err != nil {
					panic(fmt.Errorf("restart failed: %w", err))
				}
			case PathCrashMid:
				r.Process(b)
				if err := r.Restart(); err != nil {
					panic(fmt.Errorf("restart failed: %w", err))
				}
			}
			res = r.Finalize(b, between)
		})
		if p != nil {
			h.Panics = append(h.Panics, p)
			h.Divergences = append(h.Divergences, &ReplicaDivergence{Replica: r.Cfg.Name, Path: path.String(), Height: height, What: "panic-where-reference-succeeded", Detail: p.Value})
			return false
		}
		h.compare(r, path, b, ref, res)
	}
	if propIdx < 0 {
		// builder also has to follow the chain
		h.advanceBuilder(b)
	}

	h.Height = height
	h.Blocks = append(h.Blocks, b)
	h.Results = append(h.Results, ref)
	h.ValSets[height+2] = h.ValSets[height+1].Apply(ref.End.ValidatorUpdates)
	h.View.Refresh()
	if h.View.Epoch != h.lastEpoch {
		h.EpochTransitions++
		h.lastEpoch = h.View.Epoch
	}
	h.Gen.Observe(gtxs, ref)
	for _, m := range h.Mons {
		m.OnBlock(h, b, gtxs, ref)
	}
	return true
}

// Run executes the configured number of blocks.
func (h *History) Run() {
	for i := 0; i < h.Cfg.Blocks; i++ {
		if !h.Step() {
			break
		}
	}
	for _, m := range h.Mons {
		m.OnEnd(h)
	}
}

func (h *History) compare(r *Replica, path Path, b *Block, ref, res *BlockResult) {
	div := func(what, detail string) {
		h.Divergences = append(h.Divergences, &ReplicaDivergence{Replica: r.Cfg.Name, Path: path.String(), Height: b.Height, What: what, Detail: detail})
	}
	if !bytes.Equal(ref.AppHash, res.AppHash) {
		div("apphash", fmt.Sprintf("ref=%x got=%x", ref.AppHash, res.AppHash))
	}
	if len(ref.Txs) != len(res.Txs) {
		div("tx-result-count", fmt.Sprintf("ref=%d got=%d", len(ref.Txs), len(res.Txs)))
	} else {
		for i := range ref.Txs {
			a, c := ref.Txs[i], res.Txs[i]
			if a.Code != c.Code || a.Codespace != c.Codespace || !bytes.Equal(a.Data, c.Data) {
				div("tx-result", fmt.Sprintf("tx %d ref=(%s,%d,%x) got=(%s,%d,%x)", i, a.Codespace, a.Code, a.Data, c.Codespace, c.Code, c.Data))
				break
			}
		}
	}
	if a, c := valUpdatesKey(ref.End.ValidatorUpdates), valUpdatesKey(res.End.ValidatorUpdates); a != c {
		div("validator-updates", fmt.Sprintf("ref=%s got=%s", a, c))
	}
}

func valUpdatesKey(ups []types.ValidatorUpdate) string {
	var ss []string
	for _, u := range ups {
		ss = append(ss, fmt.Sprintf("%x:%d", u.PubKey.GetEd25519(), u.Power))
	}
	sort.Strings(ss)
	return fmt.Sprint(ss)
}

func valSetHash(vs ValSet) []byte {
	hs := sha256.New()
	for _, v := range vs.Sorted() {
		hs.Write(v.PubKey)
		var buf [8]byte
		binary.BigEndian.PutUint64(buf[:], uint64(v.Power))
		hs.Write(buf[:])
	}
	return hs.Sum(nil)
}

// --- proposal builder ------------------------------------------------------
//
// When a history runs without path assignment (single reference replica), a
// second memory replica builds proposals (PrepareProposal) so that blocks
// carry a real block-metadata transaction.

var builders = map[*History]*Replica{}

func (h *History) proposalBuilder() *Replica {
	if b := builders[h]; b != nil {
		return b
	}
	r, err := NewReplica(h.Sc.Doc, ReplicaConfig{Name: "builder", Backend: "badger", Identity: h.Sc.Entities[0].Nodes[0]})
	if err != nil {
		panic(err)
	}
	if _, err := r.InitChain(); err != nil {
		panic(err)
	}
	builders[h] = r
	return r
}

func (h *History) resetBuilder() {}

func (h *History) advanceBuilder(b *Block) {
	r := builders[h]
	if r == nil {
		return
	}
	if p := guard("builder", r, b.Height, func() {
		if !r.Process(b) {
			h.RejectedProposals++
			h.Divergences = append(h.Divergences, &ReplicaDivergence{Replica: "builder", Path: "proposer", Height: b.Height, What: "own-proposal-rejected"})
		}
		res := r.Finalize(b, nil)
		if !bytes.Equal(res.AppHash, h.Ref.AppHash) {
			h.Divergences = append(h.Divergences, &ReplicaDivergence{Replica: "builder", Path: "proposer", Height: b.Height, What: "apphash"})
		}
	}); p != nil {
		h.Panics = append(h.Panics, p)
	}
}

// CloseBuilder releases the builder replica of a history.
func (h *History) CloseBuilder() {
	if r := builders[h]; r != nil {
		r.Close()
		delete(builders, h)
	}
}

var _ = context.Background
