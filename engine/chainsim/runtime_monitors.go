package chainsim

// Monitors for the runtime part of the consensus state (runtime support):
// CommitteeMonitor (C14, executor committees) and RoundMonitor (C11, app level).

import (
	"context"
	"fmt"
	"math/big"
	"sort"

	"github.com/cometbft/cometbft/abci/types"

	beacon "github.com/oasisprotocol/oasis-core/go/beacon/api"
	"github.com/oasisprotocol/oasis-core/go/common/cbor"
	"github.com/oasisprotocol/oasis-core/go/common/crypto/hash"
	"github.com/oasisprotocol/oasis-core/go/common/crypto/signature"
	"github.com/oasisprotocol/oasis-core/go/common/node"
	cmt "github.com/oasisprotocol/oasis-core/go/consensus/cometbft/api"
	registryState "github.com/oasisprotocol/oasis-core/go/consensus/cometbft/apps/registry/state"
	schedulerState "github.com/oasisprotocol/oasis-core/go/consensus/cometbft/apps/scheduler/state"
	tmroothash "github.com/oasisprotocol/oasis-core/go/consensus/cometbft/roothash"
	registry "github.com/oasisprotocol/oasis-core/go/registry/api"
	roothash "github.com/oasisprotocol/oasis-core/go/roothash/api"
	"github.com/oasisprotocol/oasis-core/go/roothash/api/block"
	"github.com/oasisprotocol/oasis-core/go/roothash/api/commitment"
	scheduler "github.com/oasisprotocol/oasis-core/go/scheduler/api"
	staking "github.com/oasisprotocol/oasis-core/go/staking/api"
)

// ---------------------------------------------------------------------------
// C14: executor committees.

// CommitteeMonitor recomputes, at every election, which nodes are eligible for
// the executor committee of every (not suspended) compute runtime from the
// state the election read, and checks the committees it wrote.
//
// Assumptions (where the property statement is silent):
//   - "No committee at all" is always acceptable (the statement demands exact
//     sizes *or* no committee; it does not demand that a committee is elected
//     whenever one would be possible). The monitor only counts such cases.
//   - Suspended runtimes are not re-elected; a stale committee record of a
//     suspended runtime (ValidFor of an earlier epoch) is not a violation.
//   - The minimum pool size is compared with the number of nodes eligible for
//     the role (signature .../min-pool-size-ignored) and, under a separate
//     signature, with that number after the per-entity node limit has been
//     applied (the reading the code implements).
//   - A node counts as suspended for a runtime while its fault record for that
//     runtime has a suspension end epoch greater than the election epoch.
type CommitteeMonitor struct {
	BaseMonitor
	Rep Reporter

	pre      []KV
	preEpoch beacon.EpochTime

	// Stats
	Elections, Committees, NoCommittee, NoCommitteeAlthoughPossible int
	Excluded                                                        map[string]int
	Constraints                                                     map[string]int
	Shapes                                                          map[string]int
}

// OnTap implements Monitor.
func (m *CommitteeMonitor) OnTap(h *History, stage, app string, ctx *cmt.Context, extra any) {
	switch stage {
	case "elect.pre":
		m.pre = Dump(context.Background(), ctx.State())
		m.preEpoch, _ = extra.(beacon.EpochTime)
	case "elect.post":
		if m.pre == nil {
			return
		}
		pre := m.pre
		m.pre = nil
		m.check(h, ctx, pre, m.preEpoch)
	}
}

// committeeEligibility is the independent eligibility predicate of C14 for one
// node and one runtime ("" = eligible, otherwise the first reason why not).
func committeeEligibility(n *node.Node, st *registry.NodeStatus, rt *registry.Runtime, active *registry.VersionInfo, epoch beacon.EpochTime, stakeOK func(staking.Address) bool) string {
	switch {
	case st != nil && st.FreezeEndTime > 0:
		return "frozen"
	case n.Expiration < epoch:
		return "expired"
	case n.Roles&node.RoleComputeWorker == 0:
		return "no-compute-role"
	case active == nil:
		return "no-active-deployment"
	}
	found := false
	for _, r := range n.Runtimes {
		if r != nil && r.ID == rt.ID && r.Version == active.Version {
			found = true
			if (r.Capabilities.TEE != nil) != (rt.TEEHardware != node.TEEHardwareInvalid) {
				return "tee-mismatch"
			}
		}
	}
	if !found {
		return "not-registered-for-active-version"
	}
	if st != nil {
		if f := st.Faults[rt.ID]; f != nil && f.SuspendedUntil > 0 && epoch < f.SuspendedUntil {
			return "suspended"
		}
	}
	if !stakeOK(staking.NewAddress(n.EntityID)) {
		return "stake-claims-not-covered"
	}
	return ""
}

func activeDeployment(rt *registry.Runtime, epoch beacon.EpochTime) *registry.VersionInfo {
	var best *registry.VersionInfo
	for _, d := range rt.Deployments {
		if d == nil || d.ValidFrom > epoch {
			continue
		}
		if best == nil || d.ValidFrom > best.ValidFrom {
			best = d
		}
	}
	return best
}

func (m *CommitteeMonitor) check(h *History, ctx *cmt.Context, preDump []KV, epoch beacon.EpochTime) {
	bg := context.Background()
	if m.Excluded == nil {
		m.Excluded, m.Constraints, m.Shapes = map[string]int{}, map[string]int{}, map[string]int{}
	}
	viol := func(kind, what string, extra any) {
		m.Rep.Violation("c14/committee/"+kind, what, map[string]any{"height": ctx.CurrentHeight(), "epoch": epoch, "params": h.Sc.P, "detail": extra})
	}
	m.Elections++
	pre := newMemState(preDump)
	rs := registryState.NewImmutableState(pre)
	rts, err := rs.Runtimes(bg) // not suspended
	if err != nil {
		viol("state-unreadable", err.Error(), nil)
		return
	}
	nodes, err := rs.Nodes(bg)
	if err != nil {
		viol("state-unreadable", err.Error(), nil)
		return
	}
	sp, err := schedulerState.NewImmutableState(pre).ConsensusParameters(bg)
	if err != nil {
		viol("state-unreadable", err.Error(), nil)
		return
	}
	status := map[signature.PublicKey]*registry.NodeStatus{}
	byID := map[signature.PublicKey]*node.Node{}
	for _, n := range nodes {
		byID[n.ID] = n
		if s, err := rs.NodeStatus(bg, n.ID); err == nil {
			status[n.ID] = s
		}
	}
	// Stake: the entity's escrow covers all of its stake claims.
	stake := ParseStake(preDump)
	stp, err := stakingParams(pre)
	if err != nil {
		viol("state-unreadable", err.Error(), nil)
		return
	}
	stakeOK := func(a staking.Address) bool {
		if sp.DebugBypassStake {
			return true
		}
		acct := stake.Accounts[a]
		if acct == nil {
			acct = &staking.Account{}
		}
		total := new(big.Int)
		for _, ths := range acct.Escrow.StakeAccumulator.Claims {
			for _, t := range ths {
				switch {
				case t.Global != nil:
					q, ok := stp.Thresholds[*t.Global]
					if !ok {
						return false
					}
					total.Add(total, q.ToBigInt())
				case t.Constant != nil:
					total.Add(total, t.Constant.ToBigInt())
				}
			}
		}
		return acct.Escrow.Active.Balance.ToBigInt().Cmp(total) >= 0
	}
	// The validator set elected by this very election.
	post := schedulerState.NewImmutableState(ctx.State())
	pend, err := post.PendingValidators(ctx)
	if err != nil {
		viol("state-unreadable", err.Error(), nil)
		return
	}
	valEntities := map[signature.PublicKey]bool{}
	for _, v := range pend {
		valEntities[v.EntityID] = true
	}

	for _, rt := range rts {
		if rt.Kind != registry.KindCompute {
			continue
		}
		active := activeDeployment(rt, epoch)
		reason := map[signature.PublicKey]string{}
		var base []*node.Node // eligible before role-specific constraints
		for _, n := range nodes {
			r := committeeEligibility(n, status[n.ID], rt, active, epoch, stakeOK)
			reason[n.ID] = r
			if r == "" {
				base = append(base, n)
			} else {
				m.Excluded[r]++
			}
		}
		c, err := post.Committee(ctx, scheduler.KindComputeExecutor, rt.ID)
		if err != nil {
			viol("state-unreadable", err.Error(), nil)
			continue
		}
		cons := rt.Constraints[scheduler.KindComputeExecutor]
		sizes := map[scheduler.Role]int{scheduler.RoleWorker: int(rt.Executor.GroupSize), scheduler.RoleBackupWorker: int(rt.Executor.GroupBackupSize)}
		roleName := map[scheduler.Role]string{scheduler.RoleWorker: "worker", scheduler.RoleBackupWorker: "backup-worker"}
		// Per-role pools.
		poolOf := func(role scheduler.Role) (eligible map[signature.PublicKey]bool, count, capped int) {
			eligible = map[signature.PublicKey]bool{}
			perEntity := map[signature.PublicKey]int{}
			for _, n := range base {
				if cons[role].ValidatorSet != nil && !valEntities[n.EntityID] {
					continue
				}
				eligible[n.ID] = true
				count++
				perEntity[n.EntityID]++
			}
			for _, k := range perEntity {
				if mn := cons[role].MaxNodes; mn != nil && mn.Limit > 0 && k > int(mn.Limit) {
					k = int(mn.Limit)
				}
				capped += k
			}
			return
		}
		possible := true
		for _, role := range []scheduler.Role{scheduler.RoleWorker, scheduler.RoleBackupWorker} {
			if sizes[role] == 0 {
				continue
			}
			_, _, capped := poolOf(role)
			minPool := 0
			if mp := cons[role].MinPoolSize; mp != nil {
				minPool = int(mp.Limit)
			}
			if capped < sizes[role] || capped < minPool {
				possible = false
			}
			if cons[role].MaxNodes != nil {
				m.Constraints["max-nodes/"+roleName[role]]++
			}
			if cons[role].MinPoolSize != nil {
				m.Constraints["min-pool-size/"+roleName[role]]++
			}
			if cons[role].ValidatorSet != nil {
				m.Constraints["validator-set/"+roleName[role]]++
			}
		}
		if c == nil {
			m.NoCommittee++
			if possible {
				m.NoCommitteeAlthoughPossible++
			}
			m.Shapes["none"]++
			continue
		}
		m.Committees++
		detail := map[string]any{"runtime": rt.ID.String(), "committee": c.String()}
		if c.Kind != scheduler.KindComputeExecutor {
			viol("wrong-kind", fmt.Sprintf("committee stored for the executor kind has kind %s", c.Kind), detail)
		}
		if c.RuntimeID != rt.ID {
			viol("wrong-runtime-id", fmt.Sprintf("committee stored for runtime %s names runtime %s", rt.ID, c.RuntimeID), detail)
		}
		if c.ValidFor != epoch {
			viol("stale-or-wrong-epoch", fmt.Sprintf("committee of the not suspended runtime %s after the election for epoch %d is valid for epoch %d", rt.ID, epoch, c.ValidFor), detail)
		}
		if active == nil {
			viol("elected-despite-no-active-deployment", fmt.Sprintf("runtime %s has no active deployment at epoch %d but a committee was elected", rt.ID, epoch), detail)
		}
		members := map[scheduler.Role][]signature.PublicKey{}
		for _, mem := range c.Members {
			if mem == nil {
				viol("nil-member", "committee has a nil member", detail)
				continue
			}
			if mem.Role != scheduler.RoleWorker && mem.Role != scheduler.RoleBackupWorker {
				viol("unknown-role", fmt.Sprintf("member %s has role %d", mem.PublicKey, mem.Role), detail)
				continue
			}
			members[mem.Role] = append(members[mem.Role], mem.PublicKey)
		}
		m.Shapes[fmt.Sprintf("%dw+%db", len(members[scheduler.RoleWorker]), len(members[scheduler.RoleBackupWorker]))]++
		for _, role := range []scheduler.Role{scheduler.RoleWorker, scheduler.RoleBackupWorker} {
			rn := roleName[role]
			if len(members[role]) != sizes[role] {
				viol("wrong-size", fmt.Sprintf("runtime %s: %d %ss elected, the runtime demands exactly %d (or no committee at all)", rt.ID, len(members[role]), rn, sizes[role]), detail)
			}
			eligible, count, capped := poolOf(role)
			seen := map[signature.PublicKey]bool{}
			perEntity := map[signature.PublicKey]int{}
			for _, id := range members[role] {
				if seen[id] {
					viol("node-twice-in-one-role", fmt.Sprintf("node %s is listed twice as %s", id, rn), detail)
				}
				seen[id] = true
				n := byID[id]
				switch {
				case n == nil:
					viol("ineligible-member/unregistered", fmt.Sprintf("%s %s is not a registered node", rn, id), detail)
					continue
				case reason[id] != "":
					viol("ineligible-member/"+reason[id], fmt.Sprintf("%s %s of runtime %s is not eligible at epoch %d: %s", rn, id, rt.ID, epoch, reason[id]), detail)
				case !eligible[id]:
					viol("ineligible-member/entity-not-in-validator-set", fmt.Sprintf("%s %s: the runtime demands validator-set membership of the entity for this role, entity %s has no elected validator", rn, id, n.EntityID), detail)
				}
				perEntity[n.EntityID]++
			}
			if mn := cons[role].MaxNodes; mn != nil {
				for e, k := range perEntity {
					if k > int(mn.Limit) {
						viol("max-nodes-per-entity-exceeded", fmt.Sprintf("entity %s has %d %ss in the committee of %s, the limit is %d", e, k, rn, rt.ID, mn.Limit), detail)
					}
				}
			}
			if mp := cons[role].MinPoolSize; mp != nil && sizes[role] > 0 {
				switch {
				case count < int(mp.Limit):
					viol("min-pool-size-ignored", fmt.Sprintf("runtime %s: only %d nodes are eligible as %s, the minimum pool size is %d, but a committee was elected", rt.ID, count, rn, mp.Limit), detail)
				case capped < int(mp.Limit):
					viol("min-pool-size-ignored/after-per-entity-cap", fmt.Sprintf("runtime %s: %d nodes are eligible as %s, %d after the per-entity limit, the minimum pool size is %d, but a committee was elected", rt.ID, count, rn, capped, mp.Limit), detail)
				}
			}
		}
	}
}

// ---------------------------------------------------------------------------
// C11 (application level): round finalization by the roothash application.

type acceptedVote struct {
	Node, Scheduler signature.PublicKey
	Vote            *hash.Hash // nil = failure indication
	Header          commitment.ComputeResultsHeader
	Own             bool // the scheduler's own commitment (its proposal)
	Height          int64
}

// RoundMonitor compares consecutive committed runtime states and the roothash
// events of every block with the commitments the application ACCEPTED
// (ExecutorCommit transactions with code OK).
//
// Assumptions (where the property statement is silent):
//   - "Present" primary votes: agreeing votes plus failure indications count
//     towards (primary size - allowed stragglers); this is the weaker reading
//     (the pool itself demands that many agreeing votes).
//   - A discrepancy has happened for a round once the application emitted the
//     discrepancy event for it.
//   - Scheduler priority is the committee's scheduling order for the round
//     (scheduler.Committee.SchedulerRank).
//   - The round timer has expired at the end of the block whose height equals
//     the stored NextTimeout.
type RoundMonitor struct {
	BaseMonitor
	Rep Reporter

	prev    *roothash.RuntimeState
	round   uint64 // round the accepted votes belong to
	votes   []acceptedVote
	discrep bool // discrepancy event seen for the round
	started bool
	// Stats
	Blocks                                      map[string]int
	NormalUnanimous, NormalByBackups            int
	DiscrepancyEvents, TimeoutDiscrepancies     int
	Accepted, Rejected, TimersFired             int
	MessagesOK, MessagesFailed, InMsgsProcessed int
	StateRootChanges                            int
}

func rtEvents(h *History, height int64, evs []types.Event) []*roothash.Event {
	out, _ := tmroothash.EventsFromCometBFT(nil, height, evs)
	var mine []*roothash.Event
	for _, e := range out {
		if h.Sc.Runtime != nil && e.RuntimeID == h.Sc.Runtime.ID {
			mine = append(mine, e)
		}
	}
	return mine
}

func headerTypeName(t block.HeaderType) string {
	switch t {
	case block.Normal:
		return "normal"
	case block.RoundFailed:
		return "round-failed"
	case block.EpochTransition:
		return "epoch-transition"
	case block.Suspended:
		return "suspended"
	}
	return fmt.Sprintf("type-%d", t)
}

// OnBlock implements Monitor.
func (m *RoundMonitor) OnBlock(h *History, b *Block, txs []*GenTx, ref *BlockResult) {
	if h.Sc.Runtime == nil {
		return
	}
	if m.Blocks == nil {
		m.Blocks = map[string]int{}
	}
	snap := h.ReadRuntime(b.Height)
	if snap == nil {
		return
	}
	cur := snap.State
	rtID := h.Sc.Runtime.ID
	viol := func(kind, what string, extra map[string]any) {
		w := map[string]any{"height": b.Height, "params": h.Sc.P, "runtime": rtID.String()}
		if cur.LastBlock != nil {
			w["last_block"] = fmt.Sprintf("round=%d type=%s state_root=%s", cur.LastBlock.Header.Round, headerTypeName(cur.LastBlock.Header.HeaderType), cur.LastBlock.Header.StateRoot)
		}
		if m.prev != nil && m.prev.LastBlock != nil {
			w["previous_block"] = fmt.Sprintf("round=%d type=%s state_root=%s next_timeout=%d", m.prev.LastBlock.Header.Round, headerTypeName(m.prev.LastBlock.Header.HeaderType), m.prev.LastBlock.Header.StateRoot, m.prev.NextTimeout)
		}
		var vs []string
		for _, v := range m.votes {
			s := "failure"
			if v.Vote != nil {
				s = v.Vote.String()[:12]
			}
			vs = append(vs, fmt.Sprintf("h=%d node=%s scheduler=%s vote=%s own=%v", v.Height, v.Node, v.Scheduler, s, v.Own))
		}
		w["accepted_votes_of_round"] = vs
		w["discrepancy_event_seen"] = m.discrep
		for k, v := range extra {
			w[k] = v
		}
		m.Rep.Violation("c11/app/"+kind, what, w)
	}

	if m.prev != nil && m.prev.LastBlock != nil && cur.LastBlock != nil && cur.LastBlock.Header.HeaderType == block.Suspended &&
		m.prev.LastBlock.Header.HeaderType != block.Suspended && m.prev.NextTimeout != roothash.TimeoutNever {
		// (coverage) the runtime was suspended while a round timer was armed
		m.Blocks["suspended-with-armed-timer"]++
	}

	// Events of the block, in order: BeginBlock, transactions (those that succeeded), EndBlock.
	beginEv := rtEvents(h, b.Height, ref.Begin.Events)
	endEv := rtEvents(h, b.Height, ref.End.Events)
	finalizedBegin, finalizedEnd := 0, 0
	for _, e := range beginEv {
		if e.Finalized != nil {
			finalizedBegin++
		}
	}
	// A runtime block emitted in BeginBlock (committee change, suspension) ends the round the
	// collected votes belong to.
	if finalizedBegin > 0 {
		m.votes, m.discrep = nil, false
	}

	// Accepted commitments of this block.
	var ownAccepted bool
	for i, raw := range b.Txs {
		if i >= len(ref.Txs) {
			break
		}
		d := DecodeTx(raw, h.Sc.Doc.ChainContext())
		if !d.TxOK || d.Tx.Method != roothash.MethodExecutorCommit {
			continue
		}
		var xc roothash.ExecutorCommit
		if cbor.Unmarshal(d.Tx.Body, &xc) != nil || xc.ID != rtID {
			continue
		}
		if ref.Txs[i].Code != types.CodeTypeOK {
			m.Rejected++
			continue
		}
		for _, ec := range xc.Commits {
			m.Accepted++
			// A commitment counts only if its stated node signed it (with or without a result).
			if err := ec.Verify(rtID); err != nil {
				kind := "with-result"
				if ec.Header.Failure != commitment.FailureNone {
					kind = "failure-indicating"
				}
				viol("commitment-with-invalid-signature-accepted/"+kind, fmt.Sprintf("transaction %d was accepted although the %s commitment it carries in the name of node %s for round %d does not verify: %v", i, kind, ec.NodeID, ec.Header.Header.Round, err), nil)
			}
			v := acceptedVote{Node: ec.NodeID, Scheduler: ec.Header.SchedulerID, Header: ec.Header.Header, Own: ec.NodeID == ec.Header.SchedulerID, Height: b.Height}
			if ec.Header.Failure == commitment.FailureNone {
				hv := hash.NewFrom(&ec.Header.Header)
				v.Vote = &hv
			}
			// The round the vote is for is the one open when the transaction ran.
			for _, o := range m.votes {
				if o.Node == v.Node && o.Scheduler == v.Scheduler && o.Header.Round == v.Header.Round {
					viol("vote-counted-twice", fmt.Sprintf("node %s had a second commitment accepted for round %d and scheduler %s", v.Node, v.Header.Round, v.Scheduler), nil)
				}
			}
			if m.prev != nil && m.prev.LastBlock != nil && finalizedBegin == 0 && v.Header.Round != m.prev.LastBlock.Header.Round+1 {
				viol("commitment-for-other-round-accepted", fmt.Sprintf("a commitment for round %d was accepted while round %d was open", v.Header.Round, m.prev.LastBlock.Header.Round+1), nil)
			}
			m.votes = append(m.votes, v)
			if v.Own {
				ownAccepted = true
			}
		}
	}
	for _, e := range endEv {
		switch {
		case e.Finalized != nil:
			finalizedEnd++
		case e.ExecutionDiscrepancyDetected != nil:
			m.DiscrepancyEvents++
			if e.ExecutionDiscrepancyDetected.Timeout {
				m.TimeoutDiscrepancies++
			}
			m.discrep = true
		case e.InMsgProcessed != nil:
			m.InMsgsProcessed++
		}
	}

	if m.prev != nil && m.prev.LastBlock != nil && cur.LastBlock != nil {
		p, c := m.prev.LastBlock.Header, cur.LastBlock.Header
		emitted := finalizedBegin + finalizedEnd
		// Rounds advance by exactly one per emitted runtime block.
		if c.Round != p.Round+uint64(emitted) {
			viol("round-skipped", fmt.Sprintf("the runtime's round went from %d to %d while %d runtime blocks were emitted in this consensus block", p.Round, c.Round, emitted), nil)
		}
		if emitted > 0 {
			m.Blocks[headerTypeName(c.HeaderType)]++
			if emitted > 1 {
				m.Blocks["(second block in one consensus block)"]++
			}
		}
		changed := !c.StateRoot.Equal(&p.StateRoot)
		if changed {
			m.StateRootChanges++
		}
		switch {
		case emitted == 0:
			if changed || c.EncodedHash() != p.EncodedHash() {
				viol("block-changed-without-finalization", "the runtime's last block changed although no runtime block was emitted", nil)
			}
		case c.HeaderType != block.Normal:
			if changed {
				viol("state-root-changed-by-"+map[bool]string{true: "failed-round", false: headerTypeName(c.HeaderType) + "-block"}[c.HeaderType == block.RoundFailed],
					fmt.Sprintf("an empty block of type %s changed the runtime state root from %s to %s", headerTypeName(c.HeaderType), p.StateRoot, c.StateRoot), nil)
			}
		default:
			// A Normal block: the accepted votes must satisfy the finalization rule.
			m.checkNormal(h, cur, &c, viol)
			if snap.LastResults != nil {
				for _, me := range snap.LastResults.Messages {
					if me.IsSuccess() {
						m.MessagesOK++
					} else {
						m.MessagesFailed++
					}
				}
			}
		}
		// Timer.
		if m.prev.NextTimeout == b.Height && m.prev.CommitmentPool != nil && !m.prev.Suspended {
			m.TimersFired++
			rearmedBySuperiorScheduler := ownAccepted && cur.NextTimeout > b.Height
			if emitted == 0 && !m.discrepNow(endEv) && !rearmedBySuperiorScheduler {
				viol("timer-expired-without-outcome", fmt.Sprintf("the round timer of round %d expired at height %d but the round neither ended nor entered discrepancy resolution", p.Round+1, b.Height), nil)
			}
		}
		if cur.NextTimeout != roothash.TimeoutNever && cur.NextTimeout <= b.Height && cur.CommitmentPool != nil && !cur.Suspended {
			viol("waits-after-timeout", fmt.Sprintf("after height %d the round is still open with a round timer that expired at height %d", b.Height, cur.NextTimeout), nil)
		}
		if m.discrepNow(endEv) && emitted-finalizedBegin == 0 && cur.NextTimeout <= b.Height {
			viol("discrepancy-without-timer", fmt.Sprintf("discrepancy resolution for round %d started at height %d without an armed round timer (next timeout %d)", p.Round+1, b.Height, cur.NextTimeout), nil)
		}
		if finalizedEnd > 0 {
			m.votes, m.discrep = nil, false
		}
	}
	m.prev = cur
}

func (m *RoundMonitor) discrepNow(evs []*roothash.Event) bool {
	for _, e := range evs {
		if e.ExecutionDiscrepancyDetected != nil {
			return true
		}
	}
	return false
}

func (m *RoundMonitor) checkNormal(h *History, cur *roothash.RuntimeState, hdr *block.Header, viol func(string, string, map[string]any)) {
	c := cur.Committee
	if c == nil {
		viol("normal-block-without-committee", "a normal runtime block was emitted although the runtime has no committee", nil)
		return
	}
	role := map[signature.PublicKey]map[scheduler.Role]bool{}
	nWorkers, nBackups := 0, 0
	for _, mem := range c.Members {
		if role[mem.PublicKey] == nil {
			role[mem.PublicKey] = map[scheduler.Role]bool{}
		}
		role[mem.PublicKey][mem.Role] = true
		if mem.Role == scheduler.RoleWorker {
			nWorkers++
		} else {
			nBackups++
		}
	}
	stragglers := int(cur.Runtime.Executor.AllowedStragglers)
	// Votes of this round only.
	var votes []acceptedVote
	for _, v := range m.votes {
		if v.Header.Round != hdr.Round {
			continue
		}
		if len(role[v.Node]) == 0 {
			viol("non-member-commitment-accepted", fmt.Sprintf("a commitment of node %s, which is not in the committee, was accepted", v.Node), nil)
			continue
		}
		votes = append(votes, v)
	}
	// The proposal the block carries.
	var chosen *acceptedVote
	for i := range votes {
		v := &votes[i]
		if !v.Own || v.Vote == nil {
			continue
		}
		x := v.Header
		if x.StateRoot != nil && x.IORoot != nil && x.MessagesHash != nil && x.InMessagesHash != nil &&
			x.StateRoot.Equal(&hdr.StateRoot) && x.IORoot.Equal(&hdr.IORoot) && x.MessagesHash.Equal(&hdr.MessagesHash) && x.InMessagesHash.Equal(&hdr.InMessagesHash) {
			chosen = v
		}
	}
	if chosen == nil {
		viol("normal-block-matches-no-accepted-proposal", fmt.Sprintf("the normal block of round %d (state root %s) equals no accepted scheduler proposal of that round", hdr.Round, hdr.StateRoot), nil)
		return
	}
	chosenRank, ok := c.SchedulerRank(hdr.Round, chosen.Scheduler)
	if !ok {
		viol("proposal-of-non-worker-finalized", fmt.Sprintf("the finalized proposal of round %d is by %s, who is not a worker of the committee", hdr.Round, chosen.Scheduler), nil)
		return
	}
	for _, v := range votes {
		if !v.Own || v.Scheduler == chosen.Scheduler {
			continue
		}
		if r, ok := c.SchedulerRank(hdr.Round, v.Scheduler); ok && r < chosenRank {
			viol("lower-rank-scheduler-preferred", fmt.Sprintf("round %d finalized the proposal of the scheduler with rank %d although the scheduler with rank %d had committed", hdr.Round, chosenRank, r), nil)
		}
	}
	agree, dissent, failures, backupAgree := 0, 0, 0, 0
	for _, v := range votes {
		if v.Scheduler != chosen.Scheduler {
			continue
		}
		same := v.Vote != nil && v.Vote.Equal(chosen.Vote)
		if role[v.Node][scheduler.RoleWorker] {
			switch {
			case v.Vote == nil:
				failures++
			case same:
				agree++
			default:
				dissent++
			}
		}
		if role[v.Node][scheduler.RoleBackupWorker] && same {
			backupAgree++
		}
	}
	unanimous := dissent == 0 && failures <= stragglers && agree+failures >= nWorkers-stragglers && agree >= 1
	majority := m.discrep && 2*backupAgree > nBackups
	switch {
	case unanimous && !m.discrep:
		m.NormalUnanimous++
	case majority:
		m.NormalByBackups++
	case unanimous:
		m.NormalUnanimous++
	default:
		viol("normal-block-without-quorum", fmt.Sprintf("round %d was finalized with state root %s: of %d workers %d agree, %d dissent, %d indicate failure (allowed stragglers %d); discrepancy=%v, %d of %d backup workers voted for the result",
			hdr.Round, hdr.StateRoot, nWorkers, agree, dissent, failures, stragglers, m.discrep, backupAgree, nBackups), nil)
	}
}

// Report emits the monitor's counters.
func (m *RoundMonitor) Report(rep Reporter) {
	var ks []string
	for k := range m.Blocks {
		ks = append(ks, k)
	}
	sort.Strings(ks)
	for _, k := range ks {
		rep.Count("runtime_blocks."+k, int64(m.Blocks[k]))
	}
	rep.Count("rounds_finalized_unanimously", int64(m.NormalUnanimous))
	rep.Count("rounds_finalized_by_backup_majority", int64(m.NormalByBackups))
	rep.Count("discrepancy_events", int64(m.DiscrepancyEvents))
	rep.Count("discrepancy_events_by_timeout", int64(m.TimeoutDiscrepancies))
	rep.Count("round_timers_fired", int64(m.TimersFired))
	rep.Count("commitments_accepted", int64(m.Accepted))
	rep.Count("commitment_txs_rejected", int64(m.Rejected))
	rep.Count("runtime_messages_executed_ok", int64(m.MessagesOK))
	rep.Count("runtime_messages_failed", int64(m.MessagesFailed))
	rep.Count("incoming_messages_processed", int64(m.InMsgsProcessed))
	rep.Count("runtime_state_root_changes", int64(m.StateRootChanges))
}

// Report emits the monitor's counters.
func (m *CommitteeMonitor) Report(rep Reporter) {
	rep.Count("committee_elections_checked", int64(m.Elections))
	rep.Count("committees_elected", int64(m.Committees))
	rep.Count("elections_without_committee", int64(m.NoCommittee))
	rep.Count("elections_without_committee_although_possible", int64(m.NoCommitteeAlthoughPossible))
	for k, n := range m.Excluded {
		rep.Count("committee_nodes_excluded."+k, int64(n))
	}
	for k, n := range m.Constraints {
		rep.Count("committee_constraint."+k, int64(n))
	}
	for k, n := range m.Shapes {
		rep.Count("committee_shape."+k, int64(n))
	}
}
