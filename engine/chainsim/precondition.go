package chainsim

// Independent check of the documented election precondition.
//
// A history that ends with "insufficient validators" / "failed to elect any validators" is not a
// verdict on C10 only if the precondition really was lost: fewer stake-eligible validator entities
// than the scheduler needs. The message alone does not say so (a scheduler that refuses to elect
// although enough eligible validators exist halts the chain on ordinary block content), therefore the
// claim is recomputed from the last committed state of the reference replica.

import (
	"context"
	"fmt"
	"math/big"
	"strings"

	beacon "github.com/oasisprotocol/oasis-core/go/beacon/api"
	"github.com/oasisprotocol/oasis-core/go/common/crypto/signature"
	"github.com/oasisprotocol/oasis-core/go/common/node"
	schedulerState "github.com/oasisprotocol/oasis-core/go/consensus/cometbft/apps/scheduler/state"
	tmcrypto "github.com/oasisprotocol/oasis-core/go/consensus/cometbft/crypto"
	staking "github.com/oasisprotocol/oasis-core/go/staking/api"
)

// PreconditionCheck is the result of VerifyElectionPrecondition.
type PreconditionCheck struct {
	Applicable       bool // the history ended with an election-precondition message
	Confirmed        bool // the recomputation agrees: too few eligible validators
	EligibleEntities int
	MinValidators    int
	Detail           string
}

// VerifyElectionPrecondition recomputes, conservatively, how many entities had a validator node that
// could be elected in the block that failed: registered, not frozen, not expired in the current or the
// next epoch, validator role, entity escrow covering its stake claims at the thresholds in force, and
// not named in the failed block's misbehaviour evidence (slashing runs before the election). When at
// least MinValidators such entities exist the precondition was NOT lost.
func VerifyElectionPrecondition(h *History) PreconditionCheck {
	var out PreconditionCheck
	msg := h.PreconditionLost
	if !strings.Contains(msg, "insufficient validators") && !strings.Contains(msg, "failed to elect any validators") {
		return out
	}
	out.Applicable = true
	out.Confirmed = true // unless shown otherwise
	v := h.View
	if v == nil || v.StakingP == nil || h.Ref == nil || h.Ref.Height == 0 {
		out.Detail = "no committed state to recompute from"
		return out
	}
	st, err := CommittedState(h.Ref, 0)
	if err != nil {
		out.Detail = "committed state unreadable: " + err.Error()
		return out
	}
	sp, err := schedulerState.NewImmutableState(st).ConsensusParameters(context.Background())
	st.Close()
	if err != nil {
		out.Detail = "scheduler parameters unreadable: " + err.Error()
		return out
	}
	out.MinValidators = sp.MinValidators
	accused := map[string]bool{}
	if b := h.PreconditionBlock; b != nil {
		for _, m := range b.Misbehavior {
			accused[string(m.Validator.Address)] = true
		}
	}
	claimsOK := func(a staking.Address) bool {
		acct := v.Accounts[a]
		if acct == nil {
			return false
		}
		total := new(big.Int)
		for _, ths := range acct.Escrow.StakeAccumulator.Claims {
			for _, t := range ths {
				switch {
				case t.Global != nil:
					q, ok := v.StakingP.Thresholds[*t.Global]
					if !ok {
						return false
					}
					total.Add(total, q.ToBigInt())
				case t.Constant != nil:
					total.Add(total, t.Constant.ToBigInt())
				}
			}
		}
		// Strictly more than the claims and more than zero: a slash or a reward step of the failed block
		// cannot be what decided the comparison.
		bal := acct.Escrow.Active.Balance.ToBigInt()
		return bal.Sign() > 0 && bal.Cmp(total) > 0 && new(big.Int).Sub(bal, total).Cmp(new(big.Int).Rsh(bal, 1)) >= 0
	}
	ents := map[signature.PublicKey]bool{}
	for id, n := range v.Nodes {
		status := v.NodeStatus[id]
		if status == nil || status.IsFrozen() || status.ExpirationProcessed {
			continue
		}
		if n.IsExpired(beacon.EpochTime(v.Epoch)) || n.IsExpired(beacon.EpochTime(v.Epoch+1)) || n.IsExpired(beacon.EpochTime(v.Epoch+2)) || !n.HasRoles(node.RoleValidator) {
			continue
		}
		if accused[string(tmcrypto.PublicKeyToCometBFT(&n.Consensus.ID).Address())] {
			continue
		}
		if !sp.DebugBypassStake && !claimsOK(staking.NewAddress(n.EntityID)) {
			continue
		}
		ents[n.EntityID] = true
	}
	out.EligibleEntities = len(ents)
	if sp.MinValidators > 0 && len(ents) >= sp.MinValidators {
		out.Confirmed = false
		out.Detail = fmt.Sprintf("%d entities have a registered, unfrozen, unexpired validator node, were not accused in the block and hold at least twice their stake claims; the scheduler needs %d validators", len(ents), sp.MinValidators)
	}
	return out
}
