package chainsim

import (
	"context"
	"crypto/sha256"
	"fmt"
	"os"
	"sync"
	"time"

	"github.com/cometbft/cometbft/abci/types"
	cmtcrypto "github.com/cometbft/cometbft/crypto"
	cmtproto "github.com/cometbft/cometbft/proto/tendermint/types"
	cmtversion "github.com/cometbft/cometbft/proto/tendermint/version"
	cmttypes "github.com/cometbft/cometbft/types"

	"github.com/oasisprotocol/oasis-core/go/common/crypto/signature"
	"github.com/oasisprotocol/oasis-core/go/common/identity"
	"github.com/oasisprotocol/oasis-core/go/common/persistent"
	"github.com/oasisprotocol/oasis-core/go/consensus/cometbft/abci"
	cmt "github.com/oasisprotocol/oasis-core/go/consensus/cometbft/api"
	beaconApp "github.com/oasisprotocol/oasis-core/go/consensus/cometbft/apps/beacon"
	governanceApp "github.com/oasisprotocol/oasis-core/go/consensus/cometbft/apps/governance"
	keymanagerApp "github.com/oasisprotocol/oasis-core/go/consensus/cometbft/apps/keymanager"
	registryApp "github.com/oasisprotocol/oasis-core/go/consensus/cometbft/apps/registry"
	roothashApp "github.com/oasisprotocol/oasis-core/go/consensus/cometbft/apps/roothash"
	schedulerApp "github.com/oasisprotocol/oasis-core/go/consensus/cometbft/apps/scheduler"
	stakingApp "github.com/oasisprotocol/oasis-core/go/consensus/cometbft/apps/staking"
	vaultApp "github.com/oasisprotocol/oasis-core/go/consensus/cometbft/apps/vault"
	tmbeacon "github.com/oasisprotocol/oasis-core/go/consensus/cometbft/beacon"
	tmroothash "github.com/oasisprotocol/oasis-core/go/consensus/cometbft/roothash"
	genesis "github.com/oasisprotocol/oasis-core/go/genesis/api"
	"github.com/oasisprotocol/oasis-core/go/upgrade"
	upgradeAPI "github.com/oasisprotocol/oasis-core/go/upgrade/api"
)

// ReplicaConfig configures one replica.
type ReplicaConfig struct {
	Name    string
	Backend string // "badger" | "pathbadger"
	Dir     string // data directory ("" => memory only)
	// Identity is the node whose keys the replica uses (its consensus key signs
	// the block metadata transaction when the replica proposes).
	Identity *SimNode
	// Pruning: 0 => none, otherwise keep N versions.
	KeepN         uint64
	PruneInterval time.Duration
	Checkpointer  bool
	MinGasPrice   uint64
}

// Replica is one in-process consensus application stack.
type Replica struct {
	Cfg ReplicaConfig
	Doc *genesis.Document

	// life is write-locked while the replica is closed/reopened; concurrent
	// observers (queries, gas estimation) hold it for reading.
	life sync.RWMutex
	// mu serialises all ABCI calls like CometBFT's local client does.
	mu     sync.Mutex
	srv    *abci.ApplicationServer
	mux    types.Application
	cancel context.CancelFunc
	ident  *identity.Identity
	// upgrader is the node-local upgrade manager (on-disk replicas only): governance hands it
	// the descriptors of passed upgrade proposals; its store is not part of consensus state.
	upgrader upgradeAPI.Backend
	pstore   *persistent.CommonStore

	Height  int64 // last committed height
	AppHash []byte
}

// SetupProcess prepares process-global state for a genesis document.
func SetupProcess(doc *genesis.Document) {
	signature.UnsafeResetChainContext()
	doc.SetChainContext()
}

// NewReplica creates (or reopens, if Dir holds state) a replica.
func NewReplica(doc *genesis.Document, cfg ReplicaConfig) (*Replica, error) {
	r := &Replica{Cfg: cfg, Doc: doc}
	if err := r.open(); err != nil {
		return nil, err
	}
	return r, nil
}

func (r *Replica) open() error {
	ctx, cancel := context.WithCancel(context.Background())
	n := r.Cfg.Identity
	ident := &identity.Identity{
		NodeSigner:      n.Keys.ID.Signer,
		P2PSigner:       n.Keys.P2P.Signer,
		ConsensusSigner: n.Keys.Consensus.Signer,
		VRFSigner:       n.Keys.VRF.Signer,
		TLSSigner:       n.Keys.TLS.Signer,
	}
	pc := abci.PruneConfig{Strategy: abci.PruneNone, PruneInterval: time.Hour}
	if r.Cfg.KeepN > 0 {
		pc = abci.PruneConfig{Strategy: abci.PruneKeepN, NumKept: r.Cfg.KeepN, PruneInterval: r.Cfg.PruneInterval}
		if pc.PruneInterval == 0 {
			pc.PruneInterval = time.Millisecond
		}
	}
	acfg := &abci.ApplicationConfig{
		DataDir:                   r.Cfg.Dir,
		StorageBackend:            r.Cfg.Backend,
		Pruning:                   pc,
		MinGasPrice:               r.Cfg.MinGasPrice,
		DisableCheckpointer:       !r.Cfg.Checkpointer,
		CheckpointerCheckInterval: 5 * time.Millisecond,
		ChunkerThreads:            2,
		Identity:                  ident,
		MemoryOnlyStorage:         r.Cfg.Dir == "",
		InitialHeight:             r.Doc.Height,
		ChainContext:              r.Doc.ChainContext(),
	}
	if acfg.DataDir == "" {
		acfg.DataDir = "/nonexistent-verif-memory-only"
	}
	var upg upgradeAPI.Backend
	var pstore *persistent.CommonStore
	if r.Cfg.Dir != "" {
		// The real upgrade manager over a persistent store in the replica's directory.
		if err := os.MkdirAll(r.Cfg.Dir, 0o755); err != nil {
			cancel()
			return fmt.Errorf("replica dir: %w", err)
		}
		store, err := persistent.NewCommonStore(r.Cfg.Dir)
		if err != nil {
			cancel()
			return fmt.Errorf("persistent store: %w", err)
		}
		if upg, err = upgrade.New(store, r.Cfg.Dir, false); err != nil {
			store.Close()
			cancel()
			return fmt.Errorf("upgrade manager: %w", err)
		}
		pstore = store
	}
	var srv *abci.ApplicationServer
	var err error
	if upg != nil {
		srv, err = abci.NewApplicationServer(ctx, upg, acfg)
	} else {
		srv, err = abci.NewApplicationServer(ctx, nil, acfg)
	}
	if err != nil {
		if upg != nil {
			upg.Close()
			pstore.Close()
		}
		cancel()
		return fmt.Errorf("NewApplicationServer: %w", err)
	}
	r.upgrader = upg
	r.pstore = pstore
	state := srv.State()
	md := srv.MessageDispatcher()
	rh := tmroothash.New(nil, tmroothash.NewStateQueryFactory(state))
	apps := []cmt.Application{
		beaconApp.New(),
		governanceApp.New(state, md),
		keymanagerApp.New(state),
		registryApp.New(state, md),
		roothashApp.New(state, md, rh),
		schedulerApp.New(state, md),
	}
	st := stakingApp.New(state, md)
	apps = append(apps, st, vaultApp.New(state, md))
	for _, a := range apps {
		if err := srv.Register(a); err != nil {
			cancel()
			return fmt.Errorf("register %s: %w", a.Name(), err)
		}
		a.Subscribe()
	}
	bc := tmbeacon.New(r.Doc.Beacon.Base, r.Doc.Height, nil, tmbeacon.NewStateQueryFactory(state))
	if err := srv.SetEpochtime(bc); err != nil {
		cancel()
		return err
	}
	if err := srv.SetTransactionAuthHandler(st); err != nil {
		cancel()
		return err
	}
	if err := srv.Start(); err != nil {
		cancel()
		return fmt.Errorf("start: %w", err)
	}
	r.srv, r.mux, r.cancel, r.ident = srv, srv.Mux(), cancel, ident
	info := r.mux.Info(types.RequestInfo{})
	r.Height = info.LastBlockHeight
	r.AppHash = info.LastBlockAppHash
	return nil
}

// Server returns the application server (for queries, EstimateGas, pruner).
func (r *Replica) Server() *abci.ApplicationServer { return r.srv }

// State returns the application state of the replica.
func (r *Replica) State() cmt.ApplicationState { return r.srv.State() }

// WithAlive runs f while the replica is guaranteed to stay open; it returns
// false without calling f if the replica is closed.
func (r *Replica) WithAlive(f func(srv *abci.ApplicationServer)) bool {
	r.life.RLock()
	defer r.life.RUnlock()
	if r.srv == nil {
		return false
	}
	f(r.srv)
	return true
}

// Close stops the replica and releases its storage.
func (r *Replica) Close() {
	r.life.Lock()
	defer r.life.Unlock()
	r.closeLocked()
}

func (r *Replica) closeLocked() {
	r.mu.Lock()
	defer r.mu.Unlock()
	if r.srv == nil {
		return
	}
	r.srv.Stop()
	r.srv.Cleanup()
	r.cancel()
	if r.upgrader != nil {
		r.upgrader.Close()
		r.pstore.Close()
		r.upgrader, r.pstore = nil, nil
	}
	r.srv, r.mux = nil, nil
}

// Restart closes and reopens the replica from its data directory.
func (r *Replica) Restart() error {
	if r.Cfg.Dir == "" {
		return fmt.Errorf("memory-only replica cannot restart")
	}
	r.life.Lock()
	defer r.life.Unlock()
	r.closeLocked()
	return r.open()
}

// InitChain performs InitChain with the validators from the genesis document.
func (r *Replica) InitChain() ([]types.ValidatorUpdate, error) {
	r.mu.Lock()
	defer r.mu.Unlock()
	gd, err := cmt.GetCometBFTGenesisDocument(r.Doc)
	if err != nil {
		return nil, err
	}
	var vals []types.ValidatorUpdate
	for _, v := range gd.Validators {
		vals = append(vals, cmttypes.TM2PB.ValidatorUpdate(cmttypes.NewValidator(v.PubKey, v.Power)))
	}
	cp := gd.ConsensusParams.ToProto()
	resp := r.mux.InitChain(types.RequestInitChain{
		Time:            gd.GenesisTime,
		ChainId:         gd.ChainID,
		ConsensusParams: &cp,
		Validators:      vals,
		AppStateBytes:   gd.AppState,
		InitialHeight:   gd.InitialHeight,
	})
	r.AppHash = resp.AppHash
	if len(resp.Validators) > 0 {
		vals = resp.Validators
	}
	return vals, nil
}

// Block is everything that defines one block (what CometBFT would decide).
type Block struct {
	Height      int64
	Time        time.Time
	Proposer    cmtcrypto.Address
	Hash        []byte
	Txs         [][]byte // includes system transactions once proposed
	LastCommit  types.CommitInfo
	Misbehavior []types.Misbehavior
	NextValHash []byte
}

// BlockResult is what a replica computed for a block.
type BlockResult struct {
	Begin   *types.ResponseBeginBlock
	Txs     []*types.ResponseDeliverTx
	End     *types.ResponseEndBlock
	AppHash []byte
	Retain  int64
}

// Prepare runs PrepareProposal on this replica (which must own the proposer's
// consensus key) and returns the transaction list including system transactions.
func (r *Replica) Prepare(b *Block, userTxs [][]byte) [][]byte {
	r.mu.Lock()
	defer r.mu.Unlock()
	ext := types.ExtendedCommitInfo{Round: b.LastCommit.Round}
	for _, v := range b.LastCommit.Votes {
		ext.Votes = append(ext.Votes, types.ExtendedVoteInfo{Validator: v.Validator, SignedLastBlock: v.SignedLastBlock})
	}
	resp := r.mux.PrepareProposal(types.RequestPrepareProposal{
		MaxTxBytes:         4 * 1024 * 1024,
		Txs:                userTxs,
		LocalLastCommit:    ext,
		Misbehavior:        b.Misbehavior,
		Height:             b.Height,
		Time:               b.Time,
		NextValidatorsHash: b.NextValHash,
		ProposerAddress:    b.Proposer,
	})
	return resp.Txs
}

// Process runs ProcessProposal and reports acceptance.
func (r *Replica) Process(b *Block) bool {
	r.mu.Lock()
	defer r.mu.Unlock()
	resp := r.mux.ProcessProposal(types.RequestProcessProposal{
		Txs:                b.Txs,
		ProposedLastCommit: b.LastCommit,
		Misbehavior:        b.Misbehavior,
		Hash:               b.Hash,
		Height:             b.Height,
		Time:               b.Time,
		NextValidatorsHash: b.NextValHash,
		ProposerAddress:    b.Proposer,
	})
	return resp.Status == types.ResponseProcessProposal_ACCEPT
}

// Finalize runs BeginBlock, DeliverTx*, EndBlock, Commit. between, if non-nil,
// is called (with the ABCI lock released) between the calls, which is where
// CometBFT interleaves mempool CheckTx calls.
func (r *Replica) Finalize(b *Block, between func()) *BlockResult {
	res := &BlockResult{}
	call := func(f func()) {
		r.mu.Lock()
		f()
		r.mu.Unlock()
		if between != nil {
			between()
		}
	}
	call(func() {
		resp := r.mux.BeginBlock(beginBlockRequestFor(r, b))
		res.Begin = &resp
	})
	for _, tx := range b.Txs {
		call(func() {
			resp := r.mux.DeliverTx(types.RequestDeliverTx{Tx: tx})
			res.Txs = append(res.Txs, &resp)
		})
	}
	call(func() {
		resp := r.mux.EndBlock(types.RequestEndBlock{Height: b.Height})
		res.End = &resp
	})
	r.mu.Lock()
	c := r.mux.Commit()
	r.Height = b.Height
	r.AppHash = c.Data
	r.mu.Unlock()
	res.AppHash = c.Data
	res.Retain = c.RetainHeight
	return res
}

// CheckTx runs a mempool check through the serialised ABCI connection.
func (r *Replica) CheckTx(tx []byte, recheck bool) types.ResponseCheckTx {
	r.mu.Lock()
	defer r.mu.Unlock()
	t := types.CheckTxType_New
	if recheck {
		t = types.CheckTxType_Recheck
	}
	return r.mux.CheckTx(types.RequestCheckTx{Tx: tx, Type: t})
}

// headerFill derives a 32-byte stand-in for a header hash that chainsim does not compute.
func headerFill(blockHash []byte, what string) []byte {
	h := sha256.Sum256(append(append([]byte(nil), blockHash...), what...))
	return h[:]
}

func txsOf(raw [][]byte) []cmttypes.Tx {
	out := make([]cmttypes.Tx, len(raw))
	for i, t := range raw {
		out[i] = cmttypes.Tx(t)
	}
	return out
}

// beginBlockRequestFor builds the BeginBlock request of the finalization of b on r.
func beginBlockRequestFor(r *Replica, b *Block) types.RequestBeginBlock {
	return types.RequestBeginBlock{
		Hash: b.Hash,
		// The finalization of a block gets the block's COMPLETE header (the proposal phase
		// only a partial one that the multiplexer builds itself): every field is filled in,
		// the application hash with the state root this replica committed last.
		Header: cmtproto.Header{
			Version:            cmtversion.Consensus{Block: 11},
			ChainID:            r.Doc.ChainID,
			Height:             b.Height,
			Time:               b.Time,
			LastBlockId:        cmtproto.BlockID{Hash: headerFill(b.Hash, "last-block-id"), PartSetHeader: cmtproto.PartSetHeader{Total: 1, Hash: headerFill(b.Hash, "parts")}},
			LastCommitHash:     headerFill(b.Hash, "last-commit"),
			DataHash:           cmttypes.Txs(txsOf(b.Txs)).Hash(),
			ValidatorsHash:     headerFill(b.Hash, "validators"),
			NextValidatorsHash: b.NextValHash,
			ConsensusHash:      headerFill(b.Hash, "consensus"),
			AppHash:            append([]byte(nil), r.AppHash...),
			LastResultsHash:    headerFill(b.Hash, "last-results"),
			EvidenceHash:       headerFill(b.Hash, "evidence"),
			ProposerAddress:    b.Proposer,
		},
		LastCommitInfo:      b.LastCommit,
		ByzantineValidators: b.Misbehavior,
	}
}
