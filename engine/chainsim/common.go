package chainsim

import (
	"fmt"
	"sort"
)

// ReportCommon emits the counters every chain check reports.
func ReportCommon(h *History, rep Reporter) {
	rep.Count("blocks", h.Height)
	rep.Count("epoch_transitions", int64(h.EpochTransitions))
	if h.PreconditionLost != "" {
		rep.Count("histories_precondition_lost", 1)
	}
	rep.Count("rejected_honest_proposals", int64(h.RejectedProposals))
	for k, n := range h.Gen.Stats {
		rep.Count("tx."+k, int64(n))
	}
	for p, n := range h.PathUsed {
		rep.Count("path."+p.String(), int64(n))
	}
}

// TxOutcomeKinds returns how many distinct (method, intent, outcome) classes were executed.
func TxOutcomeKinds(h *History) []string {
	var ks []string
	for k := range h.Gen.Stats {
		ks = append(ks, k)
	}
	sort.Strings(ks)
	return ks
}

// PanicSignature builds a specific signature for a recovered panic.
func PanicSignature(p *Panic) string {
	return fmt.Sprintf("panic/%s/%s", p.Where, classify(p.Value))
}

// StdCases builds the standard case list: n histories over the given profiles.
func StdCases(seed int64, n, blocks int, profiles []string) []Case {
	var out []Case
	for i := 0; i < n; i++ {
		out = append(out, Case{Index: i, Seed: uint64(seed)*1_000_003 + uint64(i)*7919 + 13, Profile: profiles[i%len(profiles)], Blocks: blocks})
	}
	return out
}
