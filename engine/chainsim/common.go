package chainsim

import (
	"fmt"
	"sort"
)

// ReportCommon emits the counters every chain check reports.
func ReportCommon(h *History, rep Reporter) {
	rep.Count("blocks", h.Height)
	rep.Count("epoch_transitions", int64(h.EpochTransitions))
	if h.PreconditionLost != "" {
		rep.Count("histories_precondition_lost", 1)
	}
	rep.Count("rejected_honest_proposals", int64(h.RejectedProposals))
	for k, n := range h.Gen.Stats {
		rep.Count("tx."+k, int64(n))
	}
	for p, n := range h.PathUsed {
		rep.Count("path."+p.String(), int64(n))
	}
	if h.Sc.IdleOwner != nil {
		rep.Count("histories_with_idle_owner_runtime", 1)
		rep.Count("nodes_joined_second_runtime", int64(h.Gen.Notes["node-joined-second-runtime"]))
	}
	ReportKeyManager(h, rep)
	ReportVRF(h, rep)
}

// ReportVRF emits the VRF counters of a history (VRF beacon support; no-op without the VRF backend).
func ReportVRF(h *History, rep Reporter) {
	if h.VRFMon == nil {
		return
	}
	rep.Count("histories_with_vrf", 1)
	if h.Sc.Runtime != nil {
		rep.Count("histories_with_vrf_and_runtime", 1)
	}
	rep.Count("vrf.threshold."+h.Sc.P.VRF.ThresholdKind, 1)
	h.VRFMon.Report(rep)
	if d := h.Gen.vrf; d != nil {
		for _, k := range d.sortedMoods() {
			rep.Count("vrf.epoch_mood."+k, int64(d.Moods[k]))
		}
	}
	for _, k := range []string{"vrf-proof", "vrf-proof-by-expired-node", "vrf-resubmit-same", "vrf-key-rotation-after-proof"} {
		rep.Count("vrf.ok."+k, int64(h.Gen.Notes[k]))
	}
	// A monitor without a reporter of its own belongs to a check of another property: what it
	// found is handed on, not judged here (its assertions are owned by C14).
	for _, p := range h.VRFMon.Problems {
		rep.Inconclusive(fmt.Sprintf("VRF monitor (see C14): %s: %s", p.Kind, p.What))
	}
}

// ReportKeyManager emits the key manager counters of a history (key manager support; no-op without a key manager).
func ReportKeyManager(h *History, rep Reporter) {
	if h.KMMon != nil {
		rep.Count("histories_with_key_manager", 1)
		h.KMMon.Report(rep)
		for _, k := range []string{"km-policy-update", "km-ephemeral-secret", "km-master-secret-proposal", "km-churp-create", "km-churp-update", "km-churp-apply", "km-churp-confirm"} {
			rep.Count("km.ok."+k, int64(h.Gen.Notes[k]))
		}
		// A monitor without a reporter of its own belongs to a check of another property: what it
		// found is handed on, not judged here (its assertions are owned by C14 and C17).
		for _, p := range h.KMMon.Problems {
			rep.Inconclusive(fmt.Sprintf("key manager monitor (see C14/C17): %s: %s", p.Kind, p.What))
		}
	}
}

// TxOutcomeKinds returns how many distinct (method, intent, outcome) classes were executed.
func TxOutcomeKinds(h *History) []string {
	var ks []string
	for k := range h.Gen.Stats {
		ks = append(ks, k)
	}
	sort.Strings(ks)
	return ks
}

// PanicSignature builds a specific signature for a recovered panic.
func PanicSignature(p *Panic) string {
	return fmt.Sprintf("panic/%s/%s", p.Where, classify(p.Value))
}

// WithExtraCases appends n more cases of one profile to a standard case list (the seeds continue the
// list's sequence, so the cases before them stay what they were).
func WithExtraCases(cs []Case, seed int64, n int, profile string) []Case {
	blocks := 60
	if len(cs) > 0 {
		blocks = cs[0].Blocks
	}
	for j := 0; j < n; j++ {
		i := len(cs)
		cs = append(cs, Case{Index: i, Seed: uint64(seed)*1_000_003 + uint64(i)*7919 + 13, Profile: profile, Blocks: blocks})
	}
	return cs
}

// StdCases builds the standard case list: n histories over the given profiles.
func StdCases(seed int64, n, blocks int, profiles []string) []Case {
	var out []Case
	for i := 0; i < n; i++ {
		out = append(out, Case{Index: i, Seed: uint64(seed)*1_000_003 + uint64(i)*7919 + 13, Profile: profiles[i%len(profiles)], Blocks: blocks})
	}
	return out
}
