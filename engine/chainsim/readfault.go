package chainsim

// Read-fault twins (hook H6, `dbapi.VerifReadFaultHook`).
//
// A history with HistoryConfig.FaultRead has two on-disk test replicas of the same node database
// backend. At PRNG-chosen heights both are restarted (cold node cache, so state reads really go to
// the store); the first one executes the block while the hook only COUNTS the node reads per ABCI
// call, the second one executes the same block with one transient read fault (1, 2 or 4 consecutive
// failing reads) at a PRNG-chosen position of that count. The faulted replica must either abort the
// block (the multiplexer's answer to unavailable state; it is then restarted and replays the block
// without a fault, which must give the reference's result) or end the block like everybody else.
// What a block that was NOT aborted did on the faulted replica is judged by the property's own
// clauses (nonce discipline); every other silent difference is recorded as an observation.

import (
	"bytes"
	"context"
	"errors"
	"fmt"
	"os"
	"path/filepath"
	"runtime"
	"runtime/debug"
	"strings"
	"sync"
	"time"

	"github.com/cometbft/cometbft/abci/types"

	stakingState "github.com/oasisprotocol/oasis-core/go/consensus/cometbft/apps/staking/state"
	staking "github.com/oasisprotocol/oasis-core/go/staking/api"
	dbapi "github.com/oasisprotocol/oasis-core/go/storage/mkvs/db/api"
)

// ErrInjectedReadFault is what a faulted node read returns.
var ErrInjectedReadFault = errors.New("verif: injected transient read fault of the node store")

type readFaultCtl struct {
	mu      sync.Mutex
	gid     uint64 // goroutine whose reads are counted / faulted (0 = off)
	n       int    // reads seen since arm
	failAt  int    // 1-based index of the first failing read (0 = count only)
	failLen int
	fired   int
	phase   int
	byPhase []int
	where   string
}

var readFault readFaultCtl
var readFaultInstalled sync.Once

func curGID() uint64 {
	var b [64]byte
	n := runtime.Stack(b[:], false)
	// "goroutine 123 [running]:"
	var id uint64
	for _, c := range b[len("goroutine "):n] {
		if c < '0' || c > '9' {
			break
		}
		id = id*10 + uint64(c-'0')
	}
	return id
}

func (c *readFaultCtl) hook(name string) error {
	c.mu.Lock()
	defer c.mu.Unlock()
	if c.gid == 0 || curGID() != c.gid {
		return nil
	}
	c.n++
	for len(c.byPhase) <= c.phase {
		c.byPhase = append(c.byPhase, 0)
	}
	c.byPhase[c.phase]++
	if c.failAt > 0 && c.n >= c.failAt && c.n < c.failAt+c.failLen {
		c.fired++
		if c.fired == 1 {
			st := string(debug.Stack())
			c.where = faultSite(st)
		}
		return ErrInjectedReadFault
	}
	return nil
}

// faultSite names the consensus-level frames that asked for the failing read: the innermost frame of
// the consensus applications / multiplexer (the generic state wrappers skipped) and its caller.
func faultSite(stack string) string {
	const pfx = "github.com/oasisprotocol/oasis-core/go/consensus/cometbft/"
	var frames []string
	for _, l := range strings.Split(stack, "\n") {
		l = strings.TrimSpace(l)
		if !strings.HasPrefix(l, pfx) {
			continue
		}
		if i := strings.LastIndex(l, "("); i > 0 {
			l = l[:i]
		}
		l = strings.TrimPrefix(l, pfx)
		if strings.HasPrefix(l, "api.(*ImmutableState)") || strings.HasPrefix(l, "api.(*Context)") {
			continue
		}
		l = strings.NewReplacer("(*", "", ")", "").Replace(l)
		if strings.Contains(l, ".func") { // closures: keep the enclosing function's name
			l = l[:strings.Index(l, ".func")]
		}
		if len(frames) > 0 && frames[len(frames)-1] == l {
			continue
		}
		frames = append(frames, l)
		if len(frames) == 2 {
			break
		}
	}
	if len(frames) == 0 {
		return "?"
	}
	return strings.Join(frames, "<-")
}

func (c *readFaultCtl) arm(failAt, failLen int) {
	readFaultInstalled.Do(func() { dbapi.VerifReadFaultHook = readFault.hook })
	c.mu.Lock()
	c.gid, c.n, c.failAt, c.failLen, c.fired, c.phase, c.byPhase, c.where = curGID(), 0, failAt, failLen, 0, 0, nil, ""
	c.mu.Unlock()
}

func (c *readFaultCtl) setPhase(p int) {
	c.mu.Lock()
	c.phase = p
	c.mu.Unlock()
}

func (c *readFaultCtl) disarm() (byPhase []int, fired int, where string) {
	c.mu.Lock()
	defer c.mu.Unlock()
	c.gid = 0
	return c.byPhase, c.fired, c.where
}

// finalizePhased is Finalize with a phase callback before every ABCI call (phase 0 = BeginBlock,
// 1..n = DeliverTx of transaction i-1, n+1 = EndBlock, n+2 = Commit) that recovers a panic of the
// code under test (releasing the ABCI mutex the panicking call held).
func (r *Replica) finalizePhased(b *Block, phase func(int)) (res *BlockResult, pv any, stack string) {
	locked := false
	defer func() {
		if e := recover(); e != nil {
			pv, stack = e, string(debug.Stack())
			if locked {
				r.mu.Unlock()
			}
			res = nil
		}
	}()
	res = &BlockResult{}
	step := func(p int, f func()) {
		phase(p)
		r.mu.Lock()
		locked = true
		f()
		locked = false
		r.mu.Unlock()
	}
	step(0, func() {
		resp := r.mux.BeginBlock(r.beginBlockRequest(b))
		res.Begin = &resp
	})
	for i, tx := range b.Txs {
		step(1+i, func() {
			resp := r.mux.DeliverTx(types.RequestDeliverTx{Tx: tx})
			res.Txs = append(res.Txs, &resp)
		})
	}
	step(1+len(b.Txs), func() {
		resp := r.mux.EndBlock(types.RequestEndBlock{Height: b.Height})
		res.End = &resp
	})
	step(2+len(b.Txs), func() {
		c := r.mux.Commit()
		r.Height = b.Height
		r.AppHash = c.Data
		res.AppHash = c.Data
		res.Retain = c.RetainHeight
	})
	return res, nil, ""
}

// restartWithin restarts the replica; false when closing it did not come back (the replica is
// then left alone for the rest of the history).
func (r *Replica) restartWithin(d time.Duration) (bool, error) {
	ch := make(chan error, 1)
	go func() { ch <- r.Restart() }()
	select {
	case err := <-ch:
		return true, err
	case <-time.After(d):
		return false, nil
	}
}

// ReadFaultStats is what the read-fault twins of a history observed.
type ReadFaultStats struct {
	Blocks             int // blocks executed with an armed fault
	Fired              int // ... in which the fault was reached
	Aborted            int // ... and the block was aborted (panic)
	AbortedAfterCommit int
	RecoveredEqual     int // aborted blocks replayed after a restart with the reference's result
	SilentEqual        int // fault reached, block not aborted, result identical to the reference
	SilentDifferent    int // fault reached, block not aborted, result differs from the reference
	InTx               int // faults placed inside a DeliverTx call
	InStaleTx          int // faults placed inside the DeliverTx of a transaction the reference refused for its nonce
	InFreeStaleTx      int // faults aimed at a nonce-refused transaction that costs nothing
	ReadsCounted       int
	Sites              map[string]int // consensus frame that asked for the failing read -> count
	AbortSites         map[string]int
	SilentSites        map[string]int
	EqualSites         map[string]int
	Dead               bool
	Resynced           int
	DeadWhy            string
}

// ReadFaultFinding is a violation candidate seen on the faulted replica.
type ReadFaultFinding struct {
	Signature string
	What      string
	Detail    map[string]any
}

func (s *ReadFaultStats) site(m *map[string]int, k string) {
	if *m == nil {
		*m = map[string]int{}
	}
	(*m)[k]++
}

// stepReadFault executes block b on the counting replica and on the faulted replica.
func (h *History) stepReadFault(b *Block, gtxs []*GenTx, ref *BlockResult) bool {
	cnt, flt := h.Tests[0], h.Tests[1]
	st := &h.ReadFault
	byRaw := map[string]*GenTx{}
	for _, g := range gtxs {
		byRaw[string(g.Raw)] = g
	}
	// Counting replica.
	if err := cnt.Restart(); err != nil {
		panic(fmt.Errorf("restart failed: %w", err))
	}
	readFault.arm(0, 0)
	cres, pv, stack := cnt.finalizePhased(b, readFault.setPhase)
	byPhase, _, _ := readFault.disarm()
	if pv != nil {
		h.Panics = append(h.Panics, &Panic{Where: "path:countreads", Replica: cnt.Cfg.Name, Height: b.Height, Value: fmt.Sprint(pv), Stack: stack})
		return false
	}
	h.compare(cnt, PathRestart, b, ref, cres)
	total := 0
	var freeStaleReads []int
	var txReads, staleReads []int // global read indices (1-based) inside DeliverTx calls / of nonce-refused transactions
	for p, n := range byPhase {
		for j := 0; j < n; j++ {
			total++
			if p >= 1 && p <= len(b.Txs) {
				txReads = append(txReads, total)
				if p-1 < len(ref.Txs) && ref.Txs[p-1].Code != types.CodeTypeOK && strings.Contains(ref.Txs[p-1].Log, "invalid nonce") {
					staleReads = append(staleReads, total)
					// ... that costs nothing (what an account that looks empty could afford).
					if g := byRaw[string(b.Txs[p-1])]; g != nil && g.Tx != nil && (g.Tx.Fee == nil || g.Tx.Fee.Amount.IsZero()) {
						freeStaleReads = append(freeStaleReads, total)
					}
				}
			}
		}
	}
	st.ReadsCounted += total
	if total == 0 {
		// Nothing was read from the store: the faulted replica just follows.
		if err := flt.Restart(); err != nil {
			panic(fmt.Errorf("restart failed: %w", err))
		}
		fres, pv, stack := flt.finalizePhased(b, func(int) {})
		if pv != nil {
			h.Panics = append(h.Panics, &Panic{Where: "path:faultread(no reads)", Replica: flt.Cfg.Name, Height: b.Height, Value: fmt.Sprint(pv), Stack: stack})
			return false
		}
		h.compare(flt, PathRestart, b, ref, fres)
		return true
	}
	// Position of the fault: preferably inside the delivery of a transaction the reference refused for
	// its nonce, then inside any delivery, else anywhere in the block.
	var k int
	switch c := h.Rng.IntN(10); {
	case c < 3 && len(freeStaleReads) > 0:
		k = freeStaleReads[h.Rng.IntN(len(freeStaleReads))]
		st.InFreeStaleTx++
	case c < 5 && len(staleReads) > 0:
		k = staleReads[h.Rng.IntN(len(staleReads))]
	case c < 8 && len(txReads) > 0:
		k = txReads[h.Rng.IntN(len(txReads))]
	default:
		k = 1 + h.Rng.IntN(total)
	}
	flen := []int{1, 1, 2, 4}[h.Rng.IntN(4)]
	if err := flt.Restart(); err != nil {
		panic(fmt.Errorf("restart failed: %w", err))
	}
	// Pre-state nonces of the block's signers (the view still shows the state before the block).
	pre := map[staking.Address]uint64{}
	for _, g := range gtxs {
		if g.Signer != nil {
			if a := h.View.Accounts[g.Signer.Addr]; a != nil {
				pre[g.Signer.Addr] = a.General.Nonce
			} else {
				pre[g.Signer.Addr] = 0
			}
		}
	}
	readFault.arm(k, flen)
	fres, pv, stack := flt.finalizePhased(b, readFault.setPhase)
	_, fired, where := readFault.disarm()
	st.Blocks++
	inTx, inStale := false, false
	for _, x := range txReads {
		if x == k {
			inTx = true
		}
	}
	for _, x := range staleReads {
		if x == k {
			inStale = true
		}
	}
	if fired == 0 {
		// The faulted replica read less than the counting one (possible only if execution is not a
		// function of the block): treat as a plain replay.
		if pv != nil {
			h.Panics = append(h.Panics, &Panic{Where: "path:faultread(not fired)", Replica: flt.Cfg.Name, Height: b.Height, Value: fmt.Sprint(pv), Stack: stack})
			return false
		}
		h.compare(flt, PathRestart, b, ref, fres)
		return true
	}
	st.Fired++
	st.site(&st.Sites, where)
	if os.Getenv("VERIF_DEBUG_RF") != "" {
		// which delivery the fault fell into
		acc, ph := 0, -1
		for p, n := range byPhase {
			if k > acc && k <= acc+n {
				ph = p
			}
			acc += n
		}
		desc := fmt.Sprintf("phase %d", ph)
		if ph >= 1 && ph <= len(b.Txs) {
			if g := byRaw[string(b.Txs[ph-1])]; g != nil && g.Tx != nil {
				fee := "none"
				if g.Tx.Fee != nil {
					fee = g.Tx.Fee.Amount.String()
				}
				desc += fmt.Sprintf(" %s intent=%s nonce=%d fee=%s ref=%d %q", g.Method, g.Intent, g.Tx.Nonce, fee, ref.Txs[ph-1].Code, ref.Txs[ph-1].Log)
				if pv == nil && ph-1 < len(fres.Txs) {
					desc += fmt.Sprintf(" faulted=%d %q", fres.Txs[ph-1].Code, fres.Txs[ph-1].Log)
				}
			}
		}
		fmt.Printf("DEBUGRF height=%d k=%d/%d len=%d site=%s aborted=%v mtb=%v %s abort=%.300v\n", b.Height, k, total, flen, where, pv != nil, h.View.StakingP.MinTransactBalance, desc, pv)
	}
	if inTx {
		st.InTx++
	}
	if inStale {
		st.InStaleTx++
	}
	if pv != nil {
		// Aborted: a restarted node replays the block and must agree with everybody else.
		st.Aborted++
		st.site(&st.AbortSites, where)
		ok, err := flt.restartWithin(2 * time.Minute)
		if !ok {
			st.Dead = true
			return false
		}
		if err != nil {
			h.ReadFaultFindings = append(h.ReadFaultFindings, &ReadFaultFinding{Signature: "readfault/restart-after-aborted-block-failed", What: fmt.Sprintf("after a block aborted by a read fault (%s) the node does not start: %v", where, err),
				Detail: map[string]any{"height": b.Height, "fault_read": k, "fault_len": flen, "site": where, "abort": fmt.Sprint(pv)}})
			st.Dead = true
			return false
		}
		if flt.Height == b.Height {
			// The abort came after the block was committed (a read of the commit step itself): the
			// restarted node reports the block as its last one; it must have the chain's state.
			st.AbortedAfterCommit++
			if !bytes.Equal(flt.AppHash, ref.AppHash) {
				h.ReadFaultFindings = append(h.ReadFaultFindings, &ReadFaultFinding{Signature: "readfault/committed-state-differs-after-abort-in-commit", What: fmt.Sprintf("a read fault (%s) aborted the commit step after the block was stored; the restarted node has application hash %x, the chain %x", where, flt.AppHash, ref.AppHash),
					Detail: map[string]any{"height": b.Height, "fault_read": k, "fault_len": flen, "site": where, "abort": fmt.Sprint(pv)}})
				st.Dead = true
				return false
			}
			st.RecoveredEqual++
			return true
		}
		rres, pv2, stack2 := flt.finalizePhased(b, func(int) {})
		if pv2 != nil {
			h.ReadFaultFindings = append(h.ReadFaultFindings, &ReadFaultFinding{Signature: "readfault/replay-after-aborted-block-panics", What: fmt.Sprintf("after a block aborted by a read fault (%s) and a restart, replaying the block panics: %v", where, pv2),
				Detail: map[string]any{"height": b.Height, "fault_read": k, "fault_len": flen, "site": where, "abort": fmt.Sprint(pv), "stack": stack2}})
			st.Dead = true
			return false
		}
		n := len(h.Divergences)
		h.compare(flt, PathRestart, b, ref, rres)
		if len(h.Divergences) == n {
			st.RecoveredEqual++
		} else {
			for _, d := range h.Divergences[n:] {
				d.What = "after-aborted-block/" + d.What
			}
		}
		return true
	}
	// Not aborted.
	n := len(h.Divergences)
	h.compare(flt, PathRestart, b, ref, fres)
	diverged := len(h.Divergences) > n
	var divs []*ReplicaDivergence
	if diverged {
		divs = append(divs, h.Divergences[n:]...)
		h.Divergences = h.Divergences[:n] // judged here, not as a replica divergence
		st.SilentDifferent++
		st.site(&st.SilentSites, where)
	} else {
		st.SilentEqual++
		st.site(&st.EqualSites, where)
		return true
	}
	// The faulted replica now has another state than the chain; judge what it did by the nonce
	// discipline, then stop using it (it cannot follow the chain any more).
	detail := map[string]any{"height": b.Height, "fault_read": k, "fault_len": flen, "reads_in_block": total, "site": where, "backend": flt.Cfg.Backend}
	var dd []string
	for _, d := range divs {
		dd = append(dd, d.What+": "+d.Detail)
	}
	detail["differences"] = dd
	if h.View.StakingP != nil {
		detail["min_transact_balance"] = h.View.StakingP.MinTransactBalance.String()
	}
	for i, raw := range b.Txs {
		if i < len(fres.Txs) && i < len(ref.Txs) && (fres.Txs[i].Code != ref.Txs[i].Code || fres.Txs[i].Codespace != ref.Txs[i].Codespace) {
			if g := byRaw[string(raw)]; g != nil && g.Tx != nil {
				fee := "none"
				if g.Tx.Fee != nil {
					fee = g.Tx.Fee.Amount.String()
				}
				detail["first_differing_tx"] = fmt.Sprintf("tx %d %s intent=%s nonce=%d fee=%s; reference: %d %s; faulted node: %d %s", i, g.Method, g.Intent, g.Tx.Nonce, fee, ref.Txs[i].Code, ref.Txs[i].Log, fres.Txs[i].Code, fres.Txs[i].Log)
			}
			break
		}
	}
	post := map[staking.Address]uint64{}
	if ist, err := CommittedState(flt, 0); err == nil {
		ss := stakingState.NewImmutableState(ist)
		for a := range pre {
			if acct, err := ss.Account(context.Background(), a); err == nil {
				post[a] = acct.General.Nonce
			}
		}
		ist.Close()
	}
	refPost := map[staking.Address]uint64{}
	if ist, err := CommittedState(h.Ref, 0); err == nil {
		ss := stakingState.NewImmutableState(ist)
		for a := range pre {
			if acct, err := ss.Account(context.Background(), a); err == nil {
				refPost[a] = acct.General.Nonce
			}
		}
		ist.Close()
	}
	// Nonce arithmetic is modulo 2^64 (an account at the end of the nonce space legitimately wraps to 0):
	// lo[a] is the smallest nonce the signer can have at this point of the block, span[a] how many more
	// of its transactions may have advanced it (failed ones may or may not have passed authentication).
	lo, span, mine := map[staking.Address]uint64{}, map[staking.Address]uint64{}, map[staking.Address]uint64{}
	for a, v := range pre {
		lo[a] = v
	}
	for i, raw := range b.Txs {
		if i >= len(fres.Txs) {
			break
		}
		g := byRaw[string(raw)]
		if g == nil || g.Signer == nil || g.Tx == nil {
			continue
		}
		a := g.Signer.Addr
		mine[a]++
		if fres.Txs[i].Code == types.CodeTypeOK {
			if g.Tx.Nonce-lo[a] > span[a] {
				dt := cloneDetail(detail)
				dt["tx_index"], dt["tx_method"], dt["tx_nonce"], dt["signer_nonce_before_block"] = i, g.Method, fmt.Sprint(g.Tx.Nonce), fmt.Sprint(pre[a])
				dt["reference_result"] = fmt.Sprintf("code %d: %s", ref.Txs[i].Code, ref.Txs[i].Log)
				h.ReadFaultFindings = append(h.ReadFaultFindings, &ReadFaultFinding{
					Signature: "c09/readfault/transaction-with-wrong-nonce-executed/" + where,
					What: fmt.Sprintf("on a node whose store failed one read (%s), transaction %d (%s, nonce %d) executed although its signer's nonce was between %d and %d (modulo 2^64); the block was not aborted",
						where, i, g.Method, g.Tx.Nonce, lo[a], lo[a]+span[a]),
					Detail: dt})
			}
			lo[a], span[a] = g.Tx.Nonce+1, 0
		} else {
			span[a]++ // may or may not have passed authentication
		}
	}
	for a, v := range post {
		// The stored nonce is the pre-state nonce advanced by at most the number of the signer's
		// transactions in the block (modulo 2^64).
		if v-pre[a] > mine[a] {
			dt := cloneDetail(detail)
			dt["account"], dt["nonce_before_block"], dt["nonce_after_block"], dt["nonce_after_block_on_reference"] = a.String(), fmt.Sprint(pre[a]), fmt.Sprint(v), fmt.Sprint(refPost[a])
			var own []string
			for i, raw := range b.Txs {
				if g := byRaw[string(raw)]; g != nil && g.Signer != nil && g.Signer.Addr == a && g.Tx != nil && i < len(fres.Txs) && i < len(ref.Txs) {
					own = append(own, fmt.Sprintf("tx %d %s intent=%s nonce=%d: reference %d %q, faulted node %d %q", i, g.Method, g.Intent, g.Tx.Nonce, ref.Txs[i].Code, ref.Txs[i].Log, fres.Txs[i].Code, fres.Txs[i].Log))
				}
			}
			dt["transactions_of_the_account_in_the_block"] = own
			h.ReadFaultFindings = append(h.ReadFaultFindings, &ReadFaultFinding{
				Signature: "c09/readfault/stored-nonce-went-backwards/" + where,
				What: fmt.Sprintf("on a node whose store failed one read (%s), the stored nonce of %s went from %d to %d in a block with %d transactions of that signer that was not aborted: already executed transactions of the signer can execute again",
					where, a, pre[a], v, mine[a]),
				Detail: dt})
		}
	}
	h.ReadFaultSilent = append(h.ReadFaultSilent, detail)
	// The faulted replica cannot follow the chain any more: it continues from a copy of its twin.
	if err := resyncReplica(flt, cnt); err != nil {
		st.Dead = true
		st.DeadWhy = "resync failed: " + err.Error()
	} else {
		st.Resynced++
	}
	return true
}

// resyncReplica replaces dst's data directory by a copy of src's (both closed meanwhile).
func resyncReplica(dst, src *Replica) error {
	dst.life.Lock()
	defer dst.life.Unlock()
	src.life.Lock()
	defer src.life.Unlock()
	dst.closeLocked()
	src.closeLocked()
	if err := os.RemoveAll(dst.Cfg.Dir); err != nil {
		return err
	}
	if err := copyTree(src.Cfg.Dir, dst.Cfg.Dir); err != nil {
		return err
	}
	if err := src.open(); err != nil {
		return err
	}
	return dst.open()
}

func cloneDetail(m map[string]any) map[string]any {
	out := map[string]any{}
	for k, v := range m {
		out[k] = v
	}
	return out
}

// beginBlockRequest builds the BeginBlock request of the finalization of b (complete header).
func (r *Replica) beginBlockRequest(b *Block) types.RequestBeginBlock {
	return beginBlockRequestFor(r, b)
}

var _ = bytes.Equal

// copyTree copies a directory tree keeping the permission bits (the application checks them).
func copyTree(src, dst string) error {
	return filepath.Walk(src, func(p string, info os.FileInfo, err error) error {
		if err != nil {
			return err
		}
		rel, _ := filepath.Rel(src, p)
		t := filepath.Join(dst, rel)
		if info.IsDir() {
			if err := os.MkdirAll(t, 0o700); err != nil {
				return err
			}
			return os.Chmod(t, info.Mode().Perm())
		}
		if !info.Mode().IsRegular() {
			return nil
		}
		b, err := os.ReadFile(p)
		if err != nil {
			return err
		}
		return os.WriteFile(t, b, info.Mode().Perm())
	})
}
