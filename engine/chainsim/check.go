package chainsim

import (
	"bufio"
	"bytes"
	"encoding/json"
	"flag"
	"fmt"
	"os"
	"regexp"
	"strings"
	"sync"
	"syscall"
	"time"

	"verif/engine/evid"
)

// Reporter is what monitors report to (in the child process it serialises to
// stdout, the parent folds the records into the evid.Run).
type Reporter interface {
	Violation(signature, what string, witness any)
	Count(name string, n int64)
	Distinct(set, key string)
	Nontrivial(key string)
	Sample(v any)
	Inconclusive(msg string)
}

type record struct {
	Kind string          `json:"k"`
	A    string          `json:"a,omitempty"`
	B    string          `json:"b,omitempty"`
	N    int64           `json:"n,omitempty"`
	V    json.RawMessage `json:"v,omitempty"`
}

const recPrefix = "@@VERIF "

// stdoutReporter writes records as lines on stdout.
type stdoutReporter struct {
	mu sync.Mutex
	w  *bufio.Writer
}

func newStdoutReporter() *stdoutReporter { return &stdoutReporter{w: bufio.NewWriter(os.Stdout)} }

func (s *stdoutReporter) emit(r record) {
	b, _ := json.Marshal(r)
	s.mu.Lock()
	s.w.WriteString(recPrefix)
	s.w.Write(b)
	s.w.WriteByte('\n')
	s.w.Flush()
	s.mu.Unlock()
}

func raw(v any) json.RawMessage {
	b, err := json.Marshal(v)
	if err != nil {
		b, _ = json.Marshal(fmt.Sprint(v))
	}
	return b
}

func (s *stdoutReporter) Violation(sig, what string, w any) {
	s.emit(record{Kind: "viol", A: sig, B: what, V: raw(w)})
}
func (s *stdoutReporter) Count(name string, n int64) { s.emit(record{Kind: "count", A: name, N: n}) }
func (s *stdoutReporter) Distinct(set, key string)   { s.emit(record{Kind: "dist", A: set, B: key}) }
func (s *stdoutReporter) Nontrivial(key string)      { s.emit(record{Kind: "nontriv", A: key}) }
func (s *stdoutReporter) Sample(v any)               { s.emit(record{Kind: "sample", V: raw(v)}) }
func (s *stdoutReporter) Inconclusive(msg string)    { s.emit(record{Kind: "inconc", A: msg}) }

// Case identifies one history of a chain check.
type Case struct {
	Index   int    `json:"index"`
	Seed    uint64 `json:"seed"`
	Profile string `json:"profile"`
	Blocks  int    `json:"blocks"`
	Mode    string `json:"mode,omitempty"`
}

// CheckSpec describes a chain-based check.
type CheckSpec struct {
	ID    string
	Level string
	Rule  string
	// Cases returns the case list for a tier (a function of seed and tier only).
	Cases func(r *evid.Run) []Case
	// RunCase executes one case in the child process.
	RunCase func(c Case, rep Reporter, scratch string)
	// CrashIsViolation: a child that dies (fatal error, unrecovered panic) is a
	// violation of this property; otherwise it makes the run inconclusive.
	CrashIsViolation bool
	// Floor is the minimum number of distinct non-trivial cases.
	Floor int
	// Timeout per case (watchdog; firing is inconclusive).
	Timeout time.Duration
	// Workers limits the number of concurrent children (0 = NumCPU).
	Workers int
	// Extra is called in the parent before Finish (e.g. level-1 monitors).
	Extra func(r *evid.Run)
	// ChildEnv is extra environment for the children.
	ChildEnv []string
}

var crashLine = regexp.MustCompile(`(?m)^(panic: .*|fatal error: .*|WARNING: DATA RACE|.*concurrent map .*)$`)

// IsChild reports whether the process was started as a case child.
func IsChild() bool {
	return len(os.Args) > 1 && (os.Args[1] == "-child" || os.Args[1] == "--child")
}

// ChildMain runs one case in the child process and exits.
func ChildMain(spec CheckSpec) {
	fs := flag.NewFlagSet("child", flag.ExitOnError)
	fs.Bool("child", false, "run one case (internal)")
	caseJSON := fs.String("case", "", "case description (internal)")
	scratch := fs.String("scratch", "", "scratch dir (internal)")
	_ = fs.Parse(os.Args[1:])
	var c Case
	if err := json.Unmarshal([]byte(*caseJSON), &c); err != nil {
		fmt.Fprintln(os.Stderr, "bad case:", err)
		os.Exit(3)
	}
	rep := newStdoutReporter()
	spec.RunCase(c, rep, *scratch)
	rep.emit(record{Kind: "done"})
	os.Exit(0)
}

// Main is the entry point of every chain check binary.
func Main(spec CheckSpec) {
	if IsChild() {
		ChildMain(spec)
	}
	r := evid.Start(spec.ID, spec.Level)
	r.Rule = spec.Rule
	var cases []Case
	if r.ReplayFile != "" {
		cases = replayCases(r.ReplayFile)
	} else {
		cases = spec.Cases(r)
	}
	RunCases(r, spec, cases)
	if spec.Extra != nil {
		spec.Extra(r)
	}
	r.Finish(spec.Floor)
}

// RunCases executes the cases in child processes and folds what they report
// into r (usable from checks that have their own main).
func RunCases(r *evid.Run, spec CheckSpec, cases []Case) {
	timeout := spec.Timeout
	if timeout == 0 {
		timeout = 10 * time.Minute
	}
	scr := r.Scratch()
	raceDir := scr + "/race"
	_ = os.MkdirAll(raceDir, 0o755)
	evid.Parallel(len(cases), spec.Workers, func(i int) {
		c := cases[i]
		cj, _ := json.Marshal(c)
		dir := fmt.Sprintf("%s/case%d", scr, c.Index)
		_ = os.MkdirAll(dir, 0o755)
		env := append([]string{fmt.Sprintf("GORACE=halt_on_error=0 log_path=%s/c%d", raceDir, c.Index)}, spec.ChildEnv...)
		var res evid.ChildResult
		for attempt := 0; attempt < 3; attempt++ {
			res = evid.Child([]string{"-child", "-case", string(cj), "-scratch", dir}, env, timeout)
			// Killed from outside (SIGKILL without a crash line of the Go runtime: the kernel's
			// out-of-memory killer on an overloaded machine): the case is executed again.
			killed := !res.TimedOut && res.Signal == syscall.SIGKILL && crashLine.Find(res.Out) == nil
			if killed {
				r.Count("children_killed_from_outside_and_rerun", 1)
			}
			if !res.TimedOut && !killed {
				break
			}
			_ = os.RemoveAll(dir)
			_ = os.MkdirAll(dir, 0o755)
		}
		_ = os.RemoveAll(dir)
		r.Eval(1)
		done := foldRecords(r, c, res.Out)
		switch {
		case res.TimedOut:
			r.Inconclusive("case %d (%s seed %d): watchdog fired three times", c.Index, c.Profile, c.Seed)
		case done && res.ExitCode == 66:
			// Exit status of the race detector when it reported races; the reports
			// themselves are collected from the log files below.
		case !done || res.ExitCode != 0:
			msg := string(crashLine.Find(res.Out))
			if msg == "" {
				msg = fmt.Sprintf("exit=%d signal=%v", res.ExitCode, res.Signal)
			}
			tail := res.Out
			if len(tail) > 6000 {
				tail = tail[len(tail)-6000:]
			}
			if spec.CrashIsViolation {
				r.Violation("child-crash/"+classify(msg), msg, map[string]any{"case": c, "output_tail": string(tail)})
			} else {
				r.Inconclusive("case %d (%s seed %d): child died: %s", c.Index, c.Profile, c.Seed, msg)
			}
		}
	})
	// VRF beacon support: a run whose case list has histories on the VRF backend must have seen VRF
	// epochs, accepted proofs and elections under VRF; otherwise it observed nothing of that part.
	if n := r.Counter("histories_with_vrf"); n > 0 && r.ReplayFile == "" {
		for _, k := range []string{"vrf.epochs", "vrf.proofs_accepted", "vrf.elections_checked", "vrf.epochs_with_weak_alpha", "vrf.epochs_with_high_quality_alpha"} {
			if r.Counter(k) == 0 {
				r.Inconclusive("%d histories ran on the VRF beacon backend but the counter %s is zero", n, k)
			}
		}
		if r.Counter("histories_with_vrf_and_runtime") >= 6 && r.Counter("vrf.committees_elected") == 0 {
			r.Inconclusive("%d histories ran on the VRF beacon backend with a compute runtime but no committee was elected under VRF", r.Counter("histories_with_vrf_and_runtime"))
		}
	}
	for _, rr := range evid.RaceReports(raceDir + "/c") {
		r.Violation("race/"+raceKey(rr.Key), "data race reported by the Go race detector", map[string]any{"report": rr.Text, "count": rr.Count})
	}
}

func raceKey(k string) string {
	parts := strings.Split(k, "|")
	if len(parts) > 2 {
		parts = parts[:2]
	}
	s := strings.Join(parts, "~")
	s = strings.ReplaceAll(s, "github.com/oasisprotocol/oasis-core/go/", "")
	return s
}

func classify(msg string) string {
	msg = regexp.MustCompile(`0x[0-9a-f]+|\d+`).ReplaceAllString(msg, "N")
	if len(msg) > 80 {
		msg = msg[:80]
	}
	return strings.TrimSpace(msg)
}

func foldRecords(r *evid.Run, c Case, out []byte) (done bool) {
	sc := bufio.NewScanner(bytes.NewReader(out))
	sc.Buffer(make([]byte, 1<<20), 64<<20)
	for sc.Scan() {
		line := sc.Text()
		if !strings.HasPrefix(line, recPrefix) {
			continue
		}
		var rec record
		if json.Unmarshal([]byte(line[len(recPrefix):]), &rec) != nil {
			continue
		}
		switch rec.Kind {
		case "viol":
			var w any
			_ = json.Unmarshal(rec.V, &w)
			r.Violation(rec.A, rec.B, map[string]any{"case": c, "detail": w})
		case "count":
			r.Count(rec.A, rec.N)
		case "dist":
			r.Distinct(rec.A, rec.B)
		case "nontriv":
			r.Nontrivial(rec.A)
		case "sample":
			var w any
			_ = json.Unmarshal(rec.V, &w)
			r.Sample(map[string]any{"case": c, "sample": w})
		case "inconc":
			r.Inconclusive("case %d: %s", c.Index, rec.A)
		case "done":
			done = true
		}
	}
	return done
}

func replayCases(path string) []Case {
	b, err := os.ReadFile(path)
	if err != nil {
		fmt.Fprintln(os.Stderr, "replay:", err)
		os.Exit(2)
	}
	var doc struct {
		Witness struct {
			Case Case `json:"case"`
		} `json:"witness"`
	}
	if err := json.Unmarshal(b, &doc); err != nil || doc.Witness.Case.Blocks == 0 {
		fmt.Fprintln(os.Stderr, "replay: file has no case description")
		os.Exit(2)
	}
	return []Case{doc.Witness.Case}
}
