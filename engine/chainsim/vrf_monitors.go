package chainsim

// Monitor for the VRF beacon backend (VRF beacon support).

import (
	"bytes"
	"context"
	"fmt"
	"os"
	"sort"
	"strings"

	"github.com/cometbft/cometbft/abci/types"

	beacon "github.com/oasisprotocol/oasis-core/go/beacon/api"
	"github.com/oasisprotocol/oasis-core/go/common/crypto/signature"
	cmt "github.com/oasisprotocol/oasis-core/go/consensus/cometbft/api"
	registryState "github.com/oasisprotocol/oasis-core/go/consensus/cometbft/apps/registry/state"
	schedulerState "github.com/oasisprotocol/oasis-core/go/consensus/cometbft/apps/scheduler/state"
	registry "github.com/oasisprotocol/oasis-core/go/registry/api"
	scheduler "github.com/oasisprotocol/oasis-core/go/scheduler/api"
)

// VRFMonitor checks, in histories that run the VRF beacon backend,
//
//   - (taps elect.pre / elect.post, C14) unless the scheduler parameters allow
//     weak alphas: after an election whose previous alpha was weak
//     (PrevState.CanElectCommittees == false) no not-suspended compute runtime
//     has an executor committee (the unchanged code drops the stored one:
//     electCommitteeMembers returns no members, electCommittee calls
//     DropCommittee); every member of a committee written by the election has a
//     stored proof in PrevState.Pi. (The validator clause - every elected
//     validator has a proof when at least MinValidators eligible validators have
//     one - lives in ElectionMonitor, which owns the eligible set.) With
//     Recompute set, the committee is additionally recomputed from the
//     definitions (hashed-beta sortition) and compared;
//   - (block boundaries) the bookkeeping of the beacon application: the VRF
//     state's epoch is the current epoch; the epoch advances by exactly one, at
//     exactly the scheduled height, and schedules the next transition one
//     interval later; between transitions alpha, submission height, quality flag
//     and previous state do not change and the proof map only grows, by proofs
//     of registered nodes that verify (checked with the ECVRF primitive
//     directly) under the alpha with the VRF key the node has in the registry
//     before or after the block, each explained by a successful VRFProve
//     transaction of that node in that block, none before the submission height;
//     at a transition the previous state holds exactly the proofs collected, the
//     proof map is empty, and the new alpha is of high quality iff the number of
//     collected proofs reached the threshold (CanElectCommittees carries the old
//     flag).
//
// With a nil Rep the problems are kept in Problems; ReportCommon hands them on.
type VRFMonitor struct {
	BaseMonitor
	Rep Reporter
	// Sig is the prefix of violation signatures (default "vrf").
	Sig string
	// Recompute enables the independent recomputation of committees.
	Recompute bool
	Problems  []KMProblem

	pre      []KV
	preEpoch beacon.EpochTime
	prev     *VRFSnapshot
	prevReg  map[signature.PublicKey]signature.PublicKey // node ID -> VRF key (committed state before the block)

	// Stats
	Blocks, Epochs, WeakAlphaEpochs, HighQualityEpochs                     int
	ProofsAccepted, ProofsMax, ResubmissionsAccepted                       int
	Elections, ElectionsWeak, Committees, CommitteesDropped, MembersProven int
	NoCommitteeStrong, MembersNotYetEligible, RecomputedEqual              int
	RecomputeSkipped                                                       int
	Refused                                                                map[string]int
}

// DebugVRF prints one line per election under VRF (development aid).
var DebugVRF = os.Getenv("VERIF_DEBUG_VRF") != ""

func (m *VRFMonitor) viol(h *History, height int64, kind, what string, extra map[string]any) {
	w := map[string]any{"height": height, "params": h.Sc.P}
	for k, v := range extra {
		w[k] = v
	}
	if m.Rep == nil {
		m.Problems = append(m.Problems, KMProblem{Kind: kind, What: what, Witness: w})
		return
	}
	sig := m.Sig
	if sig == "" {
		sig = "vrf"
	}
	m.Rep.Violation(sig+"/"+kind, what, w)
}

// OnTap implements Monitor.
func (m *VRFMonitor) OnTap(h *History, stage, app string, ctx *cmt.Context, extra any) {
	if !h.Sc.IsVRF() {
		return
	}
	switch stage {
	case "elect.pre":
		m.pre = Dump(context.Background(), ctx.State())
		m.preEpoch, _ = extra.(beacon.EpochTime)
	case "elect.post":
		if m.pre == nil {
			return
		}
		pre := m.pre
		m.pre = nil
		m.checkElection(h, ctx, pre, m.preEpoch)
	}
}

func (m *VRFMonitor) checkElection(h *History, ctx *cmt.Context, preDump []KV, epoch beacon.EpochTime) {
	bg := context.Background()
	height := ctx.CurrentHeight()
	pre := newMemState(preDump)
	snap, err := readVRF(pre)
	if err != nil {
		m.viol(h, height, "state-unreadable", err.Error(), nil)
		return
	}
	if snap.Params.Backend != beacon.BackendVRF {
		return
	}
	m.Elections++
	if snap.State == nil || snap.State.PrevState == nil {
		m.viol(h, height, "election-without-previous-vrf-state", fmt.Sprintf("an election for epoch %d ran without a previous VRF state", epoch), nil)
		return
	}
	prevState := snap.State.PrevState
	sp, err := schedulerState.NewImmutableState(pre).ConsensusParameters(bg)
	if err != nil {
		m.viol(h, height, "state-unreadable", err.Error(), nil)
		return
	}
	if !prevState.CanElectCommittees {
		m.ElectionsWeak++
	}
	rs := registryState.NewImmutableState(pre)
	rts, err := rs.Runtimes(bg) // not suspended
	if err != nil {
		m.viol(h, height, "state-unreadable", err.Error(), nil)
		return
	}
	preSched := schedulerState.NewImmutableState(pre)
	post := schedulerState.NewImmutableState(ctx.State())
	for _, rt := range rts {
		if rt.Kind != registry.KindCompute {
			continue
		}
		c, err := post.Committee(ctx, scheduler.KindComputeExecutor, rt.ID)
		if err != nil {
			m.viol(h, height, "state-unreadable", err.Error(), nil)
			continue
		}
		before, _ := preSched.Committee(bg, scheduler.KindComputeExecutor, rt.ID)
		detail := map[string]any{"runtime": rt.ID.String(), "epoch": epoch, "proofs_of_previous_epoch": len(prevState.Pi), "can_elect_committees": prevState.CanElectCommittees}
		if c != nil {
			detail["committee"] = c.String()
		}
		if DebugVRF {
			fmt.Printf("DEBUG vrf election height=%d epoch=%d can_elect=%v proofs=%d before=%v after=%v\n", height, epoch, prevState.CanElectCommittees, len(prevState.Pi), before != nil, c != nil)
		}
		if sp.DebugAllowWeakAlpha {
			continue
		}
		if !prevState.CanElectCommittees {
			if before != nil && c == nil {
				m.CommitteesDropped++
			}
			if c != nil {
				m.viol(h, height, "committee-after-weak-alpha", fmt.Sprintf("the election for epoch %d followed a weak VRF alpha (committee elections not allowed), but runtime %s has an executor committee afterwards (valid for epoch %d) where there must be none", epoch, rt.ID, c.ValidFor), detail)
			}
			continue
		}
		if c == nil {
			m.NoCommitteeStrong++
			if m.Recompute {
				m.recompute(h, ctx, pre, rt, nil, epoch, prevState, sp, detail)
			}
			continue
		}
		m.Committees++
		for _, mem := range c.Members {
			if mem == nil {
				continue
			}
			if prevState.Pi[mem.PublicKey] == nil {
				m.viol(h, height, "committee-member-without-proof", fmt.Sprintf("node %s was elected into the executor committee of %s for epoch %d although it has no stored VRF proof of the previous epoch", mem.PublicKey, rt.ID, epoch), detail)
				continue
			}
			m.MembersProven++
			if st, err := rs.NodeStatus(bg, mem.PublicKey); err == nil && !st.IsEligibleForElection(epoch) {
				m.MembersNotYetEligible++ // counted, not asserted (not part of the property)
			}
		}
		if m.Recompute {
			m.recompute(h, ctx, pre, rt, c, epoch, prevState, sp, detail)
		}
	}
}

// registeredVRFKeys maps node IDs to VRF keys in a committed state.
func registeredVRFKeys(h *History, height int64) map[signature.PublicKey]signature.PublicKey {
	out := map[signature.PublicKey]signature.PublicKey{}
	st, err := CommittedState(h.Ref, height)
	if err != nil {
		return out
	}
	defer st.Close()
	nodes, err := registryState.NewImmutableState(st).Nodes(context.Background())
	if err != nil {
		return out
	}
	for _, n := range nodes {
		out[n.ID] = n.VRF.ID
	}
	return out
}

func vrfRefusal(log string) string {
	for _, k := range [][2]string{
		{"premature VRF proof", "premature"},
		{"proof for invalid epoch", "wrong-epoch"},
		{"failed to deserialize raw proof", "undecodable-proof"},
		{"failed to verify beta", "proof-does-not-verify"},
		{"different proof", "different-proof"},
		{"tx not from a node", "signer-not-a-node"},
		{"disabled via consensus", "set-epoch-disabled"},
		{"out of gas", "out-of-gas"},
		{"invalid nonce", "nonce"},
		{"gas price too low", "gas-price"},
		{"invalid argument", "malformed-body"},
		{"no VRF state", "no-vrf-state"},
	} {
		if strings.Contains(log, k[0]) {
			return k[1]
		}
	}
	return "other"
}

// OnBlock implements Monitor: the beacon application's bookkeeping between committed states.
func (m *VRFMonitor) OnBlock(h *History, b *Block, txs []*GenTx, ref *BlockResult) {
	if !h.Sc.IsVRF() {
		return
	}
	if m.Refused == nil {
		m.Refused = map[string]int{}
	}
	cur := h.ReadVRF(b.Height)
	reg := registeredVRFKeys(h, b.Height)
	prev, prevReg := m.prev, m.prevReg
	m.prev, m.prevReg = cur, reg
	if cur == nil {
		m.viol(h, b.Height, "state-unreadable", "beacon state unreadable after the block", nil)
		return
	}
	m.Blocks++
	if cur.Params.Backend != beacon.BackendVRF || cur.Params.VRFParameters == nil {
		m.viol(h, b.Height, "backend-changed", "the beacon backend is no longer the VRF backend", nil)
		return
	}
	vp := cur.Params.VRFParameters
	st := cur.State
	if st == nil {
		m.viol(h, b.Height, "no-vrf-state", "no VRF state after a block", nil)
		return
	}
	// Successful / refused proof transactions of this block (the user transactions come first).
	okSigner := map[signature.PublicKey]int{}
	for i, raw := range b.Txs {
		if i >= len(ref.Txs) {
			break
		}
		d := DecodeTx(raw, h.Sc.Doc.ChainContext())
		if !d.TxOK || (d.Tx.Method != beacon.MethodVRFProve && d.Tx.Method != beacon.MethodSetEpoch) {
			continue
		}
		if ref.Txs[i].Code == types.CodeTypeOK {
			if d.Tx.Method == beacon.MethodSetEpoch {
				m.viol(h, b.Height, "set-epoch-accepted", "a beacon.SetEpoch transaction succeeded although the method is disabled", map[string]any{"tx_index": i})
				continue
			}
			okSigner[d.Signer]++
		} else {
			m.Refused[vrfRefusal(ref.Txs[i].Log)]++
		}
	}
	if st.Epoch != cur.Epoch {
		m.viol(h, b.Height, "vrf-state-epoch-differs-from-current-epoch", fmt.Sprintf("after block %d the current epoch is %d but the VRF state is for epoch %d", b.Height, cur.Epoch, st.Epoch), nil)
	}
	if cur.Future == nil {
		m.viol(h, b.Height, "no-scheduled-transition", fmt.Sprintf("after block %d no epoch transition is scheduled", b.Height), nil)
	}
	m.ProofsMax = max(m.ProofsMax, len(st.Pi))
	if prev == nil || prev.State == nil {
		// First block: bootstrap state.
		if len(st.Pi) != 0 && b.Height <= st.SubmitAfter {
			m.viol(h, b.Height, "proof-stored-before-submission-height", fmt.Sprintf("%d proofs stored at height %d, submissions open after %d", len(st.Pi), b.Height, st.SubmitAfter), nil)
		}
		return
	}
	pst := prev.State
	scheduled := prev.Future != nil && prev.Future.Height == b.Height
	w := map[string]any{"previous_epoch": prev.Epoch, "epoch": cur.Epoch}
	if prev.Future != nil {
		w["scheduled_epoch"], w["scheduled_height"] = prev.Future.Epoch, prev.Future.Height
	}
	switch {
	case cur.Epoch == prev.Epoch:
		if scheduled {
			m.viol(h, b.Height, "scheduled-transition-missed", fmt.Sprintf("the transition to epoch %d was scheduled for height %d but the epoch is still %d", prev.Future.Epoch, b.Height, cur.Epoch), w)
		}
		if cur.Future != nil && prev.Future != nil && *cur.Future != *prev.Future {
			m.viol(h, b.Height, "schedule-changed-between-transitions", fmt.Sprintf("the scheduled transition changed from %+v to %+v without an epoch transition", *prev.Future, *cur.Future), w)
		}
		if !bytes.Equal(st.Alpha, pst.Alpha) || st.SubmitAfter != pst.SubmitAfter || st.AlphaIsHighQuality != pst.AlphaIsHighQuality {
			m.viol(h, b.Height, "alpha-changed-between-transitions", fmt.Sprintf("alpha / submission height / quality flag changed inside epoch %d", cur.Epoch), w)
		}
		if (st.PrevState == nil) != (pst.PrevState == nil) || (st.PrevState != nil && (st.PrevState.CanElectCommittees != pst.PrevState.CanElectCommittees || !samePi(st.PrevState.Pi, pst.PrevState.Pi))) {
			m.viol(h, b.Height, "previous-vrf-state-changed-between-transitions", fmt.Sprintf("the previous epoch's VRF state changed inside epoch %d", cur.Epoch), w)
		}
		// The proof map only grows.
		for id, old := range pst.Pi {
			nw := st.Pi[id]
			switch {
			case nw == nil:
				m.viol(h, b.Height, "stored-proof-vanished", fmt.Sprintf("the proof of node %s vanished inside epoch %d", id, cur.Epoch), w)
			case !bytes.Equal(nw.Proof[:], old.Proof[:]) || nw.PublicKey != old.PublicKey:
				// Another encoding of the same beta would be legitimate; another beta is not.
				okOld, bOld := vrfVerify(old.PublicKey, st.Alpha, old.Proof[:])
				okNew, bNew := vrfVerify(nw.PublicKey, st.Alpha, nw.Proof[:])
				if !okOld || !okNew || !bytes.Equal(bOld, bNew) {
					m.viol(h, b.Height, "stored-proof-replaced-by-another-beta", fmt.Sprintf("the stored proof of node %s was replaced inside epoch %d by one with another output", id, cur.Epoch), w)
				}
			}
		}
		m.checkNewProofs(h, b, cur, pst.Pi, reg, prevReg, okSigner, w)
		for id, k := range okSigner {
			if pst.Pi[id] != nil {
				m.ResubmissionsAccepted += k
			} else if k > 1 {
				m.ResubmissionsAccepted += k - 1
			}
		}
	case cur.Epoch == prev.Epoch+1:
		m.Epochs++
		if !scheduled {
			m.viol(h, b.Height, "transition-at-unscheduled-height", fmt.Sprintf("the epoch advanced to %d at height %d, the transition was scheduled for %v", cur.Epoch, b.Height, w["scheduled_height"]), w)
		} else if prev.Future.Epoch != cur.Epoch {
			m.viol(h, b.Height, "transition-to-other-than-scheduled-epoch", fmt.Sprintf("the epoch advanced to %d, scheduled was %d", cur.Epoch, prev.Future.Epoch), w)
		}
		if cur.EpochHeight != b.Height {
			m.viol(h, b.Height, "epoch-height-wrong", fmt.Sprintf("epoch %d is recorded as having begun at height %d, it began at %d", cur.Epoch, cur.EpochHeight, b.Height), w)
		}
		if cur.Future != nil && (cur.Future.Epoch != cur.Epoch+1 || cur.Future.Height != b.Height+vp.Interval) {
			m.viol(h, b.Height, "next-transition-not-one-interval-later", fmt.Sprintf("after the transition at height %d the next one is scheduled as %+v, the interval is %d", b.Height, *cur.Future, vp.Interval), w)
		}
		if st.SubmitAfter != b.Height+vp.ProofSubmissionDelay {
			m.viol(h, b.Height, "submission-height-wrong", fmt.Sprintf("submissions open after %d, the transition was at %d and the delay is %d", st.SubmitAfter, b.Height, vp.ProofSubmissionDelay), w)
		}
		want := uint64(len(pst.Pi)) >= vp.AlphaHighQualityThreshold
		w["proofs_collected"], w["threshold"] = len(pst.Pi), vp.AlphaHighQualityThreshold
		if st.AlphaIsHighQuality != want {
			m.viol(h, b.Height, "alpha-quality-flag-wrong", fmt.Sprintf("epoch %d: %d proofs were collected, the threshold is %d, but the alpha is flagged high quality = %v", cur.Epoch, len(pst.Pi), vp.AlphaHighQualityThreshold, st.AlphaIsHighQuality), w)
		}
		if st.AlphaIsHighQuality {
			m.HighQualityEpochs++
		} else {
			m.WeakAlphaEpochs++
		}
		if st.PrevState == nil {
			m.viol(h, b.Height, "previous-vrf-state-missing", fmt.Sprintf("epoch %d has no previous VRF state", cur.Epoch), w)
		} else {
			if st.PrevState.CanElectCommittees != pst.AlphaIsHighQuality {
				m.viol(h, b.Height, "can-elect-flag-wrong", fmt.Sprintf("epoch %d: committee elections allowed = %v, the previous alpha was high quality = %v", cur.Epoch, st.PrevState.CanElectCommittees, pst.AlphaIsHighQuality), w)
			}
			if !samePi(st.PrevState.Pi, pst.Pi) {
				m.viol(h, b.Height, "previous-proofs-differ-from-collected-proofs", fmt.Sprintf("epoch %d: the proofs kept for the election (%d) are not the proofs collected in epoch %d (%d)", cur.Epoch, len(st.PrevState.Pi), prev.Epoch, len(pst.Pi)), w)
			}
		}
		if bytes.Equal(st.Alpha, pst.Alpha) {
			m.viol(h, b.Height, "alpha-not-renewed", fmt.Sprintf("epoch %d uses the alpha of epoch %d", cur.Epoch, prev.Epoch), w)
		}
		// Transactions of the transition block run after the transition: they may already store proofs
		// only if the window were open, which it never is in that block (delay >= 1).
		m.checkNewProofs(h, b, cur, nil, reg, prevReg, okSigner, w)
	default:
		m.viol(h, b.Height, "epoch-did-not-advance-by-one", fmt.Sprintf("the epoch went from %d to %d in one block", prev.Epoch, cur.Epoch), w)
	}
}

func samePi(a, b map[signature.PublicKey]*signature.Proof) bool {
	if len(a) != len(b) {
		return false
	}
	for k, x := range a {
		y := b[k]
		if x == nil || y == nil || x.PublicKey != y.PublicKey || !bytes.Equal(x.Proof[:], y.Proof[:]) {
			return false
		}
	}
	return true
}

func (m *VRFMonitor) checkNewProofs(h *History, b *Block, cur *VRFSnapshot, old map[signature.PublicKey]*signature.Proof, reg, prevReg map[signature.PublicKey]signature.PublicKey, okSigner map[signature.PublicKey]int, w map[string]any) {
	st := cur.State
	var ids []signature.PublicKey
	for id := range st.Pi {
		if old[id] == nil {
			ids = append(ids, id)
		}
	}
	sort.Slice(ids, func(i, j int) bool { return bytes.Compare(ids[i][:], ids[j][:]) < 0 })
	for _, id := range ids {
		p := st.Pi[id]
		m.ProofsAccepted++
		if p == nil {
			m.viol(h, b.Height, "nil-proof-stored", fmt.Sprintf("a nil proof is stored for node %s", id), w)
			continue
		}
		if b.Height <= st.SubmitAfter {
			m.viol(h, b.Height, "proof-stored-before-submission-height", fmt.Sprintf("a proof of node %s was stored at height %d, submissions open after height %d", id, b.Height, st.SubmitAfter), w)
		}
		if okSigner[id] == 0 {
			m.viol(h, b.Height, "proof-stored-without-transaction", fmt.Sprintf("a proof of node %s appeared at height %d without a successful VRFProve transaction signed by that node in the block", id, b.Height), w)
		}
		kPre, inPre := prevReg[id]
		kPost, inPost := reg[id]
		if !inPre && !inPost {
			m.viol(h, b.Height, "proof-of-unregistered-node-stored", fmt.Sprintf("a proof was stored for %s, which is not a registered node before or after block %d", id, b.Height), w)
			continue
		}
		if !(inPre && kPre == p.PublicKey) && !(inPost && kPost == p.PublicKey) {
			m.viol(h, b.Height, "proof-by-other-than-the-nodes-vrf-key-stored", fmt.Sprintf("the proof stored for node %s is by key %s, the node's VRF key is %s (before the block) / %s (after)", id, p.PublicKey, kPre, kPost), w)
		}
		if ok, _ := vrfVerify(p.PublicKey, st.Alpha, p.Proof[:]); !ok {
			m.viol(h, b.Height, "stored-proof-does-not-verify", fmt.Sprintf("the proof stored for node %s at height %d does not verify under the epoch's alpha with key %s", id, b.Height, p.PublicKey), w)
		}
	}
}

// Report emits the monitor's counters.
func (m *VRFMonitor) Report(rep Reporter) {
	rep.Count("vrf.blocks_observed", int64(m.Blocks))
	rep.Count("vrf.epochs", int64(m.Epochs))
	rep.Count("vrf.epochs_with_weak_alpha", int64(m.WeakAlphaEpochs))
	rep.Count("vrf.epochs_with_high_quality_alpha", int64(m.HighQualityEpochs))
	rep.Count("vrf.proofs_accepted", int64(m.ProofsAccepted))
	rep.Count("vrf.resubmissions_accepted", int64(m.ResubmissionsAccepted))
	for k, n := range m.Refused {
		rep.Count("vrf.refused."+k, int64(n))
	}
	rep.Count("vrf.elections_checked", int64(m.Elections))
	rep.Count("vrf.elections_after_weak_alpha", int64(m.ElectionsWeak))
	rep.Count("vrf.committees_elected", int64(m.Committees))
	rep.Count("vrf.committees_dropped_after_weak_alpha", int64(m.CommitteesDropped))
	rep.Count("vrf.elections_without_committee_after_strong_alpha", int64(m.NoCommitteeStrong))
	rep.Count("vrf.committee_members_with_proof", int64(m.MembersProven))
	rep.Count("vrf.committee_members_not_yet_election_eligible", int64(m.MembersNotYetEligible))
	if m.Recompute {
		rep.Count("vrf.committees_recomputed_equal", int64(m.RecomputedEqual))
		rep.Count("vrf.committee_recomputations_skipped", int64(m.RecomputeSkipped))
	}
}
