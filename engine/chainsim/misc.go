package chainsim

import (
	"bytes"
	"context"
	"crypto/sha512"
	"sort"

	"github.com/oasisprotocol/curve25519-voi/primitives/ed25519"

	"github.com/oasisprotocol/oasis-core/go/common/cbor"
	"github.com/oasisprotocol/oasis-core/go/common/crypto/signature"
	"github.com/oasisprotocol/oasis-core/go/common/quantity"
	"github.com/oasisprotocol/oasis-core/go/common/version"
	"github.com/oasisprotocol/oasis-core/go/consensus/api/transaction"
	stakingState "github.com/oasisprotocol/oasis-core/go/consensus/cometbft/apps/staking/state"
	staking "github.com/oasisprotocol/oasis-core/go/staking/api"
)

// RawSign signs message under an arbitrary *raw* context string exactly like
// PrepareSignerMessage does (sha512/256(ctx || msg)), but without any of the
// process-global context registration / chain separation machinery: this is the
// independent forger of DESIGN.md (E1).
func RawSign(a *Account, rawContext string, message []byte) signature.RawSignature {
	us, ok := a.Signer.(signature.UnsafeSigner)
	if !ok {
		panic("signer does not expose its key")
	}
	h := sha512.New512_256()
	h.Write([]byte(rawContext))
	h.Write(message)
	sig := ed25519.Sign(ed25519.PrivateKey(us.UnsafeBytes()), h.Sum(nil))
	var rs signature.RawSignature
	copy(rs[:], sig)
	return rs
}

// RawVerify independently verifies a signature made under a raw context.
func RawVerify(pk signature.PublicKey, rawContext string, message []byte, sig signature.RawSignature) bool {
	h := sha512.New512_256()
	h.Write([]byte(rawContext))
	h.Write(message)
	return ed25519.Verify(ed25519.PublicKey(pk[:]), h.Sum(nil), sig[:])
}

// ForgeSignedTx returns the CBOR envelope of tx signed under the given raw context.
func ForgeSignedTx(a *Account, tx *transaction.Transaction, rawContext string) []byte {
	blob := cbor.Marshal(tx)
	st := transaction.SignedTransaction{Signed: signature.Signed{
		Blob:      blob,
		Signature: signature.Signature{PublicKey: a.PK, Signature: RawSign(a, rawContext, blob)},
	}}
	return cbor.Marshal(st)
}

// TxContext returns the raw context under which transactions of this chain must be signed.
func TxContext(chainContext string) string {
	return string(transaction.SignatureContext) + " for chain " + chainContext
}

func upgradeTarget() version.ProtocolVersions { return version.Versions }

// SetConsensusSigner switches the consensus key the replica signs block
// metadata transactions with (the harness lets any replica build the proposal
// of any validator).
func (r *Replica) SetConsensusSigner(s signature.Signer) { r.ident.ConsensusSigner = s }

type delegation struct {
	escrow staking.Address
	shares quantity.Quantity
}

// delegationsOf lists the active delegations of an account in the committed state.
func (h *History) delegationsOf(a staking.Address) []delegation {
	if h.Ref.Height == 0 {
		var out []delegation
		for esc, m := range h.Sc.Doc.Staking.Delegations {
			if d, ok := m[a]; ok {
				out = append(out, delegation{esc, d.Shares})
			}
		}
		sort.Slice(out, func(i, j int) bool { return bytes.Compare(out[i].escrow[:], out[j].escrow[:]) < 0 })
		return out
	}
	st, err := CommittedState(h.Ref, 0)
	if err != nil {
		return nil
	}
	defer st.Close()
	ds, err := stakingState.NewImmutableState(st).DelegationsFor(context.Background(), a)
	if err != nil {
		return nil
	}
	var out []delegation
	for esc, d := range ds {
		out = append(out, delegation{esc, d.Shares})
	}
	sort.Slice(out, func(i, j int) bool { return bytes.Compare(out[i].escrow[:], out[j].escrow[:]) < 0 })
	return out
}

// flipSignatureBit returns a copy of a signed transaction with one bit of its signature flipped
// (nil if the transaction does not decode).
func flipSignatureBit(raw []byte, bit int) []byte {
	var st signature.Signed
	if err := cbor.Unmarshal(raw, &st); err != nil {
		return nil
	}
	st.Signature.Signature[(bit/8)%len(st.Signature.Signature)] ^= 1 << (bit % 8)
	return cbor.Marshal(&st)
}

// FlipSignatureBit returns a copy of a signed envelope with one bit of its signature flipped (nil if
// the bytes are not an envelope).
func FlipSignatureBit(raw []byte, bit int) []byte { return flipSignatureBit(raw, bit) }
