package chainsim

// Runtime traffic (runtime support): executor commitments that drive rounds of
// the scenario's compute runtime (honest, discrepant, failing, late, invalid),
// runtime messages, incoming messages and equivocation evidence.

import (
	"fmt"
	"math/big"

	"github.com/oasisprotocol/oasis-core/go/common/cbor"
	"github.com/oasisprotocol/oasis-core/go/common/crypto/hash"
	"github.com/oasisprotocol/oasis-core/go/common/crypto/signature"
	"github.com/oasisprotocol/oasis-core/go/common/quantity"
	"github.com/oasisprotocol/oasis-core/go/consensus/api/transaction"
	governance "github.com/oasisprotocol/oasis-core/go/governance/api"
	roothash "github.com/oasisprotocol/oasis-core/go/roothash/api"
	"github.com/oasisprotocol/oasis-core/go/roothash/api/commitment"
	"github.com/oasisprotocol/oasis-core/go/roothash/api/message"
	scheduler "github.com/oasisprotocol/oasis-core/go/scheduler/api"
	staking "github.com/oasisprotocol/oasis-core/go/staking/api"
)

// plannedCommit is one executor commitment the driver intends to submit.
type plannedCommit struct {
	node    *SimNode // signs the commitment
	sched   *SimNode // scheduler whose proposal is voted on
	variant string   // "A", "B", "C" (results) or "fail"
	intent  string   // "valid" or "rt:<what is wrong>"
	relay   *Account // transaction signer (nil = the node's identity account)
}

// roundPlan is the script for one runtime round.
type roundPlan struct {
	round    uint64
	prevHash hash.Hash
	kind     string
	waves    [][]plannedCommit
	step     int
	idle     int // blocks since the last wave was emitted
	// msgs are the runtime messages of a scheduler's proposal, by scheduler id + variant.
	msgs map[string][]message.Message
	// inCount / inHash describe the incoming messages the proposals process.
	inCount uint32
	inHash  hash.Hash
	badIn   bool
	voted   map[string]bool // node|sched
}

// rtDriver generates the runtime traffic of a history.
type rtDriver struct {
	g    *TxGen
	plan *roundPlan
	// Evidence already submitted successfully (for duplicates).
	evidence []*roothash.Evidence
	// Plans counts the round plans by kind.
	Plans map[string]int
}

func (g *TxGen) runtimeDriver() *rtDriver {
	if g.rt == nil {
		g.rt = &rtDriver{g: g, Plans: map[string]int{}}
	}
	return g.rt
}

// RuntimePlans returns how many round plans of each kind the driver drew.
func (g *TxGen) RuntimePlans() map[string]int {
	if g.rt == nil {
		return nil
	}
	return g.rt.Plans
}

// feeSure is like fee but always returns a fee at exactly the minimum gas price.
func (g *TxGen) feeSure(gas uint64) *transaction.Fee {
	f := &transaction.Fee{Gas: transaction.Gas(gas)}
	_ = f.Amount.FromUint64(gas * g.h.Sc.P.MinGasPrice)
	return f
}

func (d *rtDriver) expendable(n *SimNode) bool {
	sc := d.g.h.Sc
	return n.Entity != sc.Entities[0] && n.Entity != sc.Entities[1]
}

func rtHash(parts ...any) hash.Hash {
	return hash.NewFromBytes([]byte(fmt.Sprint(parts...)))
}

// committeeNodes maps the committee to harness nodes (workers, backup workers).
func (d *rtDriver) committeeNodes(c *scheduler.Committee) (workers, backups []*SimNode) {
	for _, m := range c.Members {
		n := d.g.h.Sc.NodeByID(m.PublicKey)
		if n == nil {
			continue
		}
		if m.Role == scheduler.RoleWorker {
			workers = append(workers, n)
		} else {
			backups = append(backups, n)
		}
	}
	return
}

func schedulerAt(workers []*SimNode, round, rank uint64) *SimNode {
	total := uint64(len(workers))
	if total == 0 || rank >= total {
		return nil
	}
	return workers[(rank+total-round%total)%total]
}

// --- runtime messages ---------------------------------------------------------

func (d *rtDriver) genMessages(max int) []message.Message {
	g := d.g
	sc := g.h.Sc
	rng := g.rng
	acct := g.view().Account(sc.RuntimeAddr)
	var out []message.Message
	n := 1 + rng.IntN(max)
	for i := 0; i < n; i++ {
		var m message.Message
		switch c := rng.IntN(20); {
		case c < 6:
			amt := g.amount(&acct.General.Balance)
			if rng.IntN(2) == 0 {
				amt = q(uint64(1 + rng.IntN(300)))
			}
			m.Staking = &message.StakingMessage{Transfer: &staking.Transfer{To: g.pickAddr(), Amount: amt}}
		case c < 9:
			from := g.pickAddr()
			var allowance quantity.Quantity
			for _, u := range sc.Users {
				if al, ok := g.view().Account(u.Addr).General.Allowances[sc.RuntimeAddr]; ok && rng.IntN(2) == 0 {
					from, allowance = u.Addr, al
					break
				}
			}
			amt := g.amount(&allowance)
			if !allowance.IsZero() && rng.IntN(2) == 0 {
				amt = q(uint64(1 + rng.IntN(40)))
			}
			m.Staking = &message.StakingMessage{Withdraw: &staking.Withdraw{From: from, Amount: amt}}
		case c < 13:
			amt := g.amount(&acct.General.Balance)
			if rng.IntN(2) == 0 {
				amt = q(uint64(20 + rng.IntN(500)))
			}
			m.Staking = &message.StakingMessage{AddEscrow: &staking.Escrow{Account: g.escrowTarget(), Amount: amt}}
		case c < 16:
			var from staking.Address
			var shares quantity.Quantity
			dels := g.h.delegationsOf(sc.RuntimeAddr)
			if len(dels) > 0 {
				x := dels[rng.IntN(len(dels))]
				from, shares = x.escrow, x.shares
			} else {
				from = g.escrowTarget()
			}
			sh := g.amount(&shares)
			if !shares.IsZero() && rng.IntN(2) == 0 {
				sh = bigQ(new(big.Int).Div(shares.ToBigInt(), big.NewInt(int64(2+rng.IntN(5)))))
			}
			m.Staking = &message.StakingMessage{ReclaimEscrow: &staking.ReclaimEscrow{Account: from, Shares: sh}}
		case c < 17:
			id := uint64(rng.IntN(3))
			for _, p := range g.view().Proposals {
				if p.State == governance.StateActive && rng.IntN(2) == 0 {
					id = p.ID
				}
			}
			m.Governance = &message.GovernanceMessage{CastVote: &governance.ProposalVote{ID: id, Vote: governance.VoteYes}}
		case c < 18:
			v := q(uint64(rng.IntN(30)))
			ch := staking.ConsensusParameterChanges{MinTransferAmount: &v}
			m.Governance = &message.GovernanceMessage{SubmitProposal: &governance.ProposalContent{
				ChangeParameters: &governance.ChangeParametersProposal{Module: staking.ModuleName, Changes: cbor.Marshal(ch)},
				Metadata:         &governance.ProposalMetadata{Title: "runtime proposal", Description: "d"},
			}}
		case c < 19:
			// The runtime is governed by its entity, so this update must be refused.
			cp := *sc.Runtime
			cp.Executor.RoundTimeout++
			m.Registry = &message.RegistryMessage{UpdateRuntime: &cp}
		default:
			// Two staking fields at once: an invalid message (the commitment must be rejected).
			m.Staking = &message.StakingMessage{
				Transfer: &staking.Transfer{To: g.pickAddr(), Amount: q(1)},
				Withdraw: &staking.Withdraw{From: g.pickAddr(), Amount: q(1)},
			}
		}
		out = append(out, m)
	}
	return out
}

func messagesValid(msgs []message.Message) bool {
	for i := range msgs {
		if msgs[i].ValidateBasic() != nil {
			return false
		}
	}
	return true
}

// --- commitments --------------------------------------------------------------------

func (d *rtDriver) header(pl *roundPlan, sched *SimNode, variant string) commitment.ComputeResultsHeader {
	io := rtHash("io", pl.round, sched.Name, variant)
	sr := rtHash("state", pl.round, sched.Name, variant)
	mh := message.MessagesHash(pl.msgs[sched.Name+"|"+variant])
	ih := pl.inHash
	return commitment.ComputeResultsHeader{
		Round:           pl.round,
		PreviousHash:    pl.prevHash,
		IORoot:          &io,
		StateRoot:       &sr,
		MessagesHash:    &mh,
		InMessagesHash:  &ih,
		InMessagesCount: pl.inCount,
	}
}

// build creates the signed commitment for a planned commit.
func (d *rtDriver) build(pl *roundPlan, pc plannedCommit) *commitment.ExecutorCommitment {
	id := d.g.h.Sc.Runtime.ID
	variant := pc.variant
	if variant == "fail" {
		variant = "A"
	}
	ec := &commitment.ExecutorCommitment{
		NodeID: pc.node.Keys.ID.PK,
		Header: commitment.ExecutorCommitmentHeader{
			SchedulerID: pc.sched.Keys.ID.PK,
			Header:      d.header(pl, pc.sched, variant),
		},
	}
	if pc.node == pc.sched {
		ec.Messages = pl.msgs[pc.sched.Name+"|"+variant]
	}
	switch pc.intent {
	case "rt:wrong-round":
		ec.Header.Header.Round += uint64(1 + d.g.rng.IntN(3))
	case "rt:old-round":
		if ec.Header.Header.Round > 0 {
			ec.Header.Header.Round--
		}
	case "rt:wrong-previous-hash":
		ec.Header.Header.PreviousHash = rtHash("bogus previous", pl.round, d.g.rng.Uint64())
	case "rt:messages-from-non-scheduler":
		ec.Messages = []message.Message{{Staking: &message.StakingMessage{Transfer: &staking.Transfer{To: d.g.pickAddr(), Amount: q(1)}}}}
	case "rt:wrong-messages-hash":
		h := rtHash("bogus messages", pl.round)
		ec.Header.Header.MessagesHash = &h
	case "rt:too-many-messages":
		for len(ec.Messages) <= int(d.g.h.Sc.Runtime.Executor.MaxMessages) {
			ec.Messages = append(ec.Messages, message.Message{Staking: &message.StakingMessage{Transfer: &staking.Transfer{To: d.g.pickAddr(), Amount: q(1)}}})
		}
		mh := message.MessagesHash(ec.Messages)
		ec.Header.Header.MessagesHash = &mh
	case "rt:missing-state-root":
		ec.Header.Header.StateRoot = nil
	case "rt:unknown-scheduler":
		ec.Header.SchedulerID = d.g.h.Sc.Users[0].PK
	}
	if pc.variant == "fail" {
		f := commitment.FailureUnknown
		if d.g.rng.IntN(2) == 0 {
			f = commitment.FailureStateUnavailable
		}
		ec.Header.SetFailure(f)
		ec.Messages = nil
	}
	if err := ec.Sign(pc.node.Keys.ID.Signer, id); err != nil {
		panic(err)
	}
	if pc.intent == "rt:bad-commit-signature" {
		ec.Signature[d.g.rng.IntN(64)] ^= 1 << uint(d.g.rng.IntN(8))
	}
	return ec
}

func (d *rtDriver) commitTx(pl *roundPlan, pcs ...plannedCommit) *GenTx {
	g := d.g
	var commits []commitment.ExecutorCommitment
	nmsgs := 0
	intent := "valid"
	note := pl.kind
	for _, pc := range pcs {
		ec := d.build(pl, pc)
		commits = append(commits, *ec)
		nmsgs += len(ec.Messages)
		if pc.intent != "valid" {
			intent = pc.intent
		}
		note += fmt.Sprintf(" %s->%s:%s", pc.node.Name, pc.sched.Name, pc.variant)
	}
	signer := pcs[0].node.Keys.ID
	if pcs[0].relay != nil {
		signer = pcs[0].relay
	}
	tx := roothash.NewExecutorCommitTx(g.nonce(signer), g.feeSure(1000+3000+1200*uint64(nmsgs)+800*uint64(len(commits))), g.h.Sc.Runtime.ID, commits)
	gt := g.finish(signer, tx, note)
	gt.Intent = intent
	return gt
}

// --- planning ---------------------------------------------------------------------

func pick[T any](d *rtDriver, xs []T) T { return xs[d.g.rng.IntN(len(xs))] }

// newPlan draws the script of a round.
func (d *rtDriver) newPlan(snap *RuntimeSnapshot) *roundPlan {
	g := d.g
	rng := g.rng
	rt := snap.State.Runtime
	st := snap.State
	pl := &roundPlan{
		round:    st.LastBlock.Header.Round + 1,
		prevHash: st.LastBlock.Header.EncodedHash(),
		msgs:     map[string][]message.Message{},
		voted:    map[string]bool{},
	}
	workers, backups := d.committeeNodes(st.Committee)
	if len(workers) == 0 {
		pl.kind = "unknown-committee"
		return pl
	}
	// Incoming messages processed by the proposals.
	if n := len(snap.InQueue); n > 0 && rng.IntN(3) != 0 {
		k := 1 + rng.IntN(n)
		pl.inCount = uint32(k)
		pl.inHash = message.InMessagesHash(snap.InQueue[:k])
	} else {
		pl.inHash.Empty()
	}
	s0 := schedulerAt(workers, pl.round, 0)
	s1 := schedulerAt(workers, pl.round, 1)
	stragglers := int(rt.Executor.AllowedStragglers)
	slashes := g.h.Sc.P.RT.SlashBadResults > 0

	// Runtime messages of the proposals.
	for _, s := range workers {
		for _, v := range []string{"A", "B"} {
			if rng.IntN(2) == 0 && rt.Executor.MaxMessages > 0 {
				pl.msgs[s.Name+"|"+v] = d.genMessages(int(rt.Executor.MaxMessages))
			}
		}
	}
	okMsgs := func(s *SimNode, v string) string {
		if !messagesValid(pl.msgs[s.Name+"|"+v]) {
			return "rt:bad-message"
		}
		return "valid"
	}
	vote := func(n, s *SimNode, v string) plannedCommit {
		pc := plannedCommit{node: n, sched: s, variant: v, intent: "valid"}
		if n == s {
			pc.intent = okMsgs(s, v)
		}
		return pc
	}
	others := func(s *SimNode) []*SimNode {
		var out []*SimNode
		for _, w := range workers {
			if w != s {
				out = append(out, w)
			}
		}
		return out
	}
	// candidates that may misbehave without endangering the election precondition
	bad := func(ns []*SimNode) []*SimNode {
		var out []*SimNode
		for _, n := range ns {
			if !slashes || d.expendable(n) {
				out = append(out, n)
			}
		}
		return out
	}
	spread := func(cs []plannedCommit) [][]plannedCommit {
		switch rng.IntN(5) {
		case 0, 1, 2:
			return [][]plannedCommit{cs}
		case 3:
			k := rng.IntN(len(cs) + 1)
			return [][]plannedCommit{cs[:k], cs[k:]}
		default:
			k := rng.IntN(len(cs) + 1)
			return [][]plannedCommit{cs[:k], nil, cs[k:]}
		}
	}
	backupVotes := func(s *SimNode, mode string) []plannedCommit {
		var out []plannedCommit
		badBackups := map[*SimNode]bool{}
		for _, n := range bad(backups) {
			badBackups[n] = true
		}
		for i, b := range backups {
			v := "A"
			switch mode {
			case "majorityA":
				if i == len(backups)-1 && len(backups) >= 3 && badBackups[b] {
					v = "B"
				}
			case "majorityB":
				if i <= len(backups)/2 {
					v = "B"
				}
			case "split":
				if i%2 == 1 {
					v = "B"
				}
			case "silent":
				continue
			case "failures":
				v = "fail"
			case "partial":
				if i > 0 && rng.IntN(2) == 0 {
					continue
				}
			}
			out = append(out, vote(b, s, v))
		}
		return out
	}
	backupMode := func() string {
		return pick(d, []string{"majorityA", "majorityA", "majorityA", "majorityB", "split", "silent", "failures", "partial"})
	}

	kind := pick(d, []string{
		"honest", "honest", "honest", "honest", "honest", "honest", "honest",
		"discrepancy", "discrepancy", "discrepancy",
		"failure", "failure",
		"lower-rank", "lower-rank", "two-schedulers", "vote-at-expiry",
		"scheduler-only", "too-few", "workers-without-scheduler", "bad-in-messages", "idle",
	})
	pl.kind = kind
	switch kind {
	case "honest":
		cs := []plannedCommit{vote(s0, s0, "A")}
		ws := others(s0)
		missing := 0
		if stragglers > 0 && len(ws) > 0 && rng.IntN(2) == 0 {
			missing = 1 + rng.IntN(min(stragglers, len(ws)))
		}
		rng.Shuffle(len(ws), func(i, j int) { ws[i], ws[j] = ws[j], ws[i] })
		for _, w := range ws[missing:] {
			cs = append(cs, vote(w, s0, "A"))
		}
		if rng.IntN(3) == 0 {
			// votes arrive before the scheduler's own commitment
			rng.Shuffle(len(cs), func(i, j int) { cs[i], cs[j] = cs[j], cs[i] })
		}
		if len(backups) > 0 && rng.IntN(4) == 0 {
			cs = append(cs, vote(pick(d, backups), s0, "A")) // an early backup vote
		}
		pl.waves = spread(cs)
	case "discrepancy":
		cand := bad(others(s0))
		if len(cand) == 0 {
			pl.kind = "honest"
			pl.waves = [][]plannedCommit{{vote(s0, s0, "A")}}
			for _, w := range others(s0) {
				pl.waves[0] = append(pl.waves[0], vote(w, s0, "A"))
			}
			break
		}
		diss := pick(d, cand)
		cs := []plannedCommit{vote(s0, s0, "A")}
		for _, w := range others(s0) {
			if w == diss {
				cs = append(cs, vote(w, s0, "B"))
			} else {
				cs = append(cs, vote(w, s0, "A"))
			}
		}
		pl.waves = spread(cs)
		mode := backupMode()
		pl.kind += "/" + mode
		bv := backupVotes(s0, mode)
		if rng.IntN(3) == 0 {
			pl.waves = append(pl.waves, nil)
		}
		pl.waves = append(pl.waves, spread(bv)...)
	case "failure":
		cs := []plannedCommit{vote(s0, s0, "A")}
		ws := others(s0)
		nf := 0
		if len(ws) > 0 {
			nf = 1 + rng.IntN(len(ws))
		}
		for i, w := range ws {
			if i < nf {
				cs = append(cs, vote(w, s0, "fail"))
			} else {
				cs = append(cs, vote(w, s0, "A"))
			}
		}
		pl.waves = spread(cs)
		if nf > stragglers {
			mode := backupMode()
			pl.kind += "/" + mode
			pl.waves = append(pl.waves, spread(backupVotes(s0, mode))...)
		}
	case "lower-rank":
		if s1 == nil || s1 == s0 {
			pl.kind = "honest"
			pl.waves = [][]plannedCommit{{vote(s0, s0, "A")}}
			break
		}
		cs := []plannedCommit{vote(s1, s1, "A")}
		ws := others(s1)
		full := rng.IntN(2) == 0
		for i, w := range ws {
			if !full && i == len(ws)-1 {
				break // one vote short: the round keeps waiting
			}
			cs = append(cs, vote(w, s1, "A"))
		}
		pl.waves = spread(cs)
		if !full || rng.IntN(2) == 0 {
			// The higher-ranked scheduler arrives late.
			pl.kind += "/late-higher-rank"
			late := []plannedCommit{vote(s0, s0, "A")}
			for _, w := range others(s0) {
				late = append(late, vote(w, s0, "A"))
			}
			if full {
				// the round was already finalized by then; the commitments are stale
				for i := range late {
					late[i].intent = "rt:stale"
				}
			}
			pl.waves = append(pl.waves, nil)
			pl.waves = append(pl.waves, spread(late)...)
			if rng.IntN(2) == 0 {
				// and a vote for the dropped lower-ranked proposal afterwards
				pc := vote(ws[len(ws)-1], s1, "A")
				pc.intent = "rt:worse-rank"
				pl.waves = append(pl.waves, []plannedCommit{pc})
			}
		}
	case "two-schedulers":
		// The scheduler rank improves twice inside one block (rank 1, then rank 0), which re-arms
		// the round timer to the same height; afterwards nothing (or too little) arrives, so the
		// round must end through the timer.
		if s1 == nil || s1 == s0 {
			pl.kind = "honest"
			pl.waves = [][]plannedCommit{{vote(s0, s0, "A")}}
			break
		}
		first := []plannedCommit{vote(s1, s1, "A"), vote(s0, s0, "A")}
		if ws := others(s0); len(ws) > 1 && rng.IntN(2) == 0 {
			first = append(first, vote(ws[0], s0, "A"))
		}
		pl.waves = [][]plannedCommit{first}
		for i := int64(0); i < rt.Executor.RoundTimeout+2; i++ {
			pl.waves = append(pl.waves, nil)
		}
	case "vote-at-expiry":
		// The scheduler commits, then one more vote (not enough to finalize) is accepted exactly
		// in the block in which the round timer expires; nothing else arrives. The timer must
		// still end the round (discrepancy resolution or a failed round) in that block.
		ws := others(s0)
		if len(ws) < 2 {
			pl.kind = "honest"
			pl.waves = [][]plannedCommit{{vote(s0, s0, "A")}}
			break
		}
		pl.waves = [][]plannedCommit{{vote(s0, s0, "A")}}
		for i := int64(1); i < rt.Executor.RoundTimeout; i++ {
			pl.waves = append(pl.waves, nil)
		}
		pl.waves = append(pl.waves, []plannedCommit{vote(ws[0], s0, "A")})
		for i := 0; i < 3; i++ {
			pl.waves = append(pl.waves, nil)
		}
	case "scheduler-only":
		pl.waves = [][]plannedCommit{{vote(s0, s0, "A")}}
		if rng.IntN(2) == 0 {
			// backups vote after the timeout-triggered discrepancy
			for i := int64(0); i < rt.Executor.RoundTimeout; i++ {
				pl.waves = append(pl.waves, nil)
			}
			mode := backupMode()
			pl.kind += "/" + mode
			pl.waves = append(pl.waves, backupVotes(s0, mode))
		}
	case "too-few":
		cs := []plannedCommit{vote(s0, s0, "A")}
		ws := others(s0)
		keep := len(workers) - stragglers - 2 // one fewer than needed (the scheduler counts)
		for i := 0; i < keep && i < len(ws); i++ {
			cs = append(cs, vote(ws[i], s0, "A"))
		}
		pl.waves = spread(cs)
		for i := int64(0); i < rt.Executor.RoundTimeout; i++ {
			pl.waves = append(pl.waves, nil)
		}
		mode := backupMode()
		pl.kind += "/" + mode
		pl.waves = append(pl.waves, backupVotes(s0, mode))
	case "workers-without-scheduler":
		var cs []plannedCommit
		for _, w := range others(s0) {
			cs = append(cs, vote(w, s0, "A"))
		}
		pl.waves = spread(cs)
	case "bad-in-messages":
		pl.badIn = true
		pl.inHash = rtHash("bogus incoming messages", pl.round)
		pl.inCount = uint32(rng.IntN(len(snap.InQueue) + 1))
		cs := []plannedCommit{vote(s0, s0, "A")}
		for _, w := range others(s0) {
			cs = append(cs, vote(w, s0, "A"))
		}
		pl.waves = [][]plannedCommit{cs}
	case "idle":
		for i := 0; i < 1+rng.IntN(3); i++ {
			pl.waves = append(pl.waves, nil)
		}
	}
	return pl
}

// invalidCommit builds one deliberately invalid commitment transaction.
func (d *rtDriver) invalidCommit(pl *roundPlan, snap *RuntimeSnapshot) *GenTx {
	g := d.g
	rng := g.rng
	workers, backups := d.committeeNodes(snap.State.Committee)
	if len(workers) == 0 {
		return nil
	}
	s0 := schedulerAt(workers, pl.round, 0)
	member := map[*SimNode]bool{}
	for _, n := range append(append([]*SimNode(nil), workers...), backups...) {
		member[n] = true
	}
	w := pick(d, workers)
	kinds := []string{"rt:non-member", "rt:duplicate", "rt:wrong-round", "rt:old-round", "rt:wrong-previous-hash", "rt:bad-commit-signature",
		"rt:messages-from-non-scheduler", "rt:wrong-messages-hash", "rt:too-many-messages", "rt:missing-state-root", "rt:unknown-scheduler",
		"rt:scheduler-failure", "rt:bundle-with-bad-commit", "rt:empty"}
	k := pick(d, kinds)
	switch k {
	case "rt:non-member":
		var outs []*SimNode
		for _, n := range g.h.Sc.AllNodes() {
			if !member[n] {
				outs = append(outs, n)
			}
		}
		if len(outs) == 0 {
			return nil
		}
		return d.commitTx(pl, plannedCommit{node: pick(d, outs), sched: s0, variant: "A", intent: k})
	case "rt:duplicate":
		// Re-submit a vote of a node that already voted in this round (if any).
		for _, n := range workers {
			if pl.voted[n.Name+"|"+s0.Name] {
				v := "A"
				if rng.IntN(2) == 0 {
					v = "C" // a second, different vote of the same node
				}
				pc := plannedCommit{node: n, sched: s0, variant: v, intent: k}
				if n == s0 {
					pc.variant = "A"
				}
				return d.commitTx(pl, pc)
			}
		}
		return nil
	case "rt:messages-from-non-scheduler":
		if w == s0 {
			return nil
		}
		return d.commitTx(pl, plannedCommit{node: w, sched: s0, variant: "A", intent: k})
	case "rt:wrong-messages-hash", "rt:too-many-messages":
		return d.commitTx(pl, plannedCommit{node: s0, sched: s0, variant: "A", intent: k})
	case "rt:scheduler-failure":
		return d.commitTx(pl, plannedCommit{node: s0, sched: s0, variant: "fail", intent: k})
	case "rt:bundle-with-bad-commit":
		if len(workers) < 2 {
			return nil
		}
		a, b := workers[0], workers[1]
		return d.commitTx(pl, plannedCommit{node: a, sched: s0, variant: "A", intent: "valid", relay: g.pickSigner()},
			plannedCommit{node: b, sched: s0, variant: "A", intent: "rt:wrong-previous-hash"})
	case "rt:empty":
		signer := w.Keys.ID
		tx := roothash.NewExecutorCommitTx(g.nonce(signer), g.feeSure(4000), g.h.Sc.Runtime.ID, nil)
		gt := g.finish(signer, tx, "no commitments")
		return gt // succeeds (no commitments is a no-op)
	case "rt:bad-commit-signature":
		// A vote in the name of a member that has not voted yet, preferably: with a result or indicating
		// failure (a vote nobody signed must not count either way, and must not block the member's own).
		all := append(append([]*SimNode(nil), workers...), backups...)
		var fresh []*SimNode
		for _, n := range all {
			if !pl.voted[n.Name+"|"+s0.Name] && n != s0 {
				fresh = append(fresh, n)
			}
		}
		v := "A"
		if len(fresh) > 0 {
			w = pick(d, fresh)
			if rng.IntN(2) == 0 {
				v = "fail"
			}
		}
		return d.commitTx(pl, plannedCommit{node: w, sched: s0, variant: v, intent: k})
	default:
		return d.commitTx(pl, plannedCommit{node: w, sched: s0, variant: "A", intent: k})
	}
}

// txs returns the runtime transactions of the next block.
func (d *rtDriver) txs(height int64) []*GenTx {
	g := d.g
	rng := g.rng
	snap := g.h.ReadRuntime(0)
	if snap == nil {
		return nil
	}
	var out []*GenTx
	st := snap.State
	if st.Suspended || st.Committee == nil || st.CommitmentPool == nil {
		d.plan = nil
		// Commitments for a runtime without a committee must be refused.
		if rng.IntN(4) == 0 {
			if cn := g.h.Sc.ComputeNodes(); len(cn) > 0 {
				n := pick(d, cn)
				pl := &roundPlan{round: st.LastBlock.Header.Round + 1, prevHash: st.LastBlock.Header.EncodedHash(), kind: "no-committee", msgs: map[string][]message.Message{}}
				pl.inHash.Empty()
				out = append(out, d.commitTx(pl, plannedCommit{node: n, sched: n, variant: "A", intent: "rt:no-committee"}))
			}
		}
		return out
	}
	round := st.LastBlock.Header.Round + 1
	prev := st.LastBlock.Header.EncodedHash()
	if d.plan == nil || d.plan.round != round || !d.plan.prevHash.Equal(&prev) {
		d.plan = d.newPlan(snap)
		d.Plans[d.plan.kind]++
	}
	pl := d.plan
	if pl.step < len(pl.waves) {
		wave := pl.waves[pl.step]
		pl.step++
		pl.idle = 0
		bundle := len(wave) >= 2 && rng.IntN(6) == 0
		if bundle {
			// One transaction relays several commitments.
			wave[0].relay = g.pickSigner()
			out = append(out, d.commitTx(pl, wave...))
		}
		for _, pc := range wave {
			key := pc.node.Name + "|" + pc.sched.Name
			if pl.voted[key] && pc.intent == "valid" {
				pc.intent = "rt:duplicate"
			}
			if !bundle {
				if rng.IntN(10) == 0 {
					pc.relay = g.pickSigner()
				}
				out = append(out, d.commitTx(pl, pc))
			}
			pl.voted[key] = true
		}
	} else {
		pl.idle++
		// A round without an armed timer would wait forever: start over after a while.
		if st.NextTimeout == roothash.TimeoutNever && pl.idle > 1+rng.IntN(3) {
			voted := pl.voted
			d.plan = d.newPlan(snap)
			d.plan.kind = "rescue:" + d.plan.kind
			d.plan.voted = voted
			d.Plans["rescue"]++
		}
	}
	if rng.IntN(4) == 0 {
		if gt := d.invalidCommit(pl, snap); gt != nil {
			out = append(out, gt)
		}
	}
	return out
}

// --- incoming messages and evidence (also available as weighted makers) -----------------

func (g *TxGen) mkSubmitMsg() *GenTx {
	sc := g.h.Sc
	a := g.pickSigner()
	acct := g.view().Account(a.Addr)
	fee := q(sc.P.RT.MinInMsgFee + uint64(g.rng.IntN(4)))
	if g.rng.IntN(8) == 0 {
		fee = q(0)
	}
	tokens := q(uint64(g.rng.IntN(300)))
	if g.rng.IntN(6) == 0 {
		tokens = g.amount(&acct.General.Balance)
	}
	id := sc.Runtime.ID
	if g.rng.IntN(15) == 0 {
		id[5] ^= 0x40 // unknown runtime
	}
	data := make([]byte, g.rng.IntN(40))
	for i := range data {
		data[i] = byte(g.rng.Uint32())
	}
	tx := roothash.NewSubmitMsgTx(g.nonce(a), g.feeSure(1000+2500), &roothash.SubmitMsg{ID: id, Tag: g.rng.Uint64N(5), Fee: fee, Tokens: tokens, Data: data})
	return g.finish(a, tx, "")
}

func (g *TxGen) mkEvidence() *GenTx {
	d := g.runtimeDriver()
	sc := g.h.Sc
	rng := g.rng
	snap := g.h.ReadRuntime(0)
	if snap == nil {
		return nil
	}
	id := sc.Runtime.ID
	last := snap.State.LastBlock.Header.Round
	// Resubmit earlier evidence.
	if len(d.evidence) > 0 && rng.IntN(5) == 0 {
		a := g.pickSigner()
		tx := roothash.NewEvidenceTx(g.nonce(a), g.feeSure(1000+3000), pick(d, d.evidence))
		gt := g.finish(a, tx, "duplicate evidence")
		gt.Intent = "rt:duplicate-evidence"
		return gt
	}
	// The accused node.
	var accused *Account
	intent := "valid"
	var cand []*SimNode
	for _, n := range sc.ComputeNodes() {
		if (sc.P.RT.SlashEquivocation == 0 || d.expendable(n)) && g.view().Nodes[n.Keys.ID.PK] != nil {
			cand = append(cand, n)
		}
	}
	switch c := rng.IntN(10); {
	case c < 2 || len(cand) == 0:
		// Valid evidence signed by a key that is not a registered node.
		accused = newAccount("ghost-node", signature.SignerNode, rng)
		intent = "rt:evidence-unknown-node"
	default:
		accused = pick(d, cand).Keys.ID
	}
	round := last + 1
	if last > 0 {
		round = last + 1 - rng.Uint64N(min(last, snap.Params.MaxEvidenceAge)+1)
	}
	if rng.IntN(6) == 0 && last > snap.Params.MaxEvidenceAge {
		round = rng.Uint64N(last - snap.Params.MaxEvidenceAge)
		intent = "rt:expired-evidence"
	}
	ev := &roothash.Evidence{ID: id}
	mode := rng.IntN(10)
	if mode < 6 {
		// Two conflicting executor commitments.
		mk := func(v string, fail bool) commitment.ExecutorCommitment {
			io, sr, mh, ih := rtHash("ev-io", round, v), rtHash("ev-state", round, v), message.MessagesHash(nil), message.InMessagesHash(nil)
			ec := commitment.ExecutorCommitment{
				NodeID: accused.PK,
				Header: commitment.ExecutorCommitmentHeader{
					SchedulerID: accused.PK,
					Header:      commitment.ComputeResultsHeader{Round: round, PreviousHash: rtHash("ev-prev", round), IORoot: &io, StateRoot: &sr, MessagesHash: &mh, InMessagesHash: &ih},
				},
			}
			if fail {
				ec.Header.SchedulerID = sc.Users[0].PK
				ec.Header.SetFailure(commitment.FailureUnknown)
			}
			if err := ec.Sign(accused.Signer, id); err != nil {
				panic(err)
			}
			return ec
		}
		a, b := mk("A", false), mk("B", false)
		switch sub := rng.IntN(12); sub {
		case 0:
			b = mk("A", false)
			if intent == "valid" || intent == "rt:evidence-unknown-node" {
				intent = "rt:evidence-no-equivocation"
			}
		case 1:
			b.Signature[3] ^= 4
			intent = "rt:evidence-bad-signature"
		case 2:
			b.Header.Header.Round++
			_ = b.Sign(accused.Signer, id)
			intent = "rt:evidence-different-rounds"
		case 3:
			other := g.pickSigner()
			b.NodeID = other.PK
			_ = b.Sign(other.Signer, id)
			intent = "rt:evidence-different-nodes"
		case 4:
			// failure indication vs. result for the same scheduler
			a.Header.SchedulerID = sc.Users[0].PK
			_ = a.Sign(accused.Signer, id)
			b = mk("B", true)
		}
		ev.EquivocationExecutor = &roothash.EquivocationExecutorEvidence{CommitA: a, CommitB: b}
	} else {
		mk := func(v string) commitment.Proposal {
			p := commitment.Proposal{NodeID: accused.PK, Header: commitment.ProposalHeader{Round: round, PreviousHash: rtHash("ev-prev", round), BatchHash: rtHash("ev-batch", round, v)}}
			if err := p.Sign(accused.Signer, id); err != nil {
				panic(err)
			}
			return p
		}
		a, b := mk("A"), mk("B")
		switch rng.IntN(10) {
		case 0:
			b = mk("A")
			intent = "rt:evidence-no-equivocation"
		case 1:
			b.Batch = []hash.Hash{rtHash("tx")}
			intent = "rt:evidence-with-batch"
		}
		ev.EquivocationProposal = &roothash.EquivocationProposalEvidence{ProposalA: a, ProposalB: b}
	}
	if rng.IntN(12) == 0 {
		ev.ID[7] ^= 1 // evidence for another (unknown) runtime: signatures do not verify for it
		intent = "rt:evidence-other-runtime"
	}
	signer := g.pickSigner()
	if rng.IntN(3) == 0 {
		ns := sc.AllNodes()
		signer = ns[rng.IntN(len(ns))].Keys.ID
	}
	tx := roothash.NewEvidenceTx(g.nonce(signer), g.feeSure(1000+3500), ev)
	gt := g.finish(signer, tx, accused.Name)
	gt.Intent = intent
	if intent == "valid" {
		gt.OnSuccess = func() {
			if len(d.evidence) < 20 {
				d.evidence = append(d.evidence, ev)
			}
		}
	}
	return gt
}
