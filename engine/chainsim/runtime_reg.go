package chainsim

import (
	"context"
	"fmt"

	beacon "github.com/oasisprotocol/oasis-core/go/beacon/api"
	"github.com/oasisprotocol/oasis-core/go/common"
	registryState "github.com/oasisprotocol/oasis-core/go/consensus/cometbft/apps/registry/state"
	roothashState "github.com/oasisprotocol/oasis-core/go/consensus/cometbft/apps/roothash/state"
	registry "github.com/oasisprotocol/oasis-core/go/registry/api"
)

// runtimeSuspended reports whether the scenario's runtime is suspended in the committed state.
func (g *TxGen) runtimeSuspended() bool {
	if g.h.Sc.Runtime == nil || g.h.Ref.Height == 0 {
		return false
	}
	st, err := CommittedState(g.h.Ref, 0)
	if err != nil {
		return false
	}
	defer st.Close()
	_, err = registryState.NewImmutableState(st).SuspendedRuntime(context.Background(), g.h.Sc.Runtime.ID)
	return err == nil
}

// mkRegisterRuntime generates runtime (re-)registration transactions: benign
// updates by the owner, the entity -> runtime governance handover, updates by
// a wrong signer and by the former owner after the handover.
func (g *TxGen) mkRegisterRuntime() *GenTx {
	sc := g.h.Sc
	if sc.Runtime == nil {
		return nil
	}
	cur := *sc.Runtime
	owner := sc.RuntimeOwner.Account
	rng := g.rng
	if rng.IntN(5) == 0 {
		// A NEW compute runtime of the same owner that passes every registry check and the stake
		// claim, but that another application refuses when it is told about it: the roothash
		// application rejects descriptors whose message limits exceed its parameters. The
		// transaction must fail without leaving the descriptor (or its claim) behind.
		nd := cur
		g.newRuntimes++
		nd.ID = common.NewTestNamespaceFromSeed([]byte(fmt.Sprintf("verif chainsim extra runtime %d/%d", g.h.Cfg.Seed, g.newRuntimes)), common.NamespaceTest)
		nd.GovernanceModel = registry.GovernanceEntity
		nd.EntityID = sc.RuntimeOwner.PK
		// a new runtime may not deploy at once
		nd.Deployments = []*registry.VersionInfo{{Version: rtVersion1, ValidFrom: beacon.EpochTime(g.view().Epoch + 1 + uint64(rng.IntN(2)))}}
		if rng.IntN(2) == 0 {
			nd.Executor.MaxMessages = sc.Doc.RootHash.Parameters.MaxRuntimeMessages + 1 + uint32(rng.IntN(3))
		} else {
			nd.TxnScheduler.MaxInMessages = sc.Doc.RootHash.Parameters.MaxInRuntimeMessages + 1 + uint32(rng.IntN(3))
		}
		tx := registry.NewRegisterRuntimeTx(g.nonce(owner), g.feeSure(3000), &nd)
		gt := g.finish(owner, tx, "rt-new-refused-by-roothash")
		gt.Intent = "post:new-runtime-over-roothash-limits"
		return gt
	}
	signer := owner
	intent := "valid"
	note := "rt-update"
	nd := cur
	c := rng.IntN(10)
	if g.runtimeSuspended() && rng.IntN(2) == 0 {
		c = 7 // while the runtime is suspended: mostly foreign attempts (half of them take-overs)
	}
	switch {
	case c < 4:
		// Benign parameter update (does not affect committee shapes or round handling).
		nd.TxnScheduler.MaxBatchSize = cur.TxnScheduler.MaxBatchSize + 1
	case c < 7:
		// Governance handover entity -> runtime (allowed once).
		nd.GovernanceModel = registry.GovernanceRuntime
		note = "rt-governance-handover"
	case c < 9:
		signer = g.pickSigner()
		nd.TxnScheduler.MaxBatchSize = cur.TxnScheduler.MaxBatchSize + 2
		if signer != owner {
			intent = "wrong-tx-signer"
			// Half of the foreign attempts are take-overs: another registered entity names itself
			// as the owner in the descriptor it submits.
			if rng.IntN(2) == 0 {
				for _, e := range sc.Entities {
					if e.Account == signer && g.view().Entities[e.PK] != nil {
						nd.EntityID = e.PK
						note = "rt-foreign-takeover"
					}
				}
			}
		}
	default:
		// Forbidden transition back to entity governance / change of kind.
		if cur.GovernanceModel == registry.GovernanceRuntime {
			nd.GovernanceModel = registry.GovernanceEntity
		} else {
			nd.Kind = registry.KindKeyManager
		}
		intent = "forbidden-update"
	}
	if cur.GovernanceModel == registry.GovernanceRuntime && intent == "valid" {
		// After the handover only the runtime itself may update the descriptor.
		intent = "former-owner-update"
	}
	tx := registry.NewRegisterRuntimeTx(g.nonce(signer), g.feeSure(3000), &nd)
	gt := g.finish(signer, tx, note)
	gt.Intent = intent
	gt.OnSuccess = func() {
		// Copy on write: the genesis document keeps pointing at the original
		// descriptor, so replicas initialised later (twins, restarts from
		// genesis) still start from the same genesis state.
		upd := *sc.Runtime
		upd.TxnScheduler.MaxBatchSize = nd.TxnScheduler.MaxBatchSize
		upd.GovernanceModel = nd.GovernanceModel
		sc.Runtime = &upd
		g.Notes[note]++
	}
	return gt
}

// roothashLimitsBelow reports whether one of the roothash message limits in the committed state is below n.
func (g *TxGen) roothashLimitsBelow(n uint32) bool {
	if g.h.Ref.Height == 0 {
		return false
	}
	st, err := CommittedState(g.h.Ref, 0)
	if err != nil {
		return false
	}
	defer st.Close()
	p, err := roothashState.NewImmutableState(st).ConsensusParameters(context.Background())
	if err != nil {
		return false
	}
	return p.MaxRuntimeMessages < n || p.MaxInRuntimeMessages < n
}
