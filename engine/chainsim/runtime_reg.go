package chainsim

import (
	"context"

	registryState "github.com/oasisprotocol/oasis-core/go/consensus/cometbft/apps/registry/state"
	registry "github.com/oasisprotocol/oasis-core/go/registry/api"
)

// runtimeSuspended reports whether the scenario's runtime is suspended in the committed state.
func (g *TxGen) runtimeSuspended() bool {
	if g.h.Sc.Runtime == nil || g.h.Ref.Height == 0 {
		return false
	}
	st, err := CommittedState(g.h.Ref, 0)
	if err != nil {
		return false
	}
	defer st.Close()
	_, err = registryState.NewImmutableState(st).SuspendedRuntime(context.Background(), g.h.Sc.Runtime.ID)
	return err == nil
}

// mkRegisterRuntime generates runtime (re-)registration transactions: benign
// updates by the owner, the entity -> runtime governance handover, updates by
// a wrong signer and by the former owner after the handover.
func (g *TxGen) mkRegisterRuntime() *GenTx {
	sc := g.h.Sc
	if sc.Runtime == nil {
		return nil
	}
	cur := *sc.Runtime
	owner := sc.RuntimeOwner.Account
	rng := g.rng
	signer := owner
	intent := "valid"
	note := "rt-update"
	nd := cur
	c := rng.IntN(10)
	if g.runtimeSuspended() && rng.IntN(2) == 0 {
		c = 7 // while the runtime is suspended: mostly foreign attempts (half of them take-overs)
	}
	switch {
	case c < 4:
		// Benign parameter update (does not affect committee shapes or round handling).
		nd.TxnScheduler.MaxBatchSize = cur.TxnScheduler.MaxBatchSize + 1
	case c < 7:
		// Governance handover entity -> runtime (allowed once).
		nd.GovernanceModel = registry.GovernanceRuntime
		note = "rt-governance-handover"
	case c < 9:
		signer = g.pickSigner()
		nd.TxnScheduler.MaxBatchSize = cur.TxnScheduler.MaxBatchSize + 2
		if signer != owner {
			intent = "wrong-tx-signer"
			// Half of the foreign attempts are take-overs: another registered entity names itself
			// as the owner in the descriptor it submits.
			if rng.IntN(2) == 0 {
				for _, e := range sc.Entities {
					if e.Account == signer && g.view().Entities[e.PK] != nil {
						nd.EntityID = e.PK
						note = "rt-foreign-takeover"
					}
				}
			}
		}
	default:
		// Forbidden transition back to entity governance / change of kind.
		if cur.GovernanceModel == registry.GovernanceRuntime {
			nd.GovernanceModel = registry.GovernanceEntity
		} else {
			nd.Kind = registry.KindKeyManager
		}
		intent = "forbidden-update"
	}
	if cur.GovernanceModel == registry.GovernanceRuntime && intent == "valid" {
		// After the handover only the runtime itself may update the descriptor.
		intent = "former-owner-update"
	}
	tx := registry.NewRegisterRuntimeTx(g.nonce(signer), g.feeSure(3000), &nd)
	gt := g.finish(signer, tx, note)
	gt.Intent = intent
	gt.OnSuccess = func() {
		// Copy on write: the genesis document keeps pointing at the original
		// descriptor, so replicas initialised later (twins, restarts from
		// genesis) still start from the same genesis state.
		upd := *sc.Runtime
		upd.TxnScheduler.MaxBatchSize = nd.TxnScheduler.MaxBatchSize
		upd.GovernanceModel = nd.GovernanceModel
		sc.Runtime = &upd
		g.Notes[note]++
	}
	return gt
}
