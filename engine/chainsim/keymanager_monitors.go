package chainsim

// Monitor for the key manager part of the consensus state (key manager support).

import (
	"bytes"
	"context"
	"fmt"
	"sort"
	"strings"

	"github.com/cometbft/cometbft/abci/types"

	beacon "github.com/oasisprotocol/oasis-core/go/beacon/api"
	"github.com/oasisprotocol/oasis-core/go/common/cbor"
	"github.com/oasisprotocol/oasis-core/go/common/crypto/signature"
	"github.com/oasisprotocol/oasis-core/go/common/node"
	cmt "github.com/oasisprotocol/oasis-core/go/consensus/cometbft/api"
	registryState "github.com/oasisprotocol/oasis-core/go/consensus/cometbft/apps/registry/state"
	"github.com/oasisprotocol/oasis-core/go/keymanager/churp"
	"github.com/oasisprotocol/oasis-core/go/keymanager/secrets"
	registry "github.com/oasisprotocol/oasis-core/go/registry/api"
)

// KeyManagerMonitor checks what the key manager application documents about
// its own state:
//
//   - (tap, after the key manager application's BeginBlock of a block that
//     performs an epoch transition, runtime not suspended) every node listed in
//     the secrets status is a registered, unexpired node with the key manager
//     role and a runtime entry for that key manager. The status is rebuilt at
//     exactly this point from exactly this state; between epoch transitions, and
//     while the runtime is suspended, the list is a record of the past and is
//     not checked;
//   - (block boundaries) the status generation never decreases, increases by at
//     most one per step and at most once per epoch;
//   - (block boundaries) a CHURP instance's last handoff epoch never decreases,
//     and when it changes the new committee contains only nodes whose
//     application for that handoff was confirmed (reconstructed in the previous
//     committed status, or confirmed by a successful transaction of this block).
//
// Everything else the monitor sees is counted, not asserted (see Report).
//
// With a nil Rep the problems are kept in Problems; ReportCommon hands them on.
type KeyManagerMonitor struct {
	BaseMonitor
	Rep Reporter
	// Sig is the prefix of violation signatures (default "keymanager").
	Sig string
	// Problems are the problems found while Rep was nil.
	Problems []KMProblem

	prev         *KMSnapshot
	tapEpoch     beacon.EpochTime
	tapSeen      bool
	lastIncEpoch beacon.EpochTime
	incSeen      bool

	// Stats
	Blocks, StatusChecks, NodesChecked, CommitteeMax, EmptyCommittees       int
	EligibleNotListed                                                       int
	SecretsAccepted, GenerationIncreases, RotationEpochOther                int
	PolicyTransitions, SuspendedBlocks, EphemeralSecrets, MasterProposals   int
	ChurpMax, HandoffsCompleted, HandoffsAtEpochChange, HandoffResets       int
	HandoffOtherEpoch, CommitteeWithoutHandoff, CommitteeBelowMin, Vanished int
	CommitteeSizes                                                          map[int]int
}

// KMProblem is one violated clause.
type KMProblem struct {
	Kind, What string
	Witness    map[string]any
}

func (m *KeyManagerMonitor) viol(h *History, height int64, kind, what string, extra map[string]any) {
	w := map[string]any{"height": height, "params": h.Sc.P, "runtime": h.Sc.KM.ID.String()}
	for k, v := range extra {
		w[k] = v
	}
	if m.Rep == nil {
		m.Problems = append(m.Problems, KMProblem{Kind: kind, What: what, Witness: w})
		return
	}
	sig := m.Sig
	if sig == "" {
		sig = "keymanager"
	}
	m.Rep.Violation(sig+"/"+kind, what, w)
}

// OnTap implements Monitor: the committee check at the point where the status is rebuilt.
func (m *KeyManagerMonitor) OnTap(h *History, stage, app string, ctx *cmt.Context, extra any) {
	if h.Sc.KM == nil || stage != "beginblock.post" || !strings.Contains(app, "keymanager") {
		return
	}
	snap, err := readKM(ctx.State(), h.Sc.KM.ID)
	if err != nil {
		m.viol(h, ctx.CurrentHeight(), "state-unreadable", err.Error(), nil)
		return
	}
	changed := m.tapSeen && snap.Epoch != m.tapEpoch
	m.tapEpoch, m.tapSeen = snap.Epoch, true
	if !changed || snap.Suspended || snap.Status == nil {
		return
	}
	m.StatusChecks++
	bg := context.Background()
	rs := registryState.NewImmutableState(ctx.State())
	listed := map[signature.PublicKey]bool{}
	for _, id := range snap.Status.Nodes {
		listed[id] = true
		m.NodesChecked++
		n, err := rs.Node(bg, id)
		reason := ""
		switch {
		case err == registry.ErrNoSuchNode:
			reason = "unregistered"
		case err != nil:
			m.viol(h, ctx.CurrentHeight(), "state-unreadable", err.Error(), nil)
			continue
		case n.Expiration < snap.Epoch:
			reason = "expired"
		case !n.HasRoles(node.RoleKeyManager):
			reason = "no-key-manager-role"
		default:
			found := false
			for _, rt := range n.Runtimes {
				if rt != nil && rt.ID == h.Sc.KM.ID {
					found = true
				}
			}
			if !found {
				reason = "not-registered-for-the-key-manager"
			}
		}
		if reason != "" {
			m.viol(h, ctx.CurrentHeight(), "status-lists-ineligible-node/"+reason,
				fmt.Sprintf("the key manager status rebuilt at the transition to epoch %d lists node %s, which is %s", snap.Epoch, id, reason),
				map[string]any{"epoch": snap.Epoch, "node": id.String(), "status_nodes": fmt.Sprint(snap.Status.Nodes)})
		}
	}
	if m.CommitteeSizes == nil {
		m.CommitteeSizes = map[int]int{}
	}
	m.CommitteeSizes[len(snap.Status.Nodes)]++
	m.CommitteeMax = max(m.CommitteeMax, len(snap.Status.Nodes))
	if len(snap.Status.Nodes) == 0 {
		m.EmptyCommittees++
	}
	// (counted only) registered key manager nodes that were left out, whatever the reason.
	if nodes, err := rs.Nodes(bg); err == nil {
		for _, n := range nodes {
			if listed[n.ID] || n.Expiration < snap.Epoch || !n.HasRoles(node.RoleKeyManager) {
				continue
			}
			for _, rt := range n.Runtimes {
				if rt != nil && rt.ID == h.Sc.KM.ID {
					m.EligibleNotListed++
					break
				}
			}
		}
	}
}

// confirmers lists the signers of the successful CHURP confirmations of a block.
func kmConfirmers(h *History, b *Block, ref *BlockResult, id uint8) map[signature.PublicKey]bool {
	out := map[signature.PublicKey]bool{}
	for i, raw := range b.Txs {
		if i >= len(ref.Txs) || ref.Txs[i].Code != types.CodeTypeOK {
			continue
		}
		d := DecodeTx(raw, h.Sc.Doc.ChainContext())
		if !d.TxOK || d.Tx.Method != churp.MethodConfirm {
			continue
		}
		var req churp.SignedConfirmationRequest
		if cbor.Unmarshal(d.Tx.Body, &req) != nil || req.Confirmation.ID != id || req.Confirmation.RuntimeID != h.Sc.KM.ID {
			continue
		}
		out[d.Signer] = true
	}
	return out
}

func policyBytes(p *secrets.SignedPolicySGX) []byte {
	if p == nil {
		return nil
	}
	return cbor.Marshal(p)
}

// OnBlock implements Monitor.
func (m *KeyManagerMonitor) OnBlock(h *History, b *Block, txs []*GenTx, ref *BlockResult) {
	if h.Sc.KM == nil {
		return
	}
	cur := h.ReadKM(b.Height)
	if cur == nil {
		return
	}
	m.Blocks++
	if cur.Suspended {
		m.SuspendedBlocks++
	}
	prev := m.prev
	m.prev = cur
	m.ChurpMax = max(m.ChurpMax, len(cur.Churps))
	if prev == nil {
		return
	}
	// --- secrets -------------------------------------------------------------------
	if cur.Ephemeral != nil && (prev.Ephemeral == nil || prev.Ephemeral.Secret.Epoch != cur.Ephemeral.Secret.Epoch) {
		m.EphemeralSecrets++
	}
	if cur.Master != nil && (prev.Master == nil || !bytes.Equal(cbor.Marshal(prev.Master), cbor.Marshal(cur.Master))) {
		m.MasterProposals++
	}
	switch {
	case prev.Status != nil && cur.Status == nil:
		m.Vanished++
	case prev.Status != nil && cur.Status != nil:
		p, c := prev.Status, cur.Status
		w := map[string]any{"epoch": cur.Epoch, "previous": fmt.Sprintf("generation=%d rotation_epoch=%d checksum=%x", p.Generation, p.RotationEpoch, p.Checksum),
			"current": fmt.Sprintf("generation=%d rotation_epoch=%d checksum=%x", c.Generation, c.RotationEpoch, c.Checksum)}
		switch {
		case c.Generation < p.Generation:
			m.viol(h, b.Height, "generation-decreased", fmt.Sprintf("the master secret generation went from %d to %d", p.Generation, c.Generation), w)
		case c.Generation > p.Generation+1:
			m.viol(h, b.Height, "generation-skipped", fmt.Sprintf("the master secret generation went from %d to %d in one block", p.Generation, c.Generation), w)
		case c.Generation == p.Generation+1:
			if m.incSeen && m.lastIncEpoch == cur.Epoch {
				m.viol(h, b.Height, "generation-increased-twice-in-one-epoch", fmt.Sprintf("the master secret generation increased a second time in epoch %d (now %d)", cur.Epoch, c.Generation), w)
			}
			m.lastIncEpoch, m.incSeen = cur.Epoch, true
			m.GenerationIncreases++
		}
		if !bytes.Equal(p.Checksum, c.Checksum) {
			m.SecretsAccepted++
			if len(p.Checksum) == 0 {
				// The first master secret (generation 0) also counts as one step per epoch.
				m.lastIncEpoch, m.incSeen = cur.Epoch, true
			}
			if c.RotationEpoch != cur.Epoch {
				m.RotationEpochOther++
			}
		}
		if !bytes.Equal(policyBytes(p.Policy), policyBytes(c.Policy)) {
			m.PolicyTransitions++
		}
	}
	// --- CHURP ---------------------------------------------------------------------
	for _, p := range prev.Churps {
		c := cur.Churp(p.ID)
		if c == nil {
			m.Vanished++
			continue
		}
		w := map[string]any{"epoch": cur.Epoch, "churp": p.ID,
			"previous": fmt.Sprintf("handoff=%d next_handoff=%d committee=%v applications=%v", p.Handoff, p.NextHandoff, p.Committee, kmApps(p)),
			"current":  fmt.Sprintf("handoff=%d next_handoff=%d committee=%v applications=%v", c.Handoff, c.NextHandoff, c.Committee, kmApps(c))}
		switch {
		case c.Handoff < p.Handoff:
			m.viol(h, b.Height, "churp-handoff-decreased", fmt.Sprintf("the last handoff epoch of CHURP instance %d went from %d to %d", p.ID, p.Handoff, c.Handoff), w)
		case c.Handoff > p.Handoff:
			m.HandoffsCompleted++
			if c.Handoff != p.NextHandoff {
				m.HandoffOtherEpoch++
			}
			ok := kmConfirmers(h, b, ref, p.ID)
			if len(ok) == 0 {
				m.HandoffsAtEpochChange++
			}
			for n, app := range p.Applications {
				if app.Reconstructed {
					ok[n] = true
				}
			}
			for _, n := range c.Committee {
				if !ok[n] {
					m.viol(h, b.Height, "churp-committee-member-without-confirmed-application",
						fmt.Sprintf("handoff %d of CHURP instance %d completed with node %s in the committee, which had no confirmed application for it", c.Handoff, p.ID, n), w)
				}
			}
			if len(c.Committee) < c.MinCommitteeSize() {
				m.CommitteeBelowMin++ // (the extra shares may have been raised later in the same block)
			}
		default:
			if fmt.Sprint(c.Committee) != fmt.Sprint(p.Committee) {
				m.CommitteeWithoutHandoff++
			}
			if c.NextHandoff != p.NextHandoff && len(p.Applications) > 0 && len(c.Applications) == 0 {
				m.HandoffResets++
			}
		}
	}
}

func kmApps(s *churp.Status) []string {
	var out []string
	for n, a := range s.Applications {
		out = append(out, fmt.Sprintf("%s:%v", n, a.Reconstructed))
	}
	sort.Strings(out)
	return out
}

// Report emits the monitor's counters.
func (m *KeyManagerMonitor) Report(rep Reporter) {
	rep.Count("km.blocks_observed", int64(m.Blocks))
	rep.Count("km.blocks_with_suspended_runtime", int64(m.SuspendedBlocks))
	rep.Count("km.status_rebuilds_checked", int64(m.StatusChecks))
	rep.Count("km.status_nodes_checked", int64(m.NodesChecked))
	rep.Count("km.status_rebuilds_with_empty_committee", int64(m.EmptyCommittees))
	rep.Count("km.registered_key_manager_nodes_not_listed", int64(m.EligibleNotListed))
	for k, n := range m.CommitteeSizes {
		rep.Count(fmt.Sprintf("km.committee_size.%d", k), int64(n))
	}
	rep.Count("km.ephemeral_secrets_stored", int64(m.EphemeralSecrets))
	rep.Count("km.master_secret_proposals_stored", int64(m.MasterProposals))
	rep.Count("km.master_secrets_accepted", int64(m.SecretsAccepted))
	rep.Count("km.master_secret_generation_increases", int64(m.GenerationIncreases))
	rep.Count("km.rotation_epoch_differs_from_epoch_of_acceptance", int64(m.RotationEpochOther))
	rep.Count("km.policy_transitions", int64(m.PolicyTransitions))
	rep.Count("km.churp_instances_max", int64(m.ChurpMax))
	rep.Count("km.churp_handoffs_completed", int64(m.HandoffsCompleted))
	rep.Count("km.churp_handoffs_completed_at_epoch_change", int64(m.HandoffsAtEpochChange))
	rep.Count("km.churp_handoffs_completed_for_other_than_scheduled_epoch", int64(m.HandoffOtherEpoch))
	rep.Count("km.churp_handoff_resets", int64(m.HandoffResets))
	rep.Count("km.churp_committee_changed_without_handoff", int64(m.CommitteeWithoutHandoff))
	rep.Count("km.churp_committee_below_minimum_at_block_end", int64(m.CommitteeBelowMin))
	rep.Count("km.status_or_instance_vanished", int64(m.Vanished))
}
