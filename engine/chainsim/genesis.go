// Package chainsim (engine E1) drives the real ABCI multiplexer of oasis-core
// with all consensus applications, without CometBFT (DESIGN.md section 3).
package chainsim

import (
	"fmt"
	"math"
	"math/rand/v2"
	"time"

	beacon "github.com/oasisprotocol/oasis-core/go/beacon/api"
	"github.com/oasisprotocol/oasis-core/go/common/cbor"
	"github.com/oasisprotocol/oasis-core/go/common/crypto/signature"
	memorySigner "github.com/oasisprotocol/oasis-core/go/common/crypto/signature/signers/memory"
	"github.com/oasisprotocol/oasis-core/go/common/entity"
	"github.com/oasisprotocol/oasis-core/go/common/node"
	"github.com/oasisprotocol/oasis-core/go/common/quantity"
	"github.com/oasisprotocol/oasis-core/go/common/version"
	"github.com/oasisprotocol/oasis-core/go/consensus/api/transaction"
	cmt "github.com/oasisprotocol/oasis-core/go/consensus/cometbft/api"
	consensusGenesis "github.com/oasisprotocol/oasis-core/go/consensus/genesis"
	genesis "github.com/oasisprotocol/oasis-core/go/genesis/api"
	governance "github.com/oasisprotocol/oasis-core/go/governance/api"
	registry "github.com/oasisprotocol/oasis-core/go/registry/api"
	roothash "github.com/oasisprotocol/oasis-core/go/roothash/api"
	scheduler "github.com/oasisprotocol/oasis-core/go/scheduler/api"
	staking "github.com/oasisprotocol/oasis-core/go/staking/api"
	"github.com/oasisprotocol/oasis-core/go/upgrade/migrations"
	vault "github.com/oasisprotocol/oasis-core/go/vault/api"
)

// AllowDebugGenesis permits genesis parameters that only pass the genesis
// sanity check with the DebugDontBlameOasis flag (short checkpoint intervals).
var AllowDebugGenesis = false

// prngReader adapts a PRNG to io.Reader (for deterministic key generation).
type prngReader struct{ r *rand.Rand }

func (p prngReader) Read(b []byte) (int, error) {
	for i := range b {
		b[i] = byte(p.r.Uint32())
	}
	return len(b), nil
}

// Account is anything that can sign transactions.
type Account struct {
	Name   string
	Signer signature.Signer
	PK     signature.PublicKey
	Addr   staking.Address
}

func newAccount(name string, role signature.SignerRole, rng *rand.Rand) *Account {
	s, err := memorySigner.NewFactory().Generate(role, prngReader{rng})
	if err != nil {
		panic(err)
	}
	return &Account{Name: name, Signer: s, PK: s.Public(), Addr: staking.NewAddress(s.Public())}
}

// NodeKeys are the keys of one node.
type NodeKeys struct {
	ID, Consensus, P2P, TLS, VRF *Account
}

// SimNode is a node known to the harness.
type SimNode struct {
	Name   string
	Entity *SimEntity
	Keys   NodeKeys
	Roles  node.RolesMask
	// Desc is the last descriptor the harness submitted successfully (nil if none).
	Desc *node.Node
	// InGenesis is true if the node is part of the genesis document.
	InGenesis bool
	// Runtimes are the runtime versions the node registers for (runtime support; nil without the compute role).
	Runtimes []*node.Runtime
}

// SimEntity is an entity known to the harness.
type SimEntity struct {
	*Account
	Nodes []*SimNode
	// InGenesis is true if the entity is part of the genesis document.
	InGenesis bool
}

// Params are the knobs of a scenario (all derived from the PRNG by NewScenario).
type Params struct {
	NumValidators   int // genesis entities with one validator node each
	ExtraEntities   int // entities (with keys and funds) not registered at genesis
	NumUsers        int
	EpochInterval   int64
	MaxValidators   int
	MinValidators   int
	MaxValPerEntity int
	DebondInterval  uint64
	VotingPeriod    uint64
	MaxNodeExp      uint64
	SqrtPower       bool
	MaxBlockGas     uint64
	MinGasPrice     uint64
	FeeWeights      [3]uint64
	Reward          bool
	SlashAmount     uint64
	FreezeInterval  uint64
	EntityThreshold uint64
	NodeThreshold   uint64
	CheckpointEvery uint64
	WithRuntime     bool
	RT              RuntimeParams // runtime support: zero unless WithRuntime
	WithKeyManager  bool
	KM              KMParams // key manager support: zero unless WithKeyManager
	WithVRF         bool
	VRF             VRFParams // VRF beacon support: zero unless WithVRF
}

// Scenario is a genesis document plus all keys.
type Scenario struct {
	Seed     uint64
	Profile  string
	P        Params
	Doc      *genesis.Document
	Entities []*SimEntity
	Users    []*Account
	// All accounts that may sign staking-like transactions (entities + users).
	Signers []*Account
	Runtime *registry.Runtime
	// RuntimeOwner is the entity owning the runtime (runtime support).
	RuntimeOwner *SimEntity
	// RuntimeAddr is the staking account of the runtime (runtime support).
	RuntimeAddr staking.Address
	// KM is the key manager runtime, KMOwner the entity owning it, KMNodes the nodes with the key
	// manager role, KMRSK the runtime signing key the nodes report (key manager support; nil without one).
	KM      *registry.Runtime
	KMOwner *SimEntity
	KMNodes []*SimNode
	KMRSK   *Account
	// IdleOwner is a node-less genesis entity owning a runtime that is suspended at genesis (idleowner.go; nil without one).
	IdleOwner *SimEntity
}

func q(v uint64) quantity.Quantity { return *quantity.NewFromUint64(v) }

// NewScenario builds a deterministic scenario from a seed and a profile name.
func NewScenario(seed uint64, profile string) *Scenario {
	rng := rand.New(rand.NewPCG(seed, 0x5ce9a210))
	p := Params{
		NumValidators:   3 + rng.IntN(4),
		ExtraEntities:   2 + rng.IntN(2),
		NumUsers:        4 + rng.IntN(4),
		EpochInterval:   3 + rng.Int64N(4),
		DebondInterval:  1 + rng.Uint64N(2),
		VotingPeriod:    1 + rng.Uint64N(2),
		MaxNodeExp:      2 + rng.Uint64N(3),
		SqrtPower:       rng.IntN(2) == 0,
		MinGasPrice:     0,
		FeeWeights:      [3]uint64{rng.Uint64N(4), rng.Uint64N(4), rng.Uint64N(4)},
		Reward:          rng.IntN(4) != 0,
		SlashAmount:     []uint64{0, 1, 100, 5000, 1 << 62}[rng.IntN(5)],
		FreezeInterval:  rng.Uint64N(3),
		EntityThreshold: []uint64{0, 10, 100}[rng.IntN(3)],
		NodeThreshold:   []uint64{0, 50, 300}[rng.IntN(3)],
	}
	if p.FeeWeights[0]+p.FeeWeights[1]+p.FeeWeights[2] == 0 {
		p.FeeWeights[rng.IntN(3)] = 1
	}
	p.MaxValidators = 1 + rng.IntN(p.NumValidators+1)
	p.MinValidators = 1
	p.MaxValPerEntity = 1 + rng.IntN(2)
	if rng.IntN(3) == 0 {
		p.MaxBlockGas = 20000 + rng.Uint64N(60000)
	}
	if rng.IntN(3) == 0 {
		p.MinGasPrice = 1
	}
	if rng.IntN(3) == 0 {
		// Needs the DebugDontBlameOasis flag (genesis sanity check demands >= 1000 otherwise);
		// only honoured when the harness enabled it (see AllowDebugGenesis).
		p.CheckpointEvery = 5 + rng.Uint64N(10)
	}
	if !AllowDebugGenesis {
		p.CheckpointEvery = 0
	}
	switch profile {
	case "hostile":
		p.SlashAmount = []uint64{5000, 1 << 62}[rng.IntN(2)]
		p.FreezeInterval = rng.Uint64N(2)
	case "evidence":
		// Many validators, frequent consensus evidence with old infraction heights (history.go),
		// a freeze interval that always applies, moderate slashing.
		p.NumValidators = 5 + rng.IntN(3)
		p.SlashAmount = 500
		p.FreezeInterval = 1 + rng.Uint64N(2)
	case "election":
		p.NumValidators = 4 + rng.IntN(5)
		p.MaxValidators = 2 + rng.IntN(p.NumValidators)
		p.MinValidators = 1 + rng.IntN(2)
		p.EpochInterval = 2 + rng.Int64N(2)
		if rng.IntN(2) == 0 {
			p.EntityThreshold, p.NodeThreshold = 0, 0
		}
	case "registry":
		p.ExtraEntities = 3 + rng.IntN(3)
	case "runtime": // runtime support: longer epochs so that round timeouts fit into an epoch
		p.NumValidators = 4 + rng.IntN(4)
		p.MaxValidators = 2 + rng.IntN(p.NumValidators)
		p.EpochInterval = 6 + rng.Int64N(6)
	case "keymanager": // key manager support: epochs long enough to publish, replicate and confirm within one
		p.NumValidators = 3 + rng.IntN(3)
		p.MaxValidators = 2 + rng.IntN(p.NumValidators)
		p.EpochInterval = 5 + rng.Int64N(4)
	case "vrf": // VRF beacon support: epochs long enough for the proof submission window and for runtime rounds
		p.NumValidators = 4 + rng.IntN(4)
		p.MaxValidators = 2 + rng.IntN(p.NumValidators)
		p.MinValidators = 1 + rng.IntN(2)
		p.EpochInterval = 4 + rng.Int64N(7)
	}
	s := &Scenario{Seed: seed, P: p, Profile: profile}

	for i := 0; i < p.NumValidators+p.ExtraEntities; i++ {
		e := &SimEntity{Account: newAccount(fmt.Sprintf("entity%d", i), signature.SignerEntity, rng), InGenesis: i < p.NumValidators}
		nn := 1
		if i >= p.NumValidators || rng.IntN(3) == 0 {
			nn = 2
		}
		for j := 0; j < nn; j++ {
			n := &SimNode{
				Name:   fmt.Sprintf("node%d.%d", i, j),
				Entity: e,
				Roles:  node.RoleValidator,
				Keys: NodeKeys{
					ID:        newAccount(fmt.Sprintf("node%d.%d/id", i, j), signature.SignerNode, rng),
					Consensus: newAccount(fmt.Sprintf("node%d.%d/consensus", i, j), signature.SignerConsensus, rng),
					P2P:       newAccount(fmt.Sprintf("node%d.%d/p2p", i, j), signature.SignerP2P, rng),
					TLS:       newAccount(fmt.Sprintf("node%d.%d/tls", i, j), signature.SignerNode, rng),
					VRF:       newAccount(fmt.Sprintf("node%d.%d/vrf", i, j), signature.SignerVRF, rng),
				},
				InGenesis: e.InGenesis && j == 0,
			}
			e.Nodes = append(e.Nodes, n)
		}
		s.Entities = append(s.Entities, e)
		s.Signers = append(s.Signers, e.Account)
	}
	for i := 0; i < p.NumUsers; i++ {
		u := newAccount(fmt.Sprintf("user%d", i), signature.SignerEntity, rng)
		s.Users = append(s.Users, u)
		s.Signers = append(s.Signers, u)
	}
	s.Doc = s.buildDoc(rng)
	s.addRuntime(rng, profile)    // runtime support (drawn after all other scenario draws)
	s.addKeyManager(rng, profile) // key manager support (drawn after the runtime's draws)
	s.addVRF(rng, profile)        // VRF beacon support (drawn after everything else; draws only for profile "vrf")
	s.addIdleOwner(profile)       // idle owner of a suspended runtime (draws nothing from rng)
	return s
}

// EntityDescriptor returns the (unsigned) descriptor of an entity listing the given nodes.
func EntityDescriptor(e *SimEntity, nodes []*SimNode) *entity.Entity {
	d := &entity.Entity{Versioned: cbor.NewVersioned(entity.LatestDescriptorVersion), ID: e.PK}
	for _, n := range nodes {
		d.Nodes = append(d.Nodes, n.Keys.ID.PK)
	}
	return d
}

// NodeDescriptor builds a node descriptor.
func NodeDescriptor(n *SimNode, expiration beacon.EpochTime) *node.Node {
	var addr node.Address
	_ = addr.UnmarshalText([]byte("8.8.4.4:9000"))
	return &node.Node{
		Versioned:  cbor.NewVersioned(node.LatestNodeDescriptorVersion),
		ID:         n.Keys.ID.PK,
		EntityID:   n.Entity.PK,
		Expiration: expiration,
		Roles:      n.Roles,
		Runtimes:   n.Runtimes, // runtime support (nil without the compute role)
		TLS:        node.TLSInfo{PubKey: n.Keys.TLS.PK},
		P2P:        node.P2PInfo{ID: n.Keys.P2P.PK, Addresses: []node.Address{addr}},
		Consensus: node.ConsensusInfo{
			ID:        n.Keys.Consensus.PK,
			Addresses: []node.ConsensusAddress{{ID: n.Keys.P2P.PK, Address: addr}},
		},
		VRF: node.VRFInfo{ID: n.Keys.VRF.PK},
	}
}

// NodeSigners returns the signers required on a node descriptor, in canonical order.
func NodeSigners(n *SimNode) []signature.Signer {
	return []signature.Signer{n.Keys.ID.Signer, n.Keys.P2P.Signer, n.Keys.TLS.Signer, n.Keys.Consensus.Signer, n.Keys.VRF.Signer}
}

func (s *Scenario) buildDoc(rng *rand.Rand) *genesis.Document {
	p := s.P
	stakingGas := transaction.Costs{
		staking.GasOpTransfer:                10,
		staking.GasOpBurn:                    10,
		staking.GasOpAddEscrow:               12,
		staking.GasOpReclaimEscrow:           14,
		staking.GasOpAmendCommissionSchedule: 16,
		staking.GasOpAllow:                   11,
		staking.GasOpWithdraw:                13,
	}
	txByteGas := transaction.Gas(1)
	if s.Seed%5 == 2 {
		// A network without gas costs for the size of a transaction and for the staking methods (test
		// networks): transactions WITHOUT a fee field can then execute successfully. (No PRNG draw.)
		txByteGas = 0
		stakingGas = transaction.Costs{}
	}
	st := staking.Genesis{
		Parameters: staking.ConsensusParameters{
			DebondingInterval: beacon.EpochTime(p.DebondInterval),
			Thresholds: map[staking.ThresholdKind]quantity.Quantity{
				staking.KindEntity:            q(p.EntityThreshold),
				staking.KindNodeValidator:     q(p.NodeThreshold),
				staking.KindNodeCompute:       q(p.NodeThreshold),
				staking.KindNodeObserver:      q(p.NodeThreshold),
				staking.KindNodeKeyManager:    q(p.NodeThreshold),
				staking.KindRuntimeCompute:    q(p.NodeThreshold),
				staking.KindRuntimeKeyManager: q(p.NodeThreshold),
				staking.KindKeyManagerChurp:   q(p.NodeThreshold),
			},
			Slashing: map[staking.SlashReason]staking.Slash{
				staking.SlashConsensusEquivocation:      {Amount: q(p.SlashAmount), FreezeInterval: beacon.EpochTime(p.FreezeInterval)},
				staking.SlashConsensusLightClientAttack: {Amount: q(p.SlashAmount / 2), FreezeInterval: beacon.EpochTime(p.FreezeInterval)},
			},
			CommissionScheduleRules: staking.CommissionScheduleRules{
				RateChangeInterval: 1,
				RateBoundLead:      2,
				MaxRateSteps:       4,
				MaxBoundSteps:      4,
			},
			GasCosts:                          stakingGas,
			MinDelegationAmount:               q(uint64(rng.IntN(3)) * 5),
			MinTransferAmount:                 q(uint64(rng.IntN(3)) * 5),
			MinTransactBalance:                q(uint64(rng.IntN(2)) * 7),
			MaxAllowances:                     4,
			FeeSplitWeightPropose:             q(p.FeeWeights[0]),
			FeeSplitWeightVote:                q(p.FeeWeights[1]),
			FeeSplitWeightNextPropose:         q(p.FeeWeights[2]),
			SigningRewardThresholdNumerator:   1,
			SigningRewardThresholdDenominator: 2,
		},
		TokenSymbol: "VERIF",
		Ledger:      map[staking.Address]*staking.Account{},
		Delegations: map[staking.Address]map[staking.Address]*staking.Delegation{},
	}
	if p.Reward {
		st.Parameters.RewardSchedule = []staking.RewardStep{
			{Until: 6, Scale: q(1 + rng.Uint64N(2_000_000))},
			{Until: 1000, Scale: q(rng.Uint64N(500_000))},
		}
		st.Parameters.RewardFactorEpochSigned = q(rng.Uint64N(3))
		st.Parameters.RewardFactorBlockProposed = q(rng.Uint64N(3))
	}
	total := quantity.NewQuantity()
	add := func(v *quantity.Quantity) { _ = total.Add(v) }

	reg := registry.Genesis{
		Parameters: registry.ConsensusParameters{
			DebugAllowTestRuntimes: true,
			GasCosts:               registry.DefaultGasCosts,
			MaxNodeExpiration:      beacon.EpochTime(p.MaxNodeExp),
			EnableRuntimeGovernanceModels: map[registry.RuntimeGovernanceModel]bool{
				registry.GovernanceEntity:  true,
				registry.GovernanceRuntime: true,
			},
			MaxRuntimeDeployments: 5,
		},
	}
	// Half of the election scenarios start with all entities at exactly the same stake, so the
	// validator cut-off falls inside a tie (the tie-break must be the same on every replica).
	allTied := s.Profile == "election" && rng.IntN(2) == 0
	for i, e := range s.Entities {
		gen := uint64(50_000 + rng.IntN(100_000))
		acct := &staking.Account{General: staking.GeneralAccount{Balance: q(gen)}}
		if e.InGenesis {
			// Self-delegated escrow, well above thresholds (some equal stakes to exercise ties).
			esc := uint64(10_000 + 1000*rng.IntN(4))
			if i > 0 && rng.IntN(3) == 0 {
				esc = 10_000
			}
			// Stakes of a few base units (below one unit of linear voting power) when no thresholds apply.
			if i >= 2 && p.EntityThreshold == 0 && p.NodeThreshold == 0 && rng.IntN(3) == 0 {
				esc = uint64(1 + rng.IntN(40))
			}
			if allTied {
				esc = 10_000
			}
			acct.Escrow.Active.Balance = q(esc)
			acct.Escrow.Active.TotalShares = q(esc)
			st.Delegations[e.Addr] = map[staking.Address]*staking.Delegation{e.Addr: {Shares: q(esc)}}
			add(&acct.Escrow.Active.Balance)
			// Some entities charge a commission from genesis on (rewards with commission).
			if i >= 1 && rng.IntN(2) == 0 {
				acct.Escrow.CommissionSchedule = staking.CommissionSchedule{
					Rates:  []staking.CommissionRateStep{{Start: 0, Rate: q(uint64(5_000 + rng.IntN(30_000)))}},
					Bounds: []staking.CommissionRateBoundStep{{Start: 0, RateMin: q(0), RateMax: q(100_000)}},
				}
			}

			var gnodes []*SimNode
			for _, n := range e.Nodes {
				if n.InGenesis {
					gnodes = append(gnodes, n)
				}
			}
			// The entity descriptor lists all of the entity's nodes (also those registered later).
			ed := EntityDescriptor(e, e.Nodes)
			se, err := entity.SignEntity(e.Signer, registry.RegisterGenesisEntitySignatureContext, ed)
			if err != nil {
				panic(err)
			}
			reg.Entities = append(reg.Entities, se)
			for _, n := range gnodes {
				nd := NodeDescriptor(n, beacon.EpochTime(p.MaxNodeExp))
				sn, err := node.MultiSignNode(NodeSigners(n), registry.RegisterGenesisNodeSignatureContext, nd)
				if err != nil {
					panic(err)
				}
				reg.Nodes = append(reg.Nodes, sn)
				n.Desc = nd
			}
		}
		add(&acct.General.Balance)
		st.Ledger[e.Addr] = acct
		// Node identity accounts pay the fees of node registrations.
		for _, n := range e.Nodes {
			na := &staking.Account{General: staking.GeneralAccount{Balance: q(200_000)}}
			add(&na.General.Balance)
			st.Ledger[n.Keys.ID.Addr] = na
		}
	}
	for ui, u := range s.Users {
		acct := &staking.Account{General: staking.GeneralAccount{Balance: q(uint64(20_000 + rng.IntN(50_000)))}}
		// One user account in five starts at the end of the nonce space, so that histories cross
		// the wrap-around of the 64-bit nonce (own PRNG stream: the other draws do not move).
		if nr := rand.New(rand.NewPCG(s.Seed, 0x6e6f6e6365+uint64(ui))); nr.IntN(5) == 0 {
			acct.General.Nonce = []uint64{math.MaxUint64, math.MaxUint64, math.MaxUint64 - 1, math.MaxUint64 - 3, 1<<63 - 1, 1<<32 - 1}[nr.IntN(6)]
		}
		add(&acct.General.Balance)
		st.Ledger[u.Addr] = acct
	}
	// A few user delegations into validator escrow accounts.
	for _, u := range s.Users {
		if rng.IntN(2) == 0 {
			continue
		}
		e := s.Entities[rng.IntN(p.NumValidators)]
		amt := uint64(100 + rng.IntN(3000))
		acct := st.Ledger[e.Addr]
		// shares minted 1:1 at genesis
		_ = acct.Escrow.Active.Balance.Add(quantity.NewFromUint64(amt))
		_ = acct.Escrow.Active.TotalShares.Add(quantity.NewFromUint64(amt))
		if d := st.Delegations[e.Addr][u.Addr]; d != nil {
			_ = d.Shares.Add(quantity.NewFromUint64(amt))
		} else {
			st.Delegations[e.Addr][u.Addr] = &staking.Delegation{Shares: q(amt)}
		}
		add(quantity.NewFromUint64(amt))
	}
	st.CommonPool = q([]uint64{0, 3, 1_000_000}[rng.IntN(3)])
	if p.Reward && rng.IntN(3) != 0 {
		// Rewards drain the pool: ample, or small enough to run dry within the history.
		st.CommonPool = q([]uint64{1_000_000, 1_000_000, 700, 4_000, 20_000}[rng.IntN(5)])
	}
	add(&st.CommonPool)
	if s.Seed%4 == 1 {
		// A genesis document taken from a state dump in which the voters' / next proposer's fee
		// share of the last block was still pending (no PRNG draw: existing scenarios keep theirs).
		st.LastBlockFees = q(7 + s.Seed%90)
		add(&st.LastBlockFees)
	}
	st.TotalSupply = *total

	fv := migrations.Version261
	doc := &genesis.Document{
		Height:  1,
		Time:    time.Unix(1_700_000_000, 0).UTC(),
		ChainID: fmt.Sprintf("verif-chain-%d", s.Seed),
		Beacon: beacon.Genesis{
			Base: 0,
			Parameters: beacon.ConsensusParameters{
				Backend:            beacon.BackendInsecure,
				InsecureParameters: &beacon.InsecureParameters{Interval: p.EpochInterval},
			},
		},
		Registry: reg,
		RootHash: roothash.Genesis{
			Parameters: roothash.ConsensusParameters{
				GasCosts:             roothash.DefaultGasCosts,
				MaxRuntimeMessages:   32,
				MaxInRuntimeMessages: 32,
				MaxEvidenceAge:       10,
				MaxPastRootsStored:   10,
			},
		},
		Staking: st,
		Scheduler: scheduler.Genesis{
			Parameters: scheduler.ConsensusParameters{
				MinValidators:          p.MinValidators,
				MaxValidators:          p.MaxValidators,
				MaxValidatorsPerEntity: p.MaxValPerEntity,
			},
		},
		Governance: governance.Genesis{
			Parameters: governance.ConsensusParameters{
				GasCosts:                       governance.DefaultGasCosts,
				MinProposalDeposit:             q(100),
				VotingPeriod:                   beacon.EpochTime(p.VotingPeriod),
				StakeThreshold:                 68,
				UpgradeMinEpochDiff:            300,
				UpgradeCancelMinEpochDiff:      300,
				EnableChangeParametersProposal: true,
				AllowVoteWithoutEntity:         true,
				AllowProposalMetadata:          true,
			},
		},
		Vault: &vault.Genesis{Parameters: vault.DefaultConsensusParameters},
		Consensus: consensusGenesis.Genesis{
			Backend: cmt.BackendName,
			Parameters: consensusGenesis.Parameters{
				TimeoutCommit:            1 * time.Millisecond,
				SkipTimeoutCommit:        true,
				MaxTxSize:                32 * 1024,
				MaxBlockSize:             4 * 1024 * 1024,
				MaxBlockGas:              transaction.Gas(p.MaxBlockGas),
				MaxEvidenceSize:          1024 * 1024,
				MinGasPrice:              p.MinGasPrice,
				StateCheckpointInterval:  p.CheckpointEvery,
				StateCheckpointNumKept:   2,
				StateCheckpointChunkSize: 8 * 1024,
				GasCosts:                 transaction.Costs{consensusGenesis.GasOpTxByte: txByteGas},
				FeatureVersion:           &fv,
			},
		},
	}
	if p.SqrtPower {
		doc.Scheduler.Parameters.VotingPowerDistribution = scheduler.VotingPowerDistributionSqrt
	}
	_ = version.Version{}
	return doc
}
