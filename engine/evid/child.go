package evid

import (
	"bytes"
	"context"
	"errors"
	"os"
	"os/exec"
	"syscall"
	"time"
)

// ChildResult is the outcome of one child process.
type ChildResult struct {
	Out      []byte
	ExitCode int
	Signal   syscall.Signal // non-zero if the child was killed by a signal
	TimedOut bool
}

// Child re-executes the running binary with the given arguments and extra
// environment, under a wall-clock watchdog (whose firing is "inconclusive").
// Output (stdout+stderr) goes to a buffer.
func Child(args []string, env []string, timeout time.Duration) ChildResult {
	ctx, cancel := context.WithTimeout(context.Background(), timeout)
	defer cancel()
	cmd := exec.CommandContext(ctx, os.Args[0], args...)
	cmd.Env = append(os.Environ(), env...)
	var buf bytes.Buffer
	cmd.Stdout = &buf
	cmd.Stderr = &buf
	cmd.Cancel = func() error { return cmd.Process.Signal(syscall.SIGQUIT) }
	cmd.WaitDelay = 5 * time.Second
	err := cmd.Run()
	res := ChildResult{Out: buf.Bytes()}
	if ctx.Err() != nil {
		res.TimedOut = true
	}
	var ee *exec.ExitError
	if errors.As(err, &ee) {
		if ws, ok := ee.Sys().(syscall.WaitStatus); ok && ws.Signaled() {
			res.Signal = ws.Signal()
			res.ExitCode = -1
		} else {
			res.ExitCode = ee.ExitCode()
		}
	} else if err != nil {
		res.ExitCode = -2
	}
	return res
}
