package evid

import (
	"os"
	"path/filepath"
	"regexp"
	"strings"
)

// RaceReport is one deduplicated race-detector report.
type RaceReport struct {
	Key   string // pair of outermost non-runtime frames + stack pair without line numbers
	Text  string
	Count int
}

var lineNo = regexp.MustCompile(`:\d+( \+0x[0-9a-f]+)?`)

// RaceReports parses every race-detector log file matching prefix* (GORACE
// log_path=prefix) and returns the distinct reports.
func RaceReports(prefix string) []RaceReport {
	files, _ := filepath.Glob(prefix + "*")
	byKey := map[string]*RaceReport{}
	var order []string
	for _, f := range files {
		b, err := os.ReadFile(f)
		if err != nil {
			continue
		}
		for _, blk := range strings.Split(string(b), "==================") {
			if !strings.Contains(blk, "WARNING: DATA RACE") {
				continue
			}
			var funcs []string
			for _, ln := range strings.Split(blk, "\n") {
				ln = strings.TrimSpace(ln)
				if ln == "" || strings.HasPrefix(ln, "/") || strings.HasPrefix(ln, "WARNING") ||
					strings.HasPrefix(ln, "Goroutine") || strings.HasPrefix(ln, "Previous") ||
					strings.HasPrefix(ln, "Read at") || strings.HasPrefix(ln, "Write at") {
					if strings.HasPrefix(ln, "Goroutine") {
						break // creation stacks are not part of the key
					}
					continue
				}
				if strings.HasPrefix(ln, "runtime.") || strings.HasPrefix(ln, "testing.") {
					continue
				}
				funcs = append(funcs, lineNo.ReplaceAllString(ln, ""))
			}
			key := strings.Join(funcs, "|")
			if r, ok := byKey[key]; ok {
				r.Count++
				continue
			}
			byKey[key] = &RaceReport{Key: key, Text: strings.TrimSpace(blk), Count: 1}
			order = append(order, key)
		}
	}
	var out []RaceReport
	for _, k := range order {
		out = append(out, *byKey[k])
	}
	return out
}
