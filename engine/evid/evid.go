// Package evid is the shared verdict / evidence / known-findings machinery of
// the /verif checks (DESIGN.md sections 0, 1.2, 1.3).
//
// A check creates one Run, feeds it what its monitors observed and calls
// Finish, which writes /verif/evidence/<id>.json, prints the interface lines
// (VIOLATION / KNOWN-FINDING: / INCONCLUSIVE) and exits with 0 (held on what
// was observed), 1 (violated) or 2 (inconclusive).
package evid

import (
	"bufio"
	"crypto/sha256"
	"encoding/hex"
	"encoding/json"
	"flag"
	"fmt"
	"math/rand/v2"
	"os"
	"path/filepath"
	"runtime"
	"sort"
	"strconv"
	"strings"
	"sync"
	"time"
)

// Root is the directory of the verification framework.
var Root = func() string {
	if r := os.Getenv("VERIF_ROOT"); r != "" {
		return r
	}
	return "/verif"
}()

// Finding is a record of KNOWN_FINDINGS.jsonl.
type Finding struct {
	Property  string `json:"property"`
	Signature string `json:"signature"`
	Status    string `json:"status"` // "open" or "fixed:<commit>"
	What      string `json:"what"`
}

type violation struct {
	Signature string `json:"signature"`
	What      string `json:"what"`
	Replay    string `json:"replay"`
	Known     bool   `json:"known"`
}

// Run collects what one execution of a check observed.
type Run struct {
	ID    string
	Tier  string // quick | thorough
	Seed  int64
	Level string
	Rule  string

	// ReplayFile is non-empty when the check was started with -replay.
	ReplayFile string

	start time.Time

	mu           sync.Mutex
	evaluations  int64
	nontrivial   map[string]struct{}
	counters     map[string]int64
	sets         map[string]map[string]struct{}
	samples      []any
	maxSamples   int
	violations   []violation
	seenSig      map[string]int
	inconclusive []string
	assumptions  []string
	extra        map[string]any
	exhaustive   *bool
	findings     []Finding
	scratch      string
}

// Start parses the common flags (-tier, -seed, -replay; env VERIF_TIER,
// VERIF_SEED as defaults) and returns a new Run.
func Start(id, level string) *Run {
	tier := os.Getenv("VERIF_TIER")
	if tier == "" {
		tier = "quick"
	}
	seed := int64(1)
	if s := os.Getenv("VERIF_SEED"); s != "" {
		if v, err := strconv.ParseInt(s, 10, 64); err == nil {
			seed = v
		}
	}
	ftier := flag.String("tier", tier, "quick|thorough")
	fseed := flag.Int64("seed", seed, "PRNG seed")
	freplay := flag.String("replay", "", "replay file")
	if !flag.Parsed() {
		flag.Parse()
	}
	if *ftier != "quick" && *ftier != "thorough" {
		fmt.Fprintf(os.Stderr, "bad tier %q\n", *ftier)
		os.Exit(2)
	}
	r := &Run{
		ID: id, Tier: *ftier, Seed: *fseed, Level: level, ReplayFile: *freplay,
		start:      time.Now(),
		nontrivial: map[string]struct{}{},
		counters:   map[string]int64{},
		sets:       map[string]map[string]struct{}{},
		seenSig:    map[string]int{},
		extra:      map[string]any{},
		maxSamples: 6,
	}
	r.findings = LoadFindings(id)
	return r
}

// Quick reports whether this is the quick tier.
func (r *Run) Quick() bool { return r.Tier == "quick" }

// Pick returns q in the quick tier and t in the thorough tier.
func (r *Run) Pick(q, t int) int {
	if r.Quick() {
		return q
	}
	return t
}

// LoadFindings reads the committed known-findings file (never written at run time).
func LoadFindings(id string) []Finding {
	f, err := os.Open(filepath.Join(Root, "KNOWN_FINDINGS.jsonl"))
	if err != nil {
		return nil
	}
	defer f.Close()
	var out []Finding
	sc := bufio.NewScanner(f)
	sc.Buffer(make([]byte, 1<<20), 1<<20)
	for sc.Scan() {
		line := strings.TrimSpace(sc.Text())
		if line == "" || strings.HasPrefix(line, "#") {
			continue
		}
		var fd Finding
		if json.Unmarshal([]byte(line), &fd) == nil && fd.Property == id {
			out = append(out, fd)
		}
	}
	return out
}

// Rand returns a deterministic PRNG for (seed, stream...).
func (r *Run) Rand(stream ...uint64) *rand.Rand {
	return NewRand(uint64(r.Seed), stream...)
}

// NewRand returns a deterministic PRNG for (seed, stream...).
func NewRand(seed uint64, stream ...uint64) *rand.Rand {
	h := sha256.New()
	var b [8]byte
	put := func(v uint64) {
		for i := 0; i < 8; i++ {
			b[i] = byte(v >> (8 * i))
		}
		h.Write(b[:])
	}
	put(seed)
	for _, s := range stream {
		put(s)
	}
	d := h.Sum(nil)
	var s1, s2 uint64
	for i := 0; i < 8; i++ {
		s1 |= uint64(d[i]) << (8 * i)
		s2 |= uint64(d[8+i]) << (8 * i)
	}
	return rand.New(rand.NewPCG(s1, s2))
}

// Eval counts n generated/executed cases.
func (r *Run) Eval(n int) {
	r.mu.Lock()
	r.evaluations += int64(n)
	r.mu.Unlock()
}

// Nontrivial records one distinct non-trivial case (deduplicated by key).
func (r *Run) Nontrivial(key string) {
	if len(key) > 64 {
		s := sha256.Sum256([]byte(key))
		key = hex.EncodeToString(s[:16])
	}
	r.mu.Lock()
	r.nontrivial[key] = struct{}{}
	r.mu.Unlock()
}

// Count adds n to a named counter reported in the evidence file.
func (r *Run) Count(name string, n int64) {
	r.mu.Lock()
	r.counters[name] += n
	r.mu.Unlock()
}

// Counter returns the present value of a named counter.
func (r *Run) Counter(name string) int64 {
	r.mu.Lock()
	defer r.mu.Unlock()
	return r.counters[name]
}

// Distinct adds key to a named set whose size is reported in the evidence file.
func (r *Run) Distinct(set, key string) {
	r.mu.Lock()
	m := r.sets[set]
	if m == nil {
		m = map[string]struct{}{}
		r.sets[set] = m
	}
	m[key] = struct{}{}
	r.mu.Unlock()
}

// DistinctCount returns the size of a named set.
func (r *Run) DistinctCount(set string) int {
	r.mu.Lock()
	defer r.mu.Unlock()
	return len(r.sets[set])
}

// Sample keeps v as one of the written-out cases (first few only).
func (r *Run) Sample(v any) {
	r.mu.Lock()
	if len(r.samples) < r.maxSamples {
		r.samples = append(r.samples, v)
	}
	r.mu.Unlock()
}

// Set records an extra coverage key.
func (r *Run) Set(key string, v any) {
	r.mu.Lock()
	r.extra[key] = v
	r.mu.Unlock()
}

// Exhaustive marks the explored space as completely enumerated (or not).
func (r *Run) Exhaustive(b bool) {
	r.mu.Lock()
	r.exhaustive = &b
	r.mu.Unlock()
}

// Assume records an assumption / trusted-base statement.
func (r *Run) Assume(s string) {
	r.mu.Lock()
	r.assumptions = append(r.assumptions, s)
	r.mu.Unlock()
}

// Inconclusive records a reason why the run cannot give a verdict.
func (r *Run) Inconclusive(format string, a ...any) {
	r.mu.Lock()
	r.inconclusive = append(r.inconclusive, fmt.Sprintf(format, a...))
	r.mu.Unlock()
}

// Violations returns the number of (non-known) violations recorded so far.
func (r *Run) Violations() int {
	r.mu.Lock()
	defer r.mu.Unlock()
	n := 0
	for _, v := range r.violations {
		if !v.Known {
			n++
		}
	}
	return n
}

// Violation records a violation with a checker-computed signature. The witness
// is written to /verif/replay/<id>/. If the signature is listed as open in
// KNOWN_FINDINGS.jsonl it is reported as KNOWN-FINDING instead. At most a few
// witnesses per signature are kept.
func (r *Run) Violation(signature, what string, witness any) {
	r.mu.Lock()
	defer r.mu.Unlock()
	r.seenSig[signature]++
	n := r.seenSig[signature]
	if n > 3 {
		return
	}
	known := false
	for _, f := range r.findings {
		if f.Status == "open" && f.Signature == signature {
			known = true
		}
	}
	dir := filepath.Join(Root, "replay", r.ID)
	_ = os.MkdirAll(dir, 0o755)
	h := sha256.Sum256([]byte(signature))
	path := filepath.Join(dir, fmt.Sprintf("%s-s%d-%s-%d.json", r.Tier, r.Seed, hex.EncodeToString(h[:4]), n))
	doc := map[string]any{
		"property": r.ID, "signature": signature, "what": what, "tier": r.Tier, "seed": r.Seed, "witness": witness,
	}
	if b, err := json.MarshalIndent(doc, "", " "); err == nil {
		_ = os.WriteFile(path, b, 0o644)
	} else {
		_ = os.WriteFile(path, []byte(fmt.Sprintf("{\"property\":%q,\"signature\":%q,\"what\":%q,\"marshal_error\":%q}", r.ID, signature, what, err.Error())), 0o644)
	}
	r.violations = append(r.violations, violation{signature, what, path, known})
	if known {
		if n == 1 {
			fmt.Printf("KNOWN-FINDING: property=%s %s %s\n", r.ID, signature, oneLine(what))
		}
	} else {
		fmt.Printf("VIOLATION property=%s replay=%s\n", r.ID, path)
		fmt.Printf("  signature=%s %s\n", signature, oneLine(what))
	}
}

func oneLine(s string) string {
	s = strings.ReplaceAll(s, "\n", " | ")
	if len(s) > 400 {
		s = s[:400] + "..."
	}
	return s
}

// Scratch returns a per-run scratch directory (removed by Finish).
func (r *Run) Scratch() string {
	r.mu.Lock()
	defer r.mu.Unlock()
	if r.scratch == "" {
		base := os.Getenv("VERIF_SCRATCH")
		if base == "" {
			base = os.TempDir()
		}
		d, err := os.MkdirTemp(base, "verif."+r.ID+".")
		if err != nil {
			fmt.Fprintf(os.Stderr, "scratch: %v\n", err)
			os.Exit(2)
		}
		r.scratch = d
	}
	return r.scratch
}

// Parallel runs f(i) for i in [0,n) on min(workers, n) goroutines.
func Parallel(n, workers int, f func(i int)) {
	if workers <= 0 {
		workers = runtime.NumCPU()
	}
	if workers > n {
		workers = n
	}
	var wg sync.WaitGroup
	ch := make(chan int)
	for w := 0; w < workers; w++ {
		wg.Add(1)
		go func() {
			defer wg.Done()
			for i := range ch {
				f(i)
			}
		}()
	}
	for i := 0; i < n; i++ {
		ch <- i
	}
	close(ch)
	wg.Wait()
}

// Finish writes the evidence file, prints verdict lines and exits.
// floor is the minimum number of distinct non-trivial cases below which the
// run is inconclusive (a monitor that saw nothing must not look like a pass).
func (r *Run) Finish(floor int) {
	r.mu.Lock()
	if r.scratch != "" {
		_ = os.RemoveAll(r.scratch)
	}
	nviol, nknown := 0, 0
	sigs := map[string]struct{}{}
	for _, v := range r.violations {
		if v.Known {
			nknown++
		} else {
			nviol++
			sigs[v.Signature] = struct{}{}
		}
	}
	if floor < 2 {
		floor = 2
	}
	if len(r.nontrivial) < floor && nviol == 0 {
		r.inconclusive = append(r.inconclusive, fmt.Sprintf("only %d distinct non-trivial cases observed (floor %d)", len(r.nontrivial), floor))
	}
	cov := map[string]any{
		"evaluations":         r.evaluations,
		"distinct_nontrivial": len(r.nontrivial),
		"rule":                r.Rule,
		"samples":             r.samples,
		"counters":            r.counters,
	}
	if len(r.samples) == 0 {
		cov["samples"] = []any{"(no sample recorded)"}
	}
	dist := map[string]int{}
	for k, m := range r.sets {
		dist[k] = len(m)
	}
	if len(dist) > 0 {
		cov["distinct"] = dist
	}
	for k, v := range r.extra {
		cov[k] = v
	}
	if r.exhaustive != nil {
		cov["exhaustive"] = *r.exhaustive
	}
	if nknown > 0 {
		var ks []string
		seen := map[string]bool{}
		for _, v := range r.violations {
			if v.Known && !seen[v.Signature] {
				seen[v.Signature] = true
				ks = append(ks, v.Signature)
			}
		}
		sort.Strings(ks)
		cov["known_findings_reproduced"] = ks
	}
	if len(r.inconclusive) > 0 {
		cov["inconclusive"] = r.inconclusive
	}
	if sp := os.Getenv("VERIF_SANITIZER_PASSES"); sp != "" {
		// set by run.sh: outcome of additional passes of the same check binary built with another sanitizer
		cov["additional_sanitizer_passes"] = sp
	}
	if nviol > 0 {
		var vs []string
		for s := range sigs {
			vs = append(vs, s)
		}
		sort.Strings(vs)
		cov["violation_signatures"] = vs
	}
	ev := map[string]any{
		"property_id": r.ID,
		"tier":        r.Tier,
		"seed":        r.Seed,
		"level":       r.Level,
		"coverage":    cov,
		"assumptions": r.assumptions,
		"wall_s":      time.Since(r.start).Seconds(),
		"violations":  nviol,
	}
	if r.assumptions == nil {
		ev["assumptions"] = []string{}
	}
	inconc := append([]string(nil), r.inconclusive...)
	r.mu.Unlock()

	if r.ReplayFile == "" && os.Getenv("VERIF_NO_EVIDENCE") == "" {
		dir := filepath.Join(Root, "evidence")
		_ = os.MkdirAll(dir, 0o755)
		b, err := json.MarshalIndent(ev, "", " ")
		if err != nil {
			fmt.Fprintf(os.Stderr, "evidence marshal: %v\n", err)
			os.Exit(2)
		}
		tmp := filepath.Join(dir, "."+r.ID+".json.tmp")
		if err := os.WriteFile(tmp, append(b, '\n'), 0o644); err != nil {
			fmt.Fprintf(os.Stderr, "evidence write: %v\n", err)
			os.Exit(2)
		}
		_ = os.Rename(tmp, filepath.Join(dir, r.ID+".json"))
	}
	fmt.Printf("SUMMARY property=%s tier=%s seed=%d evaluations=%d distinct_nontrivial=%d violations=%d known=%d wall=%.1fs\n",
		r.ID, r.Tier, r.Seed, r.evaluations, len(r.nontrivial), nviol, nknown, time.Since(r.start).Seconds())
	switch {
	case nviol > 0:
		os.Exit(1)
	case len(inconc) > 0:
		for _, s := range inconc {
			fmt.Printf("INCONCLUSIVE property=%s %s\n", r.ID, oneLine(s))
		}
		os.Exit(2)
	}
	os.Exit(0)
}
