package mkvslab

import (
	"fmt"
	"sync"
	"sync/atomic"

	"github.com/oasisprotocol/oasis-core/go/common"
	"github.com/oasisprotocol/oasis-core/go/common/crypto/hash"
	dbApi "github.com/oasisprotocol/oasis-core/go/storage/mkvs/db/api"
	badgerDb "github.com/oasisprotocol/oasis-core/go/storage/mkvs/db/badger"
	pathBadgerDb "github.com/oasisprotocol/oasis-core/go/storage/mkvs/db/pathbadger"
	"github.com/oasisprotocol/oasis-core/go/storage/mkvs/node"
)

// Backend names.
const (
	BackendNop        = "nop"
	BackendBadger     = "badger"
	BackendPathBadger = "pathbadger"
)

// Namespace is the namespace used by all MKVS checks.
var Namespace = common.NewTestNamespaceFromSeed([]byte("verif mkvslab"), 0)

// OpenDB opens a node database of the given kind. dir == "" selects the
// memory-only mode of the badger based backends. For BackendNop nil is
// returned (mkvs.New substitutes the no-op database).
func OpenDB(kind, dir string) (dbApi.NodeDB, error) {
	cfg := &dbApi.Config{
		DB:           dir,
		NoFsync:      true,
		MemoryOnly:   dir == "",
		Namespace:    Namespace,
		MaxCacheSize: 1 << 20,
	}
	switch kind {
	case BackendNop:
		return nil, nil
	case BackendBadger:
		return badgerDb.New(cfg)
	case BackendPathBadger:
		return pathBadgerDb.New(cfg)
	}
	return nil, fmt.Errorf("unknown backend %q", kind)
}

// CountingDB wraps a NodeDB and counts GetNode calls. A GetNode for a hash that
// the same tree instance already fetched (or committed) is evidence of a cache
// eviction followed by a re-fetch.
type CountingDB struct {
	dbApi.NodeDB

	Gets     atomic.Int64
	Refetch  atomic.Int64
	NotFound atomic.Int64

	mu   sync.Mutex
	seen map[hash.Hash]struct{}
}

// NewCountingDB wraps ndb.
func NewCountingDB(ndb dbApi.NodeDB) *CountingDB {
	return &CountingDB{NodeDB: ndb, seen: map[hash.Hash]struct{}{}}
}

// ResetSeen forgets the fetched hashes (call when a new tree instance is created).
func (c *CountingDB) ResetSeen() {
	c.mu.Lock()
	c.seen = map[hash.Hash]struct{}{}
	c.mu.Unlock()
}

// GetNode implements NodeDB.
func (c *CountingDB) GetNode(root node.Root, ptr *node.Pointer) (node.Node, error) {
	c.Gets.Add(1)
	if ptr != nil {
		c.mu.Lock()
		if _, ok := c.seen[ptr.Hash]; ok {
			c.Refetch.Add(1)
		} else {
			c.seen[ptr.Hash] = struct{}{}
		}
		c.mu.Unlock()
	}
	n, err := c.NodeDB.GetNode(root, ptr)
	if err != nil {
		c.NotFound.Add(1)
	}
	return n, err
}

// Root builds a state root.
func Root(version uint64, h hash.Hash) node.Root {
	return node.Root{Namespace: Namespace, Version: version, Type: node.RootTypeState, Hash: h}
}
