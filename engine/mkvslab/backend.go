package mkvslab

import (
	"context"
	"errors"
	"fmt"
	"sync"
	"sync/atomic"

	"github.com/oasisprotocol/oasis-core/go/common"
	"github.com/oasisprotocol/oasis-core/go/common/crypto/hash"
	dbApi "github.com/oasisprotocol/oasis-core/go/storage/mkvs/db/api"
	badgerDb "github.com/oasisprotocol/oasis-core/go/storage/mkvs/db/badger"
	pathBadgerDb "github.com/oasisprotocol/oasis-core/go/storage/mkvs/db/pathbadger"
	"github.com/oasisprotocol/oasis-core/go/storage/mkvs/node"
)

// Backend names.
const (
	BackendNop        = "nop"
	BackendBadger     = "badger"
	BackendPathBadger = "pathbadger"
)

// Namespace is the namespace used by all MKVS checks.
var Namespace = common.NewTestNamespaceFromSeed([]byte("verif mkvslab"), 0)

// OpenDB opens a node database of the given kind. dir == "" selects the
// memory-only mode of the badger based backends. For BackendNop nil is
// returned (mkvs.New substitutes the no-op database).
func OpenDB(kind, dir string) (dbApi.NodeDB, error) {
	cfg := &dbApi.Config{
		DB:           dir,
		NoFsync:      true,
		MemoryOnly:   dir == "",
		Namespace:    Namespace,
		MaxCacheSize: 1 << 20,
	}
	switch kind {
	case BackendNop:
		return nil, nil
	case BackendBadger:
		return badgerDb.New(cfg)
	case BackendPathBadger:
		return pathBadgerDb.New(cfg)
	}
	return nil, fmt.Errorf("unknown backend %q", kind)
}

// CountingDB wraps a NodeDB and counts GetNode calls. A GetNode for a hash that
// the same tree instance already fetched (or committed) is evidence of a cache
// eviction followed by a re-fetch.
type CountingDB struct {
	dbApi.NodeDB

	Gets     atomic.Int64
	Refetch  atomic.Int64
	NotFound atomic.Int64
	// Injected counts the GetNode calls that were failed on demand (see FailGetNode).
	Injected atomic.Int64

	// arm: -1 = disarmed; n >= 0: the (n+1)-th GetNode from now fails once with ErrInjected.
	arm atomic.Int64

	mu   sync.Mutex
	seen map[hash.Hash]struct{}
}

// NewCountingDB wraps ndb.
func NewCountingDB(ndb dbApi.NodeDB) *CountingDB {
	c := &CountingDB{NodeDB: ndb, seen: map[hash.Hash]struct{}{}}
	c.arm.Store(-1)
	return c
}

// ErrInjected is the transient error an armed CountingDB returns from GetNode once.
var ErrInjected = errors.New("verif: injected transient node database read error")

// FailGetNode arms the fault: the (after+1)-th GetNode call from now fails once with
// ErrInjected (without reaching the wrapped database); all other calls are passed through.
func (c *CountingDB) FailGetNode(after int) { c.arm.Store(int64(after)) }

// Disarm removes a fault that has not fired; it reports whether one was still pending.
func (c *CountingDB) Disarm() bool { return c.arm.Swap(-1) >= 0 }

// ResetSeen forgets the fetched hashes (call when a new tree instance is created).
func (c *CountingDB) ResetSeen() {
	c.mu.Lock()
	c.seen = map[hash.Hash]struct{}{}
	c.mu.Unlock()
}

// GetNode implements NodeDB.
func (c *CountingDB) GetNode(root node.Root, ptr *node.Pointer) (node.Node, error) {
	c.Gets.Add(1)
	if a := c.arm.Load(); a >= 0 {
		if a == 0 {
			c.arm.Store(-1)
			c.Injected.Add(1)
			return nil, ErrInjected
		}
		c.arm.Store(a - 1)
	}
	if ptr != nil {
		c.mu.Lock()
		if _, ok := c.seen[ptr.Hash]; ok {
			c.Refetch.Add(1)
		} else {
			c.seen[ptr.Hash] = struct{}{}
		}
		c.mu.Unlock()
	}
	n, err := c.NodeDB.GetNode(root, ptr)
	if err != nil {
		c.NotFound.Add(1)
	}
	return n, err
}

// Root builds a state root.
func Root(version uint64, h hash.Hash) node.Root {
	return node.Root{Namespace: Namespace, Version: version, Type: node.RootTypeState, Hash: h}
}

// CountdownCtx is a context that reports cancellation after its Err method has been consulted
// a given number of times, i.e. deterministically in the middle of an operation (the tree
// consults ctx.Err() at every level while descending). Done is the parent's.
type CountdownCtx struct {
	context.Context
	remaining int
	// Fired is set once Err has returned context.Canceled.
	Fired bool
}

// NewCountdownCtx returns a context whose Err returns nil `after` times and context.Canceled
// from then on.
func NewCountdownCtx(parent context.Context, after int) *CountdownCtx {
	return &CountdownCtx{Context: parent, remaining: after}
}

// Err implements context.Context.
func (c *CountdownCtx) Err() error {
	if c.remaining > 0 {
		c.remaining--
		return nil
	}
	c.Fired = true
	return context.Canceled
}

// IsInjected reports whether err is one of the injected faults.
func IsInjected(err error) bool {
	return errors.Is(err, ErrInjected) || errors.Is(err, context.Canceled)
}
