package mkvslab

import (
	"crypto/sha512"
	"encoding/binary"
)

// Independent reference hasher for the MKVS root of a key/value set.
//
// It is written only from the hash definitions in storage/mkvs/node/node.go
//
//	leaf     = H(0x00 || le32(len key) || key || le32(len value) || value)
//	internal = H(0x01 || le16(label bit length) || label || H(leaf) || H(left) || H(right))
//	nil      = H("")                                   (H = SHA-512/256)
//
// and from the definition of a compressed binary Patricia trie over the bit
// strings of the keys (most significant bit of byte 0 first):
//
//   - the empty set has the nil hash, a one-element set is a bare leaf;
//   - a set of >= 2 keys below bit depth d is an internal node whose label is
//     the longest common prefix (bits d..e) of all keys in the set, left
//     aligned and zero padded to whole bytes; a key that ends exactly at bit e
//     is the node's own leaf; the other keys go left/right by bit e and the
//     children are built recursively at depth e (so a child label starts with
//     the discriminating bit).
//
// Nothing here is incremental: the trie is built top-down from the sorted key
// list, so it shares no logic with insert.go / remove.go.

// RefNode is a node of the reference trie.
type RefNode struct {
	// Leaf node when Key != nil.
	Key   []byte
	Value []byte

	// Internal node otherwise.
	Label    []byte
	LabelLen int // bits
	Leaf     *RefNode
	Left     *RefNode
	Right    *RefNode

	Hash [32]byte
}

// IsLeaf reports whether n is a leaf node.
func (n *RefNode) IsLeaf() bool { return n != nil && n.Key != nil }

// EmptyHash is the hash of a nil pointer / the empty tree.
var EmptyHash = sha512.Sum512_256(nil)

func bitAt(k string, i int) bool { return k[i/8]&(0x80>>uint(i%8)) != 0 }

// lcpBits returns the length in bits of the longest common bit prefix of a and b.
func lcpBits(a, b string) int {
	n := len(a)
	if len(b) < n {
		n = len(b)
	}
	i := 0
	for i < n && a[i] == b[i] {
		i++
	}
	bits := i * 8
	if i < n {
		x := a[i] ^ b[i]
		for m := byte(0x80); m != 0 && x&m == 0; m >>= 1 {
			bits++
		}
	}
	return bits
}

// extractBits returns bits [from, to) of k, left aligned, zero padded.
func extractBits(k string, from, to int) []byte {
	n := to - from
	out := make([]byte, (n+7)/8)
	for i := 0; i < n; i++ {
		if bitAt(k, from+i) {
			out[i/8] |= 0x80 >> uint(i%8)
		}
	}
	return out
}

// BuildRef builds the canonical trie for the contents (nil for the empty set).
func BuildRef(contents map[string][]byte) *RefNode {
	return buildRef(sortedKeys(contents), contents, 0, true)
}

// BuildRefShape builds the canonical trie without computing hashes.
func BuildRefShape(contents map[string][]byte) *RefNode {
	return buildRef(sortedKeys(contents), contents, 0, false)
}

func buildRef(keys []string, contents map[string][]byte, depth int, doHash bool) *RefNode {
	switch len(keys) {
	case 0:
		return nil
	case 1:
		n := &RefNode{Key: []byte(keys[0]), Value: contents[keys[0]]}
		if n.Value == nil {
			n.Value = []byte{}
		}
		if doHash {
			n.Hash = leafHash(n.Key, n.Value)
		}
		return n
	}
	// Keys are sorted, so the common prefix of all of them is the common prefix of
	// the first and the last one.
	end := lcpBits(keys[0], keys[len(keys)-1])
	n := &RefNode{LabelLen: end - depth, Label: extractBits(keys[0], depth, end)}
	rest := keys
	if len(keys[0])*8 == end {
		// A key ending exactly here: it is a prefix of all others and sorts first.
		n.Leaf = buildRef(keys[:1], contents, end, doHash)
		rest = keys[1:]
	}
	// Partition by the discriminating bit; sorted order puts bit 0 first.
	split := len(rest)
	for i, k := range rest {
		if bitAt(k, end) {
			split = i
			break
		}
	}
	n.Left = buildRef(rest[:split], contents, end, doHash)
	n.Right = buildRef(rest[split:], contents, end, doHash)
	if !doHash {
		return n
	}

	h := sha512.New512_256()
	var l [2]byte
	binary.LittleEndian.PutUint16(l[:], uint16(n.LabelLen))
	h.Write([]byte{0x01})
	h.Write(l[:])
	h.Write(n.Label)
	for _, c := range []*RefNode{n.Leaf, n.Left, n.Right} {
		if c == nil {
			h.Write(EmptyHash[:])
		} else {
			h.Write(c.Hash[:])
		}
	}
	copy(n.Hash[:], h.Sum(nil))
	return n
}

func leafHash(key, value []byte) [32]byte {
	h := sha512.New512_256()
	var kl, vl [4]byte
	binary.LittleEndian.PutUint32(kl[:], uint32(len(key)))
	binary.LittleEndian.PutUint32(vl[:], uint32(len(value)))
	h.Write([]byte{0x00})
	h.Write(kl[:])
	h.Write(key)
	h.Write(vl[:])
	h.Write(value)
	var out [32]byte
	copy(out[:], h.Sum(nil))
	return out
}

// RefRoot returns the reference root hash of the contents.
func RefRoot(contents map[string][]byte) [32]byte {
	n := BuildRef(contents)
	if n == nil {
		return EmptyHash
	}
	return n.Hash
}

// RefStats describes the shape of a reference trie.
type RefStats struct {
	Internal     int // internal nodes
	WithLeaf     int // internal nodes carrying their own leaf (prefix keys)
	OneChildLeaf int // internal nodes with a leaf and a single child
	MaxDepthBits int
	MaxPathNodes int // internal nodes on the longest root-to-leaf path
	OddLabels    int // labels whose bit length is not a multiple of 8
}

// UniverseDepth returns the number of internal nodes on the longest path of the
// canonical trie over all given keys. The trie of any subset is a compression
// of it, so no tree over a subset of the keys has a longer path.
func UniverseDepth(keys map[string]struct{}) int {
	m := make(map[string][]byte, len(keys))
	for k := range keys {
		m[k] = nil
	}
	return BuildRefShape(m).Stats().MaxPathNodes
}

// Stats walks the trie.
func (n *RefNode) Stats() RefStats {
	var s RefStats
	var walk func(n *RefNode, depth, nodes int)
	walk = func(n *RefNode, depth, nodes int) {
		if n == nil || n.IsLeaf() {
			return
		}
		s.Internal++
		nodes++
		if nodes > s.MaxPathNodes {
			s.MaxPathNodes = nodes
		}
		if n.Leaf != nil {
			s.WithLeaf++
			if n.Left == nil || n.Right == nil {
				s.OneChildLeaf++
			}
		}
		if n.LabelLen%8 != 0 {
			s.OddLabels++
		}
		d := depth + n.LabelLen
		if d > s.MaxDepthBits {
			s.MaxDepthBits = d
		}
		walk(n.Left, d, nodes)
		walk(n.Right, d, nodes)
	}
	walk(n, 0, 0)
	return s
}

// RemovalEffect classifies what removing key does to the canonical trie of
// contents (key must be present).
type RemovalEffect int

const (
	// RemovalPlain leaves all internal nodes in place (the parent keeps >= 2 occupants)
	// or removes the last key / a bare leaf root.
	RemovalPlain RemovalEffect = iota
	// RemovalCollapseToLeaf collapses the parent internal node into its one remaining leaf.
	RemovalCollapseToLeaf
	// RemovalCollapseMerge collapses the parent internal node into its one remaining
	// child that is itself an internal node, whose label must be merged with the parent's.
	RemovalCollapseMerge
)

// ClassifyRemoval says whether removing key from contents collapses an internal node.
func ClassifyRemoval(contents map[string][]byte, key []byte) RemovalEffect {
	return classifyRemoval(BuildRef(contents), key)
}

// ClassifyRemovalShape is ClassifyRemoval without computing any hash.
func ClassifyRemovalShape(contents map[string][]byte, key []byte) RemovalEffect {
	return classifyRemoval(BuildRefShape(contents), key)
}

func classifyRemoval(root *RefNode, key []byte) RemovalEffect {
	if root == nil || root.IsLeaf() {
		return RemovalPlain
	}
	k := string(key)
	n := root
	depth := 0
	for {
		end := depth + n.LabelLen
		var next *RefNode
		var others []*RefNode
		switch {
		case len(k)*8 == end:
			next, others = n.Leaf, []*RefNode{n.Left, n.Right}
		case len(k)*8 < end:
			return RemovalPlain // not present
		case bitAt(k, end):
			next, others = n.Right, []*RefNode{n.Leaf, n.Left}
		default:
			next, others = n.Left, []*RefNode{n.Leaf, n.Right}
		}
		if next == nil {
			return RemovalPlain // not present
		}
		if next.IsLeaf() {
			if string(next.Key) != k {
				return RemovalPlain // not present
			}
			var remaining []*RefNode
			for _, o := range others {
				if o != nil {
					remaining = append(remaining, o)
				}
			}
			if len(remaining) != 1 {
				return RemovalPlain
			}
			if remaining[0].IsLeaf() {
				return RemovalCollapseToLeaf
			}
			return RemovalCollapseMerge
		}
		n, depth = next, end
	}
}
