// Package mkvslab holds the shared helpers of the MKVS checks (C02, C03):
// adversarial key/value generators, a reference ordered map, an independent
// reference hasher for the canonical compressed Patricia trie, and node
// database helpers.
package mkvslab

import (
	"encoding/hex"
	"math/rand/v2"
	"sort"
)

// Alphabet is the adversarial byte alphabet of DESIGN.md (E2): bytes which
// differ in the first bit (7f/80), in the last bit (00/01), all-ones, and two
// ASCII letters that differ in the last two bits.
var Alphabet = []byte{0x00, 0x01, 0x7f, 0x80, 0xff, 'a', 'b'}

// MaxKeyLen is the maximum generated key length in bytes.
const MaxKeyLen = 6

// GenKey generates a fresh key (length 0..MaxKeyLen, always non-nil: the tree
// iterator uses a nil key as "invalid", so the empty key must be []byte{}).
func GenKey(rng *rand.Rand) []byte {
	var n int
	switch x := rng.IntN(20); {
	case x == 0:
		n = 0
	case x < 5:
		n = 1
	case x < 10:
		n = 2
	case x < 14:
		n = 3
	case x < 17:
		n = 4
	case x < 19:
		n = 5
	default:
		n = MaxKeyLen
	}
	k := make([]byte, n)
	for i := range k {
		k[i] = Alphabet[rng.IntN(len(Alphabet))]
	}
	return k
}

// GenKeyNear derives a key from an existing one: an extension, a proper
// prefix, a sibling differing in the last byte or a bit flip. The result is
// never longer than MaxKeyLen.
func GenKeyNear(rng *rand.Rand, base []byte) []byte {
	k := append([]byte{}, base...)
	switch rng.IntN(5) {
	case 0, 1: // extension
		if len(k) >= MaxKeyLen {
			k = k[:len(k)-1]
		}
		n := 1 + rng.IntN(2)
		for i := 0; i < n && len(k) < MaxKeyLen; i++ {
			k = append(k, Alphabet[rng.IntN(len(Alphabet))])
		}
	case 2: // proper prefix
		if len(k) > 0 {
			k = k[:rng.IntN(len(k))]
		}
	case 3: // sibling in last byte
		if len(k) > 0 {
			k[len(k)-1] = Alphabet[rng.IntN(len(Alphabet))]
		} else {
			k = append(k, Alphabet[rng.IntN(len(Alphabet))])
		}
	default: // single bit flip
		if len(k) > 0 {
			k[rng.IntN(len(k))] ^= 1 << uint(rng.IntN(8))
		} else {
			k = append(k, Alphabet[rng.IntN(len(Alphabet))])
		}
	}
	return k
}

// GenValue generates a non-nil value: length 0..3 and occasionally a large one
// (crossing small value-cache limits).
func GenValue(rng *rand.Rand) []byte {
	var n int
	switch x := rng.IntN(24); {
	case x < 4:
		n = 0
	case x < 10:
		n = 1
	case x < 16:
		n = 2
	case x < 22:
		n = 3
	case x == 22:
		n = 40 + rng.IntN(100)
	default:
		n = 300 + rng.IntN(500)
	}
	v := make([]byte, n)
	for i := range v {
		if n > 3 {
			v[i] = byte(rng.IntN(256))
		} else {
			v[i] = Alphabet[rng.IntN(len(Alphabet))]
		}
	}
	return v
}

// GenSet generates a content set with n distinct keys. With probability
// nearPct/100 a key is derived from a key already in the set.
func GenSet(rng *rand.Rand, n, nearPct int) *Model {
	m := NewModel()
	var keys [][]byte
	for tries := 0; m.Len() < n && tries < 20*n+20; tries++ {
		var k []byte
		if len(keys) > 0 && rng.IntN(100) < nearPct {
			k = GenKeyNear(rng, keys[rng.IntN(len(keys))])
		} else {
			k = GenKey(rng)
		}
		if m.Has(k) {
			continue
		}
		m.Insert(k, GenValue(rng))
		keys = append(keys, k)
	}
	return m
}

// Hex encodes b.
func Hex(b []byte) string { return hex.EncodeToString(b) }

// KV is one key/value pair in witnesses.
type KV struct {
	K string `json:"k"`
	V string `json:"v"`
}

// HexPairs returns the sorted content of a model as hex pairs (witnesses).
func HexPairs(m *Model) []KV {
	var out []KV
	for _, k := range m.Keys() {
		out = append(out, KV{hex.EncodeToString([]byte(k)), hex.EncodeToString(m.m[k])})
	}
	return out
}

// Shuffle returns a random permutation of keys.
func Shuffle(rng *rand.Rand, keys []string) []string {
	out := append([]string{}, keys...)
	rng.Shuffle(len(out), func(i, j int) { out[i], out[j] = out[j], out[i] })
	return out
}

// HasPrefixPair reports whether the sorted key list contains two keys of which
// one is a proper prefix of the other.
func HasPrefixPair(sorted []string) bool {
	// In sorted order a key is immediately followed by its extensions (if any).
	for i := 0; i+1 < len(sorted); i++ {
		a, b := sorted[i], sorted[i+1]
		if len(a) < len(b) && b[:len(a)] == a {
			return true
		}
	}
	return false
}

func sortedKeys(m map[string][]byte) []string {
	ks := make([]string, 0, len(m))
	for k := range m {
		ks = append(ks, k)
	}
	sort.Strings(ks)
	return ks
}
