package mkvslab

import (
	"sort"
)

// Model is the reference ordered map (Go map + sorted key slice built on
// demand). Values stored are never nil; a nil result means "absent".
type Model struct {
	m      map[string][]byte
	sorted []string // cache, nil when stale
}

// NewModel returns an empty model.
func NewModel() *Model { return &Model{m: map[string][]byte{}} }

// Clone returns a deep-enough copy (values are treated as immutable).
func (m *Model) Clone() *Model {
	c := &Model{m: make(map[string][]byte, len(m.m))}
	for k, v := range m.m {
		c.m[k] = v
	}
	return c
}

// Len returns the number of live keys.
func (m *Model) Len() int { return len(m.m) }

// Has reports whether key is live.
func (m *Model) Has(key []byte) bool { _, ok := m.m[string(key)]; return ok }

// Get returns the value or nil when absent.
func (m *Model) Get(key []byte) []byte { return m.m[string(key)] }

// Insert sets key to value (value must be non-nil).
func (m *Model) Insert(key, value []byte) {
	if value == nil {
		value = []byte{}
	}
	if _, ok := m.m[string(key)]; !ok {
		m.sorted = nil
	}
	m.m[string(key)] = value
}

// Remove deletes key and returns the previous value (nil when absent).
func (m *Model) Remove(key []byte) []byte {
	old, ok := m.m[string(key)]
	if ok {
		delete(m.m, string(key))
		m.sorted = nil
	}
	return old
}

// Keys returns the live keys in ascending byte order (shared slice, do not modify).
func (m *Model) Keys() []string {
	if m.sorted == nil {
		m.sorted = sortedKeys(m.m)
	}
	return m.sorted
}

// From returns the index in Keys() of the first key >= seek.
func (m *Model) From(seek []byte) int {
	ks := m.Keys()
	return sort.SearchStrings(ks, string(seek))
}

// Map exposes the underlying map (read only).
func (m *Model) Map() map[string][]byte { return m.m }

// Equal reports whether two models have the same contents.
func (m *Model) Equal(o *Model) bool {
	if len(m.m) != len(o.m) {
		return false
	}
	for k, v := range m.m {
		w, ok := o.m[k]
		if !ok || string(v) != string(w) {
			return false
		}
	}
	return true
}
