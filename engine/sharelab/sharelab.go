// Package sharelab is the C15 level-1 monitor: the real staking
// api.SharePool (Deposit / Withdraw) is driven with random and boundary
// sequences by many delegators, with harness-applied rewards and slashes, and
// every step is checked with exact math/big cross-multiplication
// (DESIGN.md "C15", level 1).
package sharelab

import (
	"crypto/sha256"
	"encoding/hex"
	"encoding/json"
	"fmt"
	"math/big"
	"math/rand/v2"
	"strings"

	"github.com/oasisprotocol/oasis-core/go/common/quantity"
	staking "github.com/oasisprotocol/oasis-core/go/staking/api"

	"verif/engine/evid"
)

// OpRec is one recorded operation (amounts as decimal strings).
type OpRec struct {
	Op     string `json:"op"` // deposit | withdraw | reward | slash
	Acct   int    `json:"acct,omitempty"`
	Amount string `json:"amount"`
}

// AcctInit is the initial state of one delegator.
type AcctInit struct {
	General string `json:"general"`
	Shares  string `json:"shares"`
}

// Witness is the replayable description of one level-1 sequence.
type Witness struct {
	Level    string     `json:"level"` // "l1"
	Kind     string     `json:"kind"`  // mixed | pump | boundary | replay
	Case     int64      `json:"case"`
	Seed     int64      `json:"seed"`
	Balance  string     `json:"balance"` // initial pool balance; TotalShares = sum of the accounts' shares
	Accounts []AcctInit `json:"accounts"`
	Attacker int        `json:"attacker"` // -1: none
	Ops      []OpRec    `json:"ops"`
	FailedAt int        `json:"failed_at"`
}

type finding struct {
	sig, what string
	at        int
}

type stats map[string]int64

type acct struct {
	general, shares quantity.Quantity
}

type lab struct {
	pool     staking.SharePool
	accts    []*acct
	in, out  []*big.Int
	rewards  *big.Int
	slashes  *big.Int
	total0   *big.Int // initial sum of general balances + pool balance
	attacker int

	w        Witness
	st       stats
	findings []finding
	inexact  bool
	holders  map[int]bool
}

func q(n *big.Int) *quantity.Quantity {
	var x quantity.Quantity
	if err := x.FromBigInt(n); err != nil {
		panic(err)
	}
	return &x
}

func bi(x *quantity.Quantity) *big.Int { return x.ToBigInt() }

func newLab(kind string, idx, seed int64, balance *big.Int, accts []AcctInit, attacker int, st stats) *lab {
	l := &lab{rewards: new(big.Int), slashes: new(big.Int), total0: new(big.Int), attacker: attacker, st: st, holders: map[int]bool{}}
	l.w = Witness{Level: "l1", Kind: kind, Case: idx, Seed: seed, Balance: balance.String(), Accounts: accts, Attacker: attacker, FailedAt: -1}
	l.pool.Balance = *q(balance)
	l.total0.Set(balance)
	ts := new(big.Int)
	for i, a := range accts {
		g, ok1 := new(big.Int).SetString(a.General, 10)
		s, ok2 := new(big.Int).SetString(a.Shares, 10)
		if !ok1 || !ok2 {
			panic("bad account init")
		}
		l.accts = append(l.accts, &acct{general: *q(g), shares: *q(s)})
		l.in = append(l.in, new(big.Int))
		l.out = append(l.out, new(big.Int))
		l.total0.Add(l.total0, g)
		ts.Add(ts, s)
		if s.Sign() > 0 {
			l.holders[i] = true
		}
	}
	l.pool.TotalShares = *q(ts)
	return l
}

func (l *lab) report(sig, what string) {
	l.findings = append(l.findings, finding{sig, what, len(l.w.Ops) - 1})
}

// value = floor(s*B/T), 0 when B or T is zero.
func value(s, b, t *big.Int) *big.Int {
	if b.Sign() == 0 || t.Sign() == 0 || s.Sign() == 0 {
		return new(big.Int)
	}
	v := new(big.Int).Mul(s, b)
	return v.Quo(v, t)
}

type snap struct {
	b, t    *big.Int
	shares  []*big.Int
	general []*big.Int
	values  []*big.Int
}

func (l *lab) snapshot() *snap {
	s := &snap{b: bi(&l.pool.Balance), t: bi(&l.pool.TotalShares)}
	for _, a := range l.accts {
		sh := bi(&a.shares)
		s.shares = append(s.shares, sh)
		s.general = append(s.general, bi(&a.general))
		s.values = append(s.values, value(sh, s.b, s.t))
	}
	return s
}

func (s *snap) equal(o *snap) bool {
	if s.b.Cmp(o.b) != 0 || s.t.Cmp(o.t) != 0 {
		return false
	}
	for i := range s.shares {
		if s.shares[i].Cmp(o.shares[i]) != 0 || s.general[i].Cmp(o.general[i]) != 0 {
			return false
		}
	}
	return true
}

func (l *lab) state(s *snap) string {
	return fmt.Sprintf("pool{balance %s, total_shares %s}", s.b, s.t)
}

// invariants checked after every operation.
func (l *lab) checkGlobal(op string, pre, post *snap, actor int) {
	// shares are claims on the pool: their sum is TotalShares
	sum := new(big.Int)
	for _, s := range post.shares {
		sum.Add(sum, s)
	}
	if sum.Cmp(post.t) != 0 {
		l.report("c15/l1/share-sum-differs-from-total-shares/"+op, fmt.Sprintf("after %s: sum of delegators' shares %s, TotalShares %s", op, sum, post.t))
	}
	// sum of redeemable values never exceeds the balance
	vs := new(big.Int)
	for _, v := range post.values {
		vs.Add(vs, v)
	}
	if vs.Cmp(post.b) > 0 {
		l.report("c15/l1/redeemable-sum-above-balance/"+op, fmt.Sprintf("after %s: sum floor(s_j*B/T) = %s > balance %s", op, vs, post.b))
	}
	// no value is created: generals + pool balance == initial + rewards - slashes
	tot := new(big.Int).Set(post.b)
	for _, g := range post.general {
		tot.Add(tot, g)
	}
	want := new(big.Int).Add(l.total0, l.rewards)
	want.Sub(want, l.slashes)
	if c := tot.Cmp(want); c != 0 {
		dir := "created"
		if c < 0 {
			dir = "destroyed"
		}
		l.report("c15/l1/value-"+dir+"/"+op, fmt.Sprintf("after %s: accounts + pool hold %s, expected %s (initial %s + rewards %s - slashes %s)", op, tot, want, l.total0, l.rewards, l.slashes))
	}
	// global conservation in the statement's form: sum out <= sum in + initial pool + rewards - slashes
	so, si := new(big.Int), new(big.Int)
	for i := range l.out {
		so.Add(so, l.out[i])
		si.Add(si, l.in[i])
	}
	lim := new(big.Int).Add(si, mustBig(l.w.Balance))
	lim.Add(lim, l.rewards)
	lim.Sub(lim, l.slashes)
	if so.Cmp(lim) > 0 {
		l.report("c15/l1/paid-out-more-than-paid-in/"+op, fmt.Sprintf("after %s: paid out %s > paid in %s + initial pool + rewards - slashes = %s", op, so, si, lim))
	}
	// other accounts' redeemable value must not fall through a deposit / redemption
	if actor >= 0 {
		for j := range l.accts {
			if j == actor {
				continue
			}
			if post.values[j].Cmp(pre.values[j]) < 0 {
				l.report("c15/l1/other-account-value-fell/"+op, fmt.Sprintf("%s by account %d: account %d holding %s shares could redeem %s before and %s after; %s -> %s", op, actor, j, pre.shares[j], pre.values[j], post.values[j], l.state(pre), l.state(post)))
				break
			}
		}
	}
	// money pump
	if l.attacker >= 0 {
		a := l.attacker
		if l.out[a].Cmp(l.in[a]) > 0 {
			l.report("c15/l1/money-pump", fmt.Sprintf("after %s: attacker (account %d) has taken out %s but put in only %s; no reward arrived, the other accounts were passive", op, a, l.out[a], l.in[a]))
		}
	}
}

func mustBig(s string) *big.Int {
	n, ok := new(big.Int).SetString(s, 10)
	if !ok {
		panic("bad number " + s)
	}
	return n
}

// apply executes one operation against the real SharePool and checks it.
func (l *lab) apply(o OpRec) {
	l.w.Ops = append(l.w.Ops, o)
	amt := mustBig(o.Amount)
	l.st["l1.op."+o.Op]++
	pre := l.snapshot()
	if pre.b.Sign() == 0 && pre.t.Sign() > 0 {
		l.st["l1.ops_on_zero_balance_with_outstanding_shares"]++
	}
	switch o.Op {
	case "reward":
		_ = l.pool.Balance.Add(q(amt))
		l.rewards.Add(l.rewards, amt)
		l.checkGlobal("reward", pre, l.snapshot(), -1)
	case "slash":
		if err := l.pool.Balance.Sub(q(amt)); err != nil {
			panic(fmt.Sprintf("harness slash %s from %s: %v", amt, pre.b, err))
		}
		l.slashes.Add(l.slashes, amt)
		if amt.Cmp(pre.b) == 0 && pre.t.Sign() > 0 && amt.Sign() > 0 {
			l.st["l1.total_slashes_with_outstanding_shares"]++
		}
		l.checkGlobal("slash", pre, l.snapshot(), -1)
	case "deposit":
		l.deposit(o, amt, pre)
	case "withdraw":
		l.withdraw(o, amt, pre)
	default:
		panic("unknown op " + o.Op)
	}
}

func (l *lab) guard(op string, f func()) (panicked bool) {
	defer func() {
		if p := recover(); p != nil {
			panicked = true
			l.report("panic/l1/"+op, fmt.Sprintf("%s panicked: %v", op, p))
		}
	}()
	f()
	return false
}

func (l *lab) deposit(o OpRec, amt *big.Int, pre *snap) {
	a := l.accts[o.Acct]
	var minted *quantity.Quantity
	var err error
	if l.guard("deposit", func() { minted, err = l.pool.Deposit(&a.shares, &a.general, q(amt)) }) {
		return
	}
	post := l.snapshot()
	if err != nil {
		l.st["l1.deposit.failed"]++
		switch {
		case pre.b.Sign() == 0 && pre.t.Sign() > 0:
			l.st["l1.deposit.failed.zero_balance_outstanding_shares"]++
		case amt.Cmp(pre.general[o.Acct]) > 0:
			l.st["l1.deposit.failed.insufficient_funds"]++
		default:
			l.st["l1.deposit.failed.other"]++
		}
		if !pre.equal(post) {
			l.report("c15/l1/failed-op-changed-state/deposit", fmt.Sprintf("Deposit(%s) by account %d failed (%v) but changed state: %s -> %s", amt, o.Acct, err, l.state(pre), l.state(post)))
		}
		return
	}
	l.st["l1.deposit.ok"]++
	s := bi(minted)
	// bookkeeping of the move
	dShares := new(big.Int).Sub(post.shares[o.Acct], pre.shares[o.Acct])
	dT := new(big.Int).Sub(post.t, pre.t)
	dB := new(big.Int).Sub(post.b, pre.b)
	dG := new(big.Int).Sub(pre.general[o.Acct], post.general[o.Acct])
	if dShares.Cmp(s) != 0 || dT.Cmp(s) != 0 {
		l.report("c15/l1/deposit-share-bookkeeping", fmt.Sprintf("Deposit(%s) returned %s shares, account got %s, TotalShares grew by %s", amt, s, dShares, dT))
	}
	if dG.Cmp(amt) != 0 || dB.Cmp(amt) != 0 {
		l.report("c15/l1/deposit-stake-bookkeeping", fmt.Sprintf("Deposit(%s): account paid %s, pool balance grew by %s", amt, dG, dB))
	}
	l.in[o.Acct].Add(l.in[o.Acct], dG)
	if post.shares[o.Acct].Sign() > 0 {
		l.holders[o.Acct] = true
	}
	// mint at most pro rata: s*B <= a*T (pre-state); bootstrap when nobody holds shares
	switch {
	case pre.t.Sign() == 0:
		l.st["l1.deposit.bootstrap_mints"]++
	case pre.b.Sign() == 0:
		// pro-rata is undefined (price zero); the implementation refuses such
		// deposits. A success cannot hurt anybody (all values are zero); the
		// other-account and conservation checks below still apply.
		l.st["l1.deposit.minted_on_zero_balance"]++
	default:
		lhs := new(big.Int).Mul(s, pre.b)
		rhs := new(big.Int).Mul(amt, pre.t)
		if lhs.Cmp(rhs) > 0 {
			l.report("c15/l1/mint-above-prorata", fmt.Sprintf("Deposit(%s) into %s minted %s shares: s*B = %s > a*T = %s", amt, l.state(pre), s, lhs, rhs))
		}
		if new(big.Int).Mod(rhs, pre.b).Sign() != 0 {
			l.inexact = true
			l.st["l1.deposit.inexact_floor"]++
		}
		if s.Sign() == 0 && amt.Sign() > 0 {
			l.st["l1.deposit.zero_share_mints"]++
		}
	}
	l.checkGlobal("deposit", pre, post, o.Acct)
}

func (l *lab) withdraw(o OpRec, amt *big.Int, pre *snap) {
	a := l.accts[o.Acct]
	var err error
	if l.guard("withdraw", func() { err = l.pool.Withdraw(&a.general, &a.shares, q(amt)) }) {
		return
	}
	post := l.snapshot()
	if err != nil {
		l.st["l1.withdraw.failed"]++
		if amt.Cmp(pre.shares[o.Acct]) > 0 {
			l.st["l1.withdraw.failed.insufficient_shares"]++
		} else {
			l.st["l1.withdraw.failed.other"]++
		}
		if !pre.equal(post) {
			l.report("c15/l1/failed-op-changed-state/withdraw", fmt.Sprintf("Withdraw(%s shares) by account %d failed (%v) but changed state: %s -> %s", amt, o.Acct, err, l.state(pre), l.state(post)))
		}
		return
	}
	l.st["l1.withdraw.ok"]++
	paid := new(big.Int).Sub(post.general[o.Acct], pre.general[o.Acct])
	dB := new(big.Int).Sub(pre.b, post.b)
	dS := new(big.Int).Sub(pre.shares[o.Acct], post.shares[o.Acct])
	dT := new(big.Int).Sub(pre.t, post.t)
	if dS.Cmp(amt) != 0 || dT.Cmp(amt) != 0 {
		l.report("c15/l1/withdraw-share-bookkeeping", fmt.Sprintf("Withdraw(%s shares): account's shares fell by %s, TotalShares by %s", amt, dS, dT))
	}
	if paid.Cmp(dB) != 0 {
		l.report("c15/l1/withdraw-stake-bookkeeping", fmt.Sprintf("Withdraw(%s shares): account received %s, pool balance fell by %s", amt, paid, dB))
	}
	if paid.Sign() > 0 {
		l.out[o.Acct].Add(l.out[o.Acct], paid)
	}
	// redemption pays at most pro rata: p*T <= s*B (pre-state)
	lhs := new(big.Int).Mul(paid, pre.t)
	rhs := new(big.Int).Mul(amt, pre.b)
	if lhs.Cmp(rhs) > 0 {
		l.report("c15/l1/redeem-above-prorata", fmt.Sprintf("Withdraw(%s shares) from %s paid %s: p*T = %s > s*B = %s", amt, l.state(pre), paid, lhs, rhs))
	}
	if pre.t.Sign() > 0 && new(big.Int).Mod(rhs, pre.t).Sign() != 0 {
		l.inexact = true
		l.st["l1.withdraw.inexact_floor"]++
	}
	if post.t.Sign() == 0 {
		l.st["l1.withdraw.emptied_pool"]++
	}
	l.checkGlobal("withdraw", pre, post, o.Acct)
}

// ---------------------------------------------------------------------------
// generation

var two128 = new(big.Int).Lsh(big.NewInt(1), 128)

// randBig returns a number of a random magnitude up to 2^maxBits, with
// boundary values (0, 1, 2^k, 2^k +- 1) over-represented.
func randBig(rng *rand.Rand, maxBits int) *big.Int {
	switch rng.IntN(12) {
	case 0:
		return new(big.Int)
	case 1:
		return big.NewInt(1)
	case 2:
		k := rng.IntN(maxBits + 1)
		n := new(big.Int).Lsh(big.NewInt(1), uint(k))
		switch rng.IntN(3) {
		case 0:
			n.Sub(n, big.NewInt(1))
		case 1:
			if k < maxBits {
				n.Add(n, big.NewInt(1))
			}
		}
		return n
	case 3:
		return big.NewInt(int64(rng.IntN(10)))
	}
	return randBits(rng, 1+rng.IntN(maxBits))
}

// randBits returns a uniformly random number below 2^bits.
func randBits(rng *rand.Rand, bits int) *big.Int {
	n := new(big.Int)
	for i := 0; i < (bits+63)/64; i++ {
		n.Lsh(n, 64)
		n.Or(n, new(big.Int).SetUint64(rng.Uint64()))
	}
	if extra := ((bits+63)/64)*64 - bits; extra > 0 {
		n.Rsh(n, uint(extra))
	}
	return n
}

// randUpTo returns a uniformly random number in [0, n].
func randUpTo(rng *rand.Rand, n *big.Int) *big.Int {
	if n.Sign() == 0 {
		return new(big.Int)
	}
	bits := n.BitLen()
	for {
		if x := randBits(rng, bits); x.Cmp(n) <= 0 {
			return x
		}
	}
}

// initState builds an initial pool state: balance and per-account shares.
func initState(rng *rand.Rand, n int, allowOrphanBalance bool) (*big.Int, []AcctInit, string) {
	accts := make([]AcctInit, n)
	for i := range accts {
		accts[i] = AcctInit{General: randBig(rng, 128).String(), Shares: "0"}
		if rng.IntN(4) == 0 {
			accts[i].General = two128.String()
		}
	}
	holders := 1 + rng.IntN(n)
	giveShares := func(maxBits int) *big.Int {
		t := new(big.Int)
		for i := 0; i < holders; i++ {
			s := randBig(rng, maxBits)
			accts[i].Shares = s.String()
			t.Add(t, s)
		}
		return t
	}
	switch k := rng.IntN(10); k {
	case 0, 1: // empty pool
		return new(big.Int), accts, "empty"
	case 2: // zero balance with outstanding shares (after a total slash)
		giveShares(128)
		return new(big.Int), accts, "zero-balance-outstanding-shares"
	case 3: // one base unit
		giveShares(1 + rng.IntN(128))
		return big.NewInt(1), accts, "one-base-unit"
	case 4: // huge balance, few shares
		giveShares(1 + rng.IntN(16))
		return new(big.Int).Sub(two128, big.NewInt(int64(rng.IntN(3)))), accts, "huge-balance-few-shares"
	case 5: // huge both
		giveShares(128)
		return randBig(rng, 128), accts, "huge"
	case 6: // price one
		t := giveShares(1 + rng.IntN(128))
		return t, accts, "price-one"
	case 7: // small numbers: rounding matters most
		giveShares(1 + rng.IntN(6))
		return big.NewInt(int64(rng.IntN(50))), accts, "small"
	default:
		t := giveShares(1 + rng.IntN(96))
		b := randBig(rng, 1+rng.IntN(128))
		if t.Sign() == 0 && b.Sign() > 0 && !allowOrphanBalance {
			b = new(big.Int)
		}
		return b, accts, "random-ratio"
	}
}

func fixOrphan(b *big.Int, accts []AcctInit, allow bool) *big.Int {
	if allow {
		return b
	}
	for _, a := range accts {
		if a.Shares != "0" {
			return b
		}
	}
	return new(big.Int)
}

// depositAmount picks a deposit amount for an account.
func depositAmount(rng *rand.Rand, l *lab, i int) *big.Int {
	g := bi(&l.accts[i].general)
	b := bi(&l.pool.Balance)
	t := bi(&l.pool.TotalShares)
	switch rng.IntN(10) {
	case 0:
		return new(big.Int)
	case 1:
		return big.NewInt(1)
	case 2:
		return g // everything
	case 3:
		return new(big.Int).Add(g, big.NewInt(1)) // more than it has
	case 4:
		// just around the price of one share: ceil(B/T) +- 1
		if t.Sign() > 0 {
			p := new(big.Int).Quo(b, t)
			p.Add(p, big.NewInt(int64(rng.IntN(3))-1))
			if p.Sign() < 0 {
				p.SetInt64(0)
			}
			return p
		}
		return randBig(rng, 64)
	case 5:
		return big.NewInt(int64(rng.IntN(100)))
	case 6, 7:
		return randUpTo(rng, g)
	default:
		return randBig(rng, 128)
	}
}

func withdrawAmount(rng *rand.Rand, l *lab, i int) *big.Int {
	s := bi(&l.accts[i].shares)
	switch rng.IntN(10) {
	case 0:
		return new(big.Int)
	case 1:
		return big.NewInt(1)
	case 2, 3:
		return s // all
	case 4:
		return new(big.Int).Add(s, big.NewInt(1)) // more than owned
	case 5:
		return big.NewInt(int64(rng.IntN(100)))
	default:
		return randUpTo(rng, s)
	}
}

func slashAmount(rng *rand.Rand, l *lab) *big.Int {
	b := bi(&l.pool.Balance)
	switch x := rng.IntN(100); {
	case x < 8:
		return b // total slash
	case x < 16:
		if b.Sign() > 0 {
			return new(big.Int).Sub(b, big.NewInt(1)) // leaves one base unit
		}
		return b
	case x < 28:
		if b.Sign() > 0 {
			return big.NewInt(1)
		}
		return b
	default:
		return randUpTo(rng, b)
	}
}

func digest(w *Witness) string {
	h := sha256.New()
	fmt.Fprintf(h, "%s|%d|", w.Balance, w.Attacker)
	for _, a := range w.Accounts {
		fmt.Fprintf(h, "%s,%s;", a.General, a.Shares)
	}
	for _, o := range w.Ops {
		fmt.Fprintf(h, "%s,%d,%s;", o.Op, o.Acct, o.Amount)
	}
	return hex.EncodeToString(h.Sum(nil)[:12])
}

func (l *lab) finish(r *evid.Run) {
	for _, f := range l.findings {
		w := l.w
		if f.at+1 <= len(w.Ops) {
			w.Ops = w.Ops[:f.at+1]
		}
		w.FailedAt = f.at
		var ops []string
		for _, o := range w.Ops {
			ops = append(ops, fmt.Sprintf("%s(acct %d, %s)", o.Op, o.Acct, o.Amount))
		}
		if len(ops) > 12 {
			ops = append([]string{"..."}, ops[len(ops)-12:]...)
		}
		r.Violation(f.sig, f.what+" || "+w.Kind+" sequence, last operations: "+strings.Join(ops, " ; "), w)
	}
	l.st["l1.sequences."+l.w.Kind]++
	if l.inexact && len(l.holders) >= 2 {
		l.st["l1.nontrivial_sequences"]++
		r.Nontrivial("l1/" + digest(&l.w))
	}
}

func runMixed(r *evid.Run, idx int64, st stats) {
	rng := r.Rand(15, 1, uint64(idx))
	n := 2 + rng.IntN(7)
	b, accts, shape := initState(rng, n, true)
	st["l1.init."+shape]++
	l := newLab("mixed", idx, r.Seed, b, accts, -1, st)
	nops := 8 + rng.IntN(33)
	for i := 0; i < nops && len(l.findings) == 0; i++ {
		a := rng.IntN(n)
		switch x := rng.IntN(100); {
		case x < 42:
			l.apply(OpRec{Op: "deposit", Acct: a, Amount: depositAmount(rng, l, a).String()})
		case x < 84:
			// prefer accounts that hold shares
			for k := 0; k < 3 && l.accts[a].shares.IsZero(); k++ {
				a = rng.IntN(n)
			}
			l.apply(OpRec{Op: "withdraw", Acct: a, Amount: withdrawAmount(rng, l, a).String()})
		case x < 92:
			if l.pool.TotalShares.IsZero() {
				continue // a reward needs somebody to receive it (see assumptions)
			}
			l.apply(OpRec{Op: "reward", Amount: randBig(rng, 1+rng.IntN(128)).String()})
		default:
			l.apply(OpRec{Op: "slash", Amount: slashAmount(rng, l).String()})
		}
	}
	l.finish(r)
	if idx < 2 {
		r.Sample(map[string]any{"level": "l1", "kind": "mixed", "case": idx, "init": shape, "balance": l.w.Balance, "accounts": len(accts), "ops": len(l.w.Ops)})
	}
}

func runPump(r *evid.Run, idx int64, st stats) {
	rng := r.Rand(15, 2, uint64(idx))
	n := 2 + rng.IntN(4)
	b, accts, shape := initState(rng, n, false)
	// the attacker is the last account and starts without shares
	att := n - 1
	accts[att].Shares = "0"
	b = fixOrphan(b, accts, false)
	st["l1.pump.init."+shape]++
	l := newLab("pump", idx, r.Seed, b, accts, att, st)
	nops := 6 + rng.IntN(30)
	for i := 0; i < nops && len(l.findings) == 0; i++ {
		switch x := rng.IntN(100); {
		case x < 48:
			l.apply(OpRec{Op: "deposit", Acct: att, Amount: depositAmount(rng, l, att).String()})
		case x < 94:
			l.apply(OpRec{Op: "withdraw", Acct: att, Amount: withdrawAmount(rng, l, att).String()})
		default:
			l.apply(OpRec{Op: "slash", Amount: slashAmount(rng, l).String()})
		}
	}
	if len(l.findings) == 0 {
		// cash out completely
		l.apply(OpRec{Op: "withdraw", Acct: att, Amount: l.accts[att].shares.ToBigInt().String()})
	}
	l.finish(r)
}

// runBoundary: small exhaustive-ish grid: pool (B,T) and amounts from a small
// set, two delegators; every pair of operations.
func runBoundary(r *evid.Run, idx int64, st stats) {
	rng := r.Rand(15, 3, uint64(idx))
	vals := []*big.Int{big.NewInt(0), big.NewInt(1), big.NewInt(2), big.NewInt(3), big.NewInt(7), big.NewInt(10),
		new(big.Int).Sub(two128, big.NewInt(1)), two128, new(big.Int).Lsh(big.NewInt(1), 64), new(big.Int).Sub(new(big.Int).Lsh(big.NewInt(1), 64), big.NewInt(1))}
	pick := func() *big.Int { return vals[rng.IntN(len(vals))] }
	s0, s1 := pick(), pick()
	b := pick()
	if s0.Sign() == 0 && s1.Sign() == 0 {
		b = new(big.Int)
	}
	accts := []AcctInit{{General: two128.String(), Shares: s0.String()}, {General: two128.String(), Shares: s1.String()}, {General: two128.String(), Shares: "0"}}
	l := newLab("boundary", idx, r.Seed, b, accts, -1, st)
	for i := 0; i < 6 && len(l.findings) == 0; i++ {
		a := rng.IntN(3)
		if rng.IntN(2) == 0 {
			l.apply(OpRec{Op: "deposit", Acct: a, Amount: pick().String()})
		} else {
			amt := pick()
			if rng.IntN(2) == 0 {
				amt = l.accts[a].shares.ToBigInt()
			}
			l.apply(OpRec{Op: "withdraw", Acct: a, Amount: amt.String()})
		}
	}
	l.finish(r)
}

func flush(r *evid.Run, st stats) {
	for k, v := range st {
		r.Count(k, v)
	}
	clear(st)
}

// RunLevel1 runs the C15 level-1 monitor and records its observations in r.
// It does not call r.Finish.
func RunLevel1(r *evid.Run) {
	r.Assume("C15 level 1: rewards are added to the pool balance and slashes subtracted from it by the harness (as AddRewards / SlashEscrow do at state level); rewards are only applied while shares are outstanding. A balance without any shares belongs to nobody; the documented bootstrap rule (shares = amount when TotalShares is zero) hands it to the first depositor, which is not counted as a violation and is excluded from the money-pump scenario.")
	r.Assume("C15 level 1: with zero balance and outstanding shares (after a total slash) the pro-rata price is undefined; the implementation refuses deposits there (ErrInvalidArgument), which is counted, not flagged. Were such a deposit to succeed, only the other-account, conservation and money-pump checks would apply.")
	r.Assume("C15 level 1: 'no more than it put in plus its share of rewards' is asserted (a) per attacker in sequences where only the attacker (starting without shares) acts and no reward arrives (slashes allowed): cumulative out <= cumulative in after every step; (b) globally: sum out <= sum in + initial pool + rewards - slashes, and accounts + pool == initial + rewards - slashes exactly. Rounding dust donated by other depositors is not held against an account.")
	r.Assume("C15 level 1: failed-op-changed-state is asserted only for failures reachable from consistent states (sum of delegators' shares == TotalShares), where the implementation fails before mutating anything; the API comment itself disclaims atomicity on error (callers discard the state).")

	nMixed := r.Pick(3000, 600000)
	nPump := r.Pick(1500, 300000)
	nBound := r.Pick(500, 100000)
	const chunk = 250
	type job struct {
		kind   int
		lo, hi int
	}
	var jobs []job
	for k, n := range []int{nMixed, nPump, nBound} {
		for lo := 0; lo < n; lo += chunk {
			jobs = append(jobs, job{k, lo, min(lo+chunk, n)})
		}
	}
	evid.Parallel(len(jobs), 0, func(j int) {
		st := stats{}
		for i := jobs[j].lo; i < jobs[j].hi; i++ {
			switch jobs[j].kind {
			case 0:
				runMixed(r, int64(i), st)
			case 1:
				runPump(r, int64(i), st)
			default:
				runBoundary(r, int64(i), st)
			}
			r.Eval(1)
		}
		flush(r, st)
	})
}

// ReplayLevel1 re-executes a level-1 witness (the "witness" object of a replay
// file). It returns false when the witness is not a level-1 one.
func ReplayLevel1(r *evid.Run, raw []byte) bool {
	var w Witness
	if err := json.Unmarshal(raw, &w); err != nil || w.Level != "l1" {
		return false
	}
	st := stats{}
	l := newLab("replay", w.Case, w.Seed, mustBig(w.Balance), w.Accounts, w.Attacker, st)
	for _, o := range w.Ops {
		l.apply(o)
	}
	r.Eval(1)
	l.finish(r)
	flush(r, st)
	return true
}
