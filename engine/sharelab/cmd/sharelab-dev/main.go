// sharelab-dev runs only the C15 level-1 monitor (development aid; run it with
// VERIF_ROOT pointing to a scratch directory so that /verif/evidence/C15.json
// is not written).
package main

import (
	"verif/engine/evid"
	"verif/engine/sharelab"
)

func main() {
	r := evid.Start("C15", "exploration")
	r.Rule = "level 1 only: random/boundary Deposit/Withdraw sequences on the real SharePool; non-trivial = some floor was inexact and >= 2 delegators held shares"
	sharelab.RunLevel1(r)
	r.Finish(50)
}
