package main

// Core-level rig: the real stateless.Core driven through its exported
// consensus-backend methods with
//   - a fake MALICIOUS provider (consensusAPI.Backend) that answers every
//     request with whatever response the enumeration has configured, and
//   - a real oasis light.Client wrapping the real CometBFT light client, fed by
//     fake CometBFT light-block providers that serve the recorded (validly
//     signed) mainnet light blocks.
//
// light.NewClient can only be constructed with a libp2p host (its providers
// are concrete P2P clients), so the light.Client value is assembled with
// reflection: a zero light.Client whose unexported `lightClient` field is set
// to a lazyClient built from (chain id, trust options, fake providers, in-memory
// trusted store). All verification code that runs afterwards is the unchanged
// code of /repo and of CometBFT.

import (
	"context"
	"fmt"
	"reflect"
	"time"
	"unsafe"

	cmtdb "github.com/cometbft/cometbft-db"
	cmtlight "github.com/cometbft/cometbft/light"
	cmtlightprovider "github.com/cometbft/cometbft/light/provider"
	cmtlightstore "github.com/cometbft/cometbft/light/store"
	cmtlightdb "github.com/cometbft/cometbft/light/store/db"
	cmttypes "github.com/cometbft/cometbft/types"

	beaconAPI "github.com/oasisprotocol/oasis-core/go/beacon/api"
	"github.com/oasisprotocol/oasis-core/go/common/pubsub"
	consensusAPI "github.com/oasisprotocol/oasis-core/go/consensus/api"
	"github.com/oasisprotocol/oasis-core/go/consensus/api/transaction"
	"github.com/oasisprotocol/oasis-core/go/consensus/cometbft/beacon"
	"github.com/oasisprotocol/oasis-core/go/consensus/cometbft/consensus"
	"github.com/oasisprotocol/oasis-core/go/consensus/cometbft/light"
	"github.com/oasisprotocol/oasis-core/go/consensus/cometbft/stateless"
	consensusGenesis "github.com/oasisprotocol/oasis-core/go/consensus/genesis"
)

// fakeLightProvider serves recorded light blocks to the CometBFT light client.
type fakeLightProvider struct {
	chainID string
	blocks  map[int64]*consensusAPI.LightBlock
	latest  int64
}

func (p *fakeLightProvider) ChainID() string { return p.chainID }

func (p *fakeLightProvider) LightBlock(ctx context.Context, height int64) (*cmttypes.LightBlock, error) {
	lb, _, err := p.LightBlockWithPeerID(ctx, height)
	return lb, err
}

func (p *fakeLightProvider) LightBlockWithPeerID(_ context.Context, height int64) (*cmttypes.LightBlock, string, error) {
	if height == 0 {
		height = p.latest
	}
	if height > p.latest {
		return nil, "", cmtlightprovider.ErrHeightTooHigh
	}
	clb, ok := p.blocks[height]
	if !ok {
		return nil, "", cmtlightprovider.ErrLightBlockNotFound
	}
	// A fresh decode per request: nothing is shared with the caller.
	lb, err := light.DecodeLightBlock(clb)
	if err != nil {
		return nil, "", cmtlightprovider.ErrBadLightBlock{Reason: err}
	}
	return lb, "fake", nil
}

func (p *fakeLightProvider) ReportEvidence(context.Context, cmttypes.Evidence) error { return nil }
func (p *fakeLightProvider) MalevolentProvider(string)                               {}

// setField sets a (possibly unexported) struct field.
func setField(structVal reflect.Value, name string, v any) error {
	f := structVal.FieldByName(name)
	if !f.IsValid() {
		return fmt.Errorf("no field %q", name)
	}
	dst := reflect.NewAt(f.Type(), unsafe.Pointer(f.UnsafeAddr())).Elem()
	val := reflect.ValueOf(v)
	if !val.Type().AssignableTo(f.Type()) {
		return fmt.Errorf("field %q: %s not assignable to %s", name, val.Type(), f.Type())
	}
	dst.Set(val)
	return nil
}

// newLightClient assembles a real light.Client on top of fake providers.
func newLightClient(chainID string, trust cmtlight.TrustOptions, primary cmtlightprovider.Provider, witnesses []cmtlightprovider.Provider) (lc *light.Client, err error) {
	defer func() {
		if p := recover(); p != nil {
			err = fmt.Errorf("reflection assembly of light.Client failed: %v", p)
		}
	}()
	lc = new(light.Client)
	cv := reflect.ValueOf(lc).Elem()
	f := cv.FieldByName("lightClient")
	if !f.IsValid() || f.Kind() != reflect.Ptr {
		return nil, fmt.Errorf("light.Client has no pointer field lightClient")
	}
	lz := reflect.New(f.Type().Elem())
	var store cmtlightstore.Store = cmtlightdb.New(cmtdb.NewMemDB(), "")
	for _, kv := range []struct {
		n string
		v any
	}{
		{"chainID", chainID},
		{"trustOptions", trust},
		{"primary", primary},
		{"witnesses", witnesses},
		{"trustedStore", store},
		{"options", []cmtlight.Option{cmtlight.MaxRetryAttempts(1)}},
	} {
		if err := setField(lz.Elem(), kv.n, kv.v); err != nil {
			return nil, err
		}
	}
	reflect.NewAt(f.Type(), unsafe.Pointer(f.UnsafeAddr())).Elem().Set(lz)
	return lc, nil
}

// fakeBackend is the untrusted provider: it answers with the configured
// responses whatever height is requested. Methods that are not overridden
// panic (nil embedded interface), which the per-case recover reports.
type fakeBackend struct {
	consensusAPI.Backend

	latest int64
	blk    *consensusAPI.Block
	txs    [][]byte
	res    *consensusAPI.BlockResults
	vals   *consensusAPI.Validators
	params *consensusAPI.Parameters
	proof  *transaction.Proof

	// latestScript, when set, is consumed one value per GetLatestHeight call (the last value
	// sticks): a provider whose tip moves between two calls of one request.
	latestScript []int64
	// perHeight, when set, makes GetTransactions / GetBlockResults answer for the height that
	// is asked (an honest provider with the whole chain), instead of the fixed txs / res.
	perHeight func(h int64) ([][]byte, *consensusAPI.BlockResults)
	// blkAt, when set, makes GetBlock answer for the height that is asked (safe for concurrent callers).
	blkAt func(h int64) *consensusAPI.Block

	// watchCh feeds Core.Serve (WatchBlocks of the provider).
	watchCh chan *consensusAPI.Block

	calls map[string]int
}

type noopSub struct{}

func (noopSub) Close() {}

// WatchBlocks hands the Core the harness-owned block channel.
func (b *fakeBackend) WatchBlocks(context.Context) (<-chan *consensusAPI.Block, pubsub.ClosableSubscription, error) {
	b.calls["WatchBlocks"]++
	return b.watchCh, noopSub{}, nil
}

var errNoResponse = fmt.Errorf("fake provider: no response configured")

func (b *fakeBackend) GetLatestHeight(context.Context) (int64, error) {
	b.calls["GetLatestHeight"]++
	if len(b.latestScript) > 0 {
		v := b.latestScript[0]
		if len(b.latestScript) > 1 {
			b.latestScript = b.latestScript[1:]
		}
		return v, nil
	}
	return b.latest, nil
}

func (b *fakeBackend) GetBlock(_ context.Context, h int64) (*consensusAPI.Block, error) {
	if f := b.blkAt; f != nil {
		if blk := f(h); blk != nil {
			return blk, nil
		}
		return nil, errNoResponse
	}
	b.calls["GetBlock"]++
	if b.blk == nil {
		return nil, errNoResponse
	}
	return b.blk, nil
}

func (b *fakeBackend) GetTransactions(_ context.Context, h int64) ([][]byte, error) {
	b.calls["GetTransactions"]++
	if b.perHeight != nil {
		txs, _ := b.perHeight(h)
		return txs, nil
	}
	return b.txs, nil
}

func (b *fakeBackend) GetBlockResults(_ context.Context, h int64) (*consensusAPI.BlockResults, error) {
	b.calls["GetBlockResults"]++
	if b.perHeight != nil {
		if _, res := b.perHeight(h); res != nil {
			return res, nil
		}
		return nil, errNoResponse
	}
	if b.res == nil {
		return nil, errNoResponse
	}
	return b.res, nil
}

func (b *fakeBackend) GetValidators(context.Context, int64) (*consensusAPI.Validators, error) {
	b.calls["GetValidators"]++
	if b.vals == nil {
		return nil, errNoResponse
	}
	return b.vals, nil
}

func (b *fakeBackend) GetParameters(context.Context, int64) (*consensusAPI.Parameters, error) {
	b.calls["GetParameters"]++
	if b.params == nil {
		return nil, errNoResponse
	}
	return b.params, nil
}

func (b *fakeBackend) SubmitTxWithProof(context.Context, *transaction.SignedTransaction) (*transaction.Proof, error) {
	b.calls["SubmitTxWithProof"]++
	if b.proof == nil {
		return nil, errNoResponse
	}
	return b.proof, nil
}

// fakeQueryFactory stands for the (light-client verified) consensus state
// querier of the stateless node: it returns the trusted consensus parameters.
type fakeQueryFactory struct {
	params *consensusGenesis.Parameters
	// byHeight, if set, gives the verified state's parameters per height (the
	// Oasis consensus parameters live in state and change between heights).
	byHeight func(height int64) *consensusGenesis.Parameters
}

type fakeQuery struct {
	params *consensusGenesis.Parameters
}

func (f *fakeQueryFactory) QueryAt(_ context.Context, height int64) (consensus.Query, error) {
	if f.byHeight != nil {
		p := f.byHeight(height)
		if p == nil {
			return nil, fmt.Errorf("fake state: no parameters at height %d", height)
		}
		return &fakeQuery{params: p}, nil
	}
	return &fakeQuery{params: f.params}, nil
}

// fakeBeacon is the beacon querier needed by Core.GetStatus.
type fakeBeaconFactory struct{}

type fakeBeaconQuery struct{ beacon.Query }

func (fakeBeaconFactory) QueryAt(context.Context, int64) (beacon.Query, error) {
	return fakeBeaconQuery{}, nil
}

func (fakeBeaconQuery) Epoch(context.Context) (beaconAPI.EpochTime, int64, error) { return 7, 1, nil }

func (q *fakeQuery) ChainContext(context.Context) (string, error) { return "", nil }
func (q *fakeQuery) ConsensusParameters(context.Context) (*consensusGenesis.Parameters, error) {
	cp := *q.params
	return &cp, nil
}

// rig is one Core with its own fake provider and light client (one per worker,
// so that the light client mutex does not serialize the enumeration).
type rig struct {
	fb   *fakeBackend
	lc   *light.Client
	core *stateless.Core
}

// rigSpec says which recorded light blocks the fake light providers serve.
type rigSpec struct {
	chainID string
	blocks  map[int64]*consensusAPI.LightBlock
	latest  int64
	trustH  int64
	trustID []byte
	trusted *consensusGenesis.Parameters
	// paramsAt, if set, replaces trusted: parameters of the verified state per height.
	paramsAt func(height int64) *consensusGenesis.Parameters
}

func newRig(spec rigSpec) (*rig, error) {
	mk := func() cmtlightprovider.Provider {
		return &fakeLightProvider{chainID: spec.chainID, blocks: spec.blocks, latest: spec.latest}
	}
	trust := cmtlight.TrustOptions{
		// The recorded blocks are from 2025; the trusting period only bounds the
		// age of the trust root relative to the wall clock and plays no role in C19.
		Period: 200 * 365 * 24 * time.Hour,
		Height: spec.trustH,
		Hash:   spec.trustID,
	}
	lc, err := newLightClient(spec.chainID, trust, mk(), []cmtlightprovider.Provider{mk(), mk()})
	if err != nil {
		return nil, err
	}
	fb := &fakeBackend{latest: spec.latest, calls: map[string]int{}, watchCh: make(chan *consensusAPI.Block, 1)}
	core := stateless.NewCore(fb, lc, stateless.Config{ChainContext: "verif"})
	core.SetQueriers(fakeBeaconFactory{}, &fakeQueryFactory{params: spec.trusted, byHeight: spec.paramsAt}, nil)
	return &rig{fb: fb, lc: lc, core: core}, nil
}

// freshCore returns a new Core (empty state-root / results-hash caches) on the
// same provider and light client.
func (r *rig) freshCore(trusted *consensusGenesis.Parameters) *stateless.Core {
	core := stateless.NewCore(r.fb, r.lc, stateless.Config{ChainContext: "verif"})
	core.SetQueriers(nil, &fakeQueryFactory{params: trusted}, nil)
	return core
}
