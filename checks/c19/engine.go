package main

import (
	"context"
	"encoding/hex"
	"fmt"
	"runtime"
	"runtime/debug"
	"strings"
	"sync"

	"verif/engine/evid"
)

type checker struct {
	r   *evid.Run
	s   *samples
	ctx context.Context

	// Core-level rigs (nil channel: Core level not available).
	rigsA chan *rig // light client knows 25300000 and 25300001
	rigsB chan *rig // light client knows 25300000 only (latest-height paths)
	core  bool

	onlyPhase string

	mu       sync.Mutex
	neutral  map[string]int64 // accepted, decodes identically: kind/region/mutation -> count
	unbound  map[string]int64 // accepted, differs only outside the normal form: kind/component (region) -> count
	rejected map[string]int64 // kind/region -> count
	reasons  map[string]map[string]int64
	sampled  map[string]bool
}

// verdict describes how one (possibly altered) response fared.
type verdict struct {
	kind  string // block | txs | results | validators | parameters
	field string // field / byte-region class that was altered ("" for the honest response)
	mut   string // mutation kind
	level string // export | core
	sigOf func(boundDiff string) string
}

func hexs(b []byte) string {
	if len(b) > 96 {
		return hex.EncodeToString(b[:96]) + fmt.Sprintf("...(%d bytes)", len(b))
	}
	return hex.EncodeToString(b)
}

func errClass(err error) string {
	if err == nil {
		return "<nil>"
	}
	s := err.Error()
	if i := strings.Index(s, ":"); i > 0 {
		s = s[:i]
	}
	if len(s) > 60 {
		s = s[:60]
	}
	// Numbers out: one class per message shape.
	out := make([]byte, 0, len(s))
	for i := 0; i < len(s); i++ {
		if s[i] >= '0' && s[i] <= '9' {
			if len(out) == 0 || out[len(out)-1] != 'N' {
				out = append(out, 'N')
			}
			continue
		}
		out = append(out, s[i])
	}
	return string(out)
}

// panicSite extracts the function in which the panic was raised (the frame
// right below runtime's panic) from a stack dump.
func panicSite(stack string) string {
	lines := strings.Split(stack, "\n")
	for i, l := range lines {
		if strings.HasPrefix(l, "panic(") {
			for j := i + 2; j < len(lines); j += 2 {
				fn := lines[j]
				if strings.HasPrefix(fn, "runtime.") {
					continue
				}
				if k := strings.LastIndex(fn, "("); k > 0 {
					fn = fn[:k]
				}
				if k := strings.LastIndex(fn, "/"); k >= 0 {
					fn = fn[k+1:]
				}
				return fn
			}
		}
	}
	return "unknown-site"
}

// guard runs f and converts a panic of the code under test into a violation.
func (c *checker) guard(where string, witness func() any, f func()) (panicked bool) {
	defer func() {
		if p := recover(); p != nil {
			panicked = true
			stack := string(debug.Stack())
			c.r.Violation("panic/"+where+"/"+panicSite(stack), fmt.Sprintf("panic in %s: %v", where, p),
				map[string]any{"seed": c.r.Seed, "tier": c.r.Tier, "where": where, "case": witness(), "panic": fmt.Sprint(p), "stack": stack})
		}
	}()
	f()
	return false
}

// judgeAltered applies the oracle to one altered response.
//
//	accepted  – the verification entry point returned nil
//	cmp       – compares normal forms (see normal.go); only called if accepted
func (c *checker) judgeAltered(v verdict, accepted bool, verr error, cmp func() (string, string, error), witness func() any) {
	c.r.Eval(1)
	c.r.Nontrivial(v.kind + "/" + v.field + "/" + v.mut)
	c.r.Count("cases/"+v.kind+"/"+v.level, 1)
	if v.kind != "state-root" {
		c.mu.Lock()
		first := !c.sampled[v.kind]
		c.sampled[v.kind] = true
		c.mu.Unlock()
		if first {
			c.r.Sample(map[string]any{"kind": v.kind, "altered": v.field, "mutation": v.mut, "level": v.level, "accepted": accepted, "error": fmt.Sprint(verr), "case": witness()})
		}
	}
	if !accepted {
		c.mu.Lock()
		c.rejected[v.kind+"/"+v.field]++
		m := c.reasons[v.kind]
		if m == nil {
			m = map[string]int64{}
			c.reasons[v.kind] = m
		}
		m[errClass(verr)]++
		c.mu.Unlock()
		return
	}
	bound, unb, derr := func() (b, u string, e error) {
		defer func() {
			if p := recover(); p != nil {
				// The checker's own decoding failed on an accepted response.
				b, u, e = "checker-decode-panic", "", fmt.Errorf("checker panic: %v", p)
			}
		}()
		return cmp()
	}()
	switch {
	case derr != nil && bound == "":
		// The original could not be decoded: a harness defect, not a verdict.
		c.r.Inconclusive("harness: %s/%s/%s: %v", v.kind, v.field, v.mut, derr)
	case bound != "":
		what := fmt.Sprintf("%s-level verification accepted a %s response altered in %q (mutation %s of %s); differing bound component: %s", v.level, v.kind, v.field, v.mut, v.field, bound)
		if derr != nil {
			what += "; checker decode error: " + derr.Error()
		}
		c.r.Violation(v.sigOf(bound), what, map[string]any{
			"seed": c.r.Seed, "tier": c.r.Tier, "kind": v.kind, "field": v.field, "mutation": v.mut, "level": v.level,
			"bound_component_differs": bound, "case": witness(),
		})
	case unb == "":
		c.mu.Lock()
		c.neutral[v.kind+"/"+v.field+"/"+v.mut]++
		c.mu.Unlock()
	default:
		c.mu.Lock()
		c.unbound[v.kind+"/"+unb+" (via "+v.field+")"]++
		c.mu.Unlock()
	}
}

// judgeHonest: an unaltered response must be accepted.
func (c *checker) judgeHonest(kind, level, what string, err error, witness func() any) {
	c.r.Eval(1)
	c.r.Nontrivial(kind + "/honest/" + level + "/" + what)
	c.r.Count("honest/"+kind+"/"+level, 1)
	if err != nil {
		c.r.Violation("c19/honest-response-rejected/"+kind, fmt.Sprintf("%s-level verification rejected the unaltered %s response (%s): %v", level, kind, what, err),
			map[string]any{"seed": c.r.Seed, "tier": c.r.Tier, "kind": kind, "level": level, "what": what, "error": err.Error(), "case": witness()})
	}
}

// ---- byte-level mutation enumeration -----------------------------------

type byteCase struct {
	off  int
	mut  string // bitflip | set | incdec | rand | delete | insert | truncate
	desc string
	data []byte // the mutated blob; only valid during the callback
}

// forEachByteMutant enumerates, for every offset of data, the tier's set of
// single-byte alterations (in parallel over offsets). f must not retain c.data.
func (c *checker) forEachByteMutant(stream uint64, data []byte, f func(bc byteCase)) {
	c.forEachByteMutantSel(stream, data, nil, f)
}

// forEachByteMutantSel is forEachByteMutant restricted to the offsets for which
// sel returns true (nil: all offsets).
func (c *checker) forEachByteMutantSel(stream uint64, data []byte, sel func(off int) bool, f func(bc byteCase)) {
	thorough := !c.r.Quick()
	n := len(data)
	stride := 5
	phase := int(uint64(c.r.Seed) % uint64(stride))
	chunk := 64
	nchunks := (n + chunk - 1) / chunk
	evid.Parallel(nchunks, 0, func(ci int) {
		buf := make([]byte, n)
		for off := ci * chunk; off < (ci+1)*chunk && off < n; off++ {
			if sel != nil && !sel(off) {
				continue
			}
			copy(buf, data)
			rng := c.r.Rand(stream, uint64(off))
			orig := data[off]
			emit := func(mut string, val byte) {
				if val == orig {
					return
				}
				buf[off] = val
				f(byteCase{off: off, mut: mut, desc: fmt.Sprintf("byte %d: %02x->%02x", off, orig, val), data: buf})
				buf[off] = orig
			}
			seen := map[byte]bool{}
			once := func(mut string, val byte) {
				if seen[val] {
					return
				}
				seen[val] = true
				emit(mut, val)
			}
			if thorough {
				for b := 0; b < 8; b++ {
					once("bitflip", orig^(1<<b))
				}
				once("set", 0x00)
				once("set", 0xff)
				once("incdec", orig+1)
				once("incdec", orig-1)
				once("rand", byte(rng.UintN(256)))
				once("rand", byte(rng.UintN(256)))
			} else {
				once("bitflip", orig^0x01)
				once("bitflip", orig^(1<<(1+rng.UintN(7))))
				once("rand", byte(rng.UintN(256)))
			}
			if thorough || off%stride == phase {
				// Length-changing alterations.
				del := append(append(make([]byte, 0, n), data[:off]...), data[off+1:]...)
				f(byteCase{off: off, mut: "delete", desc: fmt.Sprintf("delete byte %d", off), data: del})
				nb := byte(rng.UintN(256))
				ins := append(append(append(make([]byte, 0, n+1), data[:off]...), nb), data[off:]...)
				f(byteCase{off: off, mut: "insert", desc: fmt.Sprintf("insert %02x before byte %d", nb, off), data: ins})
				f(byteCase{off: off, mut: "truncate", desc: fmt.Sprintf("truncate to %d bytes", off), data: append([]byte(nil), data[:off]...)})
			}
		}
	})
	c.forEachItemSubst(stream, data, f)
}

func clone(b []byte) []byte { return append([]byte(nil), b...) }

// cborSpans returns the [start,end) spans of every data item of a well-formed,
// definite-length CBOR encoding (nested items included); nil when data is not one.
func cborSpans(data []byte) [][2]int {
	var spans [][2]int
	var item func(off, depth int) int
	item = func(off, depth int) int {
		if off < 0 || off >= len(data) || depth > 64 {
			return -1
		}
		start := off
		ib := data[off]
		major, ai := ib>>5, ib&0x1f
		off++
		var val uint64
		switch {
		case ai < 24:
			val = uint64(ai)
		case ai >= 24 && ai <= 27:
			n := 1 << (ai - 24)
			if off+n > len(data) {
				return -1
			}
			for i := 0; i < n; i++ {
				val = val<<8 | uint64(data[off+i])
			}
			off += n
		default:
			return -1 // indefinite lengths / reserved: not produced by the code under test
		}
		switch major {
		case 2, 3:
			if val > uint64(len(data)-off) {
				return -1
			}
			off += int(val)
		case 4, 5:
			cnt := val
			if major == 5 {
				cnt *= 2
			}
			if cnt > uint64(len(data)) {
				return -1
			}
			for i := uint64(0); i < cnt; i++ {
				if off = item(off, depth+1); off < 0 {
					return -1
				}
			}
		case 6:
			if off = item(off, depth+1); off < 0 {
				return -1
			}
		}
		spans = append(spans, [2]int{start, off})
		return off
	}
	if end := item(0, 0); end != len(data) {
		return nil
	}
	return spans
}

// forEachItemSubst replaces whole CBOR data items (list entries, map values, nested
// structures) by null / empty containers / zero: the alterations that turn a pointer-typed
// field or a slice entry into nil on the Go side, which no single-byte change produces.
func (c *checker) forEachItemSubst(stream uint64, data []byte, f func(bc byteCase)) {
	spans := cborSpans(data)
	if len(spans) < 2 {
		return
	}
	reps := []struct {
		name string
		b    []byte
	}{{"item-null", []byte{0xf6}}, {"item-empty-map", []byte{0xa0}}, {"item-empty-list", []byte{0x80}}, {"item-zero", []byte{0x00}}, {"item-empty-bytes", []byte{0x40}}}
	stride := 1
	if c.r.Quick() && len(spans) > 400 {
		stride = len(spans)/400 + 1
	}
	phase := int(uint64(c.r.Seed) % uint64(stride))
	evid.Parallel(len(spans), 0, func(i int) {
		sp := spans[i]
		if i%stride != phase || (sp[0] == 0 && sp[1] == len(data)) {
			return
		}
		for _, rp := range reps {
			if sp[1]-sp[0] == len(rp.b) && data[sp[0]] == rp.b[0] {
				continue
			}
			out := append(append(append(make([]byte, 0, len(data)), data[:sp[0]]...), rp.b...), data[sp[1]:]...)
			f(byteCase{off: sp[0], mut: rp.name, desc: fmt.Sprintf("item at bytes [%d,%d) replaced by %x", sp[0], sp[1], rp.b), data: out})
		}
	})
	_ = stream
}

func cloneTxs(txs [][]byte) [][]byte {
	out := make([][]byte, len(txs))
	for i := range txs {
		out[i] = clone(txs[i])
	}
	return out
}

func numWorkers() int { return runtime.NumCPU() }

// withRig borrows a Core-level rig.
func withRig(ch chan *rig, f func(*rig)) {
	rg := <-ch
	defer func() { ch <- rg }()
	f(rg)
}
