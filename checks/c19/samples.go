package main

// Samples: the recorded mainnet block 25300000 / light blocks 25300000 and
// 25300001 (read from /repo at run time), responses derived from them, and
// synthetic blocks built from random headers, commits and transaction lists.

import (
	"bytes"
	"encoding/json"
	"fmt"
	"math/rand/v2"
	"os"
	"path/filepath"
	"time"

	"github.com/cometbft/cometbft/crypto/ed25519"
	cmtproto "github.com/cometbft/cometbft/proto/tendermint/types"
	cmtversion "github.com/cometbft/cometbft/proto/tendermint/version"
	cmttypes "github.com/cometbft/cometbft/types"

	"github.com/oasisprotocol/oasis-core/go/common/quantity"
	consensusAPI "github.com/oasisprotocol/oasis-core/go/consensus/api"
	"github.com/oasisprotocol/oasis-core/go/consensus/api/transaction"
	cmtapi "github.com/oasisprotocol/oasis-core/go/consensus/cometbft/api"
	"github.com/oasisprotocol/oasis-core/go/consensus/cometbft/light"
	consensusGenesis "github.com/oasisprotocol/oasis-core/go/consensus/genesis"
)

var _ = quantity.NewQuantity

var testdataDir = func() string {
	if d := os.Getenv("VERIF_C19_TESTDATA"); d != "" {
		return d
	}
	return "/repo/go/consensus/cometbft/stateless/testdata"
}()

type samples struct {
	clb, clb2 *consensusAPI.LightBlock
	lb, lb2   *cmttypes.LightBlock
	blk       *consensusAPI.Block // recorded block 25300000
	blk2      *consensusAPI.Block // block 25300001 rebuilt from lb2's header and lb's commit (nil if they do not match)
	res       *consensusAPI.BlockResults
	txs       [][]byte
	vals1     *consensusAPI.Validators // validators of 25300001 (bound by lb.NextValidatorsHash)
	vals2     *consensusAPI.Validators // validators of 25300002 (bound by lb2.NextValidatorsHash), nil if the set changed
	params    *consensusAPI.Parameters // parameters at 25300000: Meta reconstructed so that it matches the recorded ConsensusHash
	trusted   *consensusGenesis.Parameters
}

func loadJSON(name string, v any) error {
	b, err := os.ReadFile(filepath.Join(testdataDir, name))
	if err != nil {
		return err
	}
	return json.Unmarshal(b, v)
}

func loadSamples() (*samples, error) {
	s := &samples{clb: &consensusAPI.LightBlock{}, clb2: &consensusAPI.LightBlock{}, blk: &consensusAPI.Block{}, res: &consensusAPI.BlockResults{}}
	for _, l := range []struct {
		n string
		v any
	}{
		{"light_block_25300000.json", s.clb},
		{"light_block_25300001.json", s.clb2},
		{"block_25300000.json", s.blk},
		{"results_25300000.json", s.res},
		{"txs_25300000.json", &s.txs},
	} {
		if err := loadJSON(l.n, l.v); err != nil {
			return nil, fmt.Errorf("%s: %w", l.n, err)
		}
	}
	var err error
	if s.lb, err = light.DecodeLightBlock(s.clb); err != nil {
		return nil, err
	}
	if s.lb2, err = light.DecodeLightBlock(s.clb2); err != nil {
		return nil, err
	}
	if s.lb2.Height != s.lb.Height+1 {
		return nil, fmt.Errorf("recorded light blocks are not adjacent")
	}
	// Block 25300001: header of lb2, last commit = the commit of 25300000 served
	// with lb (usable only if it is the canonical one, i.e. has the bound hash).
	if bytes.Equal(s.lb.Commit.Hash(), s.lb2.LastCommitHash) {
		b2, err := cmtapi.NewBlock(&cmttypes.Block{Header: *s.lb2.Header, LastCommit: s.lb.Commit})
		if err == nil {
			s.blk2 = b2
		}
	}
	if s.vals1, err = light.EncodeValidators(s.lb2.ValidatorSet, s.lb2.Height); err != nil {
		return nil, err
	}
	if bytes.Equal(s.lb2.NextValidatorsHash, s.lb2.ValidatorsHash) {
		if s.vals2, err = light.EncodeValidators(s.lb2.ValidatorSet, s.lb2.Height+1); err != nil {
			return nil, err
		}
	}
	// Parameters: no recorded sample exists. The header binds
	// hash(HashedParams{BlockMaxBytes, BlockMaxGas}); search the mainnet values.
	s.trusted = &consensusGenesis.Parameters{
		TimeoutCommit:            5 * time.Second,
		SkipTimeoutCommit:        false,
		EmptyBlockInterval:       0,
		MaxTxSize:                32768,
		MaxBlockSize:             1048576,
		MaxBlockGas:              0,
		MaxEvidenceSize:          51200,
		MinGasPrice:              0,
		StateCheckpointInterval:  100000,
		StateCheckpointNumKept:   2,
		StateCheckpointChunkSize: 8388608,
		GasCosts:                 transaction.Costs{consensusGenesis.GasOpTxByte: 1},
	}
	for _, mb := range []int64{1048576, 22020096, 2097152, 4194304, 524288, 104857600} {
		for _, mg := range []int64{-1, 0, 1000000, 5000000} {
			cp := cmttypes.ConsensusParams{
				Block:     cmttypes.BlockParams{MaxBytes: mb, MaxGas: mg},
				Evidence:  cmttypes.EvidenceParams{MaxAgeNumBlocks: 336 * 600, MaxAgeDuration: 336 * 600 * 6 * time.Second, MaxBytes: 51200},
				Validator: cmttypes.ValidatorParams{PubKeyTypes: []string{cmttypes.ABCIPubKeyTypeEd25519}},
				Version:   cmttypes.VersionParams{App: 7},
			}
			if !bytes.Equal(cp.Hash(), s.lb.ConsensusHash) {
				continue
			}
			pb := cp.ToProto()
			meta, err := pb.Marshal()
			if err != nil {
				return nil, err
			}
			tp := *s.trusted
			tp.MaxBlockSize = uint64(mb)
			if mg > 0 {
				tp.MaxBlockGas = transaction.Gas(mg)
			}
			s.trusted = &tp
			s.params = &consensusAPI.Parameters{Height: s.lb.Height, Parameters: tp, Meta: meta}
		}
	}
	if s.params == nil {
		return nil, fmt.Errorf("no consensus parameters found that match the recorded ConsensusHash")
	}
	return s, nil
}

// ---- synthetic material -------------------------------------------------

func rbytes(rng *rand.Rand, n int) []byte {
	b := make([]byte, n)
	for i := range b {
		b[i] = byte(rng.UintN(256))
	}
	return b
}

func synthTxs(rng *rand.Rand, n int) [][]byte {
	txs := make([][]byte, n)
	for i := range txs {
		var l int
		switch rng.IntN(6) {
		case 0:
			l = 0
		case 1:
			l = 1
		case 2:
			l = 32 // same length as a hash: leaf/inner-node confusion candidates
		default:
			l = rng.IntN(201)
		}
		txs[i] = rbytes(rng, l)
	}
	// Occasionally a duplicate transaction (same bytes at two indexes).
	if n >= 2 && rng.IntN(4) == 0 {
		txs[rng.IntN(n)] = append([]byte(nil), txs[rng.IntN(n)]...)
	}
	return txs
}

func synthBlockID(rng *rand.Rand) cmttypes.BlockID {
	return cmttypes.BlockID{Hash: rbytes(rng, 32), PartSetHeader: cmttypes.PartSetHeader{Total: uint32(1 + rng.IntN(4)), Hash: rbytes(rng, 32)}}
}

func synthTime(rng *rand.Rand) time.Time {
	return time.Unix(1_600_000_000+rng.Int64N(200_000_000), rng.Int64N(1_000_000_000)).UTC()
}

func synthCommit(rng *rand.Rand, height int64) *cmttypes.Commit {
	n := 1 + rng.IntN(6)
	c := &cmttypes.Commit{Height: height, Round: int32(rng.IntN(3)), BlockID: synthBlockID(rng)}
	for i := 0; i < n; i++ {
		switch rng.IntN(5) {
		case 0:
			c.Signatures = append(c.Signatures, cmttypes.NewCommitSigAbsent())
		case 1:
			c.Signatures = append(c.Signatures, cmttypes.CommitSig{BlockIDFlag: cmttypes.BlockIDFlagNil, ValidatorAddress: rbytes(rng, 20), Timestamp: synthTime(rng), Signature: rbytes(rng, 64)})
		default:
			c.Signatures = append(c.Signatures, cmttypes.CommitSig{BlockIDFlag: cmttypes.BlockIDFlagCommit, ValidatorAddress: rbytes(rng, 20), Timestamp: synthTime(rng), Signature: rbytes(rng, 64)})
		}
	}
	return c
}

// synthValidatorSet builds a validator set of n validators with keys derived
// from the PRNG.
func synthValidatorSet(rng *rand.Rand, n int) *cmttypes.ValidatorSet {
	vals := make([]*cmttypes.Validator, n)
	for i := range vals {
		pk := ed25519.GenPrivKeyFromSecret(rbytes(rng, 32)).PubKey()
		vals[i] = cmttypes.NewValidator(pk, 1+rng.Int64N(1_000_000))
	}
	return cmttypes.NewValidatorSet(vals)
}

// synthBlock is a synthetic (block, light block, transaction list) triple.
type synthBlock struct {
	blk  *consensusAPI.Block
	lb   *cmttypes.LightBlock
	txs  [][]byte
	next *cmttypes.ValidatorSet
}

func synthBlockWith(rng *rand.Rand, txs [][]byte) (*synthBlock, error) {
	height := 2 + rng.Int64N(1_000_000_000)
	commit := synthCommit(rng, height-1)
	var data cmttypes.Data
	for _, tx := range txs {
		data.Txs = append(data.Txs, tx)
	}
	next := synthValidatorSet(rng, 1+rng.IntN(5))
	h := cmttypes.Header{
		Version:            cmtversion.Consensus{Block: 11, App: uint64(rng.IntN(10))},
		ChainID:            fmt.Sprintf("synth-%d", rng.IntN(1000)),
		Height:             height,
		Time:               synthTime(rng),
		LastBlockID:        synthBlockID(rng),
		LastCommitHash:     commit.Hash(),
		DataHash:           data.Hash(),
		ValidatorsHash:     rbytes(rng, 32),
		NextValidatorsHash: next.Hash(),
		ConsensusHash:      rbytes(rng, 32),
		AppHash:            rbytes(rng, 32),
		LastResultsHash:    rbytes(rng, 32),
		EvidenceHash:       rbytes(rng, 32),
		ProposerAddress:    rbytes(rng, 20),
	}
	blk, err := cmtapi.NewBlock(&cmttypes.Block{Header: h, Data: data, LastCommit: commit})
	if err != nil {
		return nil, err
	}
	hc := h
	lb := &cmttypes.LightBlock{SignedHeader: &cmttypes.SignedHeader{Header: &hc, Commit: &cmttypes.Commit{Height: height, BlockID: cmttypes.BlockID{Hash: hc.Hash()}}}}
	return &synthBlock{blk: blk, lb: lb, txs: txs, next: next}, nil
}

var _ = cmtproto.Header{}
