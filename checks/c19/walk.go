package main

// Byte-region labelling of CBOR and protobuf encodings.
//
// Every byte of a provider response's opaque `Meta` blob is assigned a region
// class (e.g. "cbor:key", "header/height", "last_commit/signatures/signature")
// so that the byte-level fault enumeration can report per region how many
// mutants were rejected / accepted, and so that (kind, region, mutation kind)
// can be counted as distinct cases.

import (
	"encoding/binary"
	"fmt"
)

// pschema describes the (known part of the) protobuf schema of a message.
type pschema map[int]pfield

type pfield struct {
	name string
	sub  pschema // non-nil: length-delimited field is a nested message
}

var (
	schemaTimestamp = pschema{1: {name: "seconds"}, 2: {name: "nanos"}}
	schemaPartSet   = pschema{1: {name: "total"}, 2: {name: "hash"}}
	schemaBlockID   = pschema{1: {name: "hash"}, 2: {name: "part_set_header", sub: schemaPartSet}}
	schemaVersion   = pschema{1: {name: "block"}, 2: {name: "app"}}
	schemaHeader    = pschema{
		1:  {name: "version", sub: schemaVersion},
		2:  {name: "chain_id"},
		3:  {name: "height"},
		4:  {name: "time", sub: schemaTimestamp},
		5:  {name: "last_block_id", sub: schemaBlockID},
		6:  {name: "last_commit_hash"},
		7:  {name: "data_hash"},
		8:  {name: "validators_hash"},
		9:  {name: "next_validators_hash"},
		10: {name: "consensus_hash"},
		11: {name: "app_hash"},
		12: {name: "last_results_hash"},
		13: {name: "evidence_hash"},
		14: {name: "proposer_address"},
	}
	schemaCommitSig = pschema{
		1: {name: "block_id_flag"},
		2: {name: "validator_address"},
		3: {name: "timestamp", sub: schemaTimestamp},
		4: {name: "signature"},
	}
	schemaCommit = pschema{
		1: {name: "height"},
		2: {name: "round"},
		3: {name: "block_id", sub: schemaBlockID},
		4: {name: "signatures", sub: schemaCommitSig},
	}
	schemaPubKey    = pschema{1: {name: "ed25519"}, 2: {name: "secp256k1"}}
	schemaValidator = pschema{
		1: {name: "address"},
		2: {name: "pub_key", sub: schemaPubKey},
		3: {name: "voting_power"},
		4: {name: "proposer_priority"},
	}
	schemaValidatorSet = pschema{
		1: {name: "validators", sub: schemaValidator},
		2: {name: "proposer", sub: schemaValidator},
		3: {name: "total_voting_power"},
	}
	schemaDuration        = pschema{1: {name: "seconds"}, 2: {name: "nanos"}}
	schemaConsensusParams = pschema{
		1: {name: "block", sub: pschema{1: {name: "max_bytes"}, 2: {name: "max_gas"}}},
		2: {name: "evidence", sub: pschema{1: {name: "max_age_num_blocks"}, 2: {name: "max_age_duration", sub: schemaDuration}, 3: {name: "max_bytes"}}},
		3: {name: "validator", sub: pschema{1: {name: "pub_key_types"}}},
		4: {name: "version", sub: pschema{1: {name: "app"}}},
	}
)

func fill(labels []string, from, to int, l string) {
	for i := from; i < to && i < len(labels); i++ {
		labels[i] = l
	}
}

// protoLabel labels data[off:off+n] (a protobuf message of the given schema).
func protoLabel(data []byte, labels []string, off, n int, path string, sc pschema) error {
	end := off + n
	for off < end {
		tag, k := binary.Uvarint(data[off:end])
		if k <= 0 {
			return fmt.Errorf("bad tag at %d", off)
		}
		fnum, wt := int(tag>>3), int(tag&7)
		f, known := sc[fnum]
		name := f.name
		if !known {
			name = fmt.Sprintf("f%d", fnum)
		}
		p := path + "/" + name
		fill(labels, off, off+k, p+"#tag")
		off += k
		switch wt {
		case 0:
			_, k = binary.Uvarint(data[off:end])
			if k <= 0 {
				return fmt.Errorf("bad varint at %d", off)
			}
			fill(labels, off, off+k, p)
			off += k
		case 1:
			fill(labels, off, off+8, p)
			off += 8
		case 5:
			fill(labels, off, off+4, p)
			off += 4
		case 2:
			l, k := binary.Uvarint(data[off:end])
			if k <= 0 || off+k+int(l) > end {
				return fmt.Errorf("bad length at %d", off)
			}
			fill(labels, off, off+k, p+"#len")
			off += k
			if f.sub != nil {
				if err := protoLabel(data, labels, off, int(l), p, f.sub); err != nil {
					return err
				}
			} else {
				fill(labels, off, off+int(l), p)
			}
			off += int(l)
		default:
			return fmt.Errorf("unsupported wire type %d at %d", wt, off)
		}
	}
	if off != end {
		return fmt.Errorf("overrun")
	}
	return nil
}

// cborLabel labels one CBOR data item starting at off and returns the offset
// after it. nested, if non-nil, is consulted for byte-string payloads: if it
// returns true it has labelled the payload itself.
func cborLabel(data []byte, labels []string, off int, path string, nested func(path string, off, n int) bool) (int, error) {
	if off >= len(data) {
		return 0, fmt.Errorf("eof at %d", off)
	}
	ib := data[off]
	major, ai := ib>>5, ib&0x1f
	start := off
	off++
	var val uint64
	switch {
	case ai < 24:
		val = uint64(ai)
	case ai == 24:
		if off+1 > len(data) {
			return 0, fmt.Errorf("eof")
		}
		val = uint64(data[off])
		off++
	case ai == 25:
		if off+2 > len(data) {
			return 0, fmt.Errorf("eof")
		}
		val = uint64(binary.BigEndian.Uint16(data[off:]))
		off += 2
	case ai == 26:
		if off+4 > len(data) {
			return 0, fmt.Errorf("eof")
		}
		val = uint64(binary.BigEndian.Uint32(data[off:]))
		off += 4
	case ai == 27:
		if off+8 > len(data) {
			return 0, fmt.Errorf("eof")
		}
		val = binary.BigEndian.Uint64(data[off:])
		off += 8
	default:
		return 0, fmt.Errorf("indefinite/reserved additional info at %d", start)
	}
	switch major {
	case 0, 1:
		fill(labels, start, off, path+"#int")
	case 2:
		fill(labels, start, off, path+"#bstr-head")
		if off+int(val) > len(data) {
			return 0, fmt.Errorf("bstr overrun")
		}
		if nested == nil || !nested(path, off, int(val)) {
			fill(labels, off, off+int(val), path)
		}
		off += int(val)
	case 3:
		fill(labels, start, off, path+"#tstr-head")
		if off+int(val) > len(data) {
			return 0, fmt.Errorf("tstr overrun")
		}
		fill(labels, off, off+int(val), path)
		off += int(val)
	case 4:
		fill(labels, start, off, path+"#array-head")
		for i := uint64(0); i < val; i++ {
			var err error
			if off, err = cborLabel(data, labels, off, path+"[]", nested); err != nil {
				return 0, err
			}
		}
	case 5:
		fill(labels, start, off, path+"#map-head")
		for i := uint64(0); i < val; i++ {
			// Key.
			if off >= len(data) {
				return 0, fmt.Errorf("eof")
			}
			key := "?"
			kstart := off
			var err error
			if data[off]>>5 == 3 {
				kend, err2 := cborLabel(data, nil, off, "", nil)
				if err2 != nil {
					return 0, err2
				}
				// Extract the key text.
				hl := 1
				switch data[off] & 0x1f {
				case 24:
					hl = 2
				case 25:
					hl = 3
				case 26:
					hl = 5
				case 27:
					hl = 9
				}
				key = string(data[off+hl : kend])
				off = kend
			} else {
				if off, err = cborLabel(data, nil, off, "", nil); err != nil {
					return 0, err
				}
			}
			fill(labels, kstart, off, path+"#key")
			if off, err = cborLabel(data, labels, off, path+"."+key, nested); err != nil {
				return 0, err
			}
		}
	case 6:
		fill(labels, start, off, path+"#tag")
		return cborLabel(data, labels, off, path, nested)
	case 7:
		fill(labels, start, off, path+"#simple")
	}
	return off, nil
}

// labelCBOR labels a complete CBOR blob; on a walker error every unlabelled
// byte is classified "unclassified".
func labelCBOR(data []byte, root string, nested func(path string, off, n int) bool) []string {
	labels := make([]string, len(data))
	_, _ = cborLabel(data, labels, 0, root, nested)
	for i := range labels {
		if labels[i] == "" {
			labels[i] = root + "#unclassified"
		}
	}
	return labels
}

// labelProto labels a complete protobuf blob.
func labelProto(data []byte, root string, sc pschema) []string {
	labels := make([]string, len(data))
	_ = protoLabel(data, labels, 0, len(data), root, sc)
	for i := range labels {
		if labels[i] == "" {
			labels[i] = root + "#unclassified"
		}
	}
	return labels
}
