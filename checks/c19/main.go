// Command c19 is the runtime check for property C19: a stateless node hands
// provider data to its caller only if it is bound to a light-client verified
// header. It is a fault enumeration over alterations of the provider's
// responses (see /verif/DESIGN.md, section C19).
package main

import (
	"context"
	"encoding/json"
	"fmt"
	"os"
	"strings"
	"sync"
	"time"

	cmtcryptoproto "github.com/cometbft/cometbft/proto/tendermint/crypto"
	cmtcoretypes "github.com/cometbft/cometbft/rpc/core/types"

	consensusAPI "github.com/oasisprotocol/oasis-core/go/consensus/api"
	"github.com/oasisprotocol/oasis-core/go/consensus/cometbft/stateless"
	consensusGenesis "github.com/oasisprotocol/oasis-core/go/consensus/genesis"
	"verif/engine/evid"
)

type (
	cmtResultBlockResults    = cmtcoretypes.ResultBlockResults
	cmtprotoPublicKeyEd25519 = cmtcryptoproto.PublicKey_Ed25519
)

var (
	plainOnce sync.Once
	plain     *stateless.Core
)

// plainCore is a Core without provider and light client: receiver of the
// exported verifyNextValidators alias, which uses no Core state.
func (c *checker) plainCore() *stateless.Core {
	plainOnce.Do(func() { plain = stateless.NewCore(nil, nil, stateless.Config{ChainContext: "verif"}) })
	return plain
}

// coreWith returns a Core whose consensus querier returns the given trusted
// parameters (receiver of the exported verifyParameters alias).
func (c *checker) coreWith(p *consensusGenesis.Parameters) *stateless.Core {
	core := stateless.NewCore(nil, nil, stateless.Config{ChainContext: "verif"})
	core.SetQueriers(nil, &fakeQueryFactory{params: p}, nil)
	return core
}

func (c *checker) setupRigs() error {
	s := c.s
	n := numWorkers()
	specA := rigSpec{
		chainID: s.lb.ChainID,
		blocks:  map[int64]*consensusAPI.LightBlock{s.lb.Height: s.clb, s.lb2.Height: s.clb2},
		latest:  s.lb2.Height, trustH: s.lb.Height, trustID: s.lb.Hash(), trusted: s.trusted,
	}
	specB := specA
	specB.blocks = map[int64]*consensusAPI.LightBlock{s.lb.Height: s.clb}
	specB.latest = s.lb.Height
	c.rigsA = make(chan *rig, n)
	c.rigsB = make(chan *rig, n)
	for i := 0; i < n; i++ {
		a, err := newRig(specA)
		if err != nil {
			return err
		}
		b, err := newRig(specB)
		if err != nil {
			return err
		}
		c.rigsA <- a
		c.rigsB <- b
	}
	// Smoke test: the light client verifies the recorded blocks, and nothing else.
	var err error
	withRig(c.rigsA, func(rg *rig) {
		for _, h := range []int64{s.lb.Height, s.lb2.Height} {
			lb, e := rg.lc.VerifyLightBlockAt(c.ctx, h)
			if e != nil {
				err = fmt.Errorf("light client rejects recorded light block %d: %w", h, e)
				return
			}
			if lb.Height != h {
				err = fmt.Errorf("light client returned height %d for %d", lb.Height, h)
				return
			}
		}
		if _, e := rg.lc.VerifyLightBlockAt(c.ctx, s.lb2.Height+1); e == nil {
			err = fmt.Errorf("light client verified a height nobody serves")
			return
		}
		if h, e := rg.lc.LastTrustedHeight(); e != nil || h != s.lb2.Height {
			err = fmt.Errorf("last trusted height %d (%v), want %d", h, e, s.lb2.Height)
		}
	})
	if err != nil {
		return err
	}
	withRig(c.rigsB, func(rg *rig) {
		if _, e := rg.lc.VerifyLightBlockAt(c.ctx, s.lb.Height); e != nil {
			err = fmt.Errorf("light client B rejects recorded light block: %w", e)
			return
		}
		if _, e := rg.lc.VerifyLightBlockAt(c.ctx, s.lb2.Height); e == nil {
			err = fmt.Errorf("light client B verified a height nobody serves")
		}
	})
	return err
}

// kindOfWhere maps the entry point named in a panic witness to its phase.
func kindOfWhere(where string) string {
	switch {
	case strings.Contains(where, "Parameters"):
		return "parameters"
	case strings.Contains(where, "Validators"):
		return "validators"
	case strings.Contains(where, "Results"):
		return "results"
	case strings.Contains(where, "StateRoot") || strings.Contains(where, "stateRoot"):
		return "state-root"
	case strings.Contains(where, "Transaction") || strings.Contains(where, "transactions"):
		return "txs"
	case strings.Contains(where, "Block"):
		return "block"
	}
	return ""
}

func sortedCounts(m map[string]int64) map[string]int64 {
	// encoding/json sorts map keys; a copy keeps the evidence detached from the live maps.
	out := make(map[string]int64, len(m))
	for k, v := range m {
		out[k] = v
	}
	return out
}

func main() {
	r := evid.Start("C19", "fault_enumeration")
	c := &checker{r: r, ctx: context.Background(), neutral: map[string]int64{}, unbound: map[string]int64{}, rejected: map[string]int64{}, reasons: map[string]map[string]int64{}, sampled: map[string]bool{}}
	if r.ReplayFile != "" {
		// A replay re-runs the phase of the recorded witness with its tier and seed.
		var doc struct {
			Tier      string `json:"tier"`
			Seed      int64  `json:"seed"`
			Signature string `json:"signature"`
			Witness   struct {
				Kind  string `json:"kind"`
				Where string `json:"where"`
			} `json:"witness"`
		}
		b, err := os.ReadFile(r.ReplayFile)
		if err != nil || json.Unmarshal(b, &doc) != nil {
			fmt.Fprintf(os.Stderr, "cannot read replay file %s\n", r.ReplayFile)
			os.Exit(2)
		}
		if doc.Tier != "" {
			r.Tier = doc.Tier
		}
		r.Seed = doc.Seed
		c.onlyPhase = doc.Witness.Kind
		if c.onlyPhase == "" {
			c.onlyPhase = kindOfWhere(doc.Witness.Where)
		}
		fmt.Printf("replaying %s (tier %s seed %d phase %q)\n", doc.Signature, r.Tier, r.Seed, c.onlyPhase)
	}
	r.Rule = "Samples: recorded mainnet block/light blocks 25300000-25300001 (+ responses derived from them) and seeded synthetic blocks, " +
		"transaction lists (every count, every index), results, validator sets and parameters. Cases: every field-level alteration and, for every byte of " +
		"every opaque Meta / proof, the tier's set of single-byte alterations, each evaluated by the exported verification function and (recorded samples) " +
		"by the real stateless.Core with a fake malicious provider and a real light client. Oracle: accepted => normal form (what the header binds) unchanged. " +
		"A non-trivial distinct case is a distinct (response kind, field or byte-region class, mutation kind) that was actually evaluated."

	s, err := loadSamples()
	if err != nil {
		r.Inconclusive("cannot load the recorded samples: %v", err)
		r.Finish(200)
		return
	}
	c.s = s

	if err := c.setupRigs(); err != nil {
		c.core = false
		c.rigsA, c.rigsB = nil, nil
		r.Set("core_level", "NOT driven: "+err.Error())
		r.Assume("Core level could not be driven (" + err.Error() + "); only the exported verification functions were exercised")
	} else {
		c.core = true
		r.Set("core_level", "driven: stateless.Core.{GetBlock,GetTransactions,GetTransactionsWithProofs,GetBlockResults,GetValidators,GetParameters,StateRoot,SubmitTxWithProof} with a fake provider and a real light.Client over fake light-block providers")
	}

	// Watchdog: only ever turns the run into an inconclusive one.
	limit := time.Duration(r.Pick(20, 90)) * time.Minute
	done := make(chan struct{})
	go func() {
		select {
		case <-done:
		case <-time.After(limit):
			r.Inconclusive("watchdog: run exceeded %s", limit)
			c.flush()
			r.Finish(200)
		}
	}()

	phases := []struct {
		name string
		kind []string
		f    func()
	}{
		{"block", []string{"block"}, c.phaseBlock},
		{"txs", []string{"txs", "proof"}, c.phaseTxs},
		{"state-root", []string{"state-root"}, c.phaseStateRoot},
		{"results", []string{"results"}, c.phaseResults},
		{"validators", []string{"validators"}, c.phaseValidators},
		{"parameters", []string{"parameters"}, c.phaseParameters},
		{"history", []string{"history", "block", "txs", "proof", "state-root", "results", "validators", "parameters", "light-block"}, c.phaseHistory},
	}
	timings := map[string]float64{}
	if c.onlyPhase == "" || c.onlyPhase == "parameters" {
		c.startupWitnesses()
	}
	for _, p := range phases {
		if c.onlyPhase != "" {
			match := false
			for _, k := range p.kind {
				match = match || k == c.onlyPhase
			}
			if !match {
				continue
			}
		}
		t0 := time.Now()
		p.f()
		timings[p.name] = time.Since(t0).Seconds()
	}
	close(done)
	r.Set("phase_wall_s", timings)
	c.flush()

	r.Assume("the light client (CometBFT light verification of signatures, trusting period, witnesses) is the trust anchor: the check takes a header returned by light.Client.VerifyLightBlockAt as verified")
	r.Assume("light.Client is assembled by reflection on top of fake light-block providers (light.NewClient needs a libp2p host); everything executed afterwards is unchanged /repo and CometBFT code")
	r.Assume("the consensus querier used by verifyParameters stands for light-client verified state (a fake returning the trusted parameters); no recorded Parameters sample exists, so the Meta was reconstructed to match the recorded ConsensusHash")
	r.Assume("stateRootFromBlockTxs is only applied to a list that passed verifyTransactions (true in Core.fetchStateRootFromMetaTx and by construction here); on unverified lists it returns whatever the last transaction says")
	r.Assume("normal form excludes: Block.Size (documented unverifiable), LastCommit height/round/block id (the header binds the hash over the commit signatures only), result events/log/info/codespace and begin/end-block events (TODO #6210; not covered by LastResultsHash), validator address/proposer priority/proposer/total power (not covered by the validator set hash), consensus-parameter Meta fields other than block max bytes/gas (not covered by ConsensusHash)")
	r.Assume("block results at the latest trusted height are only height-checked (documented TODO #6210); the property quantifies over heights below the latest trusted one")
	r.Assume("synthetic samples are evaluated by the exported functions only (their headers are unsigned)")
	r.Finish(200)
}

// flush writes the accepted/rejected tallies into the evidence.
func (c *checker) flush() {
	c.mu.Lock()
	defer c.mu.Unlock()
	var nNeutral, nUnbound, nRejected int64
	for _, v := range c.neutral {
		nNeutral += v
	}
	for _, v := range c.unbound {
		nUnbound += v
	}
	for _, v := range c.rejected {
		nRejected += v
	}
	c.r.Count("altered/rejected", nRejected)
	c.r.Count("altered/accepted-neutral (decodes to the identical response)", nNeutral)
	c.r.Count("altered/accepted-unbound (differs only outside the normal form)", nUnbound)
	c.r.Set("accepted_neutral_regions", sortedCounts(c.neutral))
	c.r.Set("accepted_unbound_components", sortedCounts(c.unbound))
	c.r.Set("rejected_per_field", sortedCounts(c.rejected))
	reasons := map[string]map[string]int64{}
	for k, m := range c.reasons {
		reasons[k] = sortedCounts(m)
	}
	c.r.Set("reject_reasons", reasons)
}
