package main

import (
	"bytes"
	"crypto/sha256"
	"fmt"
	"math/rand/v2"

	cmttypes "github.com/cometbft/cometbft/types"

	"github.com/oasisprotocol/oasis-core/go/common/cbor"
	"github.com/oasisprotocol/oasis-core/go/common/crypto/hash"
	"github.com/oasisprotocol/oasis-core/go/common/crypto/signature"
	consensusAPI "github.com/oasisprotocol/oasis-core/go/consensus/api"
	"github.com/oasisprotocol/oasis-core/go/consensus/api/transaction"
	"github.com/oasisprotocol/oasis-core/go/consensus/cometbft/crypto/merkle"
	"github.com/oasisprotocol/oasis-core/go/consensus/cometbft/stateless"
	mkvsNode "github.com/oasisprotocol/oasis-core/go/storage/mkvs/node"
	"verif/engine/evid"
)

type txTarget struct {
	name       string
	txs        [][]byte
	lb         *cmttypes.LightBlock
	coreHeight int64
}

type txMutant struct {
	mut, desc string
	txs       [][]byte
}

// txListMutants enumerates alterations of a transaction list.
func (c *checker) txListMutants(txs [][]byte, rng *rand.Rand, full bool) []txMutant {
	var out []txMutant
	n := len(txs)
	add := func(mut, desc string, l [][]byte) {
		if cmpTxs(txs, l) == "" {
			c.r.Count("txs/skipped-mutation-without-effect", 1)
			return
		}
		out = append(out, txMutant{mut, desc, l})
	}
	without := func(i int) [][]byte { return append(append([][]byte{}, txs[:i]...), txs[i+1:]...) }
	insert := func(i int, tx []byte) [][]byte {
		l := append([][]byte{}, txs[:i]...)
		l = append(l, tx)
		return append(l, txs[i:]...)
	}
	replace := func(i int, tx []byte) [][]byte {
		l := append([][]byte{}, txs...)
		l[i] = tx
		return l
	}
	for i := 0; i < n; i++ {
		add("drop", fmt.Sprintf("drop tx %d", i), without(i))
		add("dup", fmt.Sprintf("duplicate tx %d", i), insert(i+1, txs[i]))
		if i+1 < n {
			l := append([][]byte{}, txs...)
			l[i], l[i+1] = l[i+1], l[i]
			add("reorder", fmt.Sprintf("swap txs %d,%d", i, i+1), l)
			add("merge", fmt.Sprintf("merge txs %d,%d", i, i+1), append(append(append([][]byte{}, txs[:i]...), append(clone(txs[i]), txs[i+1]...)), txs[i+2:]...))
		}
		tx := txs[i]
		// Byte alterations inside the transaction.
		var positions []int
		switch {
		case len(tx) == 0:
		case full && len(tx) <= 1024:
			for p := range tx {
				positions = append(positions, p)
			}
		case full:
			for p := 0; p < len(tx); p += 7 {
				positions = append(positions, p)
			}
			positions = append(positions, len(tx)-1)
		default:
			positions = []int{0, len(tx) - 1, rng.IntN(len(tx)), rng.IntN(len(tx))}
		}
		for _, p := range positions {
			m := clone(tx)
			m[p] ^= 1 << rng.UintN(8)
			add("alter-byte", fmt.Sprintf("tx %d byte %d bitflip", i, p), replace(i, m))
		}
		if len(tx) > 0 {
			add("truncate-tx", fmt.Sprintf("tx %d minus last byte", i), replace(i, clone(tx[:len(tx)-1])))
			add("truncate-tx", fmt.Sprintf("tx %d minus first byte", i), replace(i, clone(tx[1:])))
			add("replace-tx", fmt.Sprintf("tx %d = empty", i), replace(i, []byte{}))
		}
		add("extend-tx", fmt.Sprintf("tx %d plus zero byte", i), replace(i, append(clone(tx), 0)))
		add("extend-tx", fmt.Sprintf("tx %d with zero byte prefix", i), replace(i, append([]byte{0}, tx...)))
		h := sha256.Sum256(tx)
		add("hash-for-tx", fmt.Sprintf("tx %d replaced by its SHA-256", i), replace(i, h[:]))
		if len(tx) >= 2 {
			p := 1 + rng.IntN(len(tx)-1)
			l := append([][]byte{}, txs[:i]...)
			l = append(l, clone(tx[:p]), clone(tx[p:]))
			add("split", fmt.Sprintf("split tx %d at %d", i, p), append(l, txs[i+1:]...))
		}
		add("replace-tx", fmt.Sprintf("tx %d = random", i), replace(i, rbytes(rng, len(tx))))
	}
	if n >= 2 {
		rev := make([][]byte, n)
		for i := range txs {
			rev[n-1-i] = txs[i]
		}
		add("reorder", "reverse", rev)
		add("reorder", "rotate by one", append(append([][]byte{}, txs[1:]...), txs[0]))
		for k := 0; k < 4; k++ {
			i, j := rng.IntN(n), rng.IntN(n)
			l := append([][]byte{}, txs...)
			l[i], l[j] = l[j], l[i]
			add("reorder", fmt.Sprintf("swap txs %d,%d", i, j), l)
		}
		// Merkle structure confusion: the list of the two subtree roots' preimages cannot be
		// produced, but the list of leaf hashes (what the tree is built over) can.
		hs := make([][]byte, n)
		for i := range txs {
			h := sha256.Sum256(txs[i])
			hs[i] = h[:]
		}
		add("hash-for-tx", "every tx replaced by its SHA-256", hs)
	}
	if n > 0 {
		add("empty", "empty list", [][]byte{})
		add("empty", "nil list", nil)
		add("drop", "only the first tx", [][]byte{txs[0]})
		add("drop", "only the last tx", [][]byte{txs[n-1]})
		add("append", "append copy of last", append(append([][]byte{}, txs...), txs[n-1]))
		add("append", "append copy of first", append(append([][]byte{}, txs...), txs[0]))
		add("prepend", "prepend copy of last", insert(0, txs[n-1]))
	}
	add("append", "append empty tx", append(append([][]byte{}, txs...), []byte{}))
	add("append", "append random tx", append(append([][]byte{}, txs...), rbytes(rng, 1+rng.IntN(100))))
	add("append", "append the data hash as tx", append(append([][]byte{}, txs...), rbytes(rng, 32)))
	add("prepend", "prepend empty tx", insert(0, []byte{}))
	add("prepend", "prepend random tx", insert(0, rbytes(rng, 1+rng.IntN(100))))
	return out
}

func txWitness(t txTarget, m txMutant) func() any {
	return func() any {
		lens := make([]int, len(m.txs))
		for i := range m.txs {
			lens[i] = len(m.txs[i])
		}
		w := map[string]any{"sample": t.name, "mutation": m.mut, "desc": m.desc, "orig_count": len(t.txs), "mutant_count": len(m.txs), "mutant_tx_lengths": lens, "data_hash": hexs(t.lb.DataHash)}
		if len(t.txs) <= 8 {
			var o, mm []string
			for _, tx := range t.txs {
				o = append(o, hexs(tx))
			}
			for _, tx := range m.txs {
				mm = append(mm, hexs(tx))
			}
			w["orig_txs"], w["mutant_txs"] = o, mm
		}
		return w
	}
}

func (c *checker) tryTxs(t txTarget, m txMutant, coreToo bool) {
	sig := func(string) string { return "c19/txs/accepted-altered/" + m.mut }
	wit := txWitness(t, m)
	cmp := func(got [][]byte) func() (string, string, error) {
		return func() (string, string, error) { return cmpTxs(t.txs, got), "", nil }
	}
	var err error
	if !c.guard("verifyTransactions", wit, func() { err = stateless.VerifVerifyTransactions(m.txs, t.lb) }) {
		c.judgeAltered(verdict{"txs", "list", m.mut, "export", sig}, err == nil, err, cmp(m.txs), wit)
	}
	if !c.core || !coreToo || t.coreHeight == 0 {
		return
	}
	withRig(c.rigsA, func(rg *rig) {
		rg.fb.txs = m.txs
		var got [][]byte
		var err error
		if !c.guard("Core.GetTransactions", wit, func() { got, err = rg.core.GetTransactions(c.ctx, t.coreHeight) }) {
			c.judgeAltered(verdict{"txs", "list", m.mut, "core", sig}, err == nil, err, cmp(got), wit)
		}
		var twp *consensusAPI.TransactionsWithProofs
		if !c.guard("Core.GetTransactionsWithProofs", wit, func() { twp, err = rg.core.GetTransactionsWithProofs(c.ctx, t.coreHeight) }) {
			var g [][]byte
			if twp != nil {
				g = twp.Transactions
			}
			c.judgeAltered(verdict{"txs", "list+proofs", m.mut, "core", sig}, err == nil, err, cmp(g), wit)
		}
	})
}

func (c *checker) honestTxs(t txTarget) {
	wit := func() any { return map[string]any{"sample": t.name, "count": len(t.txs)} }
	var err error
	if !c.guard("verifyTransactions", wit, func() { err = stateless.VerifVerifyTransactions(t.txs, t.lb) }) {
		c.judgeHonest("txs", "export", fmt.Sprintf("n=%d", len(t.txs)), err, wit)
	}
	if c.core && t.coreHeight != 0 {
		withRig(c.rigsA, func(rg *rig) {
			rg.fb.txs = t.txs
			var got [][]byte
			if !c.guard("Core.GetTransactions", wit, func() { got, err = rg.core.GetTransactions(c.ctx, t.coreHeight) }) {
				c.judgeHonest("txs", "core", t.name, err, wit)
				if err == nil && cmpTxs(t.txs, got) != "" {
					c.r.Violation("c19/txs/accepted-altered/core-returned-other-list", "Core.GetTransactions returned a list other than the verified one", wit())
				}
			}
			var twp *consensusAPI.TransactionsWithProofs
			if !c.guard("Core.GetTransactionsWithProofs", wit, func() { twp, err = rg.core.GetTransactionsWithProofs(c.ctx, t.coreHeight) }) {
				c.judgeHonest("txs", "core", t.name+"/with-proofs", err, wit)
				if err == nil {
					if len(twp.Proofs) != len(twp.Transactions) || cmpTxs(t.txs, twp.Transactions) != "" {
						c.r.Violation("c19/proof/honest-proof-rejected", "Core.GetTransactionsWithProofs: proof count / transactions do not match the verified list", wit())
					}
					for i := range twp.Proofs {
						if i < len(twp.Transactions) {
							if e := merkle.VerifyTransaction(twp.Proofs[i], t.lb.DataHash, twp.Transactions[i]); e != nil {
								c.r.Violation("c19/proof/honest-proof-rejected", fmt.Sprintf("proof %d returned by Core.GetTransactionsWithProofs does not verify: %v", i, e), wit())
							}
						}
					}
				}
			}
		})
	}
}

// ---- inclusion proofs -----------------------------------------------------

type proofStats struct{ pairs, others, mutated int }

// proofsOf checks the proofs produced for a verified list against its data hash:
// honest (i,i) verifies; (i, j != i) and other data hashes do not.
func (c *checker) proofsOf(t txTarget, otherHashes [][]byte, rng *rand.Rand, byteLevel int) {
	n := len(t.txs)
	var twp *consensusAPI.TransactionsWithProofs
	base := func() map[string]any {
		return map[string]any{"sample": t.name, "count": n, "data_hash": hexs(t.lb.DataHash), "seed": c.r.Seed, "tier": c.r.Tier}
	}
	if c.guard("transactionsWithProofs", func() any { return base() }, func() { twp = stateless.VerifTransactionsWithProofs(t.txs) }) {
		return
	}
	c.r.Eval(1)
	if len(twp.Proofs) != n || cmpTxs(t.txs, twp.Transactions) != "" {
		w := base()
		w["proofs"] = len(twp.Proofs)
		c.r.Violation("c19/proof/honest-proof-rejected", "transactionsWithProofs: proof count or transactions differ from the input list", w)
		return
	}
	verify := func(where string, proof, root, tx []byte, w func() any) (err error, panicked bool) {
		panicked = c.guard(where, w, func() { err = merkle.VerifyTransaction(proof, root, tx) })
		return
	}
	for i := 0; i < n; i++ {
		i := i
		wi := func(extra ...any) func() any {
			return func() any {
				w := base()
				w["index"] = i
				w["proof"] = hexs(twp.Proofs[i])
				w["tx"] = hexs(t.txs[i])
				for k := 0; k+1 < len(extra); k += 2 {
					w[extra[k].(string)] = extra[k+1]
				}
				return w
			}
		}
		// Honest.
		err, pk := verify("merkle.VerifyTransaction", twp.Proofs[i], t.lb.DataHash, t.txs[i], wi())
		c.r.Eval(1)
		c.r.Nontrivial(fmt.Sprintf("proof/honest/n=%d", n))
		c.r.Count("proof/honest-verified", 1)
		c.r.Distinct("proof/(count,index)", fmt.Sprintf("%d/%d", n, i))
		if !pk && err != nil {
			c.r.Violation("c19/proof/honest-proof-rejected", fmt.Sprintf("proof for tx %d of %d does not verify against the block's data hash: %v", i, n, err), wi("error", err.Error())())
		}
		// Other transactions of the same block.
		for j := 0; j < n; j++ {
			if j == i || bytes.Equal(t.txs[i], t.txs[j]) {
				continue
			}
			err, pk := verify("merkle.VerifyTransaction", twp.Proofs[i], t.lb.DataHash, t.txs[j], wi("other_index", j))
			c.r.Eval(1)
			c.r.Count("proof/other-tx-rejected", 1)
			if !pk && err == nil {
				c.r.Violation("c19/proof/verifies-for-other-tx", fmt.Sprintf("proof of tx %d (of %d) verifies for the different tx %d", i, n, j), wi("other_index", j, "other_tx", hexs(t.txs[j]))())
			}
		}
		c.r.Nontrivial(fmt.Sprintf("proof/other-tx/n=%d", n))
		// The transaction altered.
		alts := [][]byte{append(clone(t.txs[i]), 0), {}}
		if len(t.txs[i]) > 0 {
			m := clone(t.txs[i])
			m[rng.IntN(len(m))] ^= 1 << rng.UintN(8)
			alts = append(alts, m, clone(t.txs[i][:len(t.txs[i])-1]))
			h := sha256.Sum256(t.txs[i])
			alts = append(alts, h[:])
		}
		for _, a := range alts {
			if bytes.Equal(a, t.txs[i]) {
				continue
			}
			err, pk := verify("merkle.VerifyTransaction", twp.Proofs[i], t.lb.DataHash, a, wi("altered_tx", hexs(a)))
			c.r.Eval(1)
			c.r.Count("proof/altered-tx-rejected", 1)
			if !pk && err == nil {
				c.r.Violation("c19/proof/verifies-for-other-tx", fmt.Sprintf("proof of tx %d (of %d) verifies for altered transaction bytes", i, n), wi("altered_tx", hexs(a))())
			}
		}
		c.r.Nontrivial("proof/altered-tx")
		// Other blocks.
		for _, oh := range otherHashes {
			if bytes.Equal(oh, t.lb.DataHash) {
				continue
			}
			err, pk := verify("merkle.VerifyTransaction", twp.Proofs[i], oh, t.txs[i], wi("other_data_hash", hexs(oh)))
			c.r.Eval(1)
			c.r.Count("proof/other-block-rejected", 1)
			if !pk && err == nil {
				c.r.Violation("c19/proof/verifies-for-other-block", fmt.Sprintf("proof of tx %d (of %d) verifies against another block's data hash", i, n), wi("other_data_hash", hexs(oh))())
			}
		}
		c.r.Nontrivial("proof/other-block")
	}
	// Byte-level alterations of proofs.
	for k := 0; k < byteLevel && k < n; k++ {
		i := k
		if byteLevel < n {
			i = rng.IntN(n)
		}
		c.proofBytes(t, i, twp.Proofs[i], uint64(rng.Uint32()))
	}
}

func labelProof(raw []byte) []string { return labelCBOR(raw, "proof", nil) }

// proofBytes: every single-byte alteration of a proof; accepted => it decodes
// to the identical proof.
func (c *checker) proofBytes(t txTarget, i int, raw []byte, stream uint64) {
	orig, err := decodeProof(raw)
	if err != nil {
		c.r.Inconclusive("harness: honest proof undecodable: %v", err)
		return
	}
	labels := labelProof(raw)
	c.forEachByteMutant(stream, raw, func(bc byteCase) {
		lab := labels[min(bc.off, len(labels)-1)]
		wit := func() any {
			return map[string]any{"sample": t.name, "count": len(t.txs), "index": i, "desc": bc.desc, "region": lab, "orig_proof": hexs(raw), "mutant_proof": hexs(bc.data), "tx": hexs(t.txs[i]), "data_hash": hexs(t.lb.DataHash)}
		}
		var err error
		if c.guard("merkle.VerifyTransaction", wit, func() { err = merkle.VerifyTransaction(bc.data, t.lb.DataHash, t.txs[i]) }) {
			return
		}
		c.judgeAltered(verdict{"proof", lab, bc.mut, "export", func(b string) string { return "c19/proof/accepted-altered/" + b }}, err == nil, err,
			func() (string, string, error) {
				m, derr := decodeProof(bc.data)
				if derr != nil {
					return "undecodable", "", derr
				}
				b, u := cmpProof(orig, m)
				return b, u, nil
			}, wit)
	})
}

// ---- state root from the metadata transaction -----------------------------

func synthMetaTx(rng *rand.Rand, root hash.Hash) []byte {
	raw, _ := synthMetaTxTyped(rng, root)
	return raw
}

// synthMetaTxTyped also returns the signed transaction the bytes encode.
func synthMetaTxTyped(rng *rand.Rand, root hash.Hash) ([]byte, *transaction.SignedTransaction) {
	tx := consensusAPI.NewBlockMetadataTx(&consensusAPI.BlockMetadata{StateRoot: root, EventsRoot: rbytes(rng, 32)})
	st := transaction.SignedTransaction{Signed: signature.Signed{Blob: cbor.Marshal(tx)}}
	copy(st.Signature.Signature[:], rbytes(rng, 64))
	return cbor.Marshal(st), &st
}

func (c *checker) phaseStateRoot() {
	s := c.s
	// Recorded: the state root taken from the (verified) transaction list of
	// 25300000 is the one the next header's AppHash binds.
	wit := func() any { return map[string]any{"sample": "recorded-25300000", "next_app_hash": hexs(s.lb2.AppHash)} }
	if err := stateless.VerifVerifyTransactions(s.txs, s.lb); err == nil {
		var root hash.Hash
		var err error
		if !c.guard("stateRootFromBlockTxs", wit, func() { root, err = stateless.VerifStateRootFromBlockTxs(s.txs) }) {
			c.r.Eval(1)
			c.r.Nontrivial("state-root/recorded/export")
			switch {
			case err != nil:
				c.r.Violation("c19/honest-response-rejected/state-root", "stateRootFromBlockTxs failed on the verified recorded list: "+err.Error(), wit())
			case !bytes.Equal(root[:], s.lb2.AppHash):
				c.r.Violation("c19/state-root/differs-from-next-header-app-hash", fmt.Sprintf("state root %s from the metadata transaction differs from the next header's AppHash", root), wit())
			default:
				c.r.Count("state-root/equals-next-app-hash", 1)
			}
		}
	}
	// Synthetic metadata transactions at the end of verified lists.
	nsyn := c.r.Pick(50, 500)
	evid.Parallel(nsyn, 0, func(i int) {
		rng := c.r.Rand(300, uint64(i))
		var want hash.Hash
		copy(want[:], rbytes(rng, 32))
		txs := append(synthTxs(rng, rng.IntN(6)), synthMetaTx(rng, want))
		sb, err := synthBlockWith(rng, txs)
		if err != nil {
			return
		}
		w := func() any { return map[string]any{"sample": fmt.Sprintf("synthetic-%d", i), "count": len(txs)} }
		if stateless.VerifVerifyTransactions(txs, sb.lb) != nil {
			c.r.Violation("c19/honest-response-rejected/txs", "synthetic list rejected", w())
			return
		}
		var root hash.Hash
		if !c.guard("stateRootFromBlockTxs", w, func() { root, err = stateless.VerifStateRootFromBlockTxs(txs) }) {
			c.r.Eval(1)
			c.r.Nontrivial("state-root/synthetic/export")
			if err != nil || root != want {
				c.r.Violation("c19/state-root/differs-from-metadata-transaction", fmt.Sprintf("got %s err %v want %s", root, err, want), w())
			} else {
				c.r.Count("state-root/synthetic-ok", 1)
			}
		}
		// Lists without a metadata transaction at the end must not yield a root silently equal to anything:
		// they yield an error (malformed) - recorded only.
		if !c.guard("stateRootFromBlockTxs", w, func() { _, err = stateless.VerifStateRootFromBlockTxs(txs[:len(txs)-1]) }) {
			c.r.Eval(1)
			if err != nil {
				c.r.Count("state-root/no-meta-tx-error", 1)
			} else {
				c.r.Count("state-root/no-meta-tx-no-error", 1)
			}
		}
	})
	if !c.core {
		return
	}
	// Core level, light client knows 25300001: the root comes from the verified
	// next header; the provider's transactions are not even requested.
	withRig(c.rigsA, func(rg *rig) {
		core := rg.freshCore(s.trusted)
		rg.fb.txs = [][]byte{[]byte("garbage")}
		before := rg.fb.calls["GetTransactions"]
		var root mkvsNode.Root
		var err error
		if c.guard("Core.StateRoot", wit, func() { root, err = core.StateRoot(c.ctx, s.lb.Height) }) {
			return
		}
		c.r.Eval(1)
		c.r.Nontrivial("state-root/core/from-next-header")
		want := mkvsNode.Root{Version: uint64(s.lb.Height), Type: mkvsNode.RootTypeState}
		copy(want.Hash[:], s.lb2.AppHash)
		if err != nil {
			c.r.Violation("c19/honest-response-rejected/state-root", "Core.StateRoot failed although the next light block is available: "+err.Error(), wit())
		} else if root != want {
			c.r.Violation("c19/state-root/differs-from-next-header-app-hash", fmt.Sprintf("Core.StateRoot returned %+v, next header binds %+v", root, want), wit())
		}
		c.r.Count("state-root/core/provider-tx-requests-when-next-header-known", int64(rg.fb.calls["GetTransactions"]-before))
	})
	// Core level, light client knows 25300000 only: the root comes from the
	// metadata transaction of the provider's list, which must be verified first.
	t := txTarget{"recorded-25300000", s.txs, s.lb, s.lb.Height}
	want := mkvsNode.Root{Version: uint64(s.lb.Height), Type: mkvsNode.RootTypeState}
	copy(want.Hash[:], s.lb2.AppHash)
	withRig(c.rigsB, func(rg *rig) {
		core := rg.freshCore(s.trusted)
		rg.fb.txs = s.txs
		var root mkvsNode.Root
		var err error
		if c.guard("Core.StateRoot", wit, func() { root, err = core.StateRoot(c.ctx, s.lb.Height) }) {
			return
		}
		c.judgeHonest("state-root", "core", "from-metadata-transaction", err, wit)
		if err == nil && root != want {
			c.r.Violation("c19/state-root/differs-from-next-header-app-hash", fmt.Sprintf("Core.StateRoot returned %+v, next header binds %+v", root, want), wit())
		}
	})
	muts := c.txListMutants(s.txs, c.r.Rand(310), false)
	// Plus: alterations aimed at the metadata transaction (last one).
	last := s.txs[len(s.txs)-1]
	var fake hash.Hash
	copy(fake[:], bytes.Repeat([]byte{0xee}, 32))
	muts = append(muts,
		txMutant{"replace-meta-tx", "last tx replaced by a forged metadata tx", append(append([][]byte{}, s.txs[:len(s.txs)-1]...), synthMetaTx(c.r.Rand(311), fake))},
		txMutant{"append-meta-tx", "forged metadata tx appended", append(append([][]byte{}, s.txs...), synthMetaTx(c.r.Rand(312), fake))},
		txMutant{"only-meta-tx", "list = forged metadata tx only", [][]byte{synthMetaTx(c.r.Rand(313), fake)}},
		txMutant{"only-meta-tx", "list = genuine metadata tx only", [][]byte{last}},
	)
	lim := c.r.Pick(200, 100000)
	if len(muts) > lim {
		// Keep a seed-determined subset, always including the metadata-tx forgeries.
		rng := c.r.Rand(314)
		keep := muts[len(muts)-4:]
		rest := muts[:len(muts)-4]
		rng.Shuffle(len(rest), func(i, j int) { rest[i], rest[j] = rest[j], rest[i] })
		muts = append(append([]txMutant{}, rest[:lim-4]...), keep...)
	}
	evid.Parallel(len(muts), 0, func(i int) {
		m := muts[i]
		w := txWitness(t, m)
		withRig(c.rigsB, func(rg *rig) {
			core := rg.freshCore(s.trusted)
			rg.fb.txs = m.txs
			var root mkvsNode.Root
			var err error
			if c.guard("Core.StateRoot", w, func() { root, err = core.StateRoot(c.ctx, s.lb.Height) }) {
				return
			}
			c.judgeAltered(verdict{"state-root", "txs-list", m.mut, "core", func(string) string { return "c19/txs/accepted-altered/state-root-from-" + m.mut }}, err == nil, err,
				func() (string, string, error) {
					if root != want {
						return "state-root", "", nil
					}
					// Same root from an altered list: the list itself was accepted.
					return "list", "", nil
				}, w)
		})
	})
}

func (c *checker) phaseTxs() {
	s := c.s
	t := txTarget{"recorded-25300000", s.txs, s.lb, s.lb.Height}
	c.honestTxs(t)
	muts := c.txListMutants(s.txs, c.r.Rand(200), !c.r.Quick())
	coreStride := c.r.Pick(3, 1)
	evid.Parallel(len(muts), 0, func(i int) {
		c.tryTxs(t, muts[i], i%coreStride == int(uint64(c.r.Seed)%uint64(coreStride)) || muts[i].mut != "alter-byte")
	})
	// The honest list against the other header.
	c.tryTxs(txTarget{"recorded-25300000-vs-25300001", nil, s.lb2, s.lb2.Height}, txMutant{"other-block", "honest txs of 25300000 served for 25300001", s.txs}, true)

	// Synthetic lists: every count, every index.
	counts := []int{}
	maxN := c.r.Pick(20, 64)
	for n := 0; n <= maxN; n++ {
		counts = append(counts, n)
	}
	if c.r.Quick() {
		counts = append(counts, 31, 32, 33, 63, 64, 65)
	} else {
		counts = append(counts, 65, 127, 128, 129, 255, 256, 257)
	}
	perCount := c.r.Pick(2, 5)
	type job struct{ n, k int }
	var jobs []job
	for _, n := range counts {
		for k := 0; k < perCount; k++ {
			jobs = append(jobs, job{n, k})
		}
	}
	otherFixed := [][]byte{s.lb.DataHash, s.lb2.DataHash, make([]byte, 32), nil}
	evid.Parallel(len(jobs), 0, func(ji int) {
		j := jobs[ji]
		rng := c.r.Rand(210, uint64(j.n), uint64(j.k))
		txs := synthTxs(rng, j.n)
		sb, err := synthBlockWith(rng, txs)
		if err != nil {
			c.r.Inconclusive("harness: synthetic block: %v", err)
			return
		}
		st := txTarget{fmt.Sprintf("synthetic-n%d-k%d", j.n, j.k), txs, sb.lb, 0}
		c.r.Distinct("txs/synthetic-counts", fmt.Sprint(j.n))
		c.honestTxs(st)
		for _, m := range c.txListMutants(txs, rng, j.n <= 8) {
			c.tryTxs(st, m, false)
		}
		// Other data hashes: a list with one tx more / less / altered.
		others := append([][]byte{}, otherFixed...)
		var d cmttypes.Data
		for _, tx := range txs {
			d.Txs = append(d.Txs, tx)
		}
		d2 := cmttypes.Data{Txs: append(append(cmttypes.Txs{}, d.Txs...), cmttypes.Tx(rbytes(rng, 10)))}
		others = append(others, d2.Hash())
		if j.n > 1 {
			d3 := cmttypes.Data{Txs: d.Txs[:j.n-1]}
			others = append(others, d3.Hash())
			d4 := cmttypes.Data{Txs: d.Txs[1:]}
			others = append(others, d4.Hash())
		}
		bl := 0
		if j.k == 0 && (j.n <= 9 || j.n == 33 || j.n == 64) {
			bl = c.r.Pick(1, 3)
		}
		c.proofsOf(st, others, rng, bl)
	})
	// Recorded list: proofs, through the exported verifier with decoded signed transactions.
	c.proofsOf(t, [][]byte{s.lb2.DataHash, make([]byte, 32), nil}, c.r.Rand(220), c.r.Pick(3, len(s.txs)))
	c.recordedProofsTyped()
}

// recordedProofsTyped drives verifyTransactionProof (and Core.SubmitTxWithProof)
// with the recorded transactions decoded as SignedTransaction.
func (c *checker) recordedProofsTyped() {
	s := c.s
	twp := stateless.VerifTransactionsWithProofs(s.txs)
	n := len(s.txs)
	stx := make([]*transaction.SignedTransaction, n)
	for i, raw := range s.txs {
		var tx transaction.SignedTransaction
		if err := cbor.Unmarshal(raw, &tx); err != nil || !bytes.Equal(cbor.Marshal(&tx), raw) {
			c.r.Count("proof/typed/tx-not-roundtripping", 1)
			continue
		}
		stx[i] = &tx
	}
	type pj struct{ i, j int }
	var jobs []pj
	for i := 0; i < n; i++ {
		for j := 0; j < n; j++ {
			jobs = append(jobs, pj{i, j})
		}
	}
	evid.Parallel(len(jobs), 0, func(k int) {
		i, j := jobs[k].i, jobs[k].j
		if stx[j] == nil || len(twp.Proofs) != n {
			return
		}
		same := bytes.Equal(s.txs[i], s.txs[j])
		for _, h := range []struct {
			lb    *cmttypes.LightBlock
			other bool
		}{{s.lb, false}, {s.lb2, true}} {
			if h.other && i != j {
				continue
			}
			proof := &transaction.Proof{Height: h.lb.Height, RawProof: twp.Proofs[i]}
			wit := func() any {
				return map[string]any{"sample": "recorded-25300000", "proof_index": i, "tx_index": j, "against_height": h.lb.Height, "proof": hexs(twp.Proofs[i])}
			}
			check := func(level string, err error) {
				c.r.Eval(1)
				c.r.Count("proof/typed/"+level, 1)
				switch {
				case !h.other && same:
					c.r.Nontrivial("proof/typed/honest/" + level)
					if err != nil {
						c.r.Violation("c19/proof/honest-proof-rejected", fmt.Sprintf("%s: proof %d rejected for its own transaction: %v", level, i, err), wit())
					}
				case h.other:
					c.r.Nontrivial("proof/typed/other-block/" + level)
					if err == nil {
						c.r.Violation("c19/proof/verifies-for-other-block", fmt.Sprintf("%s: proof %d of block 25300000 verifies against header 25300001", level, i), wit())
					}
				default:
					c.r.Nontrivial("proof/typed/other-tx/" + level)
					if err == nil {
						c.r.Violation("c19/proof/verifies-for-other-tx", fmt.Sprintf("%s: proof %d verifies for transaction %d", level, i, j), wit())
					}
				}
			}
			var err error
			if !c.guard("verifyTransactionProof", wit, func() { err = stateless.VerifVerifyTransactionProof(proof, stx[j], h.lb) }) {
				check("export", err)
			}
			if c.core {
				withRig(c.rigsA, func(rg *rig) {
					rg.fb.proof = proof
					var got *transaction.Proof
					if !c.guard("Core.SubmitTxWithProof", wit, func() { got, err = rg.core.SubmitTxWithProof(c.ctx, stx[j]) }) {
						check("core", err)
						if err == nil && got != proof {
							c.r.Inconclusive("Core.SubmitTxWithProof returned another proof object")
						}
					}
				})
			}
		}
	})
}
