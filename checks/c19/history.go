package main

// Multi-height histories against ONE long-lived stateless.Core.
//
// Every other phase evaluates single responses; anything the stateless client
// memoises between calls (state roots, results hashes, the latest block, and
// whatever may be added later) is only visible when the same Core serves many
// heights, in both orders, with the provider answering a query for height X
// with the (relabelled) data of another height Y. The oracle is unchanged:
// data that is handed out must equal the data bound to the verified header of
// the REQUESTED height; the honest response of the requested height must be
// accepted whatever was served before.

import (
	"bytes"
	"context"
	"fmt"
	"math/rand/v2"
	"sync"
	"time"

	"github.com/oasisprotocol/oasis-core/go/common/cbor"
	consensusAPI "github.com/oasisprotocol/oasis-core/go/consensus/api"
	"github.com/oasisprotocol/oasis-core/go/consensus/api/transaction"
	cmtapi "github.com/oasisprotocol/oasis-core/go/consensus/cometbft/api"
	"github.com/oasisprotocol/oasis-core/go/consensus/cometbft/crypto/merkle"
	"github.com/oasisprotocol/oasis-core/go/consensus/cometbft/full"
	"github.com/oasisprotocol/oasis-core/go/consensus/cometbft/light"
	consensusGenesis "github.com/oasisprotocol/oasis-core/go/consensus/genesis"
	mkvsNode "github.com/oasisprotocol/oasis-core/go/storage/mkvs/node"
	"verif/engine/evid"
)

type histOp struct {
	Kind string `json:"kind"`
	X    int64  `json:"ask"`  // requested height
	Y    int64  `json:"from"` // height whose data the provider serves
	Mode string `json:"mode"` // how the provider dresses it up
}

func (o histOp) String() string { return fmt.Sprintf("%s ask=%d from=%d %s", o.Kind, o.X, o.Y, o.Mode) }

const histSuffix = "/in-multi-height-history"

var histModes = map[string][]string{
	"block":              {"raw", "relabel-height", "relabel-toplevel", "x-with-y-time", "x-with-y-hash", "x-with-y-state-root", "x-time-subsecond"},
	"txs":                {"raw"},
	"txs+proofs":         {"raw"},
	"txs+results":        {"raw"},
	"txs+results-latest": {"raw"},
	"blocks-concurrent":  {"raw"},
	"results":            {"raw", "relabel-height"},
	"parameters":         {"raw", "relabel-height", "x-meta-y-parameters", "x-parameters-y-meta"},
	"state-root":         {"raw"},
	"validators":         {"raw", "relabel-height"},
	"light-block":        {"raw"},
	"block-latest":       {"raw", "relabel-height"},
	"proof":              {"label-x", "label-y"},
	"watch":              {"raw", "relabel-height", "relabel-toplevel", "x-with-y-time", "x-time-subsecond"},
}

var histKinds = []string{"block", "blocks-concurrent", "txs", "txs+proofs", "txs+results", "txs+results-latest", "results", "parameters", "state-root", "validators", "light-block", "block-latest", "proof"}

type history struct {
	c     *checker
	ch    *chain
	rg    *rig
	id    string
	ops   []histOp
	watch bool

	// Serve / WatchBlocks plumbing.
	subCh      <-chan *consensusAPI.Block
	serveErr   chan error
	serveStop  context.CancelFunc
	lastServed *consensusAPI.Block // last block the Core broadcast
	rng        *rand.Rand
}

func (h *history) witness(step int, op histOp, extra map[string]any) func() any {
	return func() any {
		from := max(0, step-200)
		trail := make([]string, 0, step-from+1)
		for _, o := range h.ops[from : step+1] {
			trail = append(trail, o.String())
		}
		w := map[string]any{
			"history": h.id, "step": step, "op": op, "ops_before_and_including (last 200; the history is regenerated from seed, chain and history index)": trail,
			"chain": map[string]any{"chain_id": h.ch.chainID, "first": h.ch.first, "tip": h.ch.tip, "twin_heights": h.ch.twin}, "watching_blocks": h.watch,
		}
		for k, v := range extra {
			w[k] = v
		}
		return w
	}
}

func (h *history) honestRejected(kind string, step int, op histOp, err error) {
	c := h.c
	c.r.Violation("c19/honest-response-rejected/"+kind+histSuffix,
		fmt.Sprintf("long-lived Core rejected the honest %s response for height %d at step %d of a multi-height history (%s): %v", kind, op.X, step, op, err),
		map[string]any{"seed": c.r.Seed, "tier": c.r.Tier, "kind": kind, "level": "core-history", "error": fmt.Sprint(err), "case": h.witness(step, op, nil)()})
}

// judge applies the oracle to one step.
func (h *history) judge(kind string, step int, op histOp, honest bool, err error, cmp func() (string, string, error), sig func(string) string, extra map[string]any) {
	c := h.c
	c.r.Count("history/steps/"+kind, 1)
	if honest {
		c.r.Eval(1)
		c.r.Nontrivial("history/" + kind + "/honest")
		c.r.Count("honest/"+kind+"/core-history", 1)
		if err != nil {
			h.honestRejected(kind, step, op, err)
			return
		}
		// The accepted honest response must also come back unaltered.
		if b, _, _ := cmp(); b != "" {
			c.r.Violation(sig(b)+histSuffix, fmt.Sprintf("Core returned data differing in %s from the honest response it was given (%s)", b, op), h.witness(step, op, extra)())
		}
		return
	}
	c.judgeAltered(verdict{kind, "history:" + op.Mode, "from-other-height", "core-history", func(b string) string { return sig(b) + histSuffix }},
		err == nil, err, cmp, h.witness(step, op, extra))
}

// cmpTxResults compares the per-transaction results the Core returned with the conversion of
// the honest results of height z ("" = equal).
func (h *history) cmpTxResults(z *chainHeight, got *consensusAPI.TransactionsWithResults) string {
	meta, err := cmtapi.NewBlockResultsMeta(z.res)
	if err != nil {
		return "harness: " + err.Error()
	}
	want, err := full.TransactionResultsFromCometBFT(z.h, z.txs, meta.TxsResults)
	if err != nil {
		return "harness: " + err.Error()
	}
	if len(want) != len(got.Results) {
		return fmt.Sprintf("results/count %d != %d", len(got.Results), len(want))
	}
	for i := range want {
		if !bytes.Equal(cbor.Marshal(want[i]), cbor.Marshal(got.Results[i])) {
			return fmt.Sprintf("results[%d]", i)
		}
	}
	return ""
}

func (h *history) blockFor(op histOp) *consensusAPI.Block {
	x, y := h.ch.at(op.X), h.ch.at(op.Y)
	if op.Kind == "block-latest" {
		x = y // no particular height is asked for: only relabelling to itself makes sense
	}
	b := *y.blk
	switch op.Mode {
	case "raw":
	case "relabel-height":
		b.Height = op.X
	case "relabel-toplevel":
		b = *x.blk
		b.Meta = y.blk.Meta
	case "x-with-y-time":
		b = *x.blk
		b.Time = y.blk.Time
	case "x-with-y-hash":
		b = *x.blk
		b.Hash = y.blk.Hash
	case "x-with-y-state-root":
		b = *x.blk
		b.StateRoot.Hash = y.blk.StateRoot.Hash
	case "x-time-subsecond":
		b = *x.blk
		b.Time = b.Time.Add(time.Duration(1 + h.rng.Int64N(999_999_999)))
	}
	return &b
}

func (h *history) step(i int, op histOp) {
	c, ch, rg := h.c, h.ch, h.rg
	ctx := c.ctx
	x, y := ch.at(op.X), ch.at(op.Y)
	honest := op.X == op.Y && op.Mode == "raw"
	wit := h.witness(i, op, nil)
	switch op.Kind {
	case "block":
		m := h.blockFor(op)
		rg.fb.blk = m
		var got *consensusAPI.Block
		var err error
		if c.guard("Core.GetBlock", wit, func() { got, err = rg.core.GetBlock(ctx, op.X) }) {
			return
		}
		h.judge("block", i, op, honest, err, func() (string, string, error) {
			if got == nil {
				return "nil-block-returned", "", nil
			}
			return cmpBlock(x.blk, got)
		}, func(b string) string { return "c19/block/accepted-altered/" + b }, map[string]any{"served_time": m.Time.Format(time.RFC3339Nano), "served_height": m.Height})

	case "block-latest":
		// Height "latest": before WatchBlocks the provider's (untrusted) latest height Z is
		// used and must then be verified; afterwards the light client's last trusted height.
		z := op.X
		rg.fb.latest = z
		expect := ch.at(z)
		if h.watch {
			expect = ch.at(ch.tip)
		}
		m := h.blockFor(op)
		rg.fb.blk = m
		var got *consensusAPI.Block
		var err error
		if c.guard("Core.GetBlock", wit, func() { got, err = rg.core.GetBlock(ctx, consensusAPI.HeightLatest) }) {
			return
		}
		hon := op.Mode == "raw" && op.Y == expect.h
		h.judge("block", i, op, hon, err, func() (string, string, error) {
			if got == nil {
				return "nil-block-returned", "", nil
			}
			return cmpBlock(expect.blk, got)
		}, func(b string) string { return "c19/block/accepted-altered/" + b }, map[string]any{"provider_latest": z, "expected_height": expect.h})

	case "txs", "txs+proofs":
		rg.fb.txs = y.txs
		var got [][]byte
		var proofs [][]byte
		var err error
		if op.Kind == "txs" {
			if c.guard("Core.GetTransactions", wit, func() { got, err = rg.core.GetTransactions(ctx, op.X) }) {
				return
			}
		} else {
			var twp *consensusAPI.TransactionsWithProofs
			if c.guard("Core.GetTransactionsWithProofs", wit, func() { twp, err = rg.core.GetTransactionsWithProofs(ctx, op.X) }) {
				return
			}
			if twp != nil {
				got, proofs = twp.Transactions, twp.Proofs
			}
		}
		h.judge("txs", i, op, honest, err, func() (string, string, error) { return cmpTxs(x.txs, got), "", nil },
			func(string) string { return "c19/txs/accepted-altered/from-other-height" }, nil)
		if err == nil && op.Kind == "txs+proofs" {
			if len(proofs) != len(got) {
				c.r.Violation("c19/proof/honest-proof-rejected"+histSuffix, "proof count differs from transaction count", wit())
			}
			for k := range proofs {
				if k < len(got) && merkle.VerifyTransaction(proofs[k], x.header.DataHash, got[k]) != nil {
					c.r.Violation("c19/proof/honest-proof-rejected"+histSuffix, fmt.Sprintf("returned proof %d does not verify against the data hash of height %d", k, op.X), wit())
				}
			}
		}

	case "blocks-concurrent":
		// Several callers ask the long-lived Core for DIFFERENT heights at the same time (an honest
		// per-height provider): everyone must get the block of the height it asked for.
		if op.X == op.Y {
			return
		}
		rg.fb.blkAt = func(hh int64) *consensusAPI.Block {
			if z := ch.at(hh); z != nil {
				b := *z.blk
				return &b
			}
			return nil
		}
		hs := []int64{op.X, op.Y, op.X, op.Y, ch.first + (op.X+op.Y)%(ch.tip-ch.first+1), op.Y, op.X, op.Y}
		type cres struct {
			got *consensusAPI.Block
			err error
			pan string
		}
		out := make([]cres, len(hs))
		var wg sync.WaitGroup
		for k := range hs {
			wg.Add(1)
			go func(k int) {
				defer wg.Done()
				defer func() {
					if p := recover(); p != nil {
						out[k].pan = fmt.Sprint(p)
					}
				}()
				out[k].got, out[k].err = rg.core.GetBlock(ctx, hs[k])
			}(k)
		}
		wg.Wait()
		rg.fb.blkAt = nil
		c.r.Eval(1)
		c.r.Count("history/steps/blocks-concurrent", 1)
		c.r.Nontrivial("history/blocks-concurrent")
		for k, x := range out {
			switch {
			case x.pan != "":
				c.r.Violation("panic/Core.GetBlock/concurrent"+histSuffix, "panic in concurrent Core.GetBlock: "+x.pan, wit())
			case x.err != nil:
				c.r.Violation("c19/honest-response-rejected/block/concurrent"+histSuffix, fmt.Sprintf("concurrent Core.GetBlock(%d) rejected the honest block: %v (%s)", hs[k], x.err, op), wit())
			case x.got == nil:
				c.r.Violation("c19/block/concurrent/nil-block"+histSuffix, fmt.Sprintf("concurrent Core.GetBlock(%d) returned nil without error", hs[k]), wit())
			default:
				if b, _, _ := cmpBlock(ch.at(hs[k]).blk, x.got); b != "" {
					c.r.Violation("c19/block/concurrent/block-of-another-height"+histSuffix, fmt.Sprintf("concurrent Core.GetBlock(%d) returned a block that differs in %s from the block bound to the header of height %d (returned height %d), while other callers asked for heights %v (%s)", hs[k], b, hs[k], x.got.Height, hs, op), wit())
				}
			}
		}

	case "txs+results":
		// Transactions of height Y with the honest results of the asked height X.
		rg.fb.txs, rg.fb.res = y.txs, x.res
		var got *consensusAPI.TransactionsWithResults
		var err error
		if c.guard("Core.GetTransactionsWithResults", wit, func() { got, err = rg.core.GetTransactionsWithResults(ctx, op.X) }) {
			return
		}
		h.judge("txs", i, op, honest, err, func() (string, string, error) {
			if got == nil {
				return "nil-returned", "", nil
			}
			if d := cmpTxs(x.txs, got.Transactions); d != "" {
				return d, "", nil
			}
			return h.cmpTxResults(x, got), "", nil
		}, func(b string) string { return "c19/txs-with-results/accepted-altered/" + b }, nil)

	case "txs+results-latest":
		// An honest provider with the whole chain whose tip moves between the calls of one
		// request for the LATEST height: what comes back must belong to one height.
		if op.X == op.Y {
			return
		}
		rg.fb.perHeight = func(hh int64) ([][]byte, *consensusAPI.BlockResults) {
			if z := ch.at(hh); z != nil {
				return z.txs, z.res
			}
			return nil, nil
		}
		rg.fb.latestScript = []int64{op.X, op.Y}
		var got *consensusAPI.TransactionsWithResults
		var err error
		bad := c.guard("Core.GetTransactionsWithResults", wit, func() { got, err = rg.core.GetTransactionsWithResults(ctx, consensusAPI.HeightLatest) })
		rg.fb.perHeight, rg.fb.latestScript = nil, nil
		if bad {
			return
		}
		c.r.Eval(1)
		c.r.Count("history/steps/txs+results-latest", 1)
		if err != nil || got == nil {
			c.r.Count("history/txs+results-latest/refused", 1)
			return
		}
		c.r.Nontrivial("history/txs+results-latest/answered")
		var txH *chainHeight
		for hh := ch.first; hh <= ch.tip; hh++ {
			if z := ch.at(hh); z != nil && cmpTxs(z.txs, got.Transactions) == "" {
				if txH == nil || h.cmpTxResults(z, got) == "" {
					txH = z
				}
			}
		}
		switch {
		case txH == nil:
			c.r.Violation("c19/txs-with-results/latest/transactions-of-no-height"+histSuffix, fmt.Sprintf("Core.GetTransactionsWithResults(latest) returned transactions that are the transactions of no block of the chain (%s)", op), wit())
		case h.cmpTxResults(txH, got) != "":
			c.r.Violation("c19/txs-with-results/latest/transactions-and-results-of-different-heights"+histSuffix,
				fmt.Sprintf("Core.GetTransactionsWithResults(latest) with a provider whose tip went %d -> %d returned the transactions of height %d paired with results that are not those of that height (%s)", op.X, op.Y, txH.h, h.cmpTxResults(txH, got)), wit())
		}

	case "results":
		m := &consensusAPI.BlockResults{Height: y.res.Height, Meta: y.res.Meta}
		if op.Mode == "relabel-height" {
			m.Height = op.X
		}
		rg.fb.res = m
		var got *consensusAPI.BlockResults
		var err error
		if c.guard("Core.GetBlockResults", wit, func() { got, err = rg.core.GetBlockResults(ctx, op.X) }) {
			return
		}
		h.judge("results", i, op, honest, err, func() (string, string, error) {
			if got == nil {
				return "nil-returned", "", nil
			}
			return cmpResults(x.res, got)
		}, func(b string) string { return "c19/results/accepted-altered/" + b }, nil)

	case "parameters":
		m := *y.params
		switch op.Mode {
		case "relabel-height":
			m.Height = op.X
		case "x-meta-y-parameters":
			m = *x.params
			m.Parameters = *y.oasis
		case "x-parameters-y-meta":
			m = *x.params
			m.Meta = y.params.Meta
		}
		rg.fb.params = &m
		var got *consensusAPI.Parameters
		var err error
		if c.guard("Core.GetParameters", wit, func() { got, err = rg.core.GetParameters(ctx, op.X) }) {
			return
		}
		h.judge("parameters", i, op, honest, err, func() (string, string, error) {
			if got == nil {
				return "nil-returned", "", nil
			}
			return cmpParameters(x.params, got)
		}, func(b string) string { return "c19/parameters/accepted-altered/" + b },
			map[string]any{"served_parameters": hexs(cbor.Marshal(m.Parameters)), "state_parameters_at_asked_height": hexs(cbor.Marshal(x.oasis)),
				"same_consensus_hash": bytes.Equal(x.header.ConsensusHash, y.header.ConsensusHash)})

	case "state-root":
		rg.fb.txs = y.txs
		var root mkvsNode.Root
		var err error
		if c.guard("Core.StateRoot", wit, func() { root, err = rg.core.StateRoot(ctx, op.X) }) {
			return
		}
		c.r.Eval(1)
		c.r.Count("history/steps/state-root", 1)
		c.r.Nontrivial("history/state-root/" + map[bool]string{true: "from-next-header", false: "from-metadata-tx"}[op.X < ch.tip])
		want := mkvsNode.Root{Version: uint64(op.X), Type: mkvsNode.RootTypeState, Hash: x.stateRoot}
		switch {
		case err == nil && root != want:
			c.r.Violation("c19/state-root/wrong-root"+histSuffix, fmt.Sprintf("Core.StateRoot(%d) returned %+v, the chain binds %+v (%s)", op.X, root, want, op), wit())
		case err != nil && (op.X < ch.tip || cmpTxs(x.txs, y.txs) == ""):
			h.honestRejected("state-root", i, op, err)
		}

	case "validators":
		expect := ch.nextVals
		if op.X <= ch.tip {
			expect = x.valsResp
		}
		src := ch.nextVals
		if op.Y <= ch.tip {
			src = y.valsResp
		}
		m := &consensusAPI.Validators{Height: src.Height, Meta: src.Meta}
		if op.Mode == "relabel-height" {
			m.Height = op.X
		}
		rg.fb.vals = m
		var got *consensusAPI.Validators
		var err error
		if c.guard("Core.GetValidators", wit, func() { got, err = rg.core.GetValidators(ctx, op.X) }) {
			return
		}
		// Heights the light client can verify are answered from the light block: always "honest".
		hon := honest || op.X <= ch.tip
		h.judge("validators", i, op, hon, err, func() (string, string, error) {
			if got == nil {
				return "nil-returned", "", nil
			}
			return cmpValidators(expect, got)
		}, func(string) string { return "c19/validators/accepted-altered" }, nil)

	case "light-block":
		var got *consensusAPI.LightBlock
		var err error
		if c.guard("Core.GetLightBlock", wit, func() { got, err = rg.core.GetLightBlock(ctx, op.X) }) {
			return
		}
		c.r.Eval(1)
		c.r.Count("history/steps/light-block", 1)
		c.r.Nontrivial("history/light-block")
		if err != nil {
			h.honestRejected("light-block", i, op, err)
			return
		}
		lb, derr := light.DecodeLightBlock(got)
		if derr != nil || got.Height != op.X || !bytes.Equal(lb.Hash(), x.header.Hash()) {
			c.r.Violation("c19/light-block/wrong-header"+histSuffix, fmt.Sprintf("Core.GetLightBlock(%d) returned another header (%v)", op.X, derr), wit())
		}

	case "proof":
		// The provider proves inclusion of X's metadata transaction with the proof of Y's.
		_, proofs := merkle.ProofsForTransactions(y.txs)
		label := op.X
		if op.Mode == "label-y" {
			label = op.Y
		}
		p := &transaction.Proof{Height: label, RawProof: proofs[len(proofs)-1]}
		rg.fb.proof = p
		var got *transaction.Proof
		var err error
		if c.guard("Core.SubmitTxWithProof", wit, func() { got, err = rg.core.SubmitTxWithProof(ctx, x.metaTx) }) {
			return
		}
		c.r.Eval(1)
		c.r.Count("history/steps/proof", 1)
		c.r.Nontrivial("history/proof/" + op.Mode)
		raw := cbor.Marshal(x.metaTx)
		included := func(at int64) bool {
			for _, tx := range ch.at(at).txs {
				if bytes.Equal(tx, raw) {
					return true
				}
			}
			return false
		}
		switch {
		case err == nil && (got == nil || ch.at(got.Height) == nil || !included(got.Height)):
			c.r.Violation("c19/proof/verifies-for-other-block"+histSuffix, fmt.Sprintf("Core.SubmitTxWithProof accepted a proof for a block that does not contain the transaction (%s)", op), wit())
		case err != nil && op.X == op.Y:
			h.honestRejected("proof", i, op, err)
		}

	case "watch":
		h.watchStep(i, op)
	}
}

// watchStep pushes one block through the provider's WatchBlocks channel into
// Core.Serve and observes whether the Core broadcasts it, then checks GetStatus.
func (h *history) watchStep(i int, op histOp) {
	c, ch, rg := h.c, h.ch, h.rg
	x := ch.at(op.X)
	m := h.blockFor(op)
	if ch.at(m.Height) == nil {
		return // unknown heights make handleNewBlock retry for ever (liveness, not C19)
	}
	expect := ch.at(m.Height) // the header the Core verifies against is that of the block's own height
	_ = x
	wit := h.witness(i, op, map[string]any{"pushed_height": m.Height, "pushed_time": m.Time.Format(time.RFC3339Nano)})
	if h.serveErr == nil {
		sctx, cancel := context.WithCancel(c.ctx)
		h.serveStop = cancel
		h.serveErr = make(chan error, 1)
		go func(errCh chan error) { errCh <- rg.core.Serve(sctx) }(h.serveErr)
	}
	rg.fb.watchCh <- m
	var got *consensusAPI.Block
	var err error
	select {
	case got = <-h.subCh:
	case err = <-h.serveErr:
		h.serveErr = nil
		h.serveStop()
	case <-time.After(3 * time.Minute):
		c.r.Inconclusive("history %s step %d: neither a broadcast nor an error from Core.Serve within 3 minutes", h.id, i)
		return
	}
	honest := m.Height == op.Y && op.Mode == "raw"
	h.judge("block", i, op, honest, err, func() (string, string, error) {
		if got == nil {
			return "nil-block-returned", "", nil
		}
		return cmpBlock(expect.blk, got)
	}, func(b string) string { return "c19/block/accepted-altered/" + b }, map[string]any{"path": "WatchBlocks/Serve"})
	if got != nil {
		h.lastServed = got
	}
	// GetStatus reports the latest accepted block.
	var st *consensusAPI.Status
	var serr error
	if c.guard("Core.GetStatus", wit, func() { st, serr = rg.core.GetStatus(c.ctx) }) || serr != nil || h.lastServed == nil {
		return
	}
	c.r.Eval(1)
	c.r.Nontrivial("history/status")
	c.r.Count("history/steps/status", 1)
	// The Core broadcasts a block before it records it as the latest one, so the status may
	// still show the previously accepted block: whichever it shows must be header-bound.
	if st.LatestHeight == 0 {
		return
	}
	l := ch.at(st.LatestHeight)
	if l == nil || st.LatestHash != l.blk.Hash || !st.LatestTime.Equal(l.blk.Time) || st.LatestStateRoot != l.blk.StateRoot {
		c.r.Violation("c19/block/accepted-altered/status-latest-block"+histSuffix,
			fmt.Sprintf("Core.GetStatus reports latest height %d hash %s time %s state root %+v, which is not the block bound to the header of that height", st.LatestHeight, st.LatestHash, st.LatestTime.Format(time.RFC3339Nano), st.LatestStateRoot), wit())
	}
}

func (h *history) close() {
	if h.serveErr != nil {
		h.serveStop()
		select {
		case <-h.serveErr:
		case <-time.After(time.Minute):
		}
		h.serveErr = nil
	}
}

// systematicOps: for every kind and every ordered pair of heights, honest h1,
// h1's data relabelled for h2, honest h2, h2's data relabelled for h1, honest h1.
func systematicOps(ch *chain, kinds []string, rng *rand.Rand, maxPairs int) []histOp {
	var hs []int64
	for h := ch.first; h <= ch.tip; h++ {
		hs = append(hs, h)
	}
	type pair struct{ a, b int64 }
	var pairs []pair
	for _, a := range hs {
		for _, b := range hs {
			if a != b {
				pairs = append(pairs, pair{a, b})
			}
		}
	}
	rng.Shuffle(len(pairs), func(i, j int) { pairs[i], pairs[j] = pairs[j], pairs[i] })
	// Adjacent pairs first (a change between neighbouring heights is the common case).
	var ordered []pair
	for i := 0; i+1 < len(hs); i++ {
		ordered = append(ordered, pair{hs[i], hs[i+1]})
	}
	ordered = append(ordered, pairs...)
	if len(ordered) > maxPairs {
		ordered = ordered[:maxPairs]
	}
	var ops []histOp
	for _, k := range kinds {
		modes := histModes[k]
		for _, p := range ordered {
			if k == "results" && (p.a >= ch.tip || p.b >= ch.tip) {
				continue // results of the latest trusted height are not bound (documented)
			}
			stale := modes[min(1, len(modes)-1)]
			ops = append(ops,
				histOp{k, p.a, p.a, "raw"}, histOp{k, p.b, p.a, stale}, histOp{k, p.b, p.b, "raw"},
				histOp{k, p.a, p.b, stale}, histOp{k, p.a, p.a, "raw"}, histOp{k, p.b, p.a, modes[rng.IntN(len(modes))]}, histOp{k, p.b, p.b, "raw"})
		}
	}
	return ops
}

func randomOps(ch *chain, kinds []string, rng *rand.Rand, n int) []histOp {
	ops := make([]histOp, 0, n)
	span := ch.tip - ch.first + 1
	for len(ops) < n {
		k := kinds[rng.IntN(len(kinds))]
		x := ch.first + rng.Int64N(span)
		y := x
		if rng.IntN(2) == 0 {
			y = ch.first + rng.Int64N(span)
		}
		mode := "raw"
		if y != x || rng.IntN(4) == 0 {
			mode = histModes[k][rng.IntN(len(histModes[k]))]
		}
		switch k {
		case "results":
			if x >= ch.tip {
				continue
			}
		case "validators":
			if rng.IntN(3) == 0 {
				x = ch.tip + 1
				if rng.IntN(3) == 0 {
					y = x
					mode = "raw"
				}
			}
		case "proof":
			mode = histModes[k][rng.IntN(2)]
		}
		ops = append(ops, histOp{k, x, y, mode})
		// Often repeat the same query honestly right afterwards, or ask the other height back.
		switch rng.IntN(4) {
		case 0:
			if k != "validators" || x <= ch.tip {
				ops = append(ops, histOp{k, x, x, "raw"})
			}
		case 1:
			if y <= ch.tip && (k != "results" || y < ch.tip) && k != "proof" {
				ops = append(ops, histOp{k, y, y, "raw"})
			}
		}
	}
	return ops
}

func (c *checker) runHistory(ch *chain, id string, ops []histOp, watch bool, stream uint64) {
	rg, err := newRig(ch.rigSpec())
	if err != nil {
		c.r.Inconclusive("history %s: cannot build the Core rig: %v", id, err)
		return
	}
	h := &history{c: c, ch: ch, rg: rg, id: id, ops: ops, watch: watch, rng: c.r.Rand(stream, 1)}
	// The light client follows the chain to the tip first: block results are bound
	// only below the latest TRUSTED height.
	if _, err := rg.core.GetLightBlock(c.ctx, ch.tip); err != nil {
		c.r.Inconclusive("history %s: light client rejects the synthetic chain: %v", id, err)
		return
	}
	if watch {
		sub, closer, err := rg.core.WatchBlocks(c.ctx)
		if err != nil {
			c.r.Inconclusive("history %s: WatchBlocks: %v", id, err)
			return
		}
		defer closer.Close()
		h.subCh = sub
	}
	defer h.close()
	for i, op := range ops {
		h.step(i, op)
	}
	c.r.Count("history/histories", 1)
	c.r.Count("history/steps", int64(len(ops)))
	if len(ops) > 0 {
		c.r.Sample(map[string]any{"history": id, "steps": len(ops), "first_ops": fmt.Sprint(ops[:min(6, len(ops))])})
	}
}

func (c *checker) phaseHistory() {
	if !c.core {
		return
	}
	c.recordedPairHistory()
	nchains := c.r.Pick(4, 12)
	nheights := c.r.Pick(8, 12)
	nhist := c.r.Pick(16, 32)
	nops := c.r.Pick(1500, 8000)
	type job struct {
		ch         *chain
		ci, hi     int
		systematic bool
		watch      bool
	}
	var jobs []job
	for ci := 0; ci < nchains; ci++ {
		ch, err := buildChain(c.r.Rand(700, uint64(ci)), nheights)
		if err != nil {
			c.r.Inconclusive("cannot build the synthetic signed chain: %v", err)
			return
		}
		jobs = append(jobs, job{ch, ci, 0, true, false}, job{ch, ci, 1, true, true})
		for hi := 2; hi < nhist; hi++ {
			jobs = append(jobs, job{ch, ci, hi, false, hi%2 == 1})
		}
	}
	evid.Parallel(len(jobs), 0, func(k int) {
		j := jobs[k]
		rng := c.r.Rand(710, uint64(j.ci), uint64(j.hi))
		kinds := histKinds
		if j.watch {
			kinds = append(append([]string{}, histKinds...), "watch", "watch")
		}
		var ops []histOp
		if j.systematic {
			sk := []string{"parameters", "block", "txs", "results", "validators", "state-root"}
			if j.watch {
				sk = []string{"watch", "parameters", "block-latest"}
			}
			ops = systematicOps(j.ch, sk, rng, c.r.Pick(24, 200))
		} else {
			ops = randomOps(j.ch, kinds, rng, nops)
		}
		c.runHistory(j.ch, fmt.Sprintf("chain%d/history%d", j.ci, j.hi), ops, j.watch, 720+uint64(k))
	})
}

// recordedPairHistory: the two recorded mainnet heights carry the same
// ConsensusHash; the (fake, height-aware) verified state holds other Oasis
// parameters at 25300001 than at 25300000. One long-lived Core serves both.
func (c *checker) recordedPairHistory() {
	s := c.s
	h1, h2 := s.lb.Height, s.lb2.Height
	p2 := *s.trusted
	p2.MinGasPrice = s.trusted.MinGasPrice + 100
	p2.GasCosts = transaction.Costs{}
	for k, v := range s.trusted.GasCosts {
		p2.GasCosts[k] = v + 1
	}
	at := map[int64]*consensusAPI.Parameters{
		h1: s.params,
		h2: {Height: h2, Parameters: p2, Meta: s.params.Meta},
	}
	if !bytes.Equal(s.lb.ConsensusHash, s.lb2.ConsensusHash) {
		c.r.Count("history/recorded-pair/consensus-hash-differs", 1)
	}
	spec := rigSpec{
		chainID: s.lb.ChainID, blocks: map[int64]*consensusAPI.LightBlock{h1: s.clb, h2: s.clb2}, latest: h2, trustH: h1, trustID: s.lb.Hash(),
		paramsAt: func(h int64) *consensusGenesis.Parameters {
			if p := at[h]; p != nil {
				return &p.Parameters
			}
			return nil
		},
	}
	for _, order := range [][2]int64{{h1, h2}, {h2, h1}} {
		rg, err := newRig(spec)
		if err != nil {
			c.r.Inconclusive("recorded pair history: %v", err)
			return
		}
		var trail []string
		ask := func(x, y int64) {
			m := *at[y]
			m.Height = x
			rg.fb.params = &m
			name := fmt.Sprintf("parameters ask=%d from=%d relabel-height", x, y)
			trail = append(trail, name)
			tr := append([]string{}, trail...)
			wit := func() any {
				return map[string]any{"history": "recorded-pair", "ops": tr, "same_consensus_hash": bytes.Equal(s.lb.ConsensusHash, s.lb2.ConsensusHash)}
			}
			var got *consensusAPI.Parameters
			var err error
			if c.guard("Core.GetParameters", wit, func() { got, err = rg.core.GetParameters(c.ctx, x) }) {
				return
			}
			c.r.Count("history/steps/parameters", 1)
			if x == y {
				c.r.Eval(1)
				c.r.Nontrivial("history/parameters/honest/recorded-pair")
				if err != nil {
					c.r.Violation("c19/honest-response-rejected/parameters"+histSuffix, fmt.Sprintf("long-lived Core rejected the honest parameters of %d after serving the other height: %v", x, err),
						map[string]any{"seed": c.r.Seed, "tier": c.r.Tier, "kind": "parameters", "error": err.Error(), "case": wit()})
				}
				return
			}
			c.judgeAltered(verdict{"parameters", "history:relabel-height", "from-other-height", "core-history",
				func(b string) string { return "c19/parameters/accepted-altered/" + b + histSuffix }}, err == nil, err,
				func() (string, string, error) {
					if got == nil {
						return "nil-returned", "", nil
					}
					return cmpParameters(at[x], got)
				}, wit)
		}
		a, b := order[0], order[1]
		for rep := 0; rep < 3; rep++ {
			ask(a, a)
			ask(b, a)
			ask(b, b)
			ask(a, b)
		}
	}
}
