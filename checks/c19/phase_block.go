package main

import (
	"fmt"
	"math"
	"math/rand/v2"
	"time"

	cmtproto "github.com/cometbft/cometbft/proto/tendermint/types"
	cmttypes "github.com/cometbft/cometbft/types"

	"github.com/oasisprotocol/oasis-core/go/common/cbor"
	"github.com/oasisprotocol/oasis-core/go/common/crypto/hash"
	consensusAPI "github.com/oasisprotocol/oasis-core/go/consensus/api"
	cmtapi "github.com/oasisprotocol/oasis-core/go/consensus/cometbft/api"
	"github.com/oasisprotocol/oasis-core/go/consensus/cometbft/stateless"
	mkvsNode "github.com/oasisprotocol/oasis-core/go/storage/mkvs/node"
	"verif/engine/evid"
)

type blockTarget struct {
	name       string
	orig       *consensusAPI.Block
	lb         *cmttypes.LightBlock
	coreHeight int64 // 0: export level only
}

type blockMutant struct {
	field, mut, desc string
	m                *consensusAPI.Block
}

func blockWitness(t blockTarget, bm blockMutant) func() any {
	return func() any {
		return map[string]any{
			"sample": t.name, "field": bm.field, "mutation": bm.mut, "desc": bm.desc,
			"mutant": map[string]any{
				"height": bm.m.Height, "hash": bm.m.Hash.String(), "time": bm.m.Time.Format(time.RFC3339Nano),
				"state_root": fmt.Sprintf("%+v", bm.m.StateRoot), "size": bm.m.Size, "meta": hexs(bm.m.Meta), "meta_len": len(bm.m.Meta),
			},
			"light_block_height": t.lb.Height,
		}
	}
}

func (c *checker) tryBlock(t blockTarget, bm blockMutant, coreToo bool) {
	sig := func(b string) string { return "c19/block/accepted-altered/" + b }
	wit := blockWitness(t, bm)
	var err error
	if !c.guard("verifyBlock", wit, func() { err = stateless.VerifVerifyBlock(bm.m, t.lb) }) {
		c.judgeAltered(verdict{"block", bm.field, bm.mut, "export", sig}, err == nil, err,
			func() (string, string, error) { return cmpBlock(t.orig, bm.m) }, wit)
	}
	if !c.core || !coreToo || t.coreHeight == 0 {
		return
	}
	withRig(c.rigsA, func(rg *rig) {
		rg.fb.blk = bm.m
		var got *consensusAPI.Block
		var err error
		if c.guard("Core.GetBlock", wit, func() { got, err = rg.core.GetBlock(c.ctx, t.coreHeight) }) {
			return
		}
		c.judgeAltered(verdict{"block", bm.field, bm.mut, "core", sig}, err == nil, err,
			func() (string, string, error) {
				if got == nil {
					return "nil-block-returned", "", nil
				}
				return cmpBlock(t.orig, got)
			}, wit)
	})
}

// reencodeMeta builds BlockMeta CBOR by hand (map, chosen key order / spelling).
func cborBstr(b []byte) []byte {
	var h []byte
	switch n := len(b); {
	case n < 24:
		h = []byte{0x40 | byte(n)}
	case n < 256:
		h = []byte{0x58, byte(n)}
	case n < 65536:
		h = []byte{0x59, byte(n >> 8), byte(n)}
	default:
		h = []byte{0x5a, byte(n >> 24), byte(n >> 16), byte(n >> 8), byte(n)}
	}
	return append(h, b...)
}

func cborTstr(s string) []byte {
	if len(s) >= 24 {
		panic("long key")
	}
	return append([]byte{0x60 | byte(len(s))}, s...)
}

func handMeta(pairs ...any) []byte {
	out := []byte{0xa0 | byte(len(pairs)/2)}
	for i := 0; i < len(pairs); i += 2 {
		out = append(out, cborTstr(pairs[i].(string))...)
		out = append(out, cborBstr(pairs[i+1].([]byte))...)
	}
	return out
}

func marshalCommit(c *cmttypes.Commit) []byte {
	b, err := c.ToProto().Marshal()
	if err != nil {
		panic(err)
	}
	return b
}

// blockFieldMutants enumerates the field-level alterations of a block response.
func (c *checker) blockFieldMutants(t blockTarget, other *consensusAPI.Block, otherLB *cmttypes.LightBlock, rng *rand.Rand) []blockMutant {
	var out []blockMutant
	add := func(field, mut, desc string, f func(b *consensusAPI.Block)) {
		m := *t.orig
		m.Meta = clone(t.orig.Meta)
		f(&m)
		out = append(out, blockMutant{field, mut, desc, &m})
	}
	// Height.
	for _, d := range []int64{1, -1, 2, 1000} {
		d := d
		add("height", "delta", fmt.Sprintf("height%+d", d), func(b *consensusAPI.Block) { b.Height += d })
	}
	for _, v := range []int64{0, -1, math.MaxInt64, math.MinInt64, otherLB.Height, rng.Int64()} {
		v := v
		if v == t.orig.Height {
			continue
		}
		add("height", "set", fmt.Sprintf("height=%d", v), func(b *consensusAPI.Block) { b.Height = v })
	}
	// Hash.
	for i := 0; i < hash.Size; i++ {
		i, bit := i, uint(rng.UintN(8))
		add("hash", "bitflip", fmt.Sprintf("hash[%d]^=1<<%d", i, bit), func(b *consensusAPI.Block) { b.Hash[i] ^= 1 << bit })
	}
	add("hash", "set", "hash=zero", func(b *consensusAPI.Block) { b.Hash = hash.Hash{} })
	add("hash", "other-block", "hash of the other block", func(b *consensusAPI.Block) { b.Hash = other.Hash })
	var eh hash.Hash
	eh.Empty()
	add("hash", "set", "hash=empty-hash", func(b *consensusAPI.Block) { b.Hash = eh })
	// Time: the header binds Block.Time exactly (header time truncated to the second).
	for _, d := range []time.Duration{
		time.Nanosecond, time.Microsecond, time.Millisecond, 500 * time.Millisecond, 999 * time.Millisecond, time.Second - time.Nanosecond,
	} {
		d := d
		// Inside the same wall-clock second (Block.Time is second-aligned) ...
		add("time", "delta-subsecond", "time+"+d.String(), func(b *consensusAPI.Block) { b.Time = b.Time.Add(d) })
		// ... and across the second boundary into the previous second.
		add("time", "delta-subsecond", "time-"+d.String(), func(b *consensusAPI.Block) { b.Time = b.Time.Add(-d) })
	}
	for _, d := range []time.Duration{time.Second, -time.Second, time.Second + time.Nanosecond, 2 * time.Second, time.Minute, time.Hour, -24 * time.Hour} {
		d := d
		add("time", "delta", "time"+d.String(), func(b *consensusAPI.Block) { b.Time = b.Time.Add(d) })
	}
	add("time", "set-subsecond", "time = header time rounded to the nearest second", func(b *consensusAPI.Block) { b.Time = t.lb.Time.Round(time.Second) })
	add("time", "set-subsecond", "time = header time truncated to the millisecond", func(b *consensusAPI.Block) { b.Time = t.lb.Time.Truncate(time.Millisecond) })
	add("time", "set-subsecond", "time = header time truncated to the microsecond", func(b *consensusAPI.Block) { b.Time = t.lb.Time.Truncate(time.Microsecond) })
	add("time", "set-subsecond", "random instant inside the header's second", func(b *consensusAPI.Block) { b.Time = b.Time.Add(time.Duration(1 + rng.Int64N(999_999_999))) })
	add("time", "other-block", "time of the other block", func(b *consensusAPI.Block) { b.Time = other.Time })
	add("time", "set", "time=zero", func(b *consensusAPI.Block) { b.Time = time.Time{} })
	add("time", "set", "time=untruncated header time", func(b *consensusAPI.Block) { b.Time = t.lb.Time })
	add("time", "zone", "same instant, other location", func(b *consensusAPI.Block) { b.Time = b.Time.In(time.FixedZone("x", 3*3600)) })
	add("time", "zone", "same instant, UTC", func(b *consensusAPI.Block) { b.Time = b.Time.UTC() })
	// State root.
	for i := 0; i < len(t.orig.StateRoot.Namespace); i++ {
		i, bit := i, uint(rng.UintN(8))
		add("state_root.namespace", "bitflip", fmt.Sprintf("ns[%d]^=1<<%d", i, bit), func(b *consensusAPI.Block) { b.StateRoot.Namespace[i] ^= 1 << bit })
	}
	for _, d := range []int64{1, -1, 2} {
		d := d
		add("state_root.version", "delta", fmt.Sprintf("version%+d", d), func(b *consensusAPI.Block) { b.StateRoot.Version = uint64(int64(b.StateRoot.Version) + d) })
	}
	for _, v := range []uint64{0, math.MaxUint64, uint64(t.orig.Height) + 1, rng.Uint64()} {
		v := v
		if v == t.orig.StateRoot.Version {
			continue
		}
		add("state_root.version", "set", fmt.Sprintf("version=%d", v), func(b *consensusAPI.Block) { b.StateRoot.Version = v })
	}
	for v := 0; v < 256; v++ {
		v := mkvsNode.RootType(v)
		if v == t.orig.StateRoot.Type {
			continue
		}
		if c.r.Quick() && v > 6 && v < 250 {
			continue
		}
		add("state_root.type", "set", fmt.Sprintf("type=%d", v), func(b *consensusAPI.Block) { b.StateRoot.Type = v })
	}
	for i := 0; i < hash.Size; i++ {
		i, bit := i, uint(rng.UintN(8))
		add("state_root.hash", "bitflip", fmt.Sprintf("root[%d]^=1<<%d", i, bit), func(b *consensusAPI.Block) { b.StateRoot.Hash[i] ^= 1 << bit })
	}
	add("state_root.hash", "set", "root=zero", func(b *consensusAPI.Block) { b.StateRoot.Hash = hash.Hash{} })
	add("state_root.hash", "set", "root=empty-hash", func(b *consensusAPI.Block) { b.StateRoot.Hash = eh })
	add("state_root.hash", "other-block", "root = other block's app hash", func(b *consensusAPI.Block) { copy(b.StateRoot.Hash[:], otherLB.AppHash) })
	add("state_root.hash", "other-block", "root = own data hash", func(b *consensusAPI.Block) { copy(b.StateRoot.Hash[:], t.lb.DataHash) })
	// Size (documented as unverifiable: outside the normal form).
	for _, v := range []uint64{0, t.orig.Size + 1, math.MaxUint64} {
		v := v
		if v == t.orig.Size {
			continue
		}
		add("size", "set", fmt.Sprintf("size=%d", v), func(b *consensusAPI.Block) { b.Size = v })
	}
	// Meta, structured.
	var meta cmtapi.BlockMeta
	if err := cbor.Unmarshal(t.orig.Meta, &meta); err != nil {
		c.r.Inconclusive("harness: sample block meta undecodable: %v", err)
		return out
	}
	var ometa cmtapi.BlockMeta
	_ = cbor.Unmarshal(other.Meta, &ometa)
	commit, err := decodeCommit(meta.LastCommit)
	if err != nil {
		c.r.Inconclusive("harness: sample last commit undecodable: %v", err)
		return out
	}
	setMeta := func(field, mut, desc string, raw []byte) {
		add(field, mut, desc, func(b *consensusAPI.Block) { b.Meta = raw })
	}
	setMeta("meta", "set", "meta=nil", nil)
	setMeta("meta", "set", "meta=empty", []byte{})
	setMeta("meta", "set", "meta=empty map", []byte{0xa0})
	setMeta("meta", "other-block", "meta of the other block", clone(other.Meta))
	setMeta("meta", "reencode", "canonical re-encoding", cbor.Marshal(meta))
	setMeta("meta", "reencode", "hand-built, keys header,last_commit", handMeta("header", meta.Header, "last_commit", meta.LastCommit))
	setMeta("meta", "reencode", "hand-built, keys last_commit,header", handMeta("last_commit", meta.LastCommit, "header", meta.Header))
	setMeta("meta", "reencode", "hand-built, key case Header/LAST_COMMIT", handMeta("Header", meta.Header, "LAST_COMMIT", meta.LastCommit))
	setMeta("meta", "extra-key", "additional unknown key", handMeta("header", meta.Header, "last_commit", meta.LastCommit, "zzz", []byte{1}))
	setMeta("meta", "dup-key", "duplicate header key (other block's header second)", handMeta("header", meta.Header, "header", ometa.Header, "last_commit", meta.LastCommit))
	setMeta("meta", "dup-key", "duplicate header key (other block's header first)", handMeta("header", ometa.Header, "header", meta.Header, "last_commit", meta.LastCommit))
	setMeta("meta", "trailing", "trailing byte after the CBOR item", append(clone(t.orig.Meta), 0x00))
	setMeta("meta.header", "other-block", "header of the other block", cbor.Marshal(cmtapi.BlockMeta{Header: ometa.Header, LastCommit: meta.LastCommit}))
	setMeta("meta.header", "set", "header empty", cbor.Marshal(cmtapi.BlockMeta{Header: nil, LastCommit: meta.LastCommit}))
	setMeta("meta.header", "append", "header + one zero byte", cbor.Marshal(cmtapi.BlockMeta{Header: append(clone(meta.Header), 0), LastCommit: meta.LastCommit}))
	// Header decoded, one field changed, re-encoded.
	var hp cmtproto.Header
	if err := hp.Unmarshal(meta.Header); err == nil {
		hdrMut := func(name string, f func(h *cmtproto.Header)) {
			h2 := hp
			f(&h2)
			raw, err := h2.Marshal()
			if err != nil {
				return
			}
			setMeta("meta.header", "field", "header."+name+" altered, re-encoded", cbor.Marshal(cmtapi.BlockMeta{Header: raw, LastCommit: meta.LastCommit}))
		}
		hdrMut("height", func(h *cmtproto.Header) { h.Height++ })
		hdrMut("time", func(h *cmtproto.Header) { h.Time = h.Time.Add(time.Nanosecond) })
		hdrMut("chain_id", func(h *cmtproto.Header) { h.ChainID += "x" })
		hdrMut("app_hash", func(h *cmtproto.Header) { h.AppHash = clone(otherLB.AppHash) })
		hdrMut("data_hash", func(h *cmtproto.Header) { h.DataHash = rbytes(rng, 32) })
		hdrMut("last_results_hash", func(h *cmtproto.Header) { h.LastResultsHash = rbytes(rng, 32) })
		hdrMut("validators_hash", func(h *cmtproto.Header) { h.ValidatorsHash = rbytes(rng, 32) })
		hdrMut("next_validators_hash", func(h *cmtproto.Header) { h.NextValidatorsHash = rbytes(rng, 32) })
		hdrMut("consensus_hash", func(h *cmtproto.Header) { h.ConsensusHash = rbytes(rng, 32) })
		hdrMut("evidence_hash", func(h *cmtproto.Header) { h.EvidenceHash = rbytes(rng, 32) })
		hdrMut("last_commit_hash", func(h *cmtproto.Header) { h.LastCommitHash = rbytes(rng, 32) })
		hdrMut("proposer_address", func(h *cmtproto.Header) { h.ProposerAddress = rbytes(rng, 20) })
		hdrMut("last_block_id", func(h *cmtproto.Header) { h.LastBlockId.Hash = rbytes(rng, 32) })
		hdrMut("version.app", func(h *cmtproto.Header) { h.Version.App++ })
	}
	// Last commit.
	cm := func(mut, desc string, f func(cc *cmttypes.Commit)) {
		cc := commit.Clone()
		f(cc)
		setMeta("meta.last_commit", mut, desc, cbor.Marshal(cmtapi.BlockMeta{Header: meta.Header, LastCommit: marshalCommit(cc)}))
	}
	setMeta("meta.last_commit", "set", "last commit empty", cbor.Marshal(cmtapi.BlockMeta{Header: meta.Header}))
	setMeta("meta.last_commit", "other-block", "last commit of the other block", cbor.Marshal(cmtapi.BlockMeta{Header: meta.Header, LastCommit: ometa.LastCommit}))
	if t.lb.Commit != nil && len(t.lb.Commit.Signatures) > 0 {
		setMeta("meta.last_commit", "other-block", "the commit FOR this block instead of the last commit", cbor.Marshal(cmtapi.BlockMeta{Header: meta.Header, LastCommit: marshalCommit(t.lb.Commit)}))
	}
	cm("commit.height", "commit height+1", func(cc *cmttypes.Commit) { cc.Height++ })
	cm("commit.height", "commit height-1", func(cc *cmttypes.Commit) { cc.Height-- })
	cm("commit.round", "commit round+1", func(cc *cmttypes.Commit) { cc.Round++ })
	cm("commit.block_id", "commit block id hash altered", func(cc *cmttypes.Commit) {
		cc.BlockID.Hash = clone(cc.BlockID.Hash)
		cc.BlockID.Hash[0] ^= 1
	})
	cm("commit.block_id", "commit part set header altered", func(cc *cmttypes.Commit) { cc.BlockID.PartSetHeader.Total++ })
	nsig := len(commit.Signatures)
	if nsig > 0 {
		i := rng.IntN(nsig)
		cm("commit.sigs.drop", fmt.Sprintf("drop signature %d", i), func(cc *cmttypes.Commit) { cc.Signatures = append(cc.Signatures[:i:i], cc.Signatures[i+1:]...) })
		cm("commit.sigs.drop", "drop last signature", func(cc *cmttypes.Commit) { cc.Signatures = cc.Signatures[:nsig-1] })
		cm("commit.sigs.dup", fmt.Sprintf("duplicate signature %d", i), func(cc *cmttypes.Commit) { cc.Signatures = append(cc.Signatures, cc.Signatures[i]) })
		if nsig > 1 {
			j := (i + 1) % nsig
			if marshalEq(commit.Signatures[i], commit.Signatures[j]) {
				// identical entries: swapping them is no alteration
			} else {
				cm("commit.sigs.swap", fmt.Sprintf("swap signatures %d,%d", i, j), func(cc *cmttypes.Commit) { cc.Signatures[i], cc.Signatures[j] = cc.Signatures[j], cc.Signatures[i] })
			}
		}
		for k := 0; k < nsig && k < c.r.Pick(8, 1000); k++ {
			k := k
			if commit.Signatures[k].BlockIDFlag == cmttypes.BlockIDFlagAbsent {
				cm("commit.sigs.flag", fmt.Sprintf("signature %d absent->nil vote", k), func(cc *cmttypes.Commit) {
					cc.Signatures[k] = cmttypes.CommitSig{BlockIDFlag: cmttypes.BlockIDFlagNil, ValidatorAddress: rbytes(rng, 20), Timestamp: time.Unix(1, 0), Signature: rbytes(rng, 64)}
				})
				continue
			}
			cm("commit.sigs.signature", fmt.Sprintf("signature %d: flip a signature bit", k), func(cc *cmttypes.Commit) {
				cc.Signatures[k].Signature = clone(cc.Signatures[k].Signature)
				cc.Signatures[k].Signature[rng.IntN(len(cc.Signatures[k].Signature))] ^= 1 << rng.UintN(8)
			})
			cm("commit.sigs.timestamp", fmt.Sprintf("signature %d: timestamp+1ns", k), func(cc *cmttypes.Commit) {
				cc.Signatures[k].Timestamp = cc.Signatures[k].Timestamp.Add(time.Nanosecond)
			})
			cm("commit.sigs.address", fmt.Sprintf("signature %d: validator address altered", k), func(cc *cmttypes.Commit) {
				cc.Signatures[k].ValidatorAddress = clone(cc.Signatures[k].ValidatorAddress)
				cc.Signatures[k].ValidatorAddress[0] ^= 1
			})
			cm("commit.sigs.flag", fmt.Sprintf("signature %d: flag commit<->nil", k), func(cc *cmttypes.Commit) {
				if cc.Signatures[k].BlockIDFlag == cmttypes.BlockIDFlagCommit {
					cc.Signatures[k].BlockIDFlag = cmttypes.BlockIDFlagNil
				} else {
					cc.Signatures[k].BlockIDFlag = cmttypes.BlockIDFlagCommit
				}
			})
			cm("commit.sigs.flag", fmt.Sprintf("signature %d -> absent", k), func(cc *cmttypes.Commit) { cc.Signatures[k] = cmttypes.NewCommitSigAbsent() })
		}
	}
	return out
}

func marshalEq(a, b cmttypes.CommitSig) bool {
	x, _ := a.ToProto().Marshal()
	y, _ := b.ToProto().Marshal()
	return string(x) == string(y)
}

// labelBlockMeta labels every byte of a BlockMeta CBOR blob, descending into
// the protobuf header and commit.
func labelBlockMeta(meta []byte) []string {
	labels := make([]string, len(meta))
	nested := func(path string, off, n int) bool {
		switch path {
		case "meta.header":
			return protoLabel(meta, labels, off, n, path, schemaHeader) == nil
		case "meta.last_commit":
			return protoLabel(meta, labels, off, n, path, schemaCommit) == nil
		}
		return false
	}
	_, _ = cborLabel(meta, labels, 0, "meta", nested)
	for i := range labels {
		if labels[i] == "" {
			labels[i] = "meta#unclassified"
		}
	}
	return labels
}

func (c *checker) blockMetaBytes(t blockTarget, stream uint64, coreStride int) {
	labels := labelBlockMeta(t.orig.Meta)
	// Quick tier: one byte in 4 of the (107 x 64) raw signature bytes of the last commit.
	ph := int(uint64(c.r.Seed) % 4)
	sel := func(off int) bool {
		return !c.r.Quick() || off%4 == ph || labels[off] != "meta.last_commit/signatures/signature"
	}
	c.forEachByteMutantSel(stream, t.orig.Meta, sel, func(bc byteCase) {
		m := *t.orig
		m.Meta = bc.data
		lab := labels[min(bc.off, len(labels)-1)]
		coreToo := coreStride > 0 && ((bc.off+bc.off/8)%coreStride == int(uint64(c.r.Seed)%uint64(coreStride)))
		if coreToo {
			// The Core returns the provider's object: give it its own copy.
			m.Meta = clone(bc.data)
		}
		c.tryBlock(t, blockMutant{lab, bc.mut, bc.desc, &m}, coreToo)
	})
}

func (c *checker) phaseBlock() {
	s := c.s
	t1 := blockTarget{"recorded-25300000", s.blk, s.lb, s.lb.Height}
	targets := []blockTarget{t1}
	// Honest responses.
	honest := func(t blockTarget) {
		var err error
		wit := func() any { return map[string]any{"sample": t.name} }
		if !c.guard("verifyBlock", wit, func() { err = stateless.VerifVerifyBlock(t.orig, t.lb) }) {
			c.judgeHonest("block", "export", t.name, err, wit)
		}
		if c.core && t.coreHeight != 0 {
			withRig(c.rigsA, func(rg *rig) {
				rg.fb.blk = t.orig
				var got *consensusAPI.Block
				if !c.guard("Core.GetBlock", wit, func() { got, err = rg.core.GetBlock(c.ctx, t.coreHeight) }) {
					c.judgeHonest("block", "core", t.name, err, wit)
					if err == nil && got != t.orig {
						c.r.Inconclusive("Core.GetBlock returned an object other than the provider's")
					}
				}
			})
		}
	}
	honest(t1)
	var t2 blockTarget
	if s.blk2 != nil {
		t2 = blockTarget{"rebuilt-25300001", s.blk2, s.lb2, s.lb2.Height}
		targets = append(targets, t2)
		honest(t2)
		// The honest response of the OTHER height.
		c.tryBlock(t1, blockMutant{"whole-response", "other-block", "honest block 25300001 served for 25300000", s.blk2}, true)
		c.tryBlock(t2, blockMutant{"whole-response", "other-block", "honest block 25300000 served for 25300001", s.blk}, true)
	} else {
		c.r.Count("block/second-sample-unavailable", 1)
	}
	for ti, t := range targets {
		other, otherLB := s.blk, s.lb
		if ti == 0 {
			otherLB = s.lb2
			if s.blk2 != nil {
				other = s.blk2
			} else {
				o := *s.blk
				o.Hash = hash.NewFromBytes([]byte("other"))
				other = &o
			}
		}
		muts := c.blockFieldMutants(t, other, otherLB, c.r.Rand(100, uint64(ti)))
		evid.Parallel(len(muts), 0, func(i int) { c.tryBlock(t, muts[i], true) })
		coreStride := c.r.Pick(4, 1)
		c.blockMetaBytes(t, 110+uint64(ti), coreStride)
	}
	// Synthetic blocks (export level only: their headers are not signed).
	nsynth := c.r.Pick(60, 600)
	nbytes := c.r.Pick(4, 40)
	for i := 0; i < nsynth; i++ {
		rng := c.r.Rand(120, uint64(i))
		sb, err := synthBlockWith(rng, synthTxs(rng, rng.IntN(5)))
		if err != nil {
			c.r.Inconclusive("harness: synthetic block: %v", err)
			return
		}
		so, err := synthBlockWith(rng, synthTxs(rng, rng.IntN(5)))
		if err != nil {
			c.r.Inconclusive("harness: synthetic block: %v", err)
			return
		}
		t := blockTarget{fmt.Sprintf("synthetic-%d", i), sb.blk, sb.lb, 0}
		honest(t)
		muts := c.blockFieldMutants(t, so.blk, so.lb, rng)
		evid.Parallel(len(muts), 0, func(k int) { c.tryBlock(t, muts[k], false) })
		if i < nbytes {
			c.blockMetaBytes(t, 130+uint64(i), 0)
		}
	}
}
