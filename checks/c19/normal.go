package main

// Normal forms. For every response kind cmpX(orig, mutant) decodes both
// responses itself and reports
//   boundDiff   – the first component of the NORMAL FORM (exactly what the
//                 verified header binds) that differs ("" = normal forms equal),
//   unboundDiff – if the normal forms are equal: the first decoded component
//                 outside the normal form that differs ("" = the mutant decodes
//                 to the identical response, i.e. a pure re-encoding),
//   err         – the mutant could not be decoded by the checker at all.

import (
	"bytes"
	"crypto/sha256"
	"fmt"

	abci "github.com/cometbft/cometbft/abci/types"
	cmtmerkle "github.com/cometbft/cometbft/crypto/merkle"
	cmtproto "github.com/cometbft/cometbft/proto/tendermint/types"
	cmttypes "github.com/cometbft/cometbft/types"

	"github.com/oasisprotocol/oasis-core/go/common/cbor"
	consensusAPI "github.com/oasisprotocol/oasis-core/go/consensus/api"
	cmtapi "github.com/oasisprotocol/oasis-core/go/consensus/cometbft/api"
	"github.com/oasisprotocol/oasis-core/go/consensus/cometbft/light"
)

func decodeCommit(raw []byte) (*cmttypes.Commit, error) {
	var p cmtproto.Commit
	if err := p.Unmarshal(raw); err != nil {
		return nil, err
	}
	return cmttypes.CommitFromProto(&p)
}

type blockDecoded struct {
	header []byte
	commit *cmttypes.Commit
}

func decodeBlockMeta(b *consensusAPI.Block) (*blockDecoded, error) {
	var meta cmtapi.BlockMeta
	if err := cbor.Unmarshal(b.Meta, &meta); err != nil {
		return nil, fmt.Errorf("block meta: %w", err)
	}
	c, err := decodeCommit(meta.LastCommit)
	if err != nil {
		return nil, fmt.Errorf("last commit: %w", err)
	}
	return &blockDecoded{header: meta.Header, commit: c}, nil
}

func cmpBlock(orig, mut *consensusAPI.Block) (string, string, error) {
	// Top-level fields first: they need no decoding.
	switch {
	case orig.Height != mut.Height:
		return "height", "", nil
	case orig.Hash != mut.Hash:
		return "hash", "", nil
	case !orig.Time.Equal(mut.Time):
		// verifyBlock binds the provider's Time to the header time truncated to the
		// second EXACTLY: any other instant, also inside the same second, is altered content.
		if orig.Time.Unix() == mut.Time.Unix() {
			return "time.subsecond", "", nil
		}
		return "time", "", nil
	case orig.StateRoot.Namespace != mut.StateRoot.Namespace:
		return "state_root.namespace", "", nil
	case orig.StateRoot.Version != mut.StateRoot.Version:
		return "state_root.version", "", nil
	case orig.StateRoot.Type != mut.StateRoot.Type:
		return "state_root.type", "", nil
	case orig.StateRoot.Hash != mut.StateRoot.Hash:
		return "state_root.hash", "", nil
	}
	od, err := decodeBlockMeta(orig)
	if err != nil {
		return "", "", fmt.Errorf("original undecodable: %w", err)
	}
	md, err := decodeBlockMeta(mut)
	if err != nil {
		return "meta.undecodable", "", err
	}
	if !bytes.Equal(od.header, md.header) {
		return "meta.header", "", nil
	}
	if !bytes.Equal(od.commit.Hash(), md.commit.Hash()) {
		return "meta.last_commit", "", nil
	}
	// Outside the normal form.
	switch {
	case orig.Size != mut.Size:
		return "", "size", nil
	case od.commit.Height != md.commit.Height:
		return "", "meta.last_commit.height", nil
	case od.commit.Round != md.commit.Round:
		return "", "meta.last_commit.round", nil
	case !od.commit.BlockID.Equals(md.commit.BlockID):
		return "", "meta.last_commit.block_id", nil
	}
	ob, _ := od.commit.ToProto().Marshal()
	mb, _ := md.commit.ToProto().Marshal()
	if !bytes.Equal(ob, mb) {
		return "", "meta.last_commit.other", nil
	}
	return "", "", nil
}

func cmpTxs(orig, mut [][]byte) string {
	if len(orig) != len(mut) {
		return "count"
	}
	for i := range orig {
		if !bytes.Equal(orig[i], mut[i]) {
			return "bytes"
		}
	}
	return ""
}

func cmpResults(orig, mut *consensusAPI.BlockResults) (string, string, error) {
	if orig.Height != mut.Height {
		return "height", "", nil
	}
	om, err := cmtapi.NewBlockResultsMeta(orig)
	if err != nil {
		return "", "", fmt.Errorf("original undecodable: %w", err)
	}
	mm, err := cmtapi.NewBlockResultsMeta(mut)
	if err != nil {
		return "meta.undecodable", "", err
	}
	if len(om.TxsResults) != len(mm.TxsResults) {
		return "meta.txs_results.count", "", nil
	}
	for i, o := range om.TxsResults {
		m := mm.TxsResults[i]
		if (o == nil) != (m == nil) {
			return "meta.txs_results.nil", "", nil
		}
		if o == nil {
			continue
		}
		switch {
		case o.Code != m.Code:
			return "meta.txs_results.code", "", nil
		case !bytes.Equal(o.Data, m.Data):
			return "meta.txs_results.data", "", nil
		case o.GasWanted != m.GasWanted:
			return "meta.txs_results.gas_wanted", "", nil
		case o.GasUsed != m.GasUsed:
			return "meta.txs_results.gas_used", "", nil
		}
	}
	// Outside the normal form (what LastResultsHash does not cover).
	for i, o := range om.TxsResults {
		m := mm.TxsResults[i]
		if o == nil {
			continue
		}
		switch {
		case o.Log != m.Log:
			return "", "meta.txs_results.log", nil
		case o.Info != m.Info:
			return "", "meta.txs_results.info", nil
		case o.Codespace != m.Codespace:
			return "", "meta.txs_results.codespace", nil
		case !eventsEqual(o.Events, m.Events):
			return "", "meta.txs_results.events", nil
		}
	}
	if !eventsEqual(om.BeginBlockEvents, mm.BeginBlockEvents) {
		return "", "meta.begin_block_events", nil
	}
	if !eventsEqual(om.EndBlockEvents, mm.EndBlockEvents) {
		return "", "meta.end_block_events", nil
	}
	if !bytes.Equal(cbor.Marshal(om), cbor.Marshal(mm)) {
		return "", "meta.other", nil
	}
	return "", "", nil
}

func eventsEqual(a, b []abci.Event) bool {
	if len(a) != len(b) {
		return false
	}
	for i := range a {
		if a[i].Type != b[i].Type || len(a[i].Attributes) != len(b[i].Attributes) {
			return false
		}
		for k := range a[i].Attributes {
			if a[i].Attributes[k] != b[i].Attributes[k] {
				return false
			}
		}
	}
	return true
}

func cmpValidators(orig, mut *consensusAPI.Validators) (string, string, error) {
	if orig.Height != mut.Height {
		return "height", "", nil
	}
	ov, err := light.DecodeValidators(orig)
	if err != nil {
		return "", "", fmt.Errorf("original undecodable: %w", err)
	}
	mv, err := light.DecodeValidators(mut)
	if err != nil {
		return "meta.undecodable", "", err
	}
	if len(ov.Validators) != len(mv.Validators) {
		return "meta.validators.count", "", nil
	}
	for i, o := range ov.Validators {
		m := mv.Validators[i]
		switch {
		case !bytes.Equal(o.PubKey.Bytes(), m.PubKey.Bytes()) || o.PubKey.Type() != m.PubKey.Type():
			return "meta.validators.pub_key", "", nil
		case o.VotingPower != m.VotingPower:
			return "meta.validators.voting_power", "", nil
		}
	}
	// The normal form is what ValidatorSet.Hash covers; cross-check.
	if !bytes.Equal(ov.Hash(), mv.Hash()) {
		return "meta.validators.hash", "", nil
	}
	for i, o := range ov.Validators {
		m := mv.Validators[i]
		switch {
		case !bytes.Equal(o.Address, m.Address):
			return "", "meta.validators.address", nil
		case o.ProposerPriority != m.ProposerPriority:
			return "", "meta.validators.proposer_priority", nil
		}
	}
	op, mp := ov.Proposer, mv.Proposer
	if (op == nil) != (mp == nil) {
		return "", "meta.proposer", nil
	}
	if op != nil && (!bytes.Equal(op.Address, mp.Address) || !bytes.Equal(op.PubKey.Bytes(), mp.PubKey.Bytes()) || op.VotingPower != mp.VotingPower || op.ProposerPriority != mp.ProposerPriority) {
		return "", "meta.proposer", nil
	}
	return "", "", nil
}

func decodeParamsMeta(p *consensusAPI.Parameters) (*cmttypes.ConsensusParams, error) {
	var pb cmtproto.ConsensusParams
	if err := pb.Unmarshal(p.Meta); err != nil {
		return nil, err
	}
	if pb.Block == nil || pb.Evidence == nil || pb.Validator == nil || pb.Version == nil {
		// cmttypes.ConsensusParamsFromProto dereferences all four sections.
		return nil, fmt.Errorf("consensus parameters lack a section")
	}
	cp := cmttypes.ConsensusParamsFromProto(pb)
	return &cp, nil
}

func cmpParameters(orig, mut *consensusAPI.Parameters) (string, string, error) {
	if orig.Height != mut.Height {
		return "height", "", nil
	}
	if !bytes.Equal(cbor.Marshal(orig.Parameters), cbor.Marshal(mut.Parameters)) {
		return "parameters", "", nil
	}
	oc, err := decodeParamsMeta(orig)
	if err != nil {
		return "", "", fmt.Errorf("original undecodable: %w", err)
	}
	mc, err := decodeParamsMeta(mut)
	if err != nil {
		return "meta.undecodable", "", err
	}
	switch {
	case oc.Block.MaxBytes != mc.Block.MaxBytes:
		return "meta.block.max_bytes", "", nil
	case oc.Block.MaxGas != mc.Block.MaxGas:
		return "meta.block.max_gas", "", nil
	case !bytes.Equal(oc.Hash(), mc.Hash()):
		return "meta.hash", "", nil
	}
	switch {
	case oc.Evidence != mc.Evidence:
		return "", "meta.evidence", nil
	case fmt.Sprint(oc.Validator.PubKeyTypes) != fmt.Sprint(mc.Validator.PubKeyTypes) || len(oc.Validator.PubKeyTypes) != len(mc.Validator.PubKeyTypes):
		return "", "meta.validator", nil
	case oc.Version != mc.Version:
		return "", "meta.version", nil
	}
	return "", "", nil
}

// decodeProof decodes an inclusion proof the way the verifier does.
func decodeProof(raw []byte) (*cmtmerkle.Proof, error) {
	var p cmtmerkle.Proof
	if err := cbor.Unmarshal(raw, &p); err != nil {
		return nil, err
	}
	return &p, nil
}

// proofPath returns the left/right direction sequence (root to leaf) that
// Proof.Verify derives from (total, index) for a proof with n aunts, or false
// if the shape is invalid. Together with leaf hash and aunts this is exactly
// what enters the root-hash computation.
func proofPath(total, index int64, n int) (string, bool) {
	var dirs []byte
	for {
		if index >= total || index < 0 || total <= 0 {
			return "", false
		}
		if total == 1 {
			if n != 0 {
				return "", false
			}
			return string(dirs), true
		}
		if n == 0 {
			return "", false
		}
		// Largest power of two strictly less than total.
		split := int64(1)
		for split*2 < total {
			split *= 2
		}
		if index < split {
			dirs = append(dirs, 'L')
			total = split
		} else {
			dirs = append(dirs, 'R')
			index -= split
			total -= split
		}
		n--
	}
}

// proofPairs returns the ordered (left, right) inputs of every inner-hash
// computation that Proof.Verify performs for the proof, leaf level first, or
// false if the proof's shape is invalid. Together with the leaf hash this is
// exactly what the root-hash computation binds. (Two direction sequences give
// the same pairs where a sibling hash equals the running hash, e.g. the same
// transaction bytes at two neighbouring indexes.)
func proofPairs(p *cmtmerkle.Proof) ([][2]string, bool) {
	n := len(p.Aunts)
	dirs, ok := proofPath(p.Total, p.Index, n)
	if !ok {
		return nil, false
	}
	h := p.LeafHash
	pairs := make([][2]string, 0, n)
	for k := 0; k < n; k++ {
		l, r := h, p.Aunts[k]
		if dirs[n-1-k] == 'R' {
			l, r = p.Aunts[k], h
		}
		pairs = append(pairs, [2]string{string(l), string(r)})
		sum := sha256.Sum256(append(append([]byte{1}, l...), r...))
		h = sum[:]
	}
	return pairs, true
}

// cmpProof compares two decoded proofs. The normal form is what the root-hash
// computation binds: the leaf hash and the ordered inner-hash inputs. Total,
// Index (and direction) values that yield the same computation are outside it.
func cmpProof(o, m *cmtmerkle.Proof) (string, string) {
	if !bytes.Equal(o.LeafHash, m.LeafHash) {
		return "leaf_hash", ""
	}
	op, ok1 := proofPairs(o)
	mp, ok2 := proofPairs(m)
	if !ok1 || !ok2 || len(op) != len(mp) {
		return "path", ""
	}
	for i := range op {
		if op[i] != mp[i] {
			return "path", ""
		}
	}
	switch {
	case o.Total != m.Total:
		return "", "total (same hash computation)"
	case o.Index != m.Index:
		return "", "index (same hash computation)"
	}
	return "", ""
}
