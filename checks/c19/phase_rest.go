package main

import (
	"fmt"
	"math"
	"math/rand/v2"
	"reflect"
	"strings"
	"time"

	abci "github.com/cometbft/cometbft/abci/types"
	cmtproto "github.com/cometbft/cometbft/proto/tendermint/types"
	cmttypes "github.com/cometbft/cometbft/types"

	"github.com/oasisprotocol/oasis-core/go/common/cbor"
	"github.com/oasisprotocol/oasis-core/go/common/crypto/signature"
	"github.com/oasisprotocol/oasis-core/go/common/version"
	consensusAPI "github.com/oasisprotocol/oasis-core/go/consensus/api"
	"github.com/oasisprotocol/oasis-core/go/consensus/api/transaction"
	cmtapi "github.com/oasisprotocol/oasis-core/go/consensus/cometbft/api"
	"github.com/oasisprotocol/oasis-core/go/consensus/cometbft/light"
	"github.com/oasisprotocol/oasis-core/go/consensus/cometbft/stateless"
	consensusGenesis "github.com/oasisprotocol/oasis-core/go/consensus/genesis"
	"verif/engine/evid"
)

// ======================= block results =====================================

type resTarget struct {
	name        string
	orig        *consensusAPI.BlockResults
	resultsHash []byte
	lb          *cmttypes.LightBlock
	coreHeight  int64
}

type resMutant struct {
	field, mut, desc string
	m                *consensusAPI.BlockResults
}

func resWitness(t resTarget, rm resMutant) func() any {
	return func() any {
		return map[string]any{"sample": t.name, "field": rm.field, "mutation": rm.mut, "desc": rm.desc,
			"mutant": map[string]any{"height": rm.m.Height, "meta": hexs(rm.m.Meta), "meta_len": len(rm.m.Meta)}, "light_block_height": t.lb.Height, "results_hash": hexs(t.resultsHash)}
	}
}

func (c *checker) tryResults(t resTarget, rm resMutant, coreToo bool) {
	sig := func(b string) string { return "c19/results/accepted-altered/" + b }
	wit := resWitness(t, rm)
	var err error
	if !c.guard("verifyBlockResults", wit, func() { _, err = stateless.VerifVerifyBlockResults(rm.m, t.resultsHash, t.lb) }) {
		c.judgeAltered(verdict{"results", rm.field, rm.mut, "export", sig}, err == nil, err,
			func() (string, string, error) { return cmpResults(t.orig, rm.m) }, wit)
	}
	if !c.core || !coreToo || t.coreHeight == 0 {
		return
	}
	withRig(c.rigsA, func(rg *rig) {
		rg.fb.res = rm.m
		var got *consensusAPI.BlockResults
		var err error
		if c.guard("Core.GetBlockResults", wit, func() { got, err = rg.core.GetBlockResults(c.ctx, t.coreHeight) }) {
			return
		}
		c.judgeAltered(verdict{"results", rm.field, rm.mut, "core", sig}, err == nil, err,
			func() (string, string, error) {
				if got == nil {
					return "nil-returned", "", nil
				}
				return cmpResults(t.orig, got)
			}, wit)
	})
}

func (c *checker) resultsFieldMutants(t resTarget, rng *rand.Rand) []resMutant {
	var out []resMutant
	heights := []int64{t.orig.Height + 1, t.orig.Height - 1, 0, -1, math.MaxInt64, rng.Int64()}
	for _, h := range heights {
		if h == t.orig.Height {
			continue
		}
		out = append(out, resMutant{"height", "set", fmt.Sprintf("height=%d", h), &consensusAPI.BlockResults{Height: h, Meta: t.orig.Meta}})
	}
	meta, err := cmtapi.NewBlockResultsMeta(t.orig)
	if err != nil {
		c.r.Inconclusive("harness: sample results undecodable: %v", err)
		return out
	}
	withMeta := func(field, mut, desc string, f func(m *cmtapi.BlockResultsMeta) bool) {
		var m cmtapi.BlockResultsMeta
		if err := cbor.Unmarshal(t.orig.Meta, &m); err != nil {
			return
		}
		if !f(&m) {
			return
		}
		out = append(out, resMutant{field, mut, desc, &consensusAPI.BlockResults{Height: t.orig.Height, Meta: cbor.Marshal(m)}})
	}
	out = append(out,
		resMutant{"meta", "set", "meta=nil", &consensusAPI.BlockResults{Height: t.orig.Height}},
		resMutant{"meta", "set", "meta=empty map", &consensusAPI.BlockResults{Height: t.orig.Height, Meta: []byte{0xa0}}},
		resMutant{"meta", "trailing", "trailing byte", &consensusAPI.BlockResults{Height: t.orig.Height, Meta: append(clone(t.orig.Meta), 0)}},
	)
	withMeta("meta", "reencode", "decoded and re-encoded", func(*cmtapi.BlockResultsMeta) bool { return true })
	n := len(meta.TxsResults)
	idx := make([]int, 0, n)
	for i := 0; i < n; i++ {
		idx = append(idx, i)
	}
	if c.r.Quick() && n > 6 {
		rng.Shuffle(n, func(i, j int) { idx[i], idx[j] = idx[j], idx[i] })
		idx = append([]int{0, n - 1}, idx[:4]...)
	}
	for _, i := range idx {
		i := i
		// the entry itself replaced by a CBOR null (decodes to a nil pointer in the list)
		withMeta("meta.txs_results", "null-entry", fmt.Sprintf("result %d replaced by null", i), func(m *cmtapi.BlockResultsMeta) bool {
			m.TxsResults[i] = nil
			return true
		})
		tr := func(field, mut, desc string, f func(r *abci.ResponseDeliverTx) bool) {
			withMeta("meta.txs_results."+field, mut, fmt.Sprintf("result %d: %s", i, desc), func(m *cmtapi.BlockResultsMeta) bool {
				if m.TxsResults[i] == nil {
					return false
				}
				return f(m.TxsResults[i])
			})
		}
		tr("code", "delta", "code+1", func(r *abci.ResponseDeliverTx) bool { r.Code++; return true })
		tr("code", "set", "code: ok<->failed", func(r *abci.ResponseDeliverTx) bool {
			if r.Code == 0 {
				r.Code = 7
			} else {
				r.Code = 0
			}
			return true
		})
		tr("data", "alter", "data bit flipped / set", func(r *abci.ResponseDeliverTx) bool {
			if len(r.Data) == 0 {
				r.Data = []byte{0xf6}
			} else {
				r.Data = clone(r.Data)
				r.Data[rng.IntN(len(r.Data))] ^= 1 << rng.UintN(8)
			}
			return true
		})
		tr("data", "append", "data extended", func(r *abci.ResponseDeliverTx) bool { r.Data = append(clone(r.Data), 0); return true })
		tr("data", "set", "data emptied", func(r *abci.ResponseDeliverTx) bool {
			if len(r.Data) == 0 {
				return false
			}
			r.Data = nil
			return true
		})
		tr("gas_wanted", "delta", "gas_wanted+1", func(r *abci.ResponseDeliverTx) bool { r.GasWanted++; return true })
		tr("gas_wanted", "delta", "gas_wanted-1", func(r *abci.ResponseDeliverTx) bool { r.GasWanted--; return true })
		tr("gas_used", "delta", "gas_used+1", func(r *abci.ResponseDeliverTx) bool { r.GasUsed++; return true })
		tr("gas_used", "set", "gas_used=0", func(r *abci.ResponseDeliverTx) bool {
			if r.GasUsed == 0 {
				return false
			}
			r.GasUsed = 0
			return true
		})
		tr("gas_used", "swap", "gas_used<->gas_wanted", func(r *abci.ResponseDeliverTx) bool {
			if r.GasUsed == r.GasWanted {
				return false
			}
			r.GasUsed, r.GasWanted = r.GasWanted, r.GasUsed
			return true
		})
		// Outside LastResultsHash (documented: events are not yet bound, #6210).
		tr("log", "alter", "log altered", func(r *abci.ResponseDeliverTx) bool { r.Log += "x"; return true })
		tr("info", "alter", "info altered", func(r *abci.ResponseDeliverTx) bool { r.Info += "x"; return true })
		tr("codespace", "alter", "codespace altered", func(r *abci.ResponseDeliverTx) bool { r.Codespace += "x"; return true })
		tr("events", "drop", "events dropped", func(r *abci.ResponseDeliverTx) bool {
			if len(r.Events) == 0 {
				return false
			}
			r.Events = nil
			return true
		})
		tr("events", "append", "event appended", func(r *abci.ResponseDeliverTx) bool {
			r.Events = append(r.Events, abci.Event{Type: "forged", Attributes: []abci.EventAttribute{{Key: "k", Value: "v"}}})
			return true
		})
		withMeta("meta.txs_results", "drop", fmt.Sprintf("drop result %d", i), func(m *cmtapi.BlockResultsMeta) bool {
			m.TxsResults = append(m.TxsResults[:i:i], m.TxsResults[i+1:]...)
			return true
		})
		withMeta("meta.txs_results", "dup", fmt.Sprintf("duplicate result %d", i), func(m *cmtapi.BlockResultsMeta) bool {
			l := append([]*abci.ResponseDeliverTx{}, m.TxsResults[:i+1]...)
			l = append(l, m.TxsResults[i])
			m.TxsResults = append(l, m.TxsResults[i+1:]...)
			return true
		})
		if i+1 < n {
			withMeta("meta.txs_results", "reorder", fmt.Sprintf("swap results %d,%d", i, i+1), func(m *cmtapi.BlockResultsMeta) bool {
				m.TxsResults[i], m.TxsResults[i+1] = m.TxsResults[i+1], m.TxsResults[i]
				return true
			})
		}
	}
	withMeta("meta.txs_results", "append", "append a result", func(m *cmtapi.BlockResultsMeta) bool {
		m.TxsResults = append(m.TxsResults, &abci.ResponseDeliverTx{Code: 0, Data: []byte{1}})
		return true
	})
	withMeta("meta.txs_results", "append", "append an all-default result", func(m *cmtapi.BlockResultsMeta) bool {
		m.TxsResults = append(m.TxsResults, &abci.ResponseDeliverTx{})
		return true
	})
	if n > 0 {
		withMeta("meta.txs_results", "empty", "no results", func(m *cmtapi.BlockResultsMeta) bool { m.TxsResults = nil; return true })
		withMeta("meta.txs_results", "reorder", "reverse", func(m *cmtapi.BlockResultsMeta) bool {
			for a, b := 0, n-1; a < b; a, b = a+1, b-1 {
				m.TxsResults[a], m.TxsResults[b] = m.TxsResults[b], m.TxsResults[a]
			}
			return n > 1
		})
	}
	withMeta("meta.begin_block_events", "append", "begin-block event appended", func(m *cmtapi.BlockResultsMeta) bool {
		m.BeginBlockEvents = append(m.BeginBlockEvents, abci.Event{Type: "forged"})
		return true
	})
	withMeta("meta.end_block_events", "drop", "end-block events dropped", func(m *cmtapi.BlockResultsMeta) bool {
		if len(m.EndBlockEvents) == 0 {
			return false
		}
		m.EndBlockEvents = nil
		return true
	})
	withMeta("meta.end_block_events", "append", "end-block event appended", func(m *cmtapi.BlockResultsMeta) bool {
		m.EndBlockEvents = append(m.EndBlockEvents, abci.Event{Type: "forged"})
		return true
	})
	return out
}

func synthResults(rng *rand.Rand, n int) []*abci.ResponseDeliverTx {
	out := make([]*abci.ResponseDeliverTx, n)
	for i := range out {
		r := &abci.ResponseDeliverTx{Code: uint32(rng.IntN(3)), Data: rbytes(rng, rng.IntN(6)), GasWanted: rng.Int64N(100000), GasUsed: rng.Int64N(100000)}
		if rng.IntN(2) == 0 {
			r.Log = "log"
			r.Codespace = "cs"
		}
		if rng.IntN(2) == 0 {
			r.Events = []abci.Event{{Type: "t", Attributes: []abci.EventAttribute{{Key: "k", Value: fmt.Sprintf("%x", rbytes(rng, 3)), Index: true}}}}
		}
		out[i] = r
	}
	return out
}

func (c *checker) resultsBytes(t resTarget, stream uint64, coreStride int) {
	labels := labelCBOR(t.orig.Meta, "meta", nil)
	// Quick tier: the bulk of a results Meta are event attribute strings, which are
	// outside the normal form by the code's own documentation; sample one byte in 8 there.
	ph := int(uint64(c.r.Seed) % 8)
	sel := func(off int) bool {
		return !c.r.Quick() || off%8 == ph || !strings.Contains(labels[off], "events[]")
	}
	c.forEachByteMutantSel(stream, t.orig.Meta, sel, func(bc byteCase) {
		lab := labels[min(bc.off, len(labels)-1)]
		coreToo := coreStride > 0 && ((bc.off+bc.off/8)%coreStride == int(uint64(c.r.Seed)%uint64(coreStride)))
		data := bc.data
		if coreToo {
			data = clone(data)
		}
		c.tryResults(t, resMutant{lab, bc.mut, bc.desc, &consensusAPI.BlockResults{Height: t.orig.Height, Meta: data}}, coreToo)
	})
}

func (c *checker) phaseResults() {
	s := c.s
	t := resTarget{"recorded-25300000", s.res, s.lb2.LastResultsHash, s.lb, s.lb.Height}
	wit := func() any { return map[string]any{"sample": t.name} }
	var err error
	if !c.guard("verifyBlockResults", wit, func() { _, err = stateless.VerifVerifyBlockResults(t.orig, t.resultsHash, t.lb) }) {
		c.judgeHonest("results", "export", t.name, err, wit)
	}
	if c.core {
		withRig(c.rigsA, func(rg *rig) {
			rg.fb.res = t.orig
			if !c.guard("Core.GetBlockResults", wit, func() { _, err = rg.core.GetBlockResults(c.ctx, t.coreHeight) }) {
				c.judgeHonest("results", "core", t.name, err, wit)
			}
		})
		// Latest trusted height (light client knows 25300000 only): only the height is
		// checked (documented TODO #6210; the property covers heights BELOW the latest).
		withRig(c.rigsB, func(rg *rig) {
			rg.fb.res = t.orig
			if !c.guard("Core.GetBlockResults", wit, func() { _, err = rg.core.GetBlockResults(c.ctx, t.coreHeight) }) {
				c.judgeHonest("results", "core", t.name+"/latest-height", err, wit)
			}
			for _, h := range []int64{t.orig.Height + 1, t.orig.Height - 1, 0} {
				m := &consensusAPI.BlockResults{Height: h, Meta: t.orig.Meta}
				rg.fb.res = m
				rm := resMutant{"height", "set", fmt.Sprintf("latest height: height=%d", h), m}
				var got *consensusAPI.BlockResults
				if !c.guard("Core.GetBlockResults", wit, func() { got, err = rg.core.GetBlockResults(c.ctx, t.coreHeight) }) {
					c.judgeAltered(verdict{"results", "height", "set-at-latest-height", "core", func(b string) string { return "c19/results/accepted-altered/" + b }}, err == nil, err,
						func() (string, string, error) { return cmpResults(t.orig, got) }, resWitness(t, rm))
				}
			}
			// Evidence only: at the latest height the Meta is not bound.
			m := &consensusAPI.BlockResults{Height: t.orig.Height, Meta: []byte{0xa0}}
			rg.fb.res = m
			if !c.guard("Core.GetBlockResults", wit, func() { _, err = rg.core.GetBlockResults(c.ctx, t.coreHeight) }) {
				if err == nil {
					c.r.Count("results/latest-height/meta-not-bound (documented, outside the property)", 1)
				}
			}
		})
	}
	// Results of this block against the other header / other results hash.
	c.tryResults(resTarget{"recorded-25300000-vs-25300001", &consensusAPI.BlockResults{Height: s.lb2.Height}, s.lb2.LastResultsHash, s.lb2, 0},
		resMutant{"whole-response", "other-block", "honest results of 25300000 served for 25300001", s.res}, false)
	muts := c.resultsFieldMutants(t, c.r.Rand(400))
	evid.Parallel(len(muts), 0, func(i int) { c.tryResults(t, muts[i], true) })
	c.resultsBytes(t, 410, c.r.Pick(8, 2))

	// Synthetic results.
	nsyn := c.r.Pick(40, 400)
	for i := 0; i < nsyn; i++ {
		rng := c.r.Rand(420, uint64(i))
		n := rng.IntN(9)
		list := synthResults(rng, n)
		sb, err := synthBlockWith(rng, nil)
		if err != nil {
			return
		}
		orig := cmtapi.NewBlockResults(&cmtResultBlockResults{Height: sb.lb.Height, TxsResults: list, EndBlockEvents: []abci.Event{{Type: "e"}}})
		st := resTarget{fmt.Sprintf("synthetic-%d", i), orig, cmttypes.NewResults(list).Hash(), sb.lb, 0}
		w := func() any { return map[string]any{"sample": st.name, "n": n} }
		var verr error
		if !c.guard("verifyBlockResults", w, func() { _, verr = stateless.VerifVerifyBlockResults(orig, st.resultsHash, st.lb) }) {
			c.judgeHonest("results", "export", fmt.Sprintf("synthetic n=%d", n), verr, w)
		}
		ms := c.resultsFieldMutants(st, rng)
		evid.Parallel(len(ms), 0, func(k int) { c.tryResults(st, ms[k], false) })
		if i < c.r.Pick(3, 30) {
			c.resultsBytes(st, 430+uint64(i), 0)
		}
	}
}

// ======================= validators =======================================

type valTarget struct {
	name  string
	orig  *consensusAPI.Validators
	lb    *cmttypes.LightBlock // header at orig.Height-1 (its NextValidatorsHash binds the set)
	rigs  chan *rig            // nil: export level only
	askAt int64
}

type valMutant struct {
	field, mut, desc string
	m                *consensusAPI.Validators
}

func (c *checker) tryValidators(t valTarget, vm valMutant, coreToo bool) {
	sig := func(b string) string { return "c19/validators/accepted-altered" }
	wit := func() any {
		return map[string]any{"sample": t.name, "field": vm.field, "mutation": vm.mut, "desc": vm.desc,
			"mutant": map[string]any{"height": vm.m.Height, "meta": hexs(vm.m.Meta), "meta_len": len(vm.m.Meta)}, "light_block_height": t.lb.Height}
	}
	var err error
	if !c.guard("verifyNextValidators", wit, func() { err = c.plainCore().VerifVerifyNextValidators(vm.m, t.lb) }) {
		c.judgeAltered(verdict{"validators", vm.field, vm.mut, "export", sig}, err == nil, err,
			func() (string, string, error) { return cmpValidators(t.orig, vm.m) }, wit)
	}
	if !c.core || !coreToo || t.rigs == nil {
		return
	}
	withRig(t.rigs, func(rg *rig) {
		rg.fb.vals = vm.m
		var got *consensusAPI.Validators
		var err error
		if c.guard("Core.GetValidators", wit, func() { got, err = rg.core.GetValidators(c.ctx, t.askAt) }) {
			return
		}
		c.judgeAltered(verdict{"validators", vm.field, vm.mut, "core", sig}, err == nil, err,
			func() (string, string, error) {
				if got == nil {
					return "nil-returned", "", nil
				}
				return cmpValidators(t.orig, got)
			}, wit)
	})
}

func (c *checker) validatorsFieldMutants(t valTarget, rng *rand.Rand) []valMutant {
	var out []valMutant
	for _, h := range []int64{t.orig.Height + 1, t.orig.Height - 1, t.orig.Height - 2, 0, -1, math.MaxInt64, rng.Int64()} {
		if h == t.orig.Height {
			continue
		}
		out = append(out, valMutant{"height", "set", fmt.Sprintf("height=%d", h), &consensusAPI.Validators{Height: h, Meta: t.orig.Meta}})
	}
	var pvs cmtproto.ValidatorSet
	if err := pvs.Unmarshal(t.orig.Meta); err != nil {
		c.r.Inconclusive("harness: sample validators undecodable: %v", err)
		return out
	}
	with := func(field, mut, desc string, f func(p *cmtproto.ValidatorSet) bool) {
		var p cmtproto.ValidatorSet
		_ = p.Unmarshal(t.orig.Meta)
		if !f(&p) {
			return
		}
		raw, err := p.Marshal()
		if err != nil {
			return
		}
		out = append(out, valMutant{field, mut, desc, &consensusAPI.Validators{Height: t.orig.Height, Meta: raw}})
	}
	out = append(out, valMutant{"meta", "set", "meta=nil", &consensusAPI.Validators{Height: t.orig.Height}})
	with("meta", "reencode", "decoded and re-encoded", func(*cmtproto.ValidatorSet) bool { return true })
	n := len(pvs.Validators)
	idx := make([]int, n)
	for i := range idx {
		idx[i] = i
	}
	if c.r.Quick() && n > 6 {
		rng.Shuffle(n, func(i, j int) { idx[i], idx[j] = idx[j], idx[i] })
		idx = append([]int{0, n - 1}, idx[:4]...)
	}
	for _, i := range idx {
		i := i
		with("meta.validators", "drop", fmt.Sprintf("drop validator %d", i), func(p *cmtproto.ValidatorSet) bool {
			p.Validators = append(p.Validators[:i:i], p.Validators[i+1:]...)
			return true
		})
		with("meta.validators", "dup", fmt.Sprintf("duplicate validator %d", i), func(p *cmtproto.ValidatorSet) bool {
			p.Validators = append(p.Validators, p.Validators[i])
			return true
		})
		if i+1 < n {
			with("meta.validators", "reorder", fmt.Sprintf("swap validators %d,%d", i, i+1), func(p *cmtproto.ValidatorSet) bool {
				p.Validators[i], p.Validators[i+1] = p.Validators[i+1], p.Validators[i]
				return true
			})
		}
		with("meta.validators.voting_power", "delta", fmt.Sprintf("validator %d power+1", i), func(p *cmtproto.ValidatorSet) bool { p.Validators[i].VotingPower++; return true })
		with("meta.validators.voting_power", "delta", fmt.Sprintf("validator %d power-1", i), func(p *cmtproto.ValidatorSet) bool { p.Validators[i].VotingPower--; return true })
		with("meta.validators.voting_power", "set", fmt.Sprintf("validator %d power=0", i), func(p *cmtproto.ValidatorSet) bool { p.Validators[i].VotingPower = 0; return true })
		with("meta.validators.pub_key", "bitflip", fmt.Sprintf("validator %d public key bit", i), func(p *cmtproto.ValidatorSet) bool {
			k := p.Validators[i].PubKey.GetEd25519()
			if k == nil {
				return false
			}
			k = clone(k)
			k[rng.IntN(len(k))] ^= 1 << rng.UintN(8)
			cp := *p.Validators[i]
			cp.PubKey.Sum = &cmtprotoPublicKeyEd25519{Ed25519: k}
			p.Validators[i] = &cp
			return true
		})
		with("meta.validators.pub_key", "swap", fmt.Sprintf("validator %d gets the key of %d", i, (i+1)%n), func(p *cmtproto.ValidatorSet) bool {
			if n < 2 {
				return false
			}
			cp := *p.Validators[i]
			cp.PubKey = p.Validators[(i+1)%n].PubKey
			p.Validators[i] = &cp
			return true
		})
		with("meta.validators.address", "bitflip", fmt.Sprintf("validator %d address bit", i), func(p *cmtproto.ValidatorSet) bool {
			cp := *p.Validators[i]
			cp.Address = clone(cp.Address)
			cp.Address[0] ^= 1
			p.Validators[i] = &cp
			return true
		})
		with("meta.validators.proposer_priority", "delta", fmt.Sprintf("validator %d priority+1", i), func(p *cmtproto.ValidatorSet) bool {
			cp := *p.Validators[i]
			cp.ProposerPriority++
			p.Validators[i] = &cp
			return true
		})
	}
	with("meta.validators", "empty", "no validators", func(p *cmtproto.ValidatorSet) bool { p.Validators = nil; return true })
	with("meta.validators", "reorder", "reverse", func(p *cmtproto.ValidatorSet) bool {
		for a, b := 0, n-1; a < b; a, b = a+1, b-1 {
			p.Validators[a], p.Validators[b] = p.Validators[b], p.Validators[a]
		}
		return n > 1
	})
	with("meta.proposer", "set", "proposer = other validator", func(p *cmtproto.ValidatorSet) bool {
		if n < 2 {
			return false
		}
		p.Proposer = p.Validators[rng.IntN(n)]
		return true
	})
	with("meta.proposer", "set", "proposer = nil", func(p *cmtproto.ValidatorSet) bool { p.Proposer = nil; return true })
	with("meta.total_voting_power", "delta", "total voting power+1", func(p *cmtproto.ValidatorSet) bool { p.TotalVotingPower++; return true })
	return out
}

func (c *checker) validatorsBytes(t valTarget, stream uint64, coreStride int) {
	labels := labelProto(t.orig.Meta, "meta", schemaValidatorSet)
	c.forEachByteMutant(stream, t.orig.Meta, func(bc byteCase) {
		lab := labels[min(bc.off, len(labels)-1)]
		coreToo := coreStride > 0 && ((bc.off+bc.off/8)%coreStride == int(uint64(c.r.Seed)%uint64(coreStride)))
		data := bc.data
		if coreToo {
			data = clone(data)
		}
		c.tryValidators(t, valMutant{lab, bc.mut, bc.desc, &consensusAPI.Validators{Height: t.orig.Height, Meta: data}}, coreToo)
	})
}

func (c *checker) phaseValidators() {
	s := c.s
	targets := []valTarget{{"recorded-validators-25300001", s.vals1, s.lb, c.rigsB, s.lb.Height + 1}}
	if s.vals2 != nil {
		targets = append(targets, valTarget{"recorded-validators-25300002", s.vals2, s.lb2, c.rigsA, s.lb2.Height + 1})
	}
	for ti, t := range targets {
		wit := func() any { return map[string]any{"sample": t.name} }
		var err error
		if !c.guard("verifyNextValidators", wit, func() { err = c.plainCore().VerifVerifyNextValidators(t.orig, t.lb) }) {
			c.judgeHonest("validators", "export", t.name, err, wit)
		}
		if c.core {
			withRig(t.rigs, func(rg *rig) {
				rg.fb.vals = t.orig
				if !c.guard("Core.GetValidators", wit, func() { _, err = rg.core.GetValidators(c.ctx, t.askAt) }) {
					c.judgeHonest("validators", "core", t.name, err, wit)
				}
			})
		}
		muts := c.validatorsFieldMutants(t, c.r.Rand(500, uint64(ti)))
		evid.Parallel(len(muts), 0, func(i int) { c.tryValidators(t, muts[i], true) })
		if ti == 0 || !c.r.Quick() {
			c.validatorsBytes(t, 510+uint64(ti), c.r.Pick(4, 1))
		}
	}
	if c.core {
		// A height the light client can verify is answered from the verified light
		// block itself: the provider is not consulted.
		withRig(c.rigsA, func(rg *rig) {
			rg.fb.vals = &consensusAPI.Validators{Height: s.lb2.Height, Meta: []byte("garbage")}
			before := rg.fb.calls["GetValidators"]
			var got *consensusAPI.Validators
			var err error
			wit := func() any { return map[string]any{"sample": "validators-from-light-block"} }
			if !c.guard("Core.GetValidators", wit, func() { got, err = rg.core.GetValidators(c.ctx, s.lb2.Height) }) {
				c.judgeHonest("validators", "core", "from-verified-light-block", err, wit)
				if err == nil {
					if b, _, _ := cmpValidators(s.vals1, got); b != "" {
						c.r.Violation("c19/validators/accepted-altered", "Core.GetValidators for a verified height differs from the light block's validator set in "+b, wit())
					}
				}
				c.r.Count("validators/core/provider-requests-when-light-block-known", int64(rg.fb.calls["GetValidators"]-before))
			}
		})
	}
	// Synthetic validator sets.
	nsyn := c.r.Pick(30, 300)
	for i := 0; i < nsyn; i++ {
		rng := c.r.Rand(520, uint64(i))
		sb, err := synthBlockWith(rng, nil)
		if err != nil {
			return
		}
		orig, err := light.EncodeValidators(sb.next, sb.lb.Height+1)
		if err != nil {
			c.r.Inconclusive("harness: %v", err)
			return
		}
		t := valTarget{fmt.Sprintf("synthetic-%d", i), orig, sb.lb, nil, 0}
		w := func() any { return map[string]any{"sample": t.name} }
		var verr error
		if !c.guard("verifyNextValidators", w, func() { verr = c.plainCore().VerifVerifyNextValidators(orig, sb.lb) }) {
			c.judgeHonest("validators", "export", fmt.Sprintf("synthetic n=%d", sb.next.Size()), verr, w)
		}
		ms := c.validatorsFieldMutants(t, rng)
		// A different synthetic set as a whole.
		if o, err := light.EncodeValidators(synthValidatorSet(rng, 1+rng.IntN(4)), sb.lb.Height+1); err == nil {
			ms = append(ms, valMutant{"whole-response", "other-set", "a different validator set", o})
		}
		evid.Parallel(len(ms), 0, func(k int) { c.tryValidators(t, ms[k], false) })
		if i < c.r.Pick(3, 30) {
			c.validatorsBytes(t, 530+uint64(i), 0)
		}
	}
}

// ======================= parameters =======================================

type parTarget struct {
	name    string
	orig    *consensusAPI.Parameters
	lb      *cmttypes.LightBlock
	core    *stateless.Core // carries the trusted querier
	rigs    chan *rig
	trusted *consensusGenesis.Parameters
}

type parMutant struct {
	field, mut, desc string
	m                *consensusAPI.Parameters
}

func (c *checker) tryParameters(t parTarget, pm parMutant, coreToo bool) {
	sig := func(b string) string { return "c19/parameters/accepted-altered/" + b }
	wit := func() any {
		return map[string]any{"sample": t.name, "field": pm.field, "mutation": pm.mut, "desc": pm.desc,
			"mutant": map[string]any{"height": pm.m.Height, "meta": hexs(pm.m.Meta), "parameters": hexs(cbor.Marshal(pm.m.Parameters))}, "light_block_height": t.lb.Height}
	}
	var err error
	if !c.guard("verifyParameters", wit, func() { err = t.core.VerifVerifyParameters(c.ctx, pm.m, t.lb) }) {
		c.judgeAltered(verdict{"parameters", pm.field, pm.mut, "export", sig}, err == nil, err,
			func() (string, string, error) { return cmpParameters(t.orig, pm.m) }, wit)
	}
	if !c.core || !coreToo || t.rigs == nil {
		return
	}
	withRig(t.rigs, func(rg *rig) {
		rg.fb.params = pm.m
		var got *consensusAPI.Parameters
		var err error
		if c.guard("Core.GetParameters", wit, func() { got, err = rg.core.GetParameters(c.ctx, t.lb.Height) }) {
			return
		}
		c.judgeAltered(verdict{"parameters", pm.field, pm.mut, "core", sig}, err == nil, err,
			func() (string, string, error) {
				if got == nil {
					return "nil-returned", "", nil
				}
				return cmpParameters(t.orig, got)
			}, wit)
	})
}

func (c *checker) parametersFieldMutants(t parTarget, rng *rand.Rand) []parMutant {
	var out []parMutant
	mk := func(field, mut, desc string, f func(p *consensusAPI.Parameters) bool) {
		p := *t.orig
		p.Meta = clone(t.orig.Meta)
		// Deep copy of the reference-typed parameter fields.
		p.Parameters.GasCosts = transaction.Costs{}
		for k, v := range t.orig.Parameters.GasCosts {
			p.Parameters.GasCosts[k] = v
		}
		if t.orig.Parameters.GasCosts == nil {
			p.Parameters.GasCosts = nil
		}
		p.Parameters.PublicKeyBlacklist = append([]signature.PublicKey(nil), t.orig.Parameters.PublicKeyBlacklist...)
		if !f(&p) {
			return
		}
		out = append(out, parMutant{field, mut, desc, &p})
	}
	for _, h := range []int64{t.orig.Height + 1, t.orig.Height - 1, 0, -1, math.MaxInt64, rng.Int64()} {
		h := h
		if h == t.orig.Height {
			continue
		}
		mk("height", "set", fmt.Sprintf("height=%d", h), func(p *consensusAPI.Parameters) bool { p.Height = h; return true })
	}
	// Every scalar field of the backend-agnostic parameters.
	pt := reflect.TypeOf(t.orig.Parameters)
	for fi := 0; fi < pt.NumField(); fi++ {
		fi := fi
		name := pt.Field(fi).Name
		switch pt.Field(fi).Type.Kind() {
		case reflect.Int64:
			for _, d := range []int64{1, -1} {
				d := d
				mk("parameters."+name, "delta", fmt.Sprintf("%s%+d", name, d), func(p *consensusAPI.Parameters) bool {
					f := reflect.ValueOf(&p.Parameters).Elem().Field(fi)
					f.SetInt(f.Int() + d)
					return true
				})
			}
		case reflect.Uint64:
			for _, d := range []int64{1, -1} {
				d := d
				mk("parameters."+name, "delta", fmt.Sprintf("%s%+d", name, d), func(p *consensusAPI.Parameters) bool {
					f := reflect.ValueOf(&p.Parameters).Elem().Field(fi)
					f.SetUint(uint64(int64(f.Uint()) + d))
					return true
				})
			}
			mk("parameters."+name, "set", name+"=random", func(p *consensusAPI.Parameters) bool {
				f := reflect.ValueOf(&p.Parameters).Elem().Field(fi)
				v := rng.Uint64()
				if v == f.Uint() {
					return false
				}
				f.SetUint(v)
				return true
			})
		case reflect.Bool:
			mk("parameters."+name, "flip", name+" flipped", func(p *consensusAPI.Parameters) bool {
				f := reflect.ValueOf(&p.Parameters).Elem().Field(fi)
				f.SetBool(!f.Bool())
				return true
			})
		}
	}
	mk("parameters.GasCosts", "add", "gas cost entry added", func(p *consensusAPI.Parameters) bool {
		if p.Parameters.GasCosts == nil {
			p.Parameters.GasCosts = transaction.Costs{}
		}
		p.Parameters.GasCosts["forged"] = 1
		return true
	})
	mk("parameters.GasCosts", "alter", "gas cost entry altered", func(p *consensusAPI.Parameters) bool {
		for k, v := range p.Parameters.GasCosts {
			p.Parameters.GasCosts[k] = v + 1
			return true
		}
		return false
	})
	mk("parameters.GasCosts", "drop", "gas costs dropped", func(p *consensusAPI.Parameters) bool {
		if len(p.Parameters.GasCosts) == 0 {
			return false
		}
		p.Parameters.GasCosts = nil
		return true
	})
	mk("parameters.PublicKeyBlacklist", "add", "blacklist entry added", func(p *consensusAPI.Parameters) bool {
		var pk signature.PublicKey
		copy(pk[:], rbytes(rng, 32))
		p.Parameters.PublicKeyBlacklist = append(p.Parameters.PublicKeyBlacklist, pk)
		return true
	})
	mk("parameters.FeatureVersion", "set", "feature version set/changed", func(p *consensusAPI.Parameters) bool {
		v := version.Version{Major: 99, Minor: 1}
		if p.Parameters.FeatureVersion != nil {
			v = *p.Parameters.FeatureVersion
			v.Minor++
		}
		p.Parameters.FeatureVersion = &v
		return true
	})
	// Meta.
	var pb cmtproto.ConsensusParams
	if err := pb.Unmarshal(t.orig.Meta); err != nil {
		c.r.Inconclusive("harness: sample parameters undecodable: %v", err)
		return out
	}
	pm := func(field, mut, desc string, f func(q *cmtproto.ConsensusParams) bool) {
		var q cmtproto.ConsensusParams
		_ = q.Unmarshal(t.orig.Meta)
		if !f(&q) {
			return
		}
		raw, err := q.Marshal()
		if err != nil {
			return
		}
		mk(field, mut, desc, func(p *consensusAPI.Parameters) bool { p.Meta = raw; return true })
	}
	mk("meta", "set", "meta=nil", func(p *consensusAPI.Parameters) bool { p.Meta = nil; return true })
	pm("meta", "reencode", "decoded and re-encoded", func(*cmtproto.ConsensusParams) bool { return true })
	mk("meta", "trailing", "unknown field appended", func(p *consensusAPI.Parameters) bool { p.Meta = append(p.Meta, 0x78, 0x01); return true })
	for _, d := range []int64{1, -1, 1024} {
		d := d
		pm("meta.block.max_bytes", "delta", fmt.Sprintf("max_bytes%+d", d), func(q *cmtproto.ConsensusParams) bool { q.Block.MaxBytes += d; return true })
	}
	pm("meta.block.max_gas", "set", "max_gas changed", func(q *cmtproto.ConsensusParams) bool {
		if q.Block.MaxGas == -1 {
			q.Block.MaxGas = 1000000
		} else {
			q.Block.MaxGas = -1
		}
		return true
	})
	pm("meta.block.max_gas", "delta", "max_gas+1", func(q *cmtproto.ConsensusParams) bool { q.Block.MaxGas++; return true })
	pm("meta.block", "swap", "max_bytes<->max_gas", func(q *cmtproto.ConsensusParams) bool {
		if q.Block.MaxGas <= 0 || q.Block.MaxGas == q.Block.MaxBytes {
			return false
		}
		q.Block.MaxBytes, q.Block.MaxGas = q.Block.MaxGas, q.Block.MaxBytes
		return true
	})
	// Outside the consensus-parameters hash (CometBFT hashes block max bytes/gas only).
	pm("meta.evidence", "delta", "evidence max age +1 block", func(q *cmtproto.ConsensusParams) bool { q.Evidence.MaxAgeNumBlocks++; return true })
	pm("meta.evidence", "delta", "evidence max age duration +1s", func(q *cmtproto.ConsensusParams) bool { q.Evidence.MaxAgeDuration += time.Second; return true })
	pm("meta.evidence", "delta", "evidence max bytes -1", func(q *cmtproto.ConsensusParams) bool {
		if q.Evidence.MaxBytes < 1 {
			return false
		}
		q.Evidence.MaxBytes--
		return true
	})
	pm("meta.validator", "add", "pub key type secp256k1 added", func(q *cmtproto.ConsensusParams) bool {
		q.Validator.PubKeyTypes = append(q.Validator.PubKeyTypes, cmttypes.ABCIPubKeyTypeSecp256k1)
		return true
	})
	pm("meta.version", "delta", "app version+1", func(q *cmtproto.ConsensusParams) bool { q.Version.App++; return true })
	return out
}

func (c *checker) parametersBytes(t parTarget, stream uint64, coreStride int) {
	labels := labelProto(t.orig.Meta, "meta", schemaConsensusParams)
	c.forEachByteMutant(stream, t.orig.Meta, func(bc byteCase) {
		lab := labels[min(bc.off, len(labels)-1)]
		p := *t.orig
		p.Meta = clone(bc.data)
		c.tryParameters(t, parMutant{lab, bc.mut, bc.desc, &p}, coreStride > 0)
	})
}

// startupWitnesses replays, first thing and independent of the seed, the
// minimal witnesses of findings made with this check, so that their lines are
// printed deterministically (and disappear once the defect is repaired).
//
// W1: a provider answers GetParameters with a Meta that lacks a section of the
// CometBFT consensus parameters (e.g. an empty Meta): verifyParameters
// dereferences the nil section in cmttypes.ConsensusParamsFromProto and
// panics instead of rejecting the response.
func (c *checker) startupWitnesses() {
	s := c.s
	t := parTarget{"reconstructed-parameters-25300000", s.params, s.lb, c.coreWith(s.trusted), c.rigsA, s.trusted}
	onlyBlock := []byte{0x0a, 0x00} // ConsensusParams{block: {}} and no other section
	for _, w := range []struct {
		desc string
		meta []byte
	}{{"startup witness: meta=nil", nil}, {"startup witness: meta with an (empty) block section only", onlyBlock}} {
		p := *s.params
		p.Meta = w.meta
		c.tryParameters(t, parMutant{"meta", "missing-section", w.desc, &p}, true)
	}
}

func (c *checker) phaseParameters() {
	s := c.s
	t := parTarget{"reconstructed-parameters-25300000", s.params, s.lb, c.coreWith(s.trusted), c.rigsA, s.trusted}
	wit := func() any { return map[string]any{"sample": t.name, "meta": hexs(s.params.Meta)} }
	var err error
	if !c.guard("verifyParameters", wit, func() { err = t.core.VerifVerifyParameters(c.ctx, t.orig, t.lb) }) {
		c.judgeHonest("parameters", "export", t.name, err, wit)
	}
	if c.core {
		withRig(c.rigsA, func(rg *rig) {
			rg.fb.params = t.orig
			if !c.guard("Core.GetParameters", wit, func() { _, err = rg.core.GetParameters(c.ctx, t.lb.Height) }) {
				c.judgeHonest("parameters", "core", t.name, err, wit)
			}
		})
	}
	// Against the other header (same consensus hash in the recorded pair: only the height differs).
	{
		p := *s.params
		c.tryParameters(parTarget{"parameters-25300000-vs-25300001", &consensusAPI.Parameters{Height: s.lb2.Height, Parameters: *s.trusted, Meta: s.params.Meta}, s.lb2, t.core, nil, s.trusted},
			parMutant{"whole-response", "other-block", "parameters of 25300000 served for 25300001", &p}, false)
	}
	muts := c.parametersFieldMutants(t, c.r.Rand(600))
	evid.Parallel(len(muts), 0, func(i int) { c.tryParameters(t, muts[i], true) })
	c.parametersBytes(t, 610, 1)

	// Synthetic parameters.
	nsyn := c.r.Pick(40, 400)
	for i := 0; i < nsyn; i++ {
		rng := c.r.Rand(620, uint64(i))
		sb, err := synthBlockWith(rng, nil)
		if err != nil {
			return
		}
		mb := 1024 + rng.Int64N(20<<20)
		mg := int64(-1)
		if rng.IntN(2) == 0 {
			mg = rng.Int64N(10_000_000)
		}
		cp := cmttypes.ConsensusParams{
			Block:     cmttypes.BlockParams{MaxBytes: mb, MaxGas: mg},
			Evidence:  cmttypes.EvidenceParams{MaxAgeNumBlocks: 1 + rng.Int64N(100000), MaxAgeDuration: time.Duration(1+rng.Int64N(1000000)) * time.Second, MaxBytes: rng.Int64N(mb)},
			Validator: cmttypes.ValidatorParams{PubKeyTypes: []string{cmttypes.ABCIPubKeyTypeEd25519}},
			Version:   cmttypes.VersionParams{App: uint64(rng.IntN(10))},
		}
		sb.lb.Header.ConsensusHash = cp.Hash()
		pbp := cp.ToProto()
		meta, err := pbp.Marshal()
		if err != nil {
			return
		}
		tp := &consensusGenesis.Parameters{
			TimeoutCommit: time.Duration(rng.Int64N(10)) * time.Second, SkipTimeoutCommit: rng.IntN(2) == 0, MaxTxSize: rng.Uint64N(100000),
			MaxBlockSize: uint64(mb), MaxBlockGas: transaction.Gas(max(mg, 0)), MaxEvidenceSize: rng.Uint64N(100000), MinGasPrice: rng.Uint64N(3),
			StateCheckpointInterval: rng.Uint64N(100000),
		}
		if rng.IntN(2) == 0 {
			tp.GasCosts = transaction.Costs{consensusGenesis.GasOpTxByte: transaction.Gas(rng.IntN(5))}
		}
		orig := &consensusAPI.Parameters{Height: sb.lb.Height, Parameters: *tp, Meta: meta}
		st := parTarget{fmt.Sprintf("synthetic-%d", i), orig, sb.lb, c.coreWith(tp), nil, tp}
		w := func() any { return map[string]any{"sample": st.name} }
		var verr error
		if !c.guard("verifyParameters", w, func() { verr = st.core.VerifVerifyParameters(c.ctx, orig, sb.lb) }) {
			c.judgeHonest("parameters", "export", "synthetic", verr, w)
		}
		ms := c.parametersFieldMutants(st, rng)
		evid.Parallel(len(ms), 0, func(k int) { c.tryParameters(st, ms[k], false) })
		if i < c.r.Pick(5, 50) {
			c.parametersBytes(st, 630+uint64(i), 0)
		}
	}
}
