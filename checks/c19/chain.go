package main

// A synthetic, VALIDLY SIGNED chain of several heights, so that the real light
// client verifies every header and ONE long-lived stateless.Core can be driven
// across many heights (multi-step histories).
//
// What varies between heights is chosen so that cheap identifiers stay equal
// while header-bound content differs: the CometBFT consensus parameters (and so
// the header's ConsensusHash) are the same on most heights while the Oasis
// consensus parameters held in state change (and change back); validator sets
// keep the same members with other voting powers; transaction lists and result
// lists keep count and lengths; two heights carry identical transactions,
// results and state root (responses of one are then legitimately valid for the
// other, which exercises the oracle's neutral branch).

import (
	"fmt"
	"math/rand/v2"
	"time"

	abci "github.com/cometbft/cometbft/abci/types"
	"github.com/cometbft/cometbft/crypto/ed25519"
	cmtproto "github.com/cometbft/cometbft/proto/tendermint/types"
	cmtversion "github.com/cometbft/cometbft/proto/tendermint/version"
	cmttypes "github.com/cometbft/cometbft/types"

	"github.com/oasisprotocol/oasis-core/go/common/crypto/hash"
	consensusAPI "github.com/oasisprotocol/oasis-core/go/consensus/api"
	"github.com/oasisprotocol/oasis-core/go/consensus/api/transaction"
	cmtapi "github.com/oasisprotocol/oasis-core/go/consensus/cometbft/api"
	"github.com/oasisprotocol/oasis-core/go/consensus/cometbft/light"
	consensusGenesis "github.com/oasisprotocol/oasis-core/go/consensus/genesis"
)

type chainHeight struct {
	h       int64
	header  cmttypes.Header
	blockID cmttypes.BlockID
	commit  *cmttypes.Commit // the commit FOR this block
	vals    *cmttypes.ValidatorSet
	lb      *cmttypes.LightBlock
	clb     *consensusAPI.LightBlock

	blk       *consensusAPI.Block
	txs       [][]byte
	metaTx    *transaction.SignedTransaction
	res       *consensusAPI.BlockResults
	params    *consensusAPI.Parameters
	oasis     *consensusGenesis.Parameters
	stateRoot hash.Hash                // state root AFTER this block (= AppHash of the next header)
	valsResp  *consensusAPI.Validators // validator set AT this height
}

type chain struct {
	chainID    string
	first, tip int64
	hs         map[int64]*chainHeight
	nextVals   *consensusAPI.Validators // validator set of tip+1 (bound by the tip's NextValidatorsHash)
	twin       [2]int64                 // two heights with identical txs / results / state root
}

func (ch *chain) at(h int64) *chainHeight { return ch.hs[h] }

func (ch *chain) paramsAt(h int64) *consensusGenesis.Parameters {
	if x := ch.hs[h]; x != nil {
		return x.oasis
	}
	return nil
}

// buildChain builds n signed heights.
func buildChain(rng *rand.Rand, n int) (*chain, error) {
	const nvals = 4
	ch := &chain{chainID: fmt.Sprintf("verif-synth-%d", rng.IntN(1_000_000)), first: 1000 + rng.Int64N(1000), hs: map[int64]*chainHeight{}}
	// Realistic heights: mainnet is in the tens of millions (every other chain; decided from the
	// chain id draw, no further PRNG draw).
	if len(ch.chainID)%2 == 0 {
		ch.first += 25_000_000
	}
	ch.tip = ch.first + int64(n) - 1
	pvs := map[string]cmttypes.PrivValidator{}
	var pubs []cmttypes.PrivValidator
	for i := 0; i < nvals; i++ {
		pv := cmttypes.NewMockPVWithParams(ed25519.GenPrivKeyFromSecret(rbytes(rng, 32)), false, false)
		pk, _ := pv.GetPubKey()
		pvs[string(pk.Address())] = pv
		pubs = append(pubs, pv)
	}
	// Validator set variants: same members, other voting powers.
	powerVariants := [][]int64{{10, 10, 10, 10}, {10, 10, 10, 11}, {12, 10, 10, 10}}
	mkVals := func(v int) *cmttypes.ValidatorSet {
		vs := make([]*cmttypes.Validator, nvals)
		for i, pv := range pubs {
			pk, _ := pv.GetPubKey()
			vs[i] = cmttypes.NewValidator(pk, powerVariants[v][i])
		}
		return cmttypes.NewValidatorSet(vs)
	}
	// Schedules (index n = the height after the tip).
	valVar := make([]int, n+1)
	cmtVar := make([]int, n+1)
	oasisVar := make([]int, n+1)
	for i := 1; i <= n; i++ {
		valVar[i] = valVar[i-1]
		if rng.IntN(3) == 0 {
			valVar[i] = rng.IntN(len(powerVariants))
		}
		cmtVar[i] = cmtVar[i-1]
		oasisVar[i] = oasisVar[i-1]
		if rng.IntN(2) == 0 {
			oasisVar[i] = rng.IntN(3) // changes, and changes back
		}
	}
	// Make sure that the interesting transitions exist whatever the PRNG said.
	if n >= 4 {
		oasisVar[1], oasisVar[2], oasisVar[3] = 1, 1, 0
		valVar[n] = (valVar[n-1] + 1) % len(powerVariants)
		for i := n / 2; i <= n; i++ {
			cmtVar[i] = 1 // one change of the CometBFT parameters in the middle
		}
		valVar[2] = (valVar[1] + 1) % len(powerVariants)
	}
	cmtParams := func(v int) cmttypes.ConsensusParams {
		return cmttypes.ConsensusParams{
			Block:     cmttypes.BlockParams{MaxBytes: 1048576 + int64(v)*1024, MaxGas: -1},
			Evidence:  cmttypes.EvidenceParams{MaxAgeNumBlocks: 1000, MaxAgeDuration: time.Hour, MaxBytes: 1024},
			Validator: cmttypes.ValidatorParams{PubKeyTypes: []string{cmttypes.ABCIPubKeyTypeEd25519}},
			Version:   cmttypes.VersionParams{App: 7},
		}
	}
	oasisParams := func(cv, ov int) *consensusGenesis.Parameters {
		p := &consensusGenesis.Parameters{
			TimeoutCommit: 5 * time.Second, MaxTxSize: 32768, MaxBlockSize: uint64(1048576 + cv*1024), MaxEvidenceSize: 1024,
			StateCheckpointInterval: 10000, GasCosts: transaction.Costs{consensusGenesis.GasOpTxByte: 1},
		}
		switch ov {
		case 1:
			p.MinGasPrice = 100
		case 2:
			p.GasCosts = transaction.Costs{consensusGenesis.GasOpTxByte: 2}
			p.MaxTxSize = 65536
		}
		return p
	}
	// Twin heights: identical transactions, results and state root.
	ta := ch.first + 1 + rng.Int64N(int64(max(n-3, 1)))
	tb := ta + 1
	if n < 4 {
		ta, tb = -1, -1
	}
	ch.twin = [2]int64{ta, tb}

	txLens := []int{40 + rng.IntN(60), 40 + rng.IntN(60), 40 + rng.IntN(60)}
	base := time.Date(2025, 1, 1, 0, 0, 0, 0, time.UTC)
	var prev *chainHeight
	var prevResultsHash, prevCommitHash []byte
	firstCommit := synthCommit(rng, ch.first-1)
	for i := 0; i < n; i++ {
		h := ch.first + int64(i)
		x := &chainHeight{h: h, vals: mkVals(valVar[i])}
		// Content.
		if h == tb && prev != nil {
			x.txs, x.metaTx, x.stateRoot = cloneTxs(prev.txs), prev.metaTx, prev.stateRoot
		} else {
			copy(x.stateRoot[:], rbytes(rng, 32))
			for _, l := range txLens {
				x.txs = append(x.txs, rbytes(rng, l))
			}
			raw, st := synthMetaTxTyped(rng, x.stateRoot)
			x.txs = append(x.txs, raw)
			x.metaTx = st
		}
		var results []*abci.ResponseDeliverTx
		if h == tb && prev != nil {
			pm, err := cmtapi.NewBlockResultsMeta(prev.res)
			if err != nil {
				return nil, err
			}
			results = pm.TxsResults
		} else {
			for range x.txs {
				results = append(results, &abci.ResponseDeliverTx{Code: uint32(rng.IntN(2)), Data: rbytes(rng, 4), GasWanted: 1000, GasUsed: rng.Int64N(1000),
					Events: []abci.Event{{Type: "e", Attributes: []abci.EventAttribute{{Key: "k", Value: fmt.Sprintf("%x", rbytes(rng, 4))}}}}})
			}
		}
		x.res = cmtapi.NewBlockResults(&cmtResultBlockResults{Height: h, TxsResults: results})
		cp := cmtParams(cmtVar[i])
		x.oasis = oasisParams(cmtVar[i], oasisVar[i])
		pb := cp.ToProto()
		meta, err := pb.Marshal()
		if err != nil {
			return nil, err
		}
		x.params = &consensusAPI.Parameters{Height: h, Parameters: *x.oasis, Meta: meta}
		// Header.
		var data cmttypes.Data
		for _, tx := range x.txs {
			data.Txs = append(data.Txs, tx)
		}
		lastCommit := firstCommit
		x.header = cmttypes.Header{
			Version:            cmtversion.Consensus{Block: 11, App: 7},
			ChainID:            ch.chainID,
			Height:             h,
			Time:               base.Add(time.Duration(i)*6*time.Second + time.Duration(1+rng.Int64N(999_999_998))),
			DataHash:           data.Hash(),
			ValidatorsHash:     x.vals.Hash(),
			NextValidatorsHash: mkVals(valVar[i+1]).Hash(),
			ConsensusHash:      cp.Hash(),
			EvidenceHash:       cmttypes.EvidenceList{}.Hash(),
			ProposerAddress:    x.vals.Validators[rng.IntN(nvals)].Address,
		}
		if prev != nil {
			lastCommit = prev.commit
			x.header.LastBlockID = prev.blockID
			x.header.AppHash = prev.stateRoot[:]
			x.header.LastResultsHash = prevResultsHash
			_ = prevCommitHash
		} else {
			x.header.LastBlockID = synthBlockID(rng)
			x.header.AppHash = rbytes(rng, 32)
			x.header.LastResultsHash = rbytes(rng, 32)
		}
		x.header.LastCommitHash = lastCommit.Hash()
		// Commit, signed by the validators of this height.
		x.blockID = cmttypes.BlockID{Hash: x.header.Hash(), PartSetHeader: cmttypes.PartSetHeader{Total: 1, Hash: rbytes(rng, 32)}}
		voteSet := cmttypes.NewVoteSet(ch.chainID, h, 0, cmtproto.PrecommitType, x.vals)
		ordered := make([]cmttypes.PrivValidator, nvals)
		for k, v := range x.vals.Validators {
			ordered[k] = pvs[string(v.Address)]
		}
		x.commit, err = cmttypes.MakeCommit(x.blockID, h, 0, voteSet, ordered, x.header.Time.Add(time.Second))
		if err != nil {
			return nil, fmt.Errorf("commit for %d: %w", h, err)
		}
		hc := x.header
		x.lb = &cmttypes.LightBlock{SignedHeader: &cmttypes.SignedHeader{Header: &hc, Commit: x.commit}, ValidatorSet: x.vals}
		if err := x.lb.ValidateBasic(ch.chainID); err != nil {
			return nil, fmt.Errorf("synthetic light block %d invalid: %w", h, err)
		}
		if x.clb, err = light.EncodeLightBlock(x.lb, h); err != nil {
			return nil, err
		}
		if x.blk, err = cmtapi.NewBlock(&cmttypes.Block{Header: x.header, Data: data, LastCommit: lastCommit}); err != nil {
			return nil, err
		}
		if x.valsResp, err = light.EncodeValidators(x.vals, h); err != nil {
			return nil, err
		}
		prevResultsHash = cmttypes.NewResults(results).Hash()
		prevCommitHash = x.commit.Hash()
		ch.hs[h] = x
		prev = x
	}
	var err error
	if ch.nextVals, err = light.EncodeValidators(mkVals(valVar[n]), ch.tip+1); err != nil {
		return nil, err
	}
	return ch, nil
}

func (ch *chain) rigSpec() rigSpec {
	blocks := map[int64]*consensusAPI.LightBlock{}
	for h, x := range ch.hs {
		blocks[h] = x.clb
	}
	return rigSpec{chainID: ch.chainID, blocks: blocks, latest: ch.tip, trustH: ch.first, trustID: ch.at(ch.first).header.Hash(), paramsAt: ch.paramsAt}
}
