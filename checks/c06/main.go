// Check C06: finalized storage versions stay fully readable until pruned.
//
// See DESIGN.md "C06". Sequential part: generated version histories on both
// node database backends with a full read-back of every retained finalized
// root (and every discarded candidate) after every NodeDB operation, plus a
// cross-backend differential. Concurrent part (conc.go): readers against one
// committer/finalizer/pruner under the race detector with H3 delays, a
// porcupine linearizability check of the metadata operations.
package main

import (
	"encoding/json"
	"fmt"
	"os"
	"path/filepath"
	"sort"
	"strings"
	"sync"
	"syscall"

	"verif/engine/evid"
	"verif/engine/ndblab"
)

type witness struct {
	Seed     int64           `json:"seed"`
	Tier     string          `json:"tier"`
	Case     string          `json:"case"`
	Backend  string          `json:"backend"`
	OnDisk   bool            `json:"on_disk"`
	Detail   map[string]any  `json:"detail"`
	Ops      []string        `json:"ops"`
	History  *ndblab.History `json:"history"`
	FailedAt int             `json:"failed_after_op"`
}

var (
	statMu sync.Mutex
	stats  = map[string]int64{}
)

func addStats(prefix string, m map[string]int64) {
	statMu.Lock()
	for k, v := range m {
		stats[prefix+k] += v
	}
	statMu.Unlock()
}

// runHistory executes h on backend and reports findings. It returns the lab's
// per-op snapshots when snap is true (for the cross-backend differential).
func runHistory(r *evid.Run, name, backend string, h *ndblab.History, onDisk bool, snap bool) (snaps []*ndblab.Snapshot, brokenAt int) {
	dir := ""
	if onDisk {
		dir = filepath.Join(r.Scratch(), strings.ReplaceAll(name, "/", "_")+"-"+backend)
		_ = os.MkdirAll(dir, 0o755)
		defer os.RemoveAll(dir)
	}
	brokenAt = -1
	lab, err := ndblab.NewLab(backend, dir, h)
	if err != nil {
		r.Inconclusive("cannot open %s database: %v", backend, err)
		return nil, -1
	}
	defer lab.Close()
	lab.TmpDir = r.Scratch()
	sharedNode, prunes, discarded := false, 0, 0
	for i := range h.Ops {
		res := lab.Do(i)
		fs := lab.CheckAll(res)
		fatal := false
		for _, f := range fs {
			if f.Fatal {
				fatal = true
				if brokenAt < 0 {
					brokenAt = i
				}
			}
			r.Violation(f.Signature, f.What, witness{
				Seed: r.Seed, Tier: r.Tier, Case: name, Backend: backend, OnDisk: onDisk, Detail: f.Detail,
				Ops: h.OpStrings()[:i+1], History: h, FailedAt: i,
			})
		}
		if res.Unexpected() || fatal {
			// The model and the database have diverged (or a finalized root is damaged): whatever
			// the rest of the history shows would be a consequence, so it stops here.
			if brokenAt < 0 {
				brokenAt = i
			}
			r.Count("histories_stopped_at_first_finding."+backend, 1)
			if strings.Contains(name, "clean") {
				r.Count("clean_histories_stopped_at_first_finding."+backend, 1)
				for _, f := range fs {
					fmt.Fprintf(os.Stderr, "clean history %s stopped on %s: %s\n", name, backend, f.Signature)
				}
				if len(fs) == 0 {
					fmt.Fprintf(os.Stderr, "clean history %s stopped on %s: unexpected %q want %q (%s) at %s\n", name, backend, res.Class, res.Expect, res.ErrText, res.Op.String())
				}
			}
			r.Count("ops_not_executed_after_finding."+backend, int64(len(h.Ops)-i-1))
			break
		}
		if res.Op.Kind == ndblab.KPrune && res.Class == "" {
			prunes++
		}
		if len(res.Disc) > 0 {
			discarded += len(res.Disc)
			for _, d := range res.Disc {
				for _, f := range res.Final {
					for hsh := range d.Nodes {
						if _, ok := f.Nodes[hsh]; ok {
							sharedNode = true
						}
					}
				}
			}
		}
		if snap {
			snaps = append(snaps, lab.Snapshot())
		}
	}
	addStats("", lab.Stats)
	r.Eval(1)
	if sharedNode && prunes > 0 {
		r.Nontrivial(fmt.Sprintf("%s/%s", backend, name))
		r.Count("nontrivial_histories."+backend, 1)
	}
	r.Count("histories."+backend, 1)
	r.Count("discarded_candidates", int64(discarded))
	r.Count("successful_prunes", int64(prunes))
	return snaps, brokenAt
}

func main() {
	ensureRaceLog()
	r := evid.Start("C06", "exploration")
	r.Rule = "sequential: PRNG-generated NodeDB version histories (1-3 state candidates per version derived from the previous finalized state root with remove+re-insert of the same pair, resurrection of pairs removed earlier, unchanged/empty/identical/superset candidates; 0-2 IO candidates from empty whose pairs may coincide with state pairs; arbitrary finalized choice; prune lag 1..3; failing metadata probes; every second history in a clean mode that avoids the shapes already known to damage hashed badger so that badger is also driven to full depth; every tenth with badger-only same-version child roots; every eighth with a long-lived tree object committing one candidate per version and, in a third of the versions, a second tree committing the identical root; every eighth with a long-lived tree whose candidate is finalized in most versions and whose writes embed / un-embed leaves (prefix keys inserted and removed again), remove / re-add embedded leaves and make a leaf the root node and back; every eighth on an on-disk database that is closed and reopened after most versions, pruned with lag >= 2 and compacted with NodeDB.Compact() after prunes) run on badger and pathbadger with a full read-back of every root after every operation; a history is non-trivial when a discarded candidate shares at least one node with a root finalized in the same Finalize and at least one Prune succeeded. concurrent: one writer with H3 delays against reader goroutines, non-trivial when reads overlapped a Finalize and a Prune; commit-vs-finalize: the late Commit of a competing candidate (batch opened first or second) against a goroutine finalizing the other candidate and continuing with the next version / a prune, one of them parked at a PRNG-chosen H3 point inside Finalize or Commit, non-trivial when the park point was reached."
	r.Assume("the pure model of root contents (map semantics of insert/remove) is correct; root hashes are taken from tree.Commit of the code under test")
	r.Assume("SyncGet proofs are verified by the tree's own ProofVerifier (C04 checks the verifier independently)")
	r.Assume("concurrency is explored by stress with injected delays, not by schedule enumeration; a clean race-detector run is not a proof of race freedom")

	if r.ReplayFile != "" {
		replay(r)
		return
	}

	if os.Getenv("VERIF_C06_FAMILY") == "large" { // debugging aid: the large-batch family alone
		runLargeBatchFamily(r)
		finish(r, 0)
		return
	}

	// 1. Deterministic witnesses of the known shapes (replayed first so that the
	// finding lines appear whenever the defects exist).
	for _, w := range ndblab.Witnesses() {
		sb, bb := runHistory(r, "witness/"+w.Name, ndblab.Badger, w, false, true)
		if w.BadgerOnly {
			continue
		}
		sp, bp := runHistory(r, "witness/"+w.Name, ndblab.PathBadger, w, false, true)
		diffSnapshots(r, w, sb, sp, bb, bp)
	}

	// 2. Generated histories, both backends, cross-backend differential.
	nHist := r.Pick(150, 6000)
	versions := 12
	only := -1
	if v := os.Getenv("VERIF_C06_ONLY"); v != "" { // debugging aid: run one generated history only
		fmt.Sscan(v, &only)
	}
	evid.Parallel(nHist, 0, func(i int) {
		if only >= 0 && i != only {
			return
		}
		rng := r.Rand(1, uint64(i))
		cfg := ndblab.GenConfig{Versions: versions, MaxLag: 3, Probes: true, BadgerOnly: i%10 == 9, Clean: i%2 == 1}
		if i%8 == 4 {
			// Restart/compaction share: on-disk, reopen after most versions, prune lag >= 2, Compact after prunes.
			cfg.Restart, cfg.Clean, cfg.BadgerOnly = true, true, false
		}
		if i%8 == 6 {
			// Long-lived tree whose commits are finalized, with embed/un-embed (prefix key) patterns.
			cfg.KeptTree, cfg.PrefixChurn, cfg.Clean, cfg.BadgerOnly = true, true, true, false
			r.Count("histories.kept_tree_prefix_churn_share", 1)
		}
		if i%8 == 5 {
			// Checkpoint restore share: a later version, mostly derived from the latest one (shared nodes), is
			// restored into the database that holds the earlier finalized versions, finalized, and the
			// versions below are pruned at once or with the lag; the restored version must stay readable.
			cfg.Restore, cfg.RestoreNoAbort, cfg.Clean, cfg.BadgerOnly = true, true, true, false
			r.Count("histories.checkpoint_restore_share", 1)
		}
		if i%8 == 2 {
			// Long-lived tree share (with the same root committed twice by two trees in some versions).
			cfg.KeptTree, cfg.Clean, cfg.BadgerOnly = true, true, false
			r.Count("histories.kept_tree_share", 1)
		}
		h := ndblab.Generate(rng, cfg)
		h.Name = fmt.Sprintf("gen-%d", i)
		if cfg.Clean {
			h.Name = fmt.Sprintf("gen-clean-%d", i)
		}
		if i < 3 {
			r.Sample(map[string]any{"case": h.Name, "ops": h.OpStrings()})
		}
		onDisk := i%8 == 0 || h.OnDisk
		if h.OnDisk {
			h.Name = fmt.Sprintf("gen-restart-%d", i)
			r.Count("histories.restart_compact_share", 1)
		}
		if h.DiscardWriteLogs {
			r.Count("histories.discard_write_logs_share", 1)
		}
		sb, bb := runHistory(r, h.Name, ndblab.Badger, h, onDisk, !h.BadgerOnly)
		if h.BadgerOnly {
			r.Count("histories.badger-only-shapes", 1)
			return
		}
		sp, bp := runHistory(r, h.Name, ndblab.PathBadger, h, onDisk, true)
		diffSnapshots(r, h, sb, sp, bb, bp)
	})

	// 3. Concurrent part.
	runConcurrent(r)
	runCommitVsFinalizeFamily(r)
	runLargeBatchFamily(r)

	// 4. Race detector reports.
	reportRaces(r)

	for _, b := range ndblab.Backends {
		if n := r.Counter("nontrivial_histories." + b); n < int64(r.Pick(10, 200)) {
			r.Inconclusive("backend %s: only %d non-trivial sequential histories", b, n)
		}
	}
	statMu.Lock()
	keys := make([]string, 0, len(stats))
	for k := range stats {
		keys = append(keys, k)
	}
	sort.Strings(keys)
	for _, k := range keys {
		r.Count(k, stats[k])
	}
	statMu.Unlock()
	finish(r, r.Pick(20, 400))
}

// diffSnapshots compares the API-visible state of both backends after every op.
func diffSnapshots(r *evid.Run, h *ndblab.History, sb, sp []*ndblab.Snapshot, brokenB, brokenP int) {
	n := min(len(sb), len(sp))
	keptReported := false
	for i := 0; i < n; i++ {
		if (brokenB >= 0 && i >= brokenB) || (brokenP >= 0 && i >= brokenP) {
			// One side already has a reported finding; differences after it are consequences.
			return
		}
		r.Count("differential.states_compared", 1)
		for _, d := range ndblab.DiffSnapshots(sb[i], sp[i]) {
			w := witness{Seed: r.Seed, Tier: r.Tier, Case: h.Name, Backend: "both", Ops: h.OpStrings()[:i+1], History: h, FailedAt: i,
				Detail: map[string]any{"field": d.Field, "key": d.Key, "badger": d.A, "pathbadger": d.B}}
			if d.DiscardedKeptByB {
				if !keptReported {
					keptReported = true
					r.Violation(ndblab.SigDiffDiscardedKept,
						fmt.Sprintf("after op %d %s the backends give different answers about a discarded candidate: %s %s: badger=%s pathbadger=%s (pathbadger's Finalize keeps the root node of discarded candidates, so HasRoot stays true and GetRootsForVersion keeps listing them)", i, h.Ops[i].String(), d.Field, d.Key, d.A, d.B), w)
				}
				continue
			}
			r.Violation(fmt.Sprintf("c06/differential/%s/%s", h.Ops[i].Kind, d.Field),
				fmt.Sprintf("backends disagree after op %d %s: %s %s: badger=%s pathbadger=%s", i, h.Ops[i].String(), d.Field, d.Key, d.A, d.B), w)
			return
		}
	}
}

// ensureRaceLog re-executes the binary with a GORACE log_path when none is
// configured (run.sh always configures one), so that race reports can be parsed.
func ensureRaceLog() {
	if strings.Contains(os.Getenv("GORACE"), "log_path=") {
		return
	}
	dir, err := os.MkdirTemp("", "verif.c06.race.")
	if err != nil {
		return
	}
	env := append(os.Environ(), "GORACE=halt_on_error=0 log_path="+dir+"/race", "VERIF_SCRATCH="+dir, "VERIF_C06_OWN_SCRATCH="+dir)
	_ = syscall.Exec(os.Args[0], os.Args, env)
}

func reportRaces(r *evid.Run) {
	base := os.Getenv("VERIF_SCRATCH")
	if base == "" {
		r.Inconclusive("VERIF_SCRATCH not set: race detector log cannot be located")
		return
	}
	reps := evid.RaceReports(base + "/race")
	r.Count("race.distinct_reports", int64(len(reps)))
	for _, rep := range reps {
		r.Count("race.reports_total", int64(rep.Count))
		r.Violation("race/"+raceFrames(rep.Text), "data race reported by the race detector ("+fmt.Sprint(rep.Count)+" times): "+rep.Key,
			map[string]any{"seed": r.Seed, "tier": r.Tier, "report": rep.Text})
	}
}

// finish removes the private scratch directory (only present when the binary
// re-executed itself to get a race log path) and ends the run.
func finish(r *evid.Run, floor int) {
	if d := os.Getenv("VERIF_C06_OWN_SCRATCH"); d != "" {
		_ = os.RemoveAll(d)
	}
	r.Finish(floor)
}

// replay re-runs the history of a witness file on its backend(s).
func replay(r *evid.Run) {
	b, err := os.ReadFile(r.ReplayFile)
	if err != nil {
		fmt.Println("INCONCLUSIVE property=C06 cannot read replay file:", err)
		os.Exit(2)
	}
	var doc struct {
		Witness witness `json:"witness"`
	}
	if err := json.Unmarshal(b, &doc); err != nil || doc.Witness.History == nil {
		fmt.Println("INCONCLUSIVE property=C06 replay file has no history:", err)
		os.Exit(2)
	}
	w := doc.Witness
	backends := []string{w.Backend}
	if w.Backend == "both" || w.Backend == "" {
		backends = ndblab.Backends
	}
	var snaps [][]*ndblab.Snapshot
	var broken []int
	for _, be := range backends {
		s, br := runHistory(r, "replay/"+w.Case, be, w.History, w.OnDisk || w.History.OnDisk, true)
		snaps, broken = append(snaps, s), append(broken, br)
	}
	if len(backends) == 2 {
		diffSnapshots(r, w.History, snaps[0], snaps[1], broken[0], broken[1])
	}
	for k, v := range stats {
		fmt.Printf("stat %s=%d\n", k, v)
	}
	r.Nontrivial("replay-a")
	r.Nontrivial("replay-b")
	finish(r, 0)
}

// raceFrames returns the innermost non-runtime function of each of the two
// conflicting accesses of a race report ("f+g").
func raceFrames(text string) string {
	var tops []string
	want := false
	for _, ln := range strings.Split(text, "\n") {
		t := strings.TrimSpace(ln)
		switch {
		case strings.HasPrefix(t, "Read at"), strings.HasPrefix(t, "Write at"), strings.HasPrefix(t, "Previous "),
			strings.HasPrefix(t, "Atomic "), strings.HasPrefix(t, "Previous atomic"):
			want = true
		case strings.HasPrefix(t, "Goroutine"):
			want = false
		case want && t != "" && !strings.HasPrefix(t, "/") && !strings.HasPrefix(t, "runtime.") && !strings.HasPrefix(t, "sync."):
			if i := strings.LastIndex(t, "("); i > 0 {
				t = t[:i]
			}
			if i := strings.LastIndex(t, "/"); i >= 0 {
				t = t[i+1:]
			}
			tops = append(tops, t)
			want = false
		}
		if len(tops) == 2 {
			break
		}
	}
	if len(tops) == 0 {
		return "unparsed"
	}
	return strings.Join(tops, "+")
}
