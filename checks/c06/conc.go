package main

import (
	"fmt"
	"hash/fnv"
	"math/rand/v2"
	"os"
	"path/filepath"
	"runtime"
	"sort"
	"sync"
	"sync/atomic"
	"time"

	"github.com/anishathalye/porcupine"

	dbapi "github.com/oasisprotocol/oasis-core/go/storage/mkvs/db/api"
	"github.com/oasisprotocol/oasis-core/go/storage/mkvs/node"

	"verif/engine/evid"
	"verif/engine/ndblab"
)

// ---- H3 delay hook -------------------------------------------------------

var (
	hookSeed   uint64
	hookCount  atomic.Uint64
	hookMu     sync.Mutex
	hookPoints = map[string]int64{}
)

// delayHook is installed as dbapi.VerifCrashHook during the concurrent part: it
// widens the window between two durable writes of the writer by a small
// pseudo-random delay (a function of the seed and a global hit counter).
func delayHook(name string) {
	n := hookCount.Add(1)
	hookMu.Lock()
	hookPoints[name]++
	hookMu.Unlock()
	h := fnv.New64a()
	fmt.Fprintf(h, "%d/%d/%s", hookSeed, n, name)
	switch v := h.Sum64() % 8; {
	case v < 3:
		runtime.Gosched()
	case v < 6:
		time.Sleep(time.Duration(20+h.Sum64()%200) * time.Microsecond)
	default:
		time.Sleep(time.Duration(300+h.Sum64()%700) * time.Microsecond)
	}
}

// ---- porcupine model of the metadata operations ---------------------------

const (
	mFinalize = iota
	mPrune
	mLatest
	mEarliest
	mHasRoot
)

type metaIn struct {
	Op  int
	Ver uint64
}

type metaOut struct {
	Class string // Finalize / Prune: error class ("" = ok)
	Ver   uint64 // GetLatestVersion / GetEarliestVersion
	Has   bool   // GetLatestVersion exists flag / HasRoot
}

type metaState struct {
	Has      bool
	Latest   uint64
	Earliest uint64
}

var metaModel = porcupine.Model{
	Init: func() interface{} { return metaState{} },
	Step: func(state, input, output interface{}) (bool, interface{}) {
		s, in, out := state.(metaState), input.(metaIn), output.(metaOut)
		switch in.Op {
		case mFinalize:
			if out.Class != "" {
				return false, s // the writer only issues finalizations that must succeed
			}
			if s.Has && in.Ver != s.Latest+1 {
				return false, s
			}
			if !s.Has {
				s.Earliest = in.Ver
			}
			s.Has, s.Latest = true, in.Ver
			return true, s
		case mPrune:
			if out.Class != "" {
				return false, s
			}
			if !s.Has || in.Ver != s.Earliest || in.Ver >= s.Latest {
				return false, s
			}
			s.Earliest = in.Ver + 1
			return true, s
		case mLatest:
			return out.Has == s.Has && (!s.Has || out.Ver == s.Latest), s
		case mEarliest:
			return out.Ver == s.Earliest, s
		case mHasRoot:
			// Probed roots are committed before they are published and are finalized later,
			// so they exist until their version is pruned. Prune is not one atomic step (data
			// first, metadata last), so for the version that is eligible for pruning either
			// answer is legal here; "false only if Prune(v) was issued before the call
			// returned" is checked separately with the logical clock (as for reads).
			if s.Has && in.Ver == s.Earliest {
				return true, s
			}
			return out.Has == (in.Ver >= s.Earliest), s
		}
		return false, s
	},
	Equal: func(a, b interface{}) bool { return a.(metaState) == b.(metaState) },
	DescribeOperation: func(input, output interface{}) string {
		in, out := input.(metaIn), output.(metaOut)
		name := [...]string{"Finalize", "Prune", "GetLatestVersion", "GetEarliestVersion", "HasRoot"}[in.Op]
		return fmt.Sprintf("%s(%d) -> %+v", name, in.Ver, out)
	},
}

// ---- one concurrent run -----------------------------------------------------

type pubRoot struct {
	root    node.Root
	ver     uint64
	content map[string]string
}

type readFail struct {
	Root     string `json:"root"`
	Ver      uint64 `json:"version"`
	T0       int64  `json:"t_start"`
	T1       int64  `json:"t_end"`
	Err      string `json:"err"`
	Class    string `json:"class"`
	Stage    string `json:"stage"`
	Mismatch string `json:"mismatch"`
	Overlap  string `json:"writer_ops_overlapping"`
}

type writerOp struct {
	idx    int
	t0, t1 int64
}

type concRun struct {
	mu          sync.Mutex
	retained    []pubRoot
	probeRoots  []pubRoot // committed roots that will be finalized
	pruneIssued map[uint64]int64
	wops        []writerOp
	clock       atomic.Int64
	done        atomic.Bool

	hmu  sync.Mutex
	hist []porcupine.Operation
	base time.Time
}

func (c *concRun) record(client int, in metaIn, call time.Time, out metaOut) {
	ret := time.Now()
	c.hmu.Lock()
	c.hist = append(c.hist, porcupine.Operation{
		ClientId: client, Input: in, Call: call.Sub(c.base).Nanoseconds(), Output: out, Return: ret.Sub(c.base).Nanoseconds(),
	})
	c.hmu.Unlock()
}

func (c *concRun) overlapping(h *ndblab.History, t0, t1 int64) (string, bool, bool) {
	c.mu.Lock()
	defer c.mu.Unlock()
	s := ""
	fin, pr := false, false
	for _, w := range c.wops {
		end := w.t1
		if end == 0 {
			end = 1 << 62
		}
		if w.t0 <= t1 && end >= t0 {
			s += fmt.Sprintf("%d:%s ", w.idx, h.Ops[w.idx].String())
			switch h.Ops[w.idx].Kind {
			case ndblab.KFinalize:
				fin = true
			case ndblab.KPrune:
				pr = true
			}
		}
	}
	return s, fin, pr
}

func runOneConcurrent(r *evid.Run, idx int) {
	rng := r.Rand(2, uint64(idx))
	backend := ndblab.Backends[idx%2]
	h := ndblab.Generate(rng, ndblab.GenConfig{Versions: 10, MaxLag: 2, Clean: true})
	h.Name = fmt.Sprintf("conc-%d", idx)
	dir := ""
	if idx%4 < 2 {
		dir = filepath.Join(r.Scratch(), fmt.Sprintf("conc-%d-%s", idx, backend))
		_ = os.MkdirAll(dir, 0o755)
		defer os.RemoveAll(dir)
	}
	lab, err := ndblab.NewLab(backend, dir, h)
	if err != nil {
		r.Inconclusive("concurrent run %d: cannot open %s database: %v", idx, backend, err)
		return
	}
	defer lab.Close()
	lab.TmpDir = r.Scratch()
	lab.ProofKeys = 1
	c := &concRun{pruneIssued: map[uint64]int64{}, base: time.Now()}

	// Which candidates will be finalized (look-ahead in the history)?
	willFinal := map[[2]uint64]bool{}
	for _, op := range h.Ops {
		if op.Kind == ndblab.KFinalize {
			for _, id := range op.Final {
				willFinal[[2]uint64{op.Ver, uint64(id)}] = true
			}
		}
	}

	var fails []readFail
	var failsMu sync.Mutex
	var reads, readsOverlapFin, readsOverlapPrune, excused, hasRootCalls atomic.Int64
	var wg sync.WaitGroup

	// Readers.
	const nReaders = 3
	for rd := 0; rd < nReaders; rd++ {
		wg.Add(1)
		go func(rd int) {
			defer wg.Done()
			lr := rand.New(rand.NewPCG(uint64(r.Seed), uint64(idx*16+rd)))
			for !c.done.Load() {
				c.mu.Lock()
				if len(c.retained) == 0 {
					c.mu.Unlock()
					runtime.Gosched()
					continue
				}
				p := c.retained[lr.IntN(len(c.retained))]
				c.mu.Unlock()
				t0 := c.clock.Add(1)
				rr := ndblab.ReadRoot(lab.Raw, p.root, p.content, 1)
				t1 := c.clock.Add(1)
				reads.Add(1)
				ov, fin, pr := c.overlapping(h, t0, t1)
				if fin {
					readsOverlapFin.Add(1)
				}
				if pr {
					readsOverlapPrune.Add(1)
				}
				if rr.OK() {
					continue
				}
				if rr.Mismatch == "" {
					c.mu.Lock()
					pi, issued := c.pruneIssued[p.ver]
					c.mu.Unlock()
					if issued && pi < t1 {
						excused.Add(1) // Prune(v) was issued before the read returned
						continue
					}
				}
				failsMu.Lock()
				if len(fails) < 16 {
					fails = append(fails, readFail{Root: p.root.Hash.String(), Ver: p.ver, T0: t0, T1: t1, Err: rr.Err, Class: rr.ErrClass, Stage: rr.Stage, Mismatch: rr.Mismatch, Overlap: ov})
				}
				failsMu.Unlock()
			}
		}(rd)
	}

	// Metadata prober.
	wg.Add(1)
	go func() {
		defer wg.Done()
		lr := rand.New(rand.NewPCG(uint64(r.Seed), uint64(idx*16+9)))
		for n := 0; !c.done.Load() && n < 1200; n++ {
			switch lr.IntN(3) {
			case 0:
				call := time.Now()
				v, ok := lab.Raw.GetLatestVersion()
				c.record(1, metaIn{Op: mLatest}, call, metaOut{Ver: v, Has: ok})
			case 1:
				call := time.Now()
				v := lab.Raw.GetEarliestVersion()
				c.record(1, metaIn{Op: mEarliest}, call, metaOut{Ver: v})
			case 2:
				c.mu.Lock()
				if len(c.probeRoots) == 0 {
					c.mu.Unlock()
					continue
				}
				p := c.probeRoots[lr.IntN(len(c.probeRoots))]
				c.mu.Unlock()
				call := time.Now()
				has := lab.Raw.HasRoot(p.root)
				t1 := c.clock.Add(1)
				c.record(1, metaIn{Op: mHasRoot, Ver: p.ver}, call, metaOut{Has: has})
				hasRootCalls.Add(1)
				if !has {
					c.mu.Lock()
					pi, issued := c.pruneIssued[p.ver]
					c.mu.Unlock()
					if !issued || pi >= t1 {
						failsMu.Lock()
						if len(fails) < 16 {
							fails = append(fails, readFail{Root: p.root.Hash.String(), Ver: p.ver, T1: t1, Class: "HasRoot-false", Stage: "hasroot"})
						}
						failsMu.Unlock()
					}
				}
			}
			if n%8 == 0 {
				time.Sleep(50 * time.Microsecond)
			}
		}
	}()

	// Writer.
	var callTime time.Time
	lab.BeforeOp = func(i int) {
		op := h.Ops[i]
		t := c.clock.Add(1)
		c.mu.Lock()
		c.wops = append(c.wops, writerOp{idx: i, t0: t})
		if op.Kind == ndblab.KPrune {
			c.pruneIssued[op.Ver] = t
			var keep []pubRoot
			for _, p := range c.retained {
				if p.ver != op.Ver {
					keep = append(keep, p)
				}
			}
			c.retained = keep
		}
		c.mu.Unlock()
		callTime = time.Now()
	}
	lab.AfterOp = func(i int) {
		c.mu.Lock()
		c.wops[len(c.wops)-1].t1 = c.clock.Add(1)
		c.mu.Unlock()
	}
	seqFinding := false
	for i := range h.Ops {
		res := lab.Do(i)
		switch res.Op.Kind {
		case ndblab.KFinalize:
			c.record(0, metaIn{Op: mFinalize, Ver: res.Op.Ver}, callTime, metaOut{Class: res.Class})
		case ndblab.KPrune:
			c.record(0, metaIn{Op: mPrune, Ver: res.Op.Ver}, callTime, metaOut{Class: res.Class})
		}
		// The sequential oracle runs in the writer too: a root damaged by one of the sequential
		// shapes must not be blamed on concurrency.
		fs := lab.CheckAll(res)
		fatal := res.Unexpected()
		for _, f := range fs {
			if f.Fatal {
				fatal = true
			}
			r.Violation(f.Signature, "(seen by the writer of a concurrent run) "+f.What, witness{
				Seed: r.Seed, Tier: r.Tier, Case: h.Name, Backend: backend, OnDisk: dir != "", Detail: f.Detail, Ops: h.OpStrings()[:i+1], History: h, FailedAt: i,
			})
		}
		if fatal {
			seqFinding = true
			break
		}
		if res.Op.Kind == ndblab.KCommit && res.Root != nil && !res.Root.Hash.IsEmpty() {
			for _, id := range res.Root.Cands {
				if willFinal[[2]uint64{res.Root.Ver, uint64(id)}] {
					c.mu.Lock()
					c.probeRoots = append(c.probeRoots, pubRoot{root: res.Root.Root(), ver: res.Root.Ver})
					c.mu.Unlock()
					break
				}
			}
		}
		if res.Op.Kind == ndblab.KFinalize && res.Class == "" {
			c.mu.Lock()
			for _, f := range res.Final {
				if !f.Hash.IsEmpty() {
					c.retained = append(c.retained, pubRoot{root: f.Root(), ver: f.Ver, content: f.Content})
				}
			}
			c.mu.Unlock()
		}
	}
	c.done.Store(true)
	wg.Wait()
	addStats("concurrent.writer.", lab.Stats)

	r.Eval(1)
	r.Count("concurrent.runs."+backend, 1)
	r.Count("concurrent.reads", reads.Load())
	r.Count("concurrent.hasroot_calls", hasRootCalls.Load())
	r.Count("concurrent.reads_overlapping_finalize", readsOverlapFin.Load())
	r.Count("concurrent.reads_overlapping_prune", readsOverlapPrune.Load())
	r.Count("concurrent.read_failures_excused_by_issued_prune", excused.Load())
	if seqFinding {
		r.Count("concurrent.runs_stopped_by_sequential_finding", 1)
		r.Count("concurrent.read_failures_not_judged", int64(len(fails)))
		return
	}
	if readsOverlapFin.Load() > 0 && readsOverlapPrune.Load() > 0 {
		r.Nontrivial(fmt.Sprintf("conc/%s/%d", backend, idx))
	}
	for _, f := range fails {
		sym := "failed-" + f.Class
		if f.Mismatch != "" {
			sym = "returned-wrong-data"
		}
		r.Violation(fmt.Sprintf("c06/%s/concurrent/read-of-retained-version-%s", backend, sym),
			fmt.Sprintf("concurrent read of finalized root %s of version %d (logical time %d..%d) %s while no Prune(%d) had been issued: err=%q mismatch=%q; writer ops overlapping the read: %s", f.Root[:8], f.Ver, f.T0, f.T1, sym, f.Ver, f.Err, f.Mismatch, f.Overlap),
			map[string]any{"seed": r.Seed, "tier": r.Tier, "case": h.Name, "run": idx, "backend": backend, "on_disk": dir != "", "failure": f, "ops": h.OpStrings(), "history": h})
	}

	// Linearizability of the metadata operations.
	c.hmu.Lock()
	ops := append([]porcupine.Operation(nil), c.hist...)
	c.hmu.Unlock()
	sort.Slice(ops, func(a, b int) bool { return ops[a].Call < ops[b].Call })
	res := porcupine.CheckOperationsTimeout(metaModel, ops, 60*time.Second)
	r.Count("porcupine.histories_checked", 1)
	r.Count("porcupine.operations", int64(len(ops)))
	switch res {
	case porcupine.Ok:
	case porcupine.Unknown:
		r.Inconclusive("porcupine timed out on the metadata history of concurrent run %d (%d operations)", idx, len(ops))
	case porcupine.Illegal:
		var descr []string
		for _, o := range ops {
			descr = append(descr, fmt.Sprintf("c%d [%d,%d] %s", o.ClientId, o.Call, o.Return, metaModel.DescribeOperation(o.Input, o.Output)))
		}
		if len(descr) > 1500 {
			descr = descr[:1500]
		}
		r.Violation(fmt.Sprintf("c06/%s/concurrent/metadata-history-not-linearizable", backend),
			fmt.Sprintf("the recorded history of Finalize/Prune/GetLatestVersion/GetEarliestVersion/HasRoot of concurrent run %d (%d operations) is not linearizable w.r.t. the sequential metadata model", idx, len(ops)),
			map[string]any{"seed": r.Seed, "tier": r.Tier, "case": h.Name, "run": idx, "backend": backend, "operations": descr, "ops": h.OpStrings()})
	}
}

func runConcurrent(r *evid.Run) {
	n := r.Pick(20, 400)
	hookSeed = uint64(r.Seed)
	dbapi.VerifCrashHook = delayHook
	defer func() { dbapi.VerifCrashHook = nil }()
	evid.Parallel(n, 8, func(i int) {
		defer func() {
			if p := recover(); p != nil {
				r.Violation("panic/concurrent-run", fmt.Sprintf("panic in concurrent run %d: %v", i, p), map[string]any{"seed": r.Seed, "run": i})
			}
		}()
		runOneConcurrent(r, i)
	})
	hookMu.Lock()
	for k, v := range hookPoints {
		r.Count("h3_delay_point."+k, v)
	}
	r.Set("h3_points_reached", len(hookPoints))
	hookMu.Unlock()
}
