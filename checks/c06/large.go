package main

// Large-batch family: a tree.Commit whose batch is larger than the write batch limits of the
// underlying Badger store (the batch is then flushed piecewise BEFORE the node database decides
// whether it accepts the commit). The statement covers it directly: whatever is committed or
// attempted later, a finalized root stays completely readable. Each case finalizes a large root
// A at version 1, performs one large operation, and then reads A back completely (ordered
// iteration compared element by element with the model, a Get for every 97th key).
//
//   refused-into-finalized : a second large tree (from empty) is committed at the finalized
//                            version 1; the commit must not be accepted, A must be intact.
//   discarded-candidate    : a large candidate derived from A and a small sibling are committed
//                            at version 2, the small one is finalized; A and the sibling are read back.
//   finalized-candidate    : the same, the large one is finalized; A, the large root and its
//                            discarded sibling's absence are checked.

import (
	"context"
	"fmt"
	"os"
	"path/filepath"

	"github.com/oasisprotocol/oasis-core/go/storage/mkvs"
	"github.com/oasisprotocol/oasis-core/go/storage/mkvs/db/api"
	"github.com/oasisprotocol/oasis-core/go/storage/mkvs/node"

	"verif/engine/evid"
	"verif/engine/ndblab"
)

type largeWitness struct {
	Seed    int64  `json:"seed"`
	Tier    string `json:"tier"`
	Case    string `json:"case"`
	Backend string `json:"backend"`
	Keys    int    `json:"keys_per_large_batch"`
	Steps   string `json:"steps"`
	What    string `json:"what"`
}

func largeKey(tag string, i int) []byte { return []byte(fmt.Sprintf("%s key %07d", tag, i)) }
func largeVal(tag string, i int) []byte { return []byte(fmt.Sprintf("%s value %d", tag, i)) }

// readBackLarge compares the complete contents under root with the expected (tag, n) pairs given
// in ascending key order by want(i).
func readBackLarge(ctx context.Context, ndb api.NodeDB, root node.Root, n int, want func(i int) ([]byte, []byte)) error {
	tree := mkvs.NewWithRoot(nil, ndb, root)
	defer tree.Close()
	it := tree.NewIterator(ctx)
	defer it.Close()
	i := 0
	for it.Rewind(); it.Valid(); it.Next() {
		if i >= n {
			return fmt.Errorf("iteration yields more than the %d keys of the root (extra key %q)", n, it.Key())
		}
		k, v := want(i)
		if string(it.Key()) != string(k) || string(it.Value()) != string(v) {
			return fmt.Errorf("iteration item %d is %q=%q, the root holds %q=%q there", i, it.Key(), it.Value(), k, v)
		}
		i++
	}
	if err := it.Err(); err != nil {
		return fmt.Errorf("iteration fails after %d items: %v", i, err)
	}
	if i != n {
		return fmt.Errorf("iteration ends after %d of %d keys without an error", i, n)
	}
	for j := 0; j < n; j += 97 {
		k, v := want(j)
		got, err := tree.Get(ctx, k)
		if err != nil {
			return fmt.Errorf("Get(%q) fails: %v", k, err)
		}
		if string(got) != string(v) {
			return fmt.Errorf("Get(%q) = %q, the root holds %q", k, got, v)
		}
	}
	return nil
}

func runLargeBatchFamily(r *evid.Run) {
	n := r.Pick(90_000, 140_000) // above the store's write batch limits (about 80,000 keys, measured)
	if v := os.Getenv("VERIF_C06_LARGE_N"); v != "" { // debugging aid
		fmt.Sscan(v, &n)
	}
	ctx := context.Background()
	type lcase struct{ name, backend string }
	var cases []lcase
	for _, b := range []string{ndblab.Badger, ndblab.PathBadger} {
		for _, c := range []string{"refused-into-finalized", "discarded-candidate", "finalized-candidate"} {
			cases = append(cases, lcase{c, b})
		}
	}
	evid.Parallel(len(cases), 0, func(ci int) {
		c := cases[ci]
		dir := filepath.Join(r.Scratch(), fmt.Sprintf("large-%s-%s", c.name, c.backend))
		_ = os.MkdirAll(dir, 0o755)
		defer os.RemoveAll(dir)
		ndb, err := ndblab.Open(c.backend, dir)
		if err != nil {
			r.Inconclusive("large-batch: cannot open %s database: %v", c.backend, err)
			return
		}
		defer ndb.Close()
		steps := ""
		fail := func(sig, what string) {
			r.Violation(fmt.Sprintf("c06/%s/large-batch/%s/%s", c.backend, c.name, sig), what,
				largeWitness{Seed: r.Seed, Tier: r.Tier, Case: c.name, Backend: c.backend, Keys: n, Steps: steps, What: what})
		}
		wantA := func(i int) ([]byte, []byte) { return largeKey("good", i), largeVal("good", i) }

		// Version 1: large root A, finalized.
		ta := mkvs.New(nil, ndb, node.RootTypeState)
		for i := 0; i < n; i++ {
			if err = ta.Insert(ctx, largeKey("good", i), largeVal("good", i)); err != nil {
				r.Inconclusive("large-batch: insert: %v", err)
				return
			}
		}
		_, ha, err := ta.Commit(ctx, ndblab.Ns, 1)
		ta.Close()
		if err != nil {
			// A backend that cannot store such a batch at all decides nothing here.
			r.Count("large_batch.first_commit_refused."+c.backend, 1)
			return
		}
		rootA := node.Root{Namespace: ndblab.Ns, Version: 1, Type: node.RootTypeState, Hash: ha}
		if err = ndb.Finalize([]node.Root{rootA}); err != nil {
			r.Inconclusive("large-batch: finalize v1: %v", err)
			return
		}
		steps = fmt.Sprintf("commit(v1, A = %d keys from empty); finalize(v1, [A])", n)
		if err = readBackLarge(ctx, ndb, rootA, n, wantA); err != nil {
			fail("finalized-root-unreadable-right-after-finalize", "finalized root A: "+err.Error())
			return
		}

		switch c.name {
		case "refused-into-finalized":
			tb := mkvs.New(nil, ndb, node.RootTypeState)
			for i := 0; i < n; i++ {
				_ = tb.Insert(ctx, largeKey("evil", i), largeVal("evil", i))
			}
			_, hb, cerr := tb.Commit(ctx, ndblab.Ns, 1)
			tb.Close()
			steps += fmt.Sprintf("; commit(v1, B = %d other keys from empty) -> %s", n, ndblab.ErrClass(cerr))
			if cerr == nil {
				fail("commit-into-finalized-version-accepted", fmt.Sprintf("Commit of root %s at the finalized version 1 returned no error", hb))
			}
			r.Count("large_batch.commit_into_finalized."+ndblab.ErrClass(cerr), 1)
			if err = readBackLarge(ctx, ndb, rootA, n, wantA); err != nil {
				fail("finalized-root-damaged-by-refused-commit", "after the refused large commit at its version, finalized root A: "+err.Error())
				return
			}
		case "discarded-candidate", "finalized-candidate":
			// Large candidate L: A with every key rewritten and n/2 new keys; small sibling S: A plus one key.
			tl := mkvs.NewWithRoot(nil, ndb, rootA)
			for i := 0; i < n; i++ {
				_ = tl.Insert(ctx, largeKey("good", i), largeVal("newer", i))
			}
			_, hl, lerr := tl.Commit(ctx, ndblab.Ns, 2)
			tl.Close()
			ts := mkvs.NewWithRoot(nil, ndb, rootA)
			_ = ts.Insert(ctx, []byte("zz small sibling"), []byte("s"))
			_, hs, serr := ts.Commit(ctx, ndblab.Ns, 2)
			ts.Close()
			if lerr != nil || serr != nil {
				r.Count("large_batch.candidate_commit_refused."+c.backend, 1)
				return
			}
			rootL := node.Root{Namespace: ndblab.Ns, Version: 2, Type: node.RootTypeState, Hash: hl}
			rootS := node.Root{Namespace: ndblab.Ns, Version: 2, Type: node.RootTypeState, Hash: hs}
			wantL := func(i int) ([]byte, []byte) { return largeKey("good", i), largeVal("newer", i) }
			wantS := func(i int) ([]byte, []byte) {
				if i == n {
					return []byte("zz small sibling"), []byte("s")
				}
				return wantA(i)
			}
			steps += "; commit(v2, L = A with every value rewritten); commit(v2, S = A + one key)"
			fin, other := rootS, rootL
			if c.name == "finalized-candidate" {
				fin, other = rootL, rootS
			}
			if err = ndb.Finalize([]node.Root{fin}); err != nil {
				r.Inconclusive("large-batch: finalize v2: %v", err)
				return
			}
			steps += fmt.Sprintf("; finalize(v2, [%s])", map[bool]string{true: "L", false: "S"}[c.name == "finalized-candidate"])
			if err = readBackLarge(ctx, ndb, rootA, n, wantA); err != nil {
				fail("earlier-finalized-root-damaged", "finalized root A (version 1, not pruned): "+err.Error())
				return
			}
			if c.name == "finalized-candidate" {
				err = readBackLarge(ctx, ndb, fin, n, wantL)
			} else {
				err = readBackLarge(ctx, ndb, fin, n+1, wantS)
			}
			if err != nil {
				fail("finalized-root-unreadable", "the root finalized at version 2: "+err.Error())
				return
			}
			// The discarded candidate: absent, or readable with exactly its own contents.
			if ndb.HasRoot(other) {
				if c.name == "finalized-candidate" {
					err = readBackLarge(ctx, ndb, other, n+1, wantS)
				} else {
					err = readBackLarge(ctx, ndb, other, n, wantL)
				}
				if err != nil {
					fail("discarded-root-claimed-present-but-not-intact", "HasRoot is true for the discarded candidate of version 2, but: "+err.Error())
					return
				}
			}
			// Prune version 1: the finalized version-2 root must stay readable.
			if err = ndb.Prune(1); err != nil {
				r.Count("large_batch.prune_refused."+ndblab.ErrClass(err), 1)
			} else {
				steps += "; prune(v1)"
				if c.name == "finalized-candidate" {
					err = readBackLarge(ctx, ndb, fin, n, wantL)
				} else {
					err = readBackLarge(ctx, ndb, fin, n+1, wantS)
				}
				if err != nil {
					fail("finalized-root-unreadable-after-prune", "the root finalized at version 2, after prune(v1): "+err.Error())
					return
				}
			}
		}
		r.Eval(1)
		r.Count("large_batch.cases_completed."+c.backend, 1)
		r.Nontrivial("large-batch/" + c.backend + "/" + c.name)
	})
}
