package main

// Second concurrent family of C06: competing candidate commits against Finalize.
//
// Two candidate state roots X and Y of one version are prepared by two trees.
// X's batch is held right before its Batch.Commit (so the batch-open order, and
// with it pathbadger's sequence number, is chosen by the PRNG), Y is committed,
// and then the late Commit of X runs concurrently with a goroutine that
// finalizes Y (and goes on with the next version / a prune). The interleaving is
// steered through the H3 hook points: either the finalizer is parked at one of
// the points inside Finalize (holding the metadata lock, before or after the
// version is published) while the late commit is released, or the late commit
// is parked at a point inside Commit while the finalizer is started.
//
// Oracle (linearizable outcome): the late Commit either succeeded - then it
// happened before the Finalize and X is just a discarded candidate - or it
// returns ErrAlreadyFinalized. After all goroutines have joined the finalized
// version lists exactly the finalized root, every finalized root reads back
// exactly its model contents, and X is absent or intact.

import (
	"context"
	"fmt"
	"os"
	"path/filepath"
	"sort"
	"sync"
	"time"

	"github.com/oasisprotocol/oasis-core/go/common/crypto/hash"
	"github.com/oasisprotocol/oasis-core/go/storage/mkvs"
	dbapi "github.com/oasisprotocol/oasis-core/go/storage/mkvs/db/api"
	"github.com/oasisprotocol/oasis-core/go/storage/mkvs/node"

	"verif/engine/evid"
	"verif/engine/ndblab"
)

// gateDB is a NodeDB whose batches wait at a gate right before Batch.Commit.
type gateDB struct {
	dbapi.NodeDB
	ready chan struct{} // closed when the batch has been filled and is about to be committed
	goOn  chan struct{} // the commit proceeds when this is closed
	once  sync.Once
}

func newGate(db dbapi.NodeDB) *gateDB {
	return &gateDB{NodeDB: db, ready: make(chan struct{}), goOn: make(chan struct{})}
}

func (g *gateDB) NewBatch(oldRoot node.Root, version uint64, chunk bool) (dbapi.Batch, error) {
	b, err := g.NodeDB.NewBatch(oldRoot, version, chunk)
	if err != nil {
		return nil, err
	}
	return &gateBatch{Batch: b, g: g}, nil
}

type gateBatch struct {
	dbapi.Batch
	g *gateDB
}

func (b *gateBatch) Commit(root node.Root) error {
	b.g.once.Do(func() { close(b.g.ready) })
	<-b.g.goOn
	return b.Batch.Commit(root)
}

// RootExisted forwards the optional report of the wrapped batch (see ndblab.Recorder).
func (b *gateBatch) RootExisted() bool {
	if re, ok := b.Batch.(interface{ RootExisted() bool }); ok {
		return re.RootExisted()
	}
	return false
}

// parkHook parks the first goroutine that reaches the armed H3 point.
type parkHook struct {
	mu      sync.Mutex
	point   string
	reached chan struct{}
	release chan struct{}
	hit     bool
	points  map[string]int64
}

var park = &parkHook{points: map[string]int64{}}

func (p *parkHook) arm(point string) {
	p.mu.Lock()
	p.point, p.hit = point, false
	p.reached, p.release = make(chan struct{}), make(chan struct{})
	p.mu.Unlock()
}

func (p *parkHook) hook(name string) {
	p.mu.Lock()
	p.points[name]++
	if p.point == "" || name != p.point || p.hit {
		p.mu.Unlock()
		return
	}
	p.hit = true
	reached, release := p.reached, p.release
	p.mu.Unlock()
	close(reached)
	<-release
}

var (
	finalizePoints = map[string][]string{
		ndblab.Badger:     {"badger.finalize.pre-flush", "badger.finalize.post-flush", "badger.finalize.post-meta"},
		ndblab.PathBadger: {"pathbadger.finalize.pre-copy", "pathbadger.finalize.post-copy", "pathbadger.finalize.post-copymeta", "pathbadger.finalize.post-del", "pathbadger.finalize.post-delmeta", "pathbadger.finalize.post-meta"},
	}
	commitPoints = map[string][]string{
		ndblab.Badger:     {"badger.commit.pre-flush", "badger.commit.post-flush", "badger.commit.post-meta"},
		ndblab.PathBadger: {"pathbadger.commit.post-seqno", "pathbadger.commit.post-batmeta", "pathbadger.commit.post-bat"},
	}
)

const cvfWatchdog = 60 * time.Second

func waitCh(ch <-chan struct{}, d time.Duration) bool {
	select {
	case <-ch:
		return true
	case <-time.After(d):
		return false
	}
}

type cvfSchedule struct {
	Backend    string `json:"backend"`
	OnDisk     bool   `json:"on_disk"`
	LateFirst  bool   `json:"late_candidate_batch_opened_first"`
	Blocker    string `json:"parked"`    // "finalizer@<point>" | "late-commit@<point>" | "none"
	FollowUp   int    `json:"follow_up"` // 0 none, 1 next version, 2 next version + prune
	BaseKeys   int    `json:"base_keys"`
	LateResult string `json:"late_commit_result"`
}

func content(prefix string, n int, val string) map[string]string {
	m := map[string]string{}
	for i := 0; i < n; i++ {
		m[fmt.Sprintf("%s%d", prefix, i)] = fmt.Sprintf("%s %d", val, i)
	}
	return m
}

func applyAll(ctx context.Context, t mkvs.Tree, m map[string]string) error {
	keys := make([]string, 0, len(m))
	for k := range m {
		keys = append(keys, k)
	}
	sort.Strings(keys)
	for _, k := range keys {
		if err := t.Insert(ctx, []byte(k), []byte(m[k])); err != nil {
			return err
		}
	}
	return nil
}

func merged(ms ...map[string]string) map[string]string {
	out := map[string]string{}
	for _, m := range ms {
		for k, v := range m {
			out[k] = v
		}
	}
	return out
}

// runCommitVsFinalize runs one case. Cases run one at a time (the H3 hook is process-wide).
func runCommitVsFinalize(r *evid.Run, idx int) {
	rng := r.Rand(3, uint64(idx))
	ctx := context.Background()
	sch := cvfSchedule{Backend: ndblab.Backends[idx%2], OnDisk: idx%8 >= 6, LateFirst: rng.IntN(3) != 0, FollowUp: rng.IntN(3), BaseKeys: 3 + rng.IntN(6)}
	switch c := rng.IntN(10); {
	case c < 6:
		ps := finalizePoints[sch.Backend]
		sch.Blocker = "finalizer@" + ps[rng.IntN(len(ps))]
	case c < 9:
		ps := commitPoints[sch.Backend]
		sch.Blocker = "late-commit@" + ps[rng.IntN(len(ps))]
	default:
		sch.Blocker = "none"
	}
	be := sch.Backend
	viol := func(symptom, what string, extra map[string]any) {
		w := map[string]any{"seed": r.Seed, "tier": r.Tier, "case": fmt.Sprintf("commit-vs-finalize-%d", idx), "schedule": sch}
		for k, v := range extra {
			w[k] = v
		}
		r.Violation(fmt.Sprintf("c06/%s/concurrent-commit-vs-finalize/%s", be, symptom),
			fmt.Sprintf("[late commit of a competing candidate (batch opened %s) against Finalize of the other candidate; parked: %s; late commit returned %q] %s",
				map[bool]string{true: "first", false: "second"}[sch.LateFirst], sch.Blocker, sch.LateResult, what), w)
	}
	defer func() {
		if p := recover(); p != nil {
			viol("panic", fmt.Sprintf("panic: %v", p), nil)
		}
	}()

	dir := ""
	if sch.OnDisk {
		dir = filepath.Join(r.Scratch(), fmt.Sprintf("cvf-%d", idx))
		_ = os.MkdirAll(dir, 0o755)
		defer os.RemoveAll(dir)
	}
	raw, err := ndblab.Open(be, dir)
	if err != nil {
		r.Inconclusive("commit-vs-finalize %d: cannot open database: %v", idx, err)
		return
	}
	defer raw.Close()
	r.Eval(1)
	r.Count("commit_vs_finalize.cases."+be, 1)

	// Version 1: the base. Every candidate only changes values of base keys and adds new keys
	// (nothing a discarded candidate does re-creates an existing node: that is finding D4).
	base := content("key ", sch.BaseKeys, "base")
	t0 := mkvs.New(nil, raw, node.RootTypeState)
	if err = applyAll(ctx, t0, base); err != nil {
		r.Inconclusive("commit-vs-finalize %d: %v", idx, err)
		return
	}
	_, h0, err := t0.Commit(ctx, ndblab.Ns, 1)
	t0.Close()
	root0 := ndblab.NodeRoot(1, ndblab.TState, h0)
	if err == nil {
		err = raw.Finalize([]node.Root{root0})
	}
	if err != nil {
		viol("setup-failed", "commit/finalize of the base version failed: "+err.Error(), nil)
		return
	}

	// Candidates X (late) and Y (finalized) of version 2.
	wantX := merged(base, content("key ", sch.BaseKeys, "candidate X"), content("x only ", 1+rng.IntN(3), "x"))
	wantY := merged(base, content("key ", sch.BaseKeys, "candidate Y"), content("new key ", 2+rng.IntN(6), "y"))
	gx, gy := newGate(raw), newGate(raw)
	tx := mkvs.NewWithRoot(nil, gx, root0)
	defer tx.Close()
	ty := mkvs.NewWithRoot(nil, gy, root0)
	defer ty.Close()
	if err = applyAll(ctx, tx, wantX); err == nil {
		err = applyAll(ctx, ty, wantY)
	}
	if err != nil {
		viol("setup-failed", "tree writes failed: "+err.Error(), nil)
		return
	}
	type cres struct {
		h   hash.Hash
		err error
	}
	doneX, doneY := make(chan cres, 1), make(chan cres, 1)
	startX := func() {
		go func() {
			_, h, err := tx.Commit(ctx, ndblab.Ns, 2)
			doneX <- cres{h, err}
		}()
	}
	startY := func() {
		go func() {
			_, h, err := ty.Commit(ctx, ndblab.Ns, 2)
			doneY <- cres{h, err}
		}()
	}
	timeout := func(what string) {
		r.Inconclusive("commit-vs-finalize %d (%s, %s): watchdog fired while waiting for %s", idx, be, sch.Blocker, what)
		// Let everything go so that the goroutines can end.
		gx.once.Do(func() { close(gx.ready) })
		gy.once.Do(func() { close(gy.ready) })
	}
	if sch.LateFirst {
		startX()
		if !waitCh(gx.ready, cvfWatchdog) {
			timeout("the late candidate's batch")
			return
		}
		close(gy.goOn)
		startY()
	} else {
		startY()
		if !waitCh(gy.ready, cvfWatchdog) {
			timeout("the first candidate's batch")
			return
		}
		startX()
		if !waitCh(gx.ready, cvfWatchdog) {
			timeout("the late candidate's batch")
			return
		}
		close(gy.goOn)
	}
	var ry cres
	select {
	case ry = <-doneY:
	case <-time.After(cvfWatchdog):
		timeout("the commit of candidate Y")
		return
	}
	if ry.err != nil {
		viol("setup-failed", "commit of candidate Y failed: "+ry.err.Error(), nil)
		close(gx.goOn)
		<-doneX
		return
	}
	rootY := ndblab.NodeRoot(2, ndblab.TState, ry.h)

	// The finalizer: Finalize(Y), then maybe the next version and a prune.
	wantZ := merged(wantY, content("v3 key ", 2, "z"))
	var rootZ node.Root
	var finErr, followErr error
	doneF := make(chan struct{})
	finalizer := func() {
		defer close(doneF)
		if finErr = raw.Finalize([]node.Root{rootY}); finErr != nil || sch.FollowUp == 0 {
			return
		}
		tz := mkvs.NewWithRoot(nil, raw, rootY)
		defer tz.Close()
		if followErr = applyAll(ctx, tz, content("v3 key ", 2, "z")); followErr != nil {
			return
		}
		var hz hash.Hash
		if _, hz, followErr = tz.Commit(ctx, ndblab.Ns, 3); followErr != nil {
			return
		}
		rootZ = ndblab.NodeRoot(3, ndblab.TState, hz)
		if followErr = raw.Finalize([]node.Root{rootZ}); followErr != nil {
			return
		}
		if sch.FollowUp == 2 {
			followErr = raw.Prune(1)
		}
	}

	parked := false
	switch {
	case len(sch.Blocker) > 10 && sch.Blocker[:10] == "finalizer@":
		park.arm(sch.Blocker[10:])
		go finalizer()
		parked = waitCh(park.reached, cvfWatchdog)
		close(gx.goOn) // the late commit arrives while the finalizer is inside Finalize
		time.Sleep(2 * time.Millisecond)
		close(park.release)
	case len(sch.Blocker) > 12 && sch.Blocker[:12] == "late-commit@":
		park.arm(sch.Blocker[12:])
		close(gx.goOn)
		parked = waitCh(park.reached, cvfWatchdog)
		go finalizer() // Finalize arrives while the late commit is inside Commit
		time.Sleep(time.Millisecond)
		close(park.release)
	default:
		park.arm("")
		close(gx.goOn)
		go finalizer()
		parked = true
	}
	var rx cres
	select {
	case rx = <-doneX:
	case <-time.After(cvfWatchdog):
		timeout("the late commit")
		return
	}
	if !waitCh(doneF, cvfWatchdog) {
		timeout("the finalizer")
		return
	}
	park.arm("")

	// ---- oracle ----
	sch.LateResult = ndblab.ErrClass(rx.err)
	r.Count("commit_vs_finalize.late_commit_"+map[bool]string{true: "succeeded", false: "rejected_" + sch.LateResult}[rx.err == nil], 1)
	if parked {
		r.Nontrivial(fmt.Sprintf("cvf/%s/%s/%v/%d", be, sch.Blocker, sch.LateFirst, sch.FollowUp))
		r.Distinct("commit_vs_finalize.schedules", fmt.Sprintf("%s/%s/%v/%d/%s", be, sch.Blocker, sch.LateFirst, sch.FollowUp, sch.LateResult))
	} else {
		r.Count("commit_vs_finalize.park_point_not_reached", 1)
	}
	if idx < 2 {
		r.Sample(map[string]any{"case": fmt.Sprintf("commit-vs-finalize-%d", idx), "schedule": sch})
	}
	if sch.LateResult != "" && sch.LateResult != "ErrAlreadyFinalized" {
		viol("late-commit-unexpected-error", fmt.Sprintf("the late commit failed with %v (it must succeed or report ErrAlreadyFinalized)", rx.err), nil)
		return
	}
	if finErr != nil {
		viol("finalize-failed", "Finalize of candidate Y failed: "+finErr.Error(), nil)
		return
	}
	if followErr != nil {
		viol("follow-up-failed", "continuing with the next version after Finalize failed: "+followErr.Error(), nil)
		return
	}
	wantLatest, wantEarliest := uint64(2), uint64(1)
	if sch.FollowUp > 0 {
		wantLatest = 3
	}
	if sch.FollowUp == 2 {
		wantEarliest = 2
	}
	if lv, ok := raw.GetLatestVersion(); !ok || lv != wantLatest {
		viol("latest-version-wrong", fmt.Sprintf("GetLatestVersion = (%d,%v), expected %d", lv, ok, wantLatest), nil)
	}
	if ev := raw.GetEarliestVersion(); ev != wantEarliest {
		viol("earliest-version-wrong", fmt.Sprintf("GetEarliestVersion = %d, expected %d", ev, wantEarliest), nil)
	}
	// The finalized version lists exactly the finalized root.
	roots, err := raw.GetRootsForVersion(2)
	if err != nil {
		viol("getrootsforversion-error", err.Error(), nil)
	} else if len(roots) != 1 || !roots[0].Equal(&rootY) {
		var rs []string
		for _, x := range roots {
			rs = append(rs, fmt.Sprintf("%s/%s", x.Type, x.Hash.String()[:8]))
		}
		viol("finalized-version-lists-other-roots", fmt.Sprintf("GetRootsForVersion(2) = %v after Finalize(2,[%s]): a finalized version must list exactly its finalized root", rs, ry.h.String()[:8]), nil)
	}
	// Every finalized root reads back exactly its model contents.
	type fr struct {
		name string
		root node.Root
		want map[string]string
	}
	frs := []fr{{"Y (version 2)", rootY, wantY}}
	if sch.FollowUp < 2 {
		frs = append(frs, fr{"base (version 1)", root0, base})
	}
	if sch.FollowUp > 0 {
		frs = append(frs, fr{"version 3", rootZ, wantZ})
	}
	for _, f := range frs {
		has := raw.HasRoot(f.root)
		rr := ndblab.ReadRoot(raw, f.root, f.want, 2)
		r.Count("commit_vs_finalize.roots_read", 1)
		switch {
		case rr.Mismatch != "":
			viol("finalized-root-serves-wrong-data", fmt.Sprintf("finalized root %s returns wrong data without an error: %s", f.name, rr.Mismatch), nil)
		case rr.Err != "":
			cls := rr.ErrClass
			if rr.Stage == "panic" {
				cls = "read-panics"
			} else if len(cls) < 3 || cls[:3] != "Err" {
				cls = "other-error"
			}
			viol("finalized-root-unreadable-"+cls, fmt.Sprintf("finalized root %s is unreadable: %s", f.name, rr.Err), nil)
		case !has:
			viol("hasroot-false-for-finalized-root", fmt.Sprintf("HasRoot(%s) = false", f.name), nil)
		}
	}
	// X is a discarded candidate (if its commit succeeded) or was never committed: absent or intact.
	if rx.err == nil {
		rootX := ndblab.NodeRoot(2, ndblab.TState, rx.h)
		if raw.HasRoot(rootX) {
			rr := ndblab.ReadRoot(raw, rootX, wantX, 1)
			if !rr.OK() && rr.ErrClass != "ErrRootNotFound" {
				viol("discarded-root-claimed-present-but-not-intact", fmt.Sprintf("the late candidate X was not finalized, yet HasRoot = true and its read-back gives err=%q mismatch=%q", rr.Err, rr.Mismatch), nil)
			}
		}
	}
}

func runCommitVsFinalizeFamily(r *evid.Run) {
	n := r.Pick(80, 1600)
	dbapi.VerifCrashHook = park.hook
	defer func() { dbapi.VerifCrashHook = nil }()
	for i := 0; i < n; i++ {
		runCommitVsFinalize(r, i)
	}
	park.mu.Lock()
	for k, v := range park.points {
		r.Count("commit_vs_finalize.h3_point."+k, v)
	}
	park.mu.Unlock()
}
