// C10 — no block content can halt block execution.
//
// Panic / reject monitor over generated block histories (DESIGN.md, C10),
// including a hostile profile. Every history also runs one validator-path
// replica so that honest proposals go through ProcessProposal.
package main

import (
	"fmt"
	"time"

	"verif/engine/chainsim"
	"verif/engine/evid"
)

func runCase(c chainsim.Case, rep chainsim.Reporter, scratch string) {
	cfg := chainsim.HistoryConfig{Seed: c.Seed, Profile: c.Profile, Blocks: c.Blocks, Paths: true,
		Replicas: []chainsim.ReplicaConfig{{Name: "v0", Backend: "pathbadger"}, {Name: "v1", Backend: "badger"}}}
	h, err := chainsim.NewHistory(cfg)
	if err != nil {
		rep.Inconclusive("setup failed: " + err.Error())
		return
	}
	h.Run()
	for _, p := range h.Panics {
		rep.Violation("c10/"+chainsim.PanicSignature(p), p.Error(), map[string]any{"params": h.Sc.P, "height": p.Height, "stack": p.Stack})
	}
	for _, d := range h.Divergences {
		if d.What == "honest-proposal-rejected" || d.What == "own-proposal-rejected" || d.What == "honest-proposal-rejected-after-round-change" {
			rep.Violation("c10/"+d.What, fmt.Sprintf("%+v", *d), map[string]any{"params": h.Sc.P, "height": d.Height})
		}
	}
	chainsim.ReportCommon(h, rep)
	// A history that ended with the election-precondition message: was the precondition really lost?
	if pc := chainsim.VerifyElectionPrecondition(h); pc.Applicable {
		if pc.Confirmed {
			rep.Count("precondition_lost_and_confirmed_by_recomputation", 1)
		} else {
			rep.Violation("c10/halt/validator-election-refused-although-enough-eligible-validators", "block execution halted with \""+h.PreconditionLost+"\" although the documented precondition holds: "+pc.Detail,
				map[string]any{"params": h.Sc.P, "height": h.Height + 1, "eligible_entities": pc.EligibleEntities, "min_validators": pc.MinValidators})
		}
	}
	if h.PreconditionLost == "" && h.Height >= int64(c.Blocks) {
		rep.Count("histories_completed", 1)
	}
	if h.Height >= int64(c.Blocks)/2 && h.EpochTransitions >= 3 {
		rep.Nontrivial(fmt.Sprintf("%s/%d", c.Profile, c.Seed))
	}
	for _, k := range chainsim.TxOutcomeKinds(h) {
		rep.Distinct("tx_method_intent_outcome", k)
	}
	if c.Index < 2 {
		rep.Sample(map[string]any{"params": h.Sc.P, "blocks": h.Height, "epochs": h.EpochTransitions, "tx_stats": h.Gen.Stats})
	}
	h.Close()
	h.CloseBuilder()
}

func main() {
	chainsim.Main(chainsim.CheckSpec{
		ID:    "C10",
		Level: "exploration",
		Rule: "each case is one generated block history on the real ABCI multiplexer (reference replica + proposer/validator replicas): valid and invalid transactions of all apps, extreme amounts, arbitrary vote patterns incl. all absent, " +
			"evidence against current/unknown/frozen validators, slashing, proposals closing, debonding and rewards on epoch boundaries; any panic, empty proposal or rejected honest proposal is a violation; " +
			"the documented stake precondition (no stake-eligible validators / zero total voting stake) ends a history without verdict; non-trivial = history reaching >= half its length with >= 3 epoch transitions",
		Cases: func(r *evid.Run) []chainsim.Case {
			cs := chainsim.StdCases(r.Seed, r.Pick(192, 4800), r.Pick(60, 100), []string{"hostile", "runtime", "hostile", "default", "registry", "election"})
			// Key manager traffic (also part of a third of the runtime profile histories).
			cs = chainsim.WithExtraCases(cs, r.Seed, r.Pick(16, 400), "keymanager")
			// VRF beacon backend (proof transactions incl. undecodable proofs, elections by VRF proofs, weak alphas).
			return chainsim.WithExtraCases(cs, r.Seed, r.Pick(8, 200), "vrf")
		},
		RunCase:          runCase,
		CrashIsViolation: true,
		Floor:            40,
		Timeout:          10 * time.Minute,
	})
}
