// C05 — token supply is conserved and share bookkeeping stays consistent.
//
// Conservation monitor over generated block histories (DESIGN.md, C05): the
// staking ledger is parsed independently from a raw dump of the committed
// state after every block, and (thorough tier, and a sample of the quick tier)
// from the in-flight proposal state at every transaction and application step.
package main

import (
	"fmt"
	"time"

	"verif/engine/chainsim"
	"verif/engine/evid"
)

func runCase(c chainsim.Case, rep chainsim.Reporter, scratch string) {
	sm := &chainsim.SupplyMonitor{Rep: rep}
	mons := []chainsim.Monitor{sm}
	if c.Mode == "taps" {
		rec := &chainsim.Recorder{Steps: true, TxSubs: []chainsim.TxMonitor{sm}, StepSubs: []chainsim.StepMonitor{sm}}
		mons = append(mons, rec)
	}
	h, err := chainsim.NewHistory(chainsim.HistoryConfig{Seed: c.Seed, Profile: c.Profile, Blocks: c.Blocks}, mons...)
	if err != nil {
		rep.Inconclusive("setup failed: " + err.Error())
		return
	}
	h.Run()
	chainsim.ReportCommon(h, rep)
	rep.Count("ledger_checks_at_block_boundaries", int64(sm.Checked))
	rep.Count("slash_events", int64(sm.Slashes))
	rep.Count("debonding_completions", int64(sm.DebondDone))
	closed := 0
	for _, p := range h.View.Proposals {
		if p.State != 1 { // not active any more
			closed++
		}
	}
	rep.Count("closed_proposals", int64(closed))
	if c.Mode == "taps" {
		rep.Count("histories_with_tap_level_checks", 1)
	}
	for _, p := range h.Panics {
		rep.Inconclusive("history ended by a panic (see C10): " + p.Error())
	}
	if sm.Slashes > 0 && sm.DebondDone > 0 && sm.FeesSeen && h.EpochTransitions >= 3 {
		rep.Nontrivial(fmt.Sprintf("%s/%d", c.Profile, c.Seed))
	}
	if c.Index < 2 {
		rep.Sample(map[string]any{"params": h.Sc.P, "blocks": h.Height, "epochs": h.EpochTransitions, "slashes": sm.Slashes, "debonding_completions": sm.DebondDone, "closed_proposals": closed})
	}
	h.Close()
	h.CloseBuilder()
}

func main() {
	chainsim.Main(chainsim.CheckSpec{
		ID:    "C05",
		Level: "exploration",
		Rule: "each case is one generated block history (fees, transfers, burns, escrow/reclaim, allowances, rewards, slashing by evidence, debonding completion, governance deposits) on the real multiplexer; after every block the ledger parsed from a raw state dump must satisfy " +
			"supply = balances+escrows+common pool+governance deposits+carried fees, share totals = sum of delegations (both index directions), supply non-increasing and decreasing exactly by burn events; in 'taps' mode the same sum (plus the in-block fee accumulator) is checked after every transaction and application step; " +
			"non-trivial = history with >=1 slash, >=1 debonding completion, non-zero fees and >=3 epoch transitions",
		Cases: func(r *evid.Run) []chainsim.Case {
			cs := chainsim.StdCases(r.Seed, r.Pick(192, 2400), r.Pick(60, 120), []string{"hostile", "default", "hostile", "registry"})
			// Key manager traffic (fees of key manager transactions, CHURP stake claims).
			cs = chainsim.WithExtraCases(cs, r.Seed, r.Pick(12, 150), "keymanager")
			// VRF beacon backend (fees of proof transactions, elections by VRF proofs).
			cs = chainsim.WithExtraCases(cs, r.Seed, r.Pick(6, 150), "vrf")
			for i := range cs {
				if !r.Quick() || i%4 == 0 {
					cs[i].Mode = "taps"
				}
			}
			return cs
		},
		RunCase: runCase,
		Floor:   10,
		Timeout: 10 * time.Minute,
	})
}
