package main

import (
	"context"
	"fmt"
	"math/rand/v2"
	"strings"
	"sync"
	"time"

	beacon "github.com/oasisprotocol/oasis-core/go/beacon/api"
	"github.com/oasisprotocol/oasis-core/go/common"
	"github.com/oasisprotocol/oasis-core/go/common/cbor"
	"github.com/oasisprotocol/oasis-core/go/common/crypto/hash"
	"github.com/oasisprotocol/oasis-core/go/common/crypto/signature"
	memorySigner "github.com/oasisprotocol/oasis-core/go/common/crypto/signature/signers/memory"
	"github.com/oasisprotocol/oasis-core/go/common/entity"
	"github.com/oasisprotocol/oasis-core/go/common/logging"
	"github.com/oasisprotocol/oasis-core/go/common/node"
	"github.com/oasisprotocol/oasis-core/go/common/quantity"
	"github.com/oasisprotocol/oasis-core/go/common/sgx"
	"github.com/oasisprotocol/oasis-core/go/common/version"
	registry "github.com/oasisprotocol/oasis-core/go/registry/api"
	roothash "github.com/oasisprotocol/oasis-core/go/roothash/api"
	"github.com/oasisprotocol/oasis-core/go/roothash/api/block"
	"github.com/oasisprotocol/oasis-core/go/roothash/api/commitment"
	"github.com/oasisprotocol/oasis-core/go/roothash/api/message"
	scheduler "github.com/oasisprotocol/oasis-core/go/scheduler/api"
	staking "github.com/oasisprotocol/oasis-core/go/staking/api"
)

func init() {
	registerTarget("commitment", func() Target { return &commitTarget{} })
	registerTarget("descriptor", func() Target { return &descTarget{} })
}

var chainCtxOnce sync.Once

// setTestChainContext sets the process-wide chain context of a stateless child.
func setTestChainContext() {
	chainCtxOnce.Do(func() {
		signature.UnsafeResetChainContext()
		signature.SetChainContext(strings.Repeat("c16", 21) + "c")
	})
}

// teeConstraints returns valid version 1 SGX constraints with one enclave identity.
func teeConstraints() []byte {
	var id sgx.EnclaveIdentity
	id.MrEnclave[0], id.MrSigner[0] = 1, 2
	return cbor.Marshal(node.SGXConstraints{Versioned: cbor.NewVersioned(1), Enclaves: []sgx.EnclaveIdentity{id}, MaxAttestationAge: 100})
}

type rngReader struct{ r *rand.Rand }

func (p rngReader) Read(b []byte) (int, error) {
	for i := range b {
		b[i] = byte(p.r.Uint32())
	}
	return len(b), nil
}

func newSigner(rng *rand.Rand, role signature.SignerRole) signature.Signer {
	s, err := memorySigner.NewFactory().Generate(role, rngReader{rng})
	if err != nil {
		panic(err)
	}
	return s
}

func testRuntime(seed string, ent signature.PublicKey, tee node.TEEHardware) *registry.Runtime {
	rt := &registry.Runtime{
		Versioned: cbor.NewVersioned(registry.LatestRuntimeDescriptorVersion),
		ID:        common.NewTestNamespaceFromSeed([]byte(seed), common.NamespaceTest),
		EntityID:  ent,
		Kind:      registry.KindCompute,
		Executor: registry.ExecutorParameters{
			GroupSize: 3, GroupBackupSize: 5, AllowedStragglers: 1, RoundTimeout: 10, MaxMessages: 32,
		},
		TxnScheduler: registry.TxnSchedulerParameters{
			BatchFlushTimeout: 20 * time.Second, MaxBatchSize: 1, MaxBatchSizeBytes: 1024, ProposerTimeout: 40 * time.Second,
		},
		AdmissionPolicy: registry.RuntimeAdmissionPolicy{AnyNode: &registry.AnyNodeRuntimeAdmissionPolicy{}},
		Constraints: map[scheduler.CommitteeKind]map[scheduler.Role]registry.SchedulingConstraints{
			scheduler.KindComputeExecutor: {
				scheduler.RoleWorker:       {MinPoolSize: &registry.MinPoolSizeConstraint{Limit: 3}},
				scheduler.RoleBackupWorker: {MinPoolSize: &registry.MinPoolSizeConstraint{Limit: 5}},
			},
		},
		GovernanceModel: registry.GovernanceEntity,
		Staking: registry.RuntimeStakingParameters{
			Slashing:                             map[staking.SlashReason]staking.Slash{staking.SlashRuntimeEquivocation: {Amount: *quantity.NewFromUint64(1000)}},
			RewardSlashEquvocationRuntimePercent: 100,
		},
		TEEHardware: tee,
		Deployments: []*registry.VersionInfo{{Version: version.Version{Major: 1}}},
	}
	rt.Genesis.StateRoot.Empty()
	return rt
}

// evidenceSeeds builds valid (properly signed) equivocation evidence of both kinds for a runtime
// ID: executor evidence whose two success commitments differ in exactly one of io_root,
// state_root, messages_hash; success vs failure; proposal evidence differing in batch hash and in
// previous hash. Also an ExecutorCommit transaction body.
func evidenceSeeds(signer signature.Signer, rtID common.Namespace) []*Seed {
	var out []*Seed
	prev := hash.NewFromBytes([]byte("c16 previous block"))
	r1, r2 := hash.NewFromBytes([]byte("c16 root 1")), hash.NewFromBytes([]byte("c16 root 2"))
	var empty hash.Hash
	empty.Empty()
	mk := func(io, st, msgs *hash.Hash, failure commitment.ExecutorCommitmentFailure) commitment.ExecutorCommitment {
		ec := commitment.ExecutorCommitment{NodeID: signer.Public(), Header: commitment.ExecutorCommitmentHeader{
			SchedulerID: signer.Public(),
			Header:      commitment.ComputeResultsHeader{Round: 7, PreviousHash: prev, IORoot: io, StateRoot: st, MessagesHash: msgs, InMessagesHash: &empty},
		}}
		if failure != commitment.FailureNone {
			ec.Header.SetFailure(failure)
		}
		if err := ec.Sign(signer, rtID); err != nil {
			panic(err)
		}
		return ec
	}
	full := mk(&r1, &r1, &empty, commitment.FailureNone)
	add := func(name string, a, b commitment.ExecutorCommitment) {
		ev := roothash.Evidence{ID: rtID, EquivocationExecutor: &roothash.EquivocationExecutorEvidence{CommitA: a, CommitB: b}}
		out = append(out, &Seed{Name: "evidence executor " + name, Data: cbor.Marshal(&ev), CBOR: true, Aux: "evidence"})
	}
	add("io_root differs", mk(&r2, &r1, &empty, commitment.FailureNone), full)
	add("state_root differs", mk(&r1, &r2, &empty, commitment.FailureNone), full)
	add("messages_hash differs", mk(&r1, &r1, &r2, commitment.FailureNone), full)
	add("failure vs success", mk(nil, nil, nil, commitment.FailureUnknown), full)
	mkProp := func(prevHash, batch hash.Hash) commitment.Proposal {
		p := commitment.Proposal{NodeID: signer.Public(), Header: commitment.ProposalHeader{Round: 7, PreviousHash: prevHash, BatchHash: batch}}
		if err := p.Sign(signer, rtID); err != nil {
			panic(err)
		}
		return p
	}
	for i, pp := range [][2]commitment.Proposal{{mkProp(prev, r1), mkProp(prev, r2)}, {mkProp(r1, r1), mkProp(prev, r1)}} {
		ev := roothash.Evidence{ID: rtID, EquivocationProposal: &roothash.EquivocationProposalEvidence{ProposalA: pp[0], ProposalB: pp[1]}}
		out = append(out, &Seed{Name: fmt.Sprintf("evidence proposal %d", i), Data: cbor.Marshal(&ev), CBOR: true, Aux: "evidence"})
	}
	xc := roothash.ExecutorCommit{ID: rtID, Commits: []commitment.ExecutorCommitment{full, mk(&r2, &r1, &empty, commitment.FailureNone)}}
	out = append(out, &Seed{Name: "executor commit body", Data: cbor.Marshal(&xc), CBOR: true, Aux: "execcommit"})
	return out
}

// --- target: commitment ------------------------------------------------------------

type commitTarget struct {
	mut       Mutator
	seeds     []*Seed
	signers   []signature.Signer
	rak       signature.Signer
	rtPlain   *registry.Runtime
	rtTEE     *registry.Runtime
	blk       *block.Block
	committee *scheduler.Committee
	nl        *staticNodes
}

type staticNodes struct {
	nodes map[signature.PublicKey]*node.Node
}

func (s *staticNodes) Node(_ context.Context, id signature.PublicKey) (*node.Node, error) {
	if n := s.nodes[id]; n != nil {
		return n, nil
	}
	return nil, registry.ErrNoSuchNode
}

func (t *commitTarget) Name() string { return "commitment" }
func (t *commitTarget) MaxLen() int  { return 128 << 10 }
func (t *commitTarget) Close()       {}

func (t *commitTarget) Init(rng *rand.Rand, _ string) error {
	setTestChainContext()
	t.mut = Mutator{MaxLen: t.MaxLen()}
	for i := 0; i < 6; i++ {
		t.signers = append(t.signers, newSigner(rng, signature.SignerNode))
	}
	t.rak = newSigner(rng, signature.SignerNode)
	ent := newSigner(rng, signature.SignerEntity).Public()
	t.rtPlain = testRuntime("c16 plain runtime", ent, node.TEEHardwareInvalid)
	t.rtTEE = testRuntime("c16 plain runtime", ent, node.TEEHardwareIntelSGX)
	t.rtTEE.Deployments[0].TEE = teeConstraints()
	t.blk = block.NewGenesisBlock(t.rtPlain.ID, 0)
	t.blk.Header.Round = 2
	t.committee = &scheduler.Committee{Kind: scheduler.KindComputeExecutor, RuntimeID: t.rtPlain.ID}
	t.nl = &staticNodes{nodes: map[signature.PublicKey]*node.Node{}}
	for i, s := range t.signers {
		role := scheduler.RoleWorker
		if i >= 4 {
			role = scheduler.RoleBackupWorker
		}
		t.committee.Members = append(t.committee.Members, &scheduler.CommitteeNode{Role: role, PublicKey: s.Public()})
		t.nl.nodes[s.Public()] = &node.Node{
			Versioned: cbor.NewVersioned(node.LatestNodeDescriptorVersion), ID: s.Public(),
			Runtimes: []*node.Runtime{{ID: t.rtPlain.ID, Version: version.Version{Major: 1}, Capabilities: node.Capabilities{TEE: &node.CapabilityTEE{Hardware: node.TEEHardwareIntelSGX, RAK: t.rak.Public()}}}},
		}
	}
	next := block.NewEmptyBlock(t.blk, 1, block.Normal)
	mk := func(nodeIdx, schedIdx int, msgs []message.Message, failure commitment.ExecutorCommitmentFailure, withRAK bool) *commitment.ExecutorCommitment {
		msgsHash := message.MessagesHash(msgs)
		inHash := message.InMessagesHash(nil)
		ec := &commitment.ExecutorCommitment{
			NodeID: t.signers[nodeIdx].Public(),
			Header: commitment.ExecutorCommitmentHeader{
				SchedulerID: t.signers[schedIdx].Public(),
				Header: commitment.ComputeResultsHeader{
					Round: next.Header.Round, PreviousHash: next.Header.PreviousHash,
					IORoot: &next.Header.IORoot, StateRoot: &next.Header.StateRoot, MessagesHash: &msgsHash, InMessagesHash: &inHash,
				},
			},
			Messages: msgs,
		}
		if failure != commitment.FailureNone {
			ec.Header.SetFailure(failure)
		}
		if withRAK {
			sig, err := signature.SignRaw(t.rak, commitment.ComputeResultsHeaderSignatureContext, cbor.Marshal(ec.Header.Header))
			if err == nil {
				ec.Header.RAKSignature = sig
			}
		}
		if err := ec.Sign(t.signers[nodeIdx], t.rtPlain.ID); err != nil {
			panic(err)
		}
		return ec
	}
	fl := &filler{rng: rng, keys: []signature.PublicKey{t.signers[0].Public(), ent}}
	var msgs []message.Message
	msgs = append(msgs, message.Message{Staking: &message.StakingMessage{Transfer: &staking.Transfer{To: staking.NewAddress(ent), Amount: *quantity.NewFromUint64(5)}}})
	msgs = append(msgs, message.Message{Staking: &message.StakingMessage{AddEscrow: &staking.Escrow{Account: staking.NewAddress(ent), Amount: *quantity.NewFromUint64(7)}}})
	msgs = append(msgs, message.Message{Registry: &message.RegistryMessage{UpdateRuntime: t.rtPlain}})
	add := func(name, kind string, v any) {
		t.seeds = append(t.seeds, &Seed{Name: name, Data: cbor.Marshal(v), CBOR: true, Aux: kind})
	}
	add("commit worker", "ec", mk(1, 0, nil, commitment.FailureNone, false))
	add("commit scheduler no msgs", "ec", mk(0, 0, nil, commitment.FailureNone, true))
	add("commit scheduler msgs", "ec", mk(0, 0, msgs, commitment.FailureNone, true))
	add("commit scheduler 1 msg", "ec", mk(2, 2, msgs[:1], commitment.FailureNone, false))
	add("commit failure", "ec", mk(1, 0, nil, commitment.FailureUnknown, false))
	add("commit failure state", "ec", mk(5, 0, nil, commitment.FailureStateUnavailable, false))
	for k := 0; k < 3; k++ {
		if b := fl.synth(message.Message{}); b != nil {
			var m message.Message
			if cbor.Unmarshal(b, &m) == nil {
				add(fmt.Sprintf("commit synth msg %d", k), "ec", mk(0, 0, []message.Message{m}, commitment.FailureNone, false))
			}
		}
	}
	for _, nb := range []int{0, 1, 20} {
		p := &commitment.Proposal{NodeID: t.signers[0].Public(), Header: commitment.ProposalHeader{Round: 3, PreviousHash: next.Header.PreviousHash}}
		for i := 0; i < nb; i++ {
			p.Batch = append(p.Batch, hash.NewFromBytes([]byte{byte(i)}))
		}
		p.Header.BatchHash = hash.NewFrom(p.Batch)
		if err := p.Sign(t.signers[0], t.rtPlain.ID); err != nil {
			return err
		}
		add(fmt.Sprintf("proposal batch %d", nb), "prop", p)
	}
	t.seeds = append(t.seeds, evidenceSeeds(t.signers[1], t.rtPlain.ID)...)
	return nil
}

func (t *commitTarget) Gen(rng *rand.Rand) *Input {
	s := t.seeds[rng.IntN(len(t.seeds))]
	data, op := t.mut.Mutate(rng, s, t.seeds)
	return &Input{Data: data, Aux: s.Aux, Op: op}
}

func (t *commitTarget) pipelineEC(ec *commitment.ExecutorCommitment) error {
	ctx := context.Background()
	_ = ec.ToVote()
	_ = ec.IsIndicatingFailure()
	_ = ec.MostlyEqual(ec)
	errBasic := ec.ValidateBasic()
	errSig := ec.Verify(t.rtPlain.ID)
	validator := func(msgs []message.Message) error {
		for i := range msgs {
			if err := msgs[i].ValidateBasic(); err != nil {
				return err
			}
		}
		return nil
	}
	errPlain := commitment.VerifyExecutorCommitment(ctx, t.blk, t.rtPlain, beacon.EpochTime(1), ec, validator, t.nl)
	errTEE := commitment.VerifyExecutorCommitment(ctx, t.blk, t.rtTEE, beacon.EpochTime(1), ec, nil, t.nl)
	if errPlain == nil || errTEE == nil {
		pool := commitment.NewPool()
		if err := pool.AddVerifiedExecutorCommitment(t.committee, ec); err != nil {
			return fmt.Errorf("pool: %w", err)
		}
		_, _ = pool.ProcessCommitments(t.committee, 1, false)
		_, _ = pool.ProcessCommitments(t.committee, 1, true)
		return nil
	}
	switch {
	case errSig != nil:
		return errSig
	case errBasic != nil:
		return fmt.Errorf("validate basic: %w", errBasic)
	}
	return errPlain
}

func (t *commitTarget) Exec(in *Input) string {
	switch in.Aux {
	case "evidence":
		var ev roothash.Evidence
		if err := cbor.Unmarshal(in.Data, &ev); err != nil {
			return "decode: " + err.Error()
		}
		err := ev.ValidateBasic()
		_, _ = ev.Hash()
		// Re-signed variant: both halves signed by one of our keys.
		var ev2 roothash.Evidence
		if cbor.Unmarshal(in.Data, &ev2) == nil {
			sg := t.signers[1]
			if x := ev2.EquivocationExecutor; x != nil {
				x.CommitA.NodeID, x.CommitB.NodeID = sg.Public(), sg.Public()
				_ = x.CommitA.Sign(sg, ev2.ID)
				_ = x.CommitB.Sign(sg, ev2.ID)
			}
			if x := ev2.EquivocationProposal; x != nil {
				x.ProposalA.NodeID, x.ProposalB.NodeID = sg.Public(), sg.Public()
				_ = x.ProposalA.Sign(sg, ev2.ID)
				_ = x.ProposalB.Sign(sg, ev2.ID)
			}
			if err2 := ev2.ValidateBasic(); err2 == nil {
				return ""
			}
		}
		_ = cbor.Marshal(&ev)
		if err != nil {
			return err.Error()
		}
		return ""
	case "execcommit":
		var xc roothash.ExecutorCommit
		if err := cbor.Unmarshal(in.Data, &xc); err != nil {
			return "decode: " + err.Error()
		}
		var first error
		for i := range xc.Commits {
			if err := t.pipelineEC(&xc.Commits[i]); err != nil && first == nil {
				first = err
			}
		}
		if first != nil {
			return first.Error()
		}
		return ""
	case "prop":
		var p commitment.Proposal
		if err := cbor.Unmarshal(in.Data, &p); err != nil {
			return "decode: " + err.Error()
		}
		err := p.Verify(t.rtPlain.ID)
		_ = p.Header.Equal(&p.Header)
		// Re-signed variant: everything behind the signature check.
		p2 := p
		p2.NodeID = t.signers[0].Public()
		if p2.Sign(t.signers[0], t.rtPlain.ID) == nil {
			if err2 := p2.Verify(t.rtPlain.ID); err2 != nil && p2.BatchSignature == nil {
				return "HARNESS-NOTE re-signed proposal does not verify: " + err2.Error()
			}
		}
		_ = cbor.Marshal(&p)
		if err != nil {
			return err.Error()
		}
		return ""
	default:
		var ec commitment.ExecutorCommitment
		if err := cbor.Unmarshal(in.Data, &ec); err != nil {
			return "decode: " + err.Error()
		}
		err := t.pipelineEC(&ec)
		// Re-signed variant reaches the checks behind the signature.
		ec2 := ec
		ec2.NodeID = t.signers[0].Public()
		var err2 error = fmt.Errorf("not re-signed")
		if ec2.Sign(t.signers[0], t.rtPlain.ID) == nil {
			err2 = t.pipelineEC(&ec2)
		}
		_ = cbor.Marshal(&ec)
		if err == nil {
			return ""
		}
		if err2 == nil {
			return "" // accepted once properly signed
		}
		if strings.Contains(err.Error(), "signature verification failed") {
			return "re-signed: " + err2.Error()
		}
		return err.Error()
	}
}

func (t *commitTarget) Canary() string {
	for _, s := range t.seeds {
		if s.Aux == "execcommit" {
			continue // well-formed transaction body, not based on this target's block
		}
		if r := t.Exec(&Input{Data: s.Data, Aux: s.Aux}); r != "" && !strings.HasPrefix(s.Name, "commit synth") {
			return fmt.Sprintf("seed %q rejected: %s", s.Name, r)
		}
	}
	return ""
}

// --- target: descriptor ---------------------------------------------------------------

type descTarget struct {
	mut     Mutator
	seeds   []*Seed
	params  *registry.ConsensusParameters
	logger  *logging.Logger
	ent     *entity.Entity
	entSig  signature.Signer
	nodeKey [5]signature.Signer // id, p2p, tls, consensus, vrf
	rts     *staticRuntimes
	nodes   *staticNodeLookup
	now     time.Time
}

type staticRuntimes struct {
	m map[common.Namespace]*registry.Runtime
}

func (s *staticRuntimes) Runtime(_ context.Context, id common.Namespace) (*registry.Runtime, error) {
	if r := s.m[id]; r != nil {
		return r, nil
	}
	return nil, registry.ErrNoSuchRuntime
}
func (s *staticRuntimes) SuspendedRuntime(context.Context, common.Namespace) (*registry.Runtime, error) {
	return nil, registry.ErrNoSuchRuntime
}
func (s *staticRuntimes) AnyRuntime(ctx context.Context, id common.Namespace) (*registry.Runtime, error) {
	return s.Runtime(ctx, id)
}
func (s *staticRuntimes) AllRuntimes(context.Context) ([]*registry.Runtime, error) {
	var out []*registry.Runtime
	for _, r := range s.m {
		out = append(out, r)
	}
	return out, nil
}
func (s *staticRuntimes) Runtimes(ctx context.Context) ([]*registry.Runtime, error) {
	return s.AllRuntimes(ctx)
}

type staticNodeLookup struct {
	bySub map[signature.PublicKey]*node.Node
}

func (s *staticNodeLookup) NodeBySubKey(_ context.Context, k signature.PublicKey) (*node.Node, error) {
	if n := s.bySub[k]; n != nil {
		return n, nil
	}
	return nil, registry.ErrNoSuchNode
}
func (s *staticNodeLookup) Nodes(context.Context) ([]*node.Node, error) { return nil, nil }
func (s *staticNodeLookup) GetEntityNodes(context.Context, signature.PublicKey) ([]*node.Node, error) {
	return nil, nil
}

func (t *descTarget) Name() string { return "descriptor" }
func (t *descTarget) MaxLen() int  { return 64 << 10 }
func (t *descTarget) Close()       {}

func (t *descTarget) Init(rng *rand.Rand, _ string) error {
	setTestChainContext()
	t.mut = Mutator{MaxLen: t.MaxLen()}
	t.logger = logging.GetLogger("c16/descriptor")
	t.now = time.Unix(1671497404, 0)
	t.entSig = newSigner(rng, signature.SignerEntity)
	roles := []signature.SignerRole{signature.SignerNode, signature.SignerP2P, signature.SignerNode, signature.SignerConsensus, signature.SignerVRF}
	for i := range t.nodeKey {
		t.nodeKey[i] = newSigner(rng, roles[i])
	}
	other := newSigner(rng, signature.SignerNode)
	t.ent = &entity.Entity{Versioned: cbor.NewVersioned(entity.LatestDescriptorVersion), ID: t.entSig.Public(), Nodes: []signature.PublicKey{t.nodeKey[0].Public()}}
	t.params = &registry.ConsensusParameters{
		DebugAllowUnroutableAddresses: true,
		DebugAllowTestRuntimes:        true,
		MaxNodeExpiration:             5,
		EnableRuntimeGovernanceModels: map[registry.RuntimeGovernanceModel]bool{registry.GovernanceEntity: true, registry.GovernanceRuntime: true, registry.GovernanceConsensus: true},
		TEEFeatures:                   &node.TEEFeatures{SGX: node.TEEFeaturesSGX{PCS: true, SignedAttestations: true, DefaultMaxAttestationAge: 1200, TDX: true}, FreshnessProofs: true},
		MaxRuntimeDeployments:         5,
	}
	rtPlain := testRuntime("c16 descriptor runtime", t.entSig.Public(), node.TEEHardwareInvalid)
	rtTEE := testRuntime("c16 descriptor tee runtime", t.entSig.Public(), node.TEEHardwareIntelSGX)
	rtTEE.Deployments[0].TEE = teeConstraints()
	t.rts = &staticRuntimes{m: map[common.Namespace]*registry.Runtime{rtPlain.ID: rtPlain, rtTEE.ID: rtTEE}}
	t.nodes = &staticNodeLookup{bySub: map[signature.PublicKey]*node.Node{other.Public(): {ID: other.Public()}}}
	for _, rt := range t.rts.m {
		// The runtimes that play the registered state must be valid (they are trusted input of the verifiers).
		if err := registry.VerifyRuntime(t.params, t.logger, rt, beacon.EpochTime(1), registry.VerifyRuntimeOptions{IsFeatureVersion261: true}); err != nil {
			return fmt.Errorf("state runtime %s is not valid: %w", rt.ID, err)
		}
	}

	var addr node.Address
	_ = addr.UnmarshalText([]byte("8.8.4.4:9000"))
	mkNode := func(rolesMask node.RolesMask, runtimes []*node.Runtime) *node.Node {
		return &node.Node{
			Versioned: cbor.NewVersioned(node.LatestNodeDescriptorVersion), ID: t.nodeKey[0].Public(), EntityID: t.entSig.Public(), Expiration: 3, Roles: rolesMask,
			TLS:       node.TLSInfo{PubKey: t.nodeKey[2].Public()},
			P2P:       node.P2PInfo{ID: t.nodeKey[1].Public(), Addresses: []node.Address{addr}},
			Consensus: node.ConsensusInfo{ID: t.nodeKey[3].Public(), Addresses: []node.ConsensusAddress{{ID: t.nodeKey[1].Public(), Address: addr}}},
			VRF:       node.VRFInfo{ID: t.nodeKey[4].Public()},
			Runtimes:  runtimes,
		}
	}
	signNode := func(n *node.Node) []byte {
		sn, err := node.MultiSignNode(t.nodeKey[:], registry.RegisterNodeSignatureContext, n)
		if err != nil {
			panic(err)
		}
		return cbor.Marshal(sn)
	}
	add := func(name, kind string, data []byte) {
		t.seeds = append(t.seeds, &Seed{Name: name, Data: data, CBOR: true, Aux: kind})
	}
	add("validator node", "node", signNode(mkNode(node.RoleValidator, nil)))
	add("compute node", "node", signNode(mkNode(node.RoleComputeWorker, []*node.Runtime{{ID: rtPlain.ID, Version: version.Version{Major: 1}}})))
	add("compute+validator node, extra info", "node", signNode(mkNode(node.RoleComputeWorker|node.RoleValidator, []*node.Runtime{{ID: rtPlain.ID, Version: version.Version{Major: 1}, ExtraInfo: []byte("extra")}})))
	teeCap := &node.CapabilityTEE{Hardware: node.TEEHardwareIntelSGX, RAK: t.nodeKey[0].Public(), Attestation: sgxAttestationSeed()}
	add("tee compute node", "node", signNode(mkNode(node.RoleComputeWorker, []*node.Runtime{{ID: rtTEE.ID, Version: version.Version{Major: 1}, Capabilities: node.Capabilities{TEE: teeCap}}})))
	add("observer node", "node", signNode(mkNode(node.RoleObserver, []*node.Runtime{{ID: rtPlain.ID, Version: version.Version{Major: 1}}})))

	se, err := entity.SignEntity(t.entSig, registry.RegisterEntitySignatureContext, t.ent)
	if err != nil {
		return err
	}
	add("entity", "entity", cbor.Marshal(se))
	e2 := *t.ent
	e2.Nodes = nil
	se2, _ := entity.SignEntity(t.entSig, registry.RegisterEntitySignatureContext, &e2)
	add("entity no nodes", "entity", cbor.Marshal(se2))

	add("runtime", "runtime", cbor.Marshal(rtPlain))
	add("tee runtime", "runtime", cbor.Marshal(rtTEE))
	km := testRuntime("c16 km runtime", t.entSig.Public(), node.TEEHardwareIntelSGX)
	km.Kind = registry.KindKeyManager
	km.ID = common.NewTestNamespaceFromSeed([]byte("c16 km runtime"), common.NamespaceTest|common.NamespaceKeyManager)
	km.Deployments[0].TEE = teeConstraints()
	add("km runtime", "runtime", cbor.Marshal(km))
	if err := registry.VerifyRuntime(t.params, t.logger, km, beacon.EpochTime(1), registry.VerifyRuntimeOptions{IsFeatureVersion261: true}); err != nil {
		return fmt.Errorf("km runtime is not valid: %w", err)
	}
	t.rts.m[km.ID] = km
	rt3 := testRuntime("c16 descriptor runtime 3", t.entSig.Public(), node.TEEHardwareInvalid)
	rt3.AdmissionPolicy = registry.RuntimeAdmissionPolicy{EntityWhitelist: &registry.EntityWhitelistRuntimeAdmissionPolicy{Entities: map[signature.PublicKey]registry.EntityWhitelistConfig{t.entSig.Public(): {MaxNodes: map[node.RolesMask]uint16{node.RoleComputeWorker: 2}}}}}
	rt3.Deployments = append(rt3.Deployments, &registry.VersionInfo{Version: version.Version{Major: 2}, ValidFrom: 10})
	rt3.KeyManager = &km.ID
	add("runtime whitelist + 2 deployments", "runtime", cbor.Marshal(rt3))
	t.rts.m[rt3.ID] = rt3 // registered already: the seed is an (identical) update
	rt4 := testRuntime("c16 descriptor runtime 4", t.entSig.Public(), node.TEEHardwareInvalid)
	rt4.Deployments[0].ValidFrom = 5 // a new runtime must not deploy immediately
	add("new runtime, future deployment", "runtime", cbor.Marshal(rt4))
	fl := &filler{rng: rng, keys: []signature.PublicKey{t.entSig.Public(), t.nodeKey[0].Public()}}
	for k := 0; k < 4; k++ {
		if b := fl.synth(registry.Runtime{}); b != nil {
			var rt registry.Runtime
			if cbor.Unmarshal(b, &rt) != nil {
				// Random namespace flags etc.: keep only synthesized seeds that decode.
				rt = *testRuntime(fmt.Sprintf("c16 synth %d", k), t.entSig.Public(), node.TEEHardwareInvalid)
				b = cbor.Marshal(&rt)
			}
			add(fmt.Sprintf("synth runtime %d", k), "runtime", b)
		}
		if b := fl.synth(node.Node{}); b != nil {
			var n node.Node
			if cbor.Unmarshal(b, &n) == nil {
				n.Versioned = cbor.NewVersioned(node.LatestNodeDescriptorVersion)
				n.ID, n.EntityID = t.nodeKey[0].Public(), t.entSig.Public()
				func() {
					defer func() { _ = recover() }()
					add(fmt.Sprintf("synth node %d", k), "node", signNode(&n))
				}()
			}
		}
	}
	return nil
}

func (t *descTarget) Gen(rng *rand.Rand) *Input {
	s := t.seeds[rng.IntN(len(t.seeds))]
	// Half of the time the signed blob itself is mutated and re-signed, so that the checks behind
	// the signature are reached.
	if (s.Aux == "node" || s.Aux == "entity") && rng.IntN(2) == 0 {
		var ms signature.MultiSigned
		var sg signature.Signed
		var blob []byte
		if s.Aux == "node" {
			if cbor.Unmarshal(s.Data, &ms) != nil {
				goto plain
			}
			blob = ms.Blob
		} else {
			if cbor.Unmarshal(s.Data, &sg) != nil {
				goto plain
			}
			blob = sg.Blob
		}
		mm := t.mut
		mm.MaxLen = t.MaxLen() - 1200
		var corpus []*Seed
		for _, o := range t.seeds {
			if o.Aux == "runtime" {
				corpus = append(corpus, o)
			}
		}
		mblob, op := mm.Mutate(rng, &Seed{Data: blob, CBOR: true}, corpus)
		if s.Aux == "node" {
			out := signature.MultiSigned{Blob: mblob}
			for _, sgn := range t.nodeKey {
				if sig, err := signature.Sign(sgn, registry.RegisterNodeSignatureContext, mblob); err == nil {
					out.Signatures = append(out.Signatures, *sig)
				}
			}
			return &Input{Data: cbor.Marshal(out), Aux: s.Aux, Op: "resigned:" + op}
		}
		sig, err := signature.Sign(t.entSig, registry.RegisterEntitySignatureContext, mblob)
		if err != nil {
			goto plain
		}
		return &Input{Data: cbor.Marshal(signature.Signed{Blob: mblob, Signature: *sig}), Aux: s.Aux, Op: "resigned:" + op}
	}
plain:
	data, op := t.mut.Mutate(rng, s, t.seeds)
	return &Input{Data: data, Aux: s.Aux, Op: op}
}

func (t *descTarget) Exec(in *Input) string {
	ctx := context.Background()
	switch in.Aux {
	case "entity":
		var se entity.SignedEntity
		if err := cbor.Unmarshal(in.Data, &se); err != nil {
			return "decode: " + err.Error()
		}
		var firstErr error
		for _, flags := range [][2]bool{{false, false}, {true, false}, {false, true}} {
			e, err := registry.VerifyRegisterEntityArgs(t.logger, &se, flags[0], flags[1])
			if err != nil && firstErr == nil && !flags[0] && !flags[1] {
				firstErr = err
			}
			if e != nil {
				_ = e.HasNode(t.nodeKey[0].Public())
				_ = cbor.Marshal(e)
			}
		}
		if firstErr != nil {
			return firstErr.Error()
		}
		return ""
	case "runtime":
		var rt registry.Runtime
		if err := cbor.Unmarshal(in.Data, &rt); err != nil {
			return "decode: " + err.Error()
		}
		// Same order as the registry application's registerRuntime: the later verifiers only see
		// descriptors that passed VerifyRuntime.
		var first error
		for i, o := range []registry.VerifyRuntimeOptions{{IsFeatureVersion261: true}, {IsGenesis: true}, {IsSanityCheck: true, IsFeatureVersion261: true}, {}} {
			err := registry.VerifyRuntime(t.params, t.logger, &rt, beacon.EpochTime(1), o)
			if err == nil && rt.Kind == registry.KindCompute {
				err = registry.VerifyRegisterComputeRuntimeArgs(ctx, t.logger, &rt, t.rts)
			}
			if err == nil {
				if cur := t.rts.m[rt.ID]; cur != nil {
					err = registry.VerifyRuntimeUpdate(t.logger, cur, &rt, 1, t.params, o.IsFeatureVersion261)
				} else {
					err = registry.VerifyRuntimeNew(t.logger, &rt, 1, t.params, o.IsGenesis)
				}
				_ = rt.ActiveDeployment(1)
				_ = rt.String()
			}
			if i == 0 {
				first = err
			}
		}
		_ = cbor.Marshal(&rt)
		if first != nil {
			return first.Error()
		}
		return ""
	default:
		var sn node.MultiSignedNode
		if err := cbor.Unmarshal(in.Data, &sn); err != nil {
			return "decode: " + err.Error()
		}
		var first error
		for i, f := range [][3]bool{{false, false, true}, {false, false, false}, {true, false, true}, {false, true, true}} {
			n, rts, err := registry.VerifyRegisterNodeArgs(ctx, t.params, t.logger, &sn, t.ent, t.now, 100, f[0], f[1], beacon.EpochTime(1), t.rts, t.nodes, f[2])
			if i == 0 {
				first = err
			}
			if err == nil && n != nil {
				_ = n.String()
				_ = cbor.Marshal(n)
				_ = registry.VerifyNodeUpdate(ctx, t.logger, n, n, t.rts, beacon.EpochTime(1))
				for _, rt := range rts {
					_ = n.GetRuntime(rt.ID, version.Version{Major: 1})
				}
			}
		}
		if first != nil {
			return first.Error()
		}
		return ""
	}
}

func (t *descTarget) Canary() string {
	for _, s := range t.seeds {
		if strings.HasPrefix(s.Name, "synth") || s.Name == "tee compute node" {
			continue // well-formed but not meant to pass validation
		}
		if r := t.Exec(&Input{Data: s.Data, Aux: s.Aux}); r != "" {
			return fmt.Sprintf("seed %q rejected: %s", s.Name, r)
		}
	}
	return ""
}

// --- deterministic series ------------------------------------------------------------

func (t *commitTarget) FixedPlans(rng *rand.Rand) []fixedPlan {
	return plainPlans(rng, t.seeds, func(_ int, s *Seed) string { return s.Aux })
}

func (t *descTarget) FixedPlans(rng *rand.Rand) []fixedPlan {
	out := plainPlans(rng, t.seeds, func(_ int, s *Seed) string { return s.Aux })
	// The signed blobs themselves, re-signed after the change, so that the checks behind the
	// signature see every prefix too.
	for _, s := range t.seeds {
		switch s.Aux {
		case "node":
			var ms signature.MultiSigned
			if cbor.Unmarshal(s.Data, &ms) != nil || len(ms.Blob) > 4096 {
				continue
			}
			out = append(out, newFixedPlan(rng, &Seed{Name: s.Name + " blob", Data: ms.Blob, CBOR: true}, "node", ":resigned", func(b []byte) []byte {
				o := signature.MultiSigned{Blob: b}
				for _, sgn := range t.nodeKey {
					if sig, err := signature.Sign(sgn, registry.RegisterNodeSignatureContext, b); err == nil {
						o.Signatures = append(o.Signatures, *sig)
					}
				}
				return cbor.Marshal(o)
			}))
		case "entity":
			var sg signature.Signed
			if cbor.Unmarshal(s.Data, &sg) != nil || len(sg.Blob) > 4096 {
				continue
			}
			out = append(out, newFixedPlan(rng, &Seed{Name: s.Name + " blob", Data: sg.Blob, CBOR: true}, "entity", ":resigned", func(b []byte) []byte {
				sig, err := signature.Sign(t.entSig, registry.RegisterEntitySignatureContext, b)
				if err != nil {
					return b
				}
				return cbor.Marshal(signature.Signed{Blob: b, Signature: *sig})
			}))
		}
	}
	return out
}
