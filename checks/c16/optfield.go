package main

import (
	"bytes"
	"sort"
)

// Structured "optional field" variants of a valid CBOR encoding: every field (map pair at any
// nesting level) absent, and present but null; and for paired structures (two sibling map values
// with the same field names, e.g. the two commitments of an equivocation evidence) every
// combination of absent / null in the two halves. The result is always well-formed CBOR with
// correct map sizes.

type optEdit struct {
	delPairs [][2]int // (map item index, pair ordinal)
	nulls    []int    // value item indices replaced by null
	label    string
}

type optVariant struct {
	Label string
	Data  []byte
}

func applyOptEdit(b []byte, items []cborItem, e optEdit) []byte {
	type mod struct {
		off, end int
		repl     []byte
	}
	var mods []mod
	perMap := map[int]int{}
	for _, dp := range e.delPairs {
		m := items[dp[0]]
		k, v := items[m.children[2*dp[1]]], items[m.children[2*dp[1]+1]]
		mods = append(mods, mod{k.off, v.end, nil})
		perMap[dp[0]]++
	}
	for mi, d := range perMap {
		m := items[mi]
		mods = append(mods, mod{m.off, m.off + m.headLen, cborHead(5, m.arg-uint64(d), 0)})
	}
	for _, vi := range e.nulls {
		v := items[vi]
		mods = append(mods, mod{v.off, v.end, []byte{0xf6}})
	}
	sort.Slice(mods, func(i, j int) bool { return mods[i].off > mods[j].off })
	out := append([]byte{}, b...)
	for _, m := range mods {
		out = splice(out, m.off, m.end, m.repl)
	}
	return out
}

func keyOf(b []byte, items []cborItem, m cborItem, p int) []byte {
	k := items[m.children[2*p]]
	return b[k.off:k.end]
}

func keyName(kb []byte) string {
	if len(kb) > 1 && kb[0]>>5 == 3 && int(kb[0]&0x1f) == len(kb)-1 {
		return string(kb[1:])
	}
	return "?"
}

// sameFields reports whether two map items have the same key sequence.
func sameFields(b []byte, items []cborItem, a, c cborItem) bool {
	if a.major != 5 || c.major != 5 || a.indef || c.indef || len(a.children) != len(c.children) || len(a.children) == 0 {
		return false
	}
	for p := 0; p < len(a.children)/2; p++ {
		if !bytes.Equal(keyOf(b, items, a, p), keyOf(b, items, c, p)) {
			return false
		}
	}
	return true
}

// optionalFieldEdits enumerates the edits for one encoding (at most limit).
func optionalFieldEdits(b []byte, items []cborItem, limit int) []optEdit {
	var out []optEdit
	add := func(e optEdit) {
		if len(out) < limit {
			out = append(out, e)
		}
	}
	// Singles.
	for mi, m := range items {
		if m.major != 5 || m.indef {
			continue
		}
		for p := 0; p < len(m.children)/2; p++ {
			name := keyName(keyOf(b, items, m, p))
			add(optEdit{delPairs: [][2]int{{mi, p}}, label: name + ":absent"})
			add(optEdit{nulls: []int{m.children[2*p+1]}, label: name + ":null"})
		}
	}
	// Paired halves: same-shaped sibling maps; walk their common field paths.
	var walk func(ai, ci int, path string)
	walk = func(ai, ci int, path string) {
		a, c := items[ai], items[ci]
		for p := 0; p < len(a.children)/2; p++ {
			name := path + keyName(keyOf(b, items, a, p))
			av, cv := a.children[2*p+1], c.children[2*p+1]
			add(optEdit{delPairs: [][2]int{{ai, p}, {ci, p}}, label: name + ":absent/absent"})
			add(optEdit{delPairs: [][2]int{{ai, p}}, nulls: []int{cv}, label: name + ":absent/null"})
			add(optEdit{delPairs: [][2]int{{ci, p}}, nulls: []int{av}, label: name + ":null/absent"})
			add(optEdit{nulls: []int{av, cv}, label: name + ":null/null"})
			if sameFields(b, items, items[av], items[cv]) {
				walk(av, cv, name+".")
			}
		}
	}
	for _, m := range items {
		if m.major != 5 || m.indef {
			continue
		}
		n := len(m.children) / 2
		for p := 0; p < n; p++ {
			for q := p + 1; q < n; q++ {
				av, cv := m.children[2*p+1], m.children[2*q+1]
				if sameFields(b, items, items[av], items[cv]) {
					walk(av, cv, keyName(keyOf(b, items, m, p))+"|"+keyName(keyOf(b, items, m, q))+".")
				}
			}
		}
	}
	return out
}

// optionalFieldVariants returns the re-encoded variants of a valid CBOR encoding.
func optionalFieldVariants(b []byte, limit int) []optVariant {
	items, ok := cborParseExact(b)
	if !ok {
		return nil
	}
	var out []optVariant
	for _, e := range optionalFieldEdits(b, items, limit) {
		out = append(out, optVariant{Label: e.label, Data: applyOptEdit(b, items, e)})
	}
	return out
}
