package main

import (
	"encoding/hex"
	"encoding/json"
	"fmt"
	"math/rand/v2"
	"os"
	"runtime"
	"runtime/debug"
	"runtime/pprof"
	"strings"
	"sync/atomic"
	"time"

	beacon "github.com/oasisprotocol/oasis-core/go/beacon/api"
	"github.com/oasisprotocol/oasis-core/go/common"
	"github.com/oasisprotocol/oasis-core/go/common/cbor"
	"github.com/oasisprotocol/oasis-core/go/common/crypto/signature"
	"github.com/oasisprotocol/oasis-core/go/common/entity"
	"github.com/oasisprotocol/oasis-core/go/common/node"
	"github.com/oasisprotocol/oasis-core/go/common/quantity"
	consensus "github.com/oasisprotocol/oasis-core/go/consensus/api"
	"github.com/oasisprotocol/oasis-core/go/consensus/api/transaction"
	cmt "github.com/oasisprotocol/oasis-core/go/consensus/cometbft/api"
	governance "github.com/oasisprotocol/oasis-core/go/governance/api"
	"github.com/oasisprotocol/oasis-core/go/keymanager/churp"
	"github.com/oasisprotocol/oasis-core/go/keymanager/secrets"
	registry "github.com/oasisprotocol/oasis-core/go/registry/api"
	roothash "github.com/oasisprotocol/oasis-core/go/roothash/api"
	staking "github.com/oasisprotocol/oasis-core/go/staking/api"
	vault "github.com/oasisprotocol/oasis-core/go/vault/api"

	"verif/engine/chainsim"
	"verif/engine/evid"
)

// txCase is one chain history with fuzz inputs injected into its blocks.
type txCase struct {
	Index    int    `json:"index"`
	Seed     uint64 `json:"seed"`
	Profile  string `json:"profile"`
	Blocks   int    `json:"blocks"`
	PerBlock int    `json:"per_block"`
	RunSeed  int64  `json:"run_seed"`
	// Override replaces the generated input at an index by recorded bytes (replay only).
	Override map[int]string `json:"override,omitempty"`
}

const txMaxLen = 40 << 10 // MaxTxSize of the chainsim genesis is 32 KiB; some inputs exceed it on purpose

var allMethods = []transaction.MethodName{
	staking.MethodTransfer, staking.MethodBurn, staking.MethodAddEscrow, staking.MethodReclaimEscrow, staking.MethodAmendCommissionSchedule,
	staking.MethodAllow, staking.MethodWithdraw,
	registry.MethodRegisterEntity, registry.MethodDeregisterEntity, registry.MethodRegisterNode, registry.MethodUnfreezeNode,
	registry.MethodRegisterRuntime, registry.MethodProveFreshness,
	roothash.MethodExecutorCommit, roothash.MethodEvidence, roothash.MethodSubmitMsg,
	governance.MethodSubmitProposal, governance.MethodCastVote,
	vault.MethodCreate, vault.MethodAuthorizeAction, vault.MethodCancelAction,
	beacon.MethodSetEpoch, beacon.MethodVRFProve,
	secrets.MethodUpdatePolicy, secrets.MethodPublishMasterSecret, secrets.MethodPublishEphemeralSecret,
	churp.MethodCreate, churp.MethodUpdate, churp.MethodApply, churp.MethodConfirm,
	consensus.MethodMeta,
}

func txCases(r *evid.Run) []txCase {
	n := r.Pick(32, 800)
	fuzzBlocks := r.Pick(25, 50)
	per := r.Pick(25, 50)
	profiles := []string{"default", "registry", "hostile", "default"}
	var out []txCase
	for cand := uint64(0); len(out) < n; cand++ {
		seed := uint64(r.Seed)*1_000_003 + cand*7919 + 16
		prof := profiles[len(out)%len(profiles)]
		// Scenarios with a small block gas limit reject most of a large block before the
		// handlers are reached; keep only one in four of them.
		if sc := chainsim.NewScenario(seed, prof); sc.P.MaxBlockGas != 0 && cand%4 != 0 {
			continue
		}
		out = append(out, txCase{Index: len(out), Seed: seed, Profile: prof, Blocks: fuzzBlocks + 5, PerBlock: per, RunSeed: r.Seed})
	}
	// Histories with a key manager (appended, so the cases above stay what they were): the pool of valid
	// transactions to mutate then holds published secrets, policies, CHURP requests and confirmations.
	for j, k := 0, r.Pick(4, 100); j < k; j++ {
		seed := uint64(r.Seed)*1_000_003 + uint64(1_000_000+j)*7919 + 16
		out = append(out, txCase{Index: len(out), Seed: seed, Profile: "keymanager", Blocks: fuzzBlocks + 12, PerBlock: per, RunSeed: r.Seed})
	}
	// Histories on the VRF beacon backend (appended, so the cases above stay what they were): the pool then
	// holds beacon.VRFProve transactions of the current epoch, whose mutants (proof bytes, epoch) are
	// delivered after the node's valid proof of the same block has been stored.
	for j, k := 0, r.Pick(4, 100); j < k; j++ {
		seed := uint64(r.Seed)*1_000_003 + uint64(2_000_000+j)*7919 + 16
		out = append(out, txCase{Index: len(out), Seed: seed, Profile: "vrf", Blocks: fuzzBlocks + 12, PerBlock: per, RunSeed: r.Seed})
	}
	return out
}

// fuzzIn is one fuzz transaction of the current block.
type fuzzIn struct {
	idx    int
	in     *Input
	height int64
	check  string // outcome of CheckTx
}

type txFuzzer struct {
	c       txCase
	h       *chainsim.History
	st      *batchStats
	prog    *progressFile
	scratch string
	mut     Mutator
	fill    *filler
	chain   string

	pool    map[string][]*chainsim.GenTx // valid transactions by method
	synth   []*chainsim.GenTx            // synthesized seeds (unsigned)
	fuzzOn  bool
	nextIdx int
	// fuzzBlocks counts the fuzzed blocks so far (the fee grid runs in every fourth).
	fuzzBlocks int
	// optGrid are the optional-field variants this case delivers; optNext is the next one.
	optGrid []optTx
	optNext int
	optUsed int

	cur     []*fuzzIn
	curMap  map[string]*fuzzIn
	curBase int

	// tap state
	tapIn    *fuzzIn
	tapStart time.Time
	tapM0    runtime.MemStats

	running atomic.Int64 // unix nanos of the running input
	runIdx  atomic.Int64

	violated bool
}

func (f *txFuzzer) OnTap(h *chainsim.History, stage, app string, ctx *cmt.Context, extra any) {
	switch stage {
	case "delivertx.pre":
		raw, _ := extra.([]byte)
		fi := f.curMap[string(raw)]
		if fi == nil {
			f.tapIn = nil
			return
		}
		f.tapIn = fi
		f.prog.write(fi.idx, &Input{Data: fi.in.Data, Aux: fi.in.Aux + ";mode=delivertx", Op: fi.in.Op})
		f.runIdx.Store(int64(fi.idx))
		f.running.Store(time.Now().UnixNano())
		runtime.ReadMemStats(&f.tapM0)
		f.tapStart = time.Now()
	case "delivertx.post":
		fi := f.tapIn
		if fi == nil {
			return
		}
		dur := time.Since(f.tapStart)
		var m1 runtime.MemStats
		runtime.ReadMemStats(&m1)
		f.running.Store(0)
		f.tapIn = nil
		f.measure(fi, "delivertx", m1.TotalAlloc-f.tapM0.TotalAlloc, dur)
	}
}

func (f *txFuzzer) OnBlock(*chainsim.History, *chainsim.Block, []*chainsim.GenTx, *chainsim.BlockResult) {
}
func (f *txFuzzer) OnEnd(*chainsim.History) {}

func (f *txFuzzer) witness(fi *fuzzIn, mode string) map[string]any {
	return map[string]any{"target": "tx", "case": f.c, "height": fi.height, "index": fi.idx, "mode": mode, "aux": fi.in.Aux, "op": fi.in.Op,
		"len": len(fi.in.Data), "input_hex": hex.EncodeToString(fi.in.Data)}
}

func (f *txFuzzer) measure(fi *fuzzIn, mode string, alloc uint64, dur time.Duration) {
	if alloc > f.st.MaxAlloc {
		f.st.MaxAlloc = alloc
	}
	if int64(dur) > f.st.MaxNs {
		f.st.MaxNs = int64(dur)
	}
	f.st.SumNs += int64(dur)
	if alloc > allocLimit(len(fi.in.Data)) {
		w := f.witness(fi, mode)
		w["alloc_bytes"] = alloc
		f.violated = true
		emit(childRec{Kind: "viol", Sig: "c16/tx/alloc-blowup", What: fmt.Sprintf("tx: %s of input #%d (%s, %d bytes) allocated %d bytes", mode, fi.idx, fi.in.Aux, len(fi.in.Data), alloc), Witness: w})
	}
}

func (f *txFuzzer) signer(pk signature.PublicKey) *chainsim.Account {
	for _, a := range f.h.Sc.Signers {
		if a.PK == pk {
			return a
		}
	}
	for _, n := range f.h.Sc.AllNodes() {
		for _, a := range []*chainsim.Account{n.Keys.ID, n.Keys.Consensus, n.Keys.P2P, n.Keys.TLS, n.Keys.VRF} {
			if a.PK == pk {
				return a
			}
		}
	}
	return nil
}

func (f *txFuzzer) simNode(id signature.PublicKey) *chainsim.SimNode {
	for _, n := range f.h.Sc.AllNodes() {
		if n.Keys.ID.PK == id {
			return n
		}
	}
	return nil
}

// encodeTx encodes a transaction by hand so that arbitrary body bytes can be embedded.
func encodeTx(nonce uint64, fee *transaction.Fee, method string, body []byte) []byte {
	n := uint64(2)
	if fee != nil {
		n++
	}
	if len(body) > 0 {
		n++
	}
	b := cborHead(5, n, 0)
	if fee != nil {
		b = append(b, cborTstr("fee")...)
		b = append(b, cbor.Marshal(fee)...)
	}
	if len(body) > 0 {
		b = append(b, cborTstr("body")...)
		b = append(b, body...)
	}
	b = append(b, cborTstr("nonce")...)
	b = append(b, cborHead(0, nonce, 0)...)
	b = append(b, cborTstr("method")...)
	b = append(b, cborTstr(method)...)
	return b
}

func (f *txFuzzer) envelope(a *chainsim.Account, blob []byte) []byte {
	st := transaction.SignedTransaction{Signed: signature.Signed{
		Blob:      blob,
		Signature: signature.Signature{PublicKey: a.PK, Signature: chainsim.RawSign(a, f.chain, blob)},
	}}
	return cbor.Marshal(st)
}

// nonces predicts the nonce each signer has after the transactions generated so far in this block.
type nonces struct {
	f *txFuzzer
	m map[staking.Address]uint64
}

func (n *nonces) get(a *chainsim.Account, base []*chainsim.GenTx) uint64 {
	if v, ok := n.m[a.Addr]; ok {
		return v
	}
	v := n.f.h.View.Account(a.Addr).General.Nonce
	for _, b := range base {
		if b.Signer == a && b.Tx != nil && b.Tx.Nonce == v && b.Intent != "bad-signature" && b.Intent != "wrong-context" && b.Intent != "fee-unaffordable" {
			v++
		}
	}
	n.m[a.Addr] = v
	return v
}

func (f *txFuzzer) synthSeeds() {
	var keys []signature.PublicKey
	for _, a := range f.h.Sc.Signers {
		keys = append(keys, a.PK)
	}
	for _, n := range f.h.Sc.AllNodes() {
		keys = append(keys, n.Keys.ID.PK)
	}
	f.fill = &filler{rng: evid.NewRand(uint64(f.c.RunSeed), 0x5eed, f.c.Seed), keys: keys}
	for _, m := range allMethods {
		for k := 0; k < 3; k++ {
			body := f.fill.synth(m.BodyType())
			if body == nil {
				continue
			}
			f.synth = append(f.synth, &chainsim.GenTx{Method: string(m), Tx: &transaction.Transaction{Method: m, Body: body}})
		}
	}
}

// gen builds fuzz input number idx for the block at height.
func (f *txFuzzer) gen(rng *rand.Rand, base []*chainsim.GenTx, nn *nonces) *Input {
	sc := f.h.Sc
	minPrice := sc.P.MinGasPrice
	mkFee := func(gas uint64) *transaction.Fee {
		fee := &transaction.Fee{Gas: transaction.Gas(gas)}
		_ = fee.Amount.FromUint64(gas * minPrice)
		return fee
	}
	// Pick a victim: a valid transaction of a generated method, or a synthesized one.
	var victim *chainsim.GenTx
	synth := false
	var methods []string
	for m := range f.pool {
		methods = append(methods, m)
	}
	if len(methods) == 0 || rng.IntN(3) == 0 {
		victim = f.synth[rng.IntN(len(f.synth))]
		synth = true
	} else {
		// deterministic order
		sortStrings(methods)
		l := f.pool[methods[rng.IntN(len(methods))]]
		victim = l[rng.IntN(len(l))]
	}
	method := victim.Method
	signer := victim.Signer
	if signer == nil {
		signer = sc.Signers[rng.IntN(len(sc.Signers))]
		if strings.HasPrefix(method, "registry.RegisterNode") || strings.HasPrefix(method, "registry.ProveFreshness") || strings.HasPrefix(method, "roothash.Executor") ||
			strings.HasPrefix(method, "beacon.") || strings.HasPrefix(method, "keymanager") {
			nodes := sc.AllNodes()
			signer = nodes[rng.IntN(len(nodes))].Keys.ID
		}
	}
	fee := victim.Tx.Fee
	if fee == nil || synth {
		fee = mkFee(2500 + uint64(rng.IntN(2000)))
	}
	var corpus []*Seed
	for i := 0; i < 2; i++ {
		o := f.synth[rng.IntN(len(f.synth))]
		corpus = append(corpus, &Seed{Data: o.Tx.Body, CBOR: true})
	}

	layer := "body"
	switch x := rng.IntN(20); {
	case x < 4 && !synth:
		layer = "env"
	case x < 8:
		layer = "tx"
	case x < 11 && (method == string(registry.MethodRegisterNode) || method == string(registry.MethodRegisterEntity)) && !synth:
		layer = "inner"
	case x == 19:
		layer = "asis"
	}
	aux := func(l string) string { return fmt.Sprintf("layer=%s;method=%s", l, method) }
	nonce := nn.get(signer, base)

	switch layer {
	case "env":
		mm := f.mut
		data, op := mm.Mutate(rng, &Seed{Data: victim.Raw, CBOR: true}, corpus)
		return &Input{Data: data, Aux: aux(layer), Op: op}
	case "tx":
		blob := encodeTx(nonce, fee, method, victim.Tx.Body)
		mm := f.mut
		mm.MaxLen = txMaxLen - 200
		mblob, op := mm.Mutate(rng, &Seed{Data: blob, CBOR: true}, corpus)
		var tx transaction.Transaction
		if cbor.Unmarshal(mblob, &tx) == nil && tx.SanityCheck() == nil && tx.Nonce == nonce {
			nn.m[signer.Addr] = nonce + 1
		}
		return &Input{Data: f.envelope(signer, mblob), Aux: aux(layer), Op: op}
	case "inner":
		var blob []byte
		var signers []signature.Signer
		var sctx signature.Context
		if method == string(registry.MethodRegisterNode) {
			var msn node.MultiSignedNode
			if cbor.Unmarshal(victim.Tx.Body, &msn) != nil {
				break
			}
			blob = msn.Blob
			var nd node.Node
			_ = cbor.Unmarshal(blob, &nd)
			sn := f.simNode(nd.ID)
			if sn == nil {
				break
			}
			signers = chainsim.NodeSigners(sn)
			sctx = registry.RegisterNodeSignatureContext
		} else {
			var se entity.SignedEntity
			if cbor.Unmarshal(victim.Tx.Body, &se) != nil {
				break
			}
			blob = se.Blob
			signers = []signature.Signer{signer.Signer}
			sctx = registry.RegisterEntitySignatureContext
		}
		mm := f.mut
		mm.MaxLen = txMaxLen - 1500
		mblob, op := mm.Mutate(rng, &Seed{Data: blob, CBOR: true}, corpus)
		var body []byte
		if method == string(registry.MethodRegisterNode) {
			ms := signature.MultiSigned{Blob: mblob}
			for _, s := range signers {
				sig, err := signature.Sign(s, sctx, mblob)
				if err != nil {
					continue
				}
				ms.Signatures = append(ms.Signatures, *sig)
			}
			body = cbor.Marshal(ms)
		} else {
			sig, err := signature.Sign(signers[0], sctx, mblob)
			if err != nil {
				break
			}
			body = cbor.Marshal(signature.Signed{Blob: mblob, Signature: *sig})
		}
		nn.m[signer.Addr] = nonce + 1
		return &Input{Data: f.envelope(signer, encodeTx(nonce, fee, method, body)), Aux: aux(layer), Op: op}
	case "asis":
		nn.m[signer.Addr] = nonce + 1
		return &Input{Data: f.envelope(signer, encodeTx(nonce, fee, method, victim.Tx.Body)), Aux: aux(layer), Op: "none"}
	}
	mm := f.mut
	mm.MaxLen = txMaxLen - 400
	body, op := mm.Mutate(rng, &Seed{Data: victim.Tx.Body, CBOR: true}, corpus)
	// A body that is not one well-formed item makes the whole transaction undecodable; prefer
	// (3 of 4) bodies that reach the method handler.
	for try := 0; try < 4 && rng.IntN(4) != 0; try++ {
		if _, ok := cborParseExact(body); ok {
			break
		}
		body, op = mm.Mutate(rng, &Seed{Data: victim.Tx.Body, CBOR: true}, corpus)
	}
	nn.m[signer.Addr] = nonce + 1
	return &Input{Data: f.envelope(signer, encodeTx(nonce, fee, method, body)), Aux: aux("body"), Op: op}
}

// optTx is one optional-field variant of a transaction body.
type optTx struct {
	method string
	label  string
	body   []byte
}

// buildOptGrid derives the variants from valid evidence / executor-commit bodies signed by a node
// key of the scenario. Every case delivers a third of them (all of them are covered by every
// three consecutive cases).
func (f *txFuzzer) buildOptGrid() {
	nodes := f.h.Sc.AllNodes()
	signer := nodes[int(f.c.Seed%uint64(len(nodes)))].Keys.ID.Signer
	rtID := common.NewTestNamespaceFromSeed([]byte("c16 tx runtime"), common.NamespaceTest)
	k := 0
	for _, s := range evidenceSeeds(signer, rtID) {
		method := string(roothash.MethodEvidence)
		if s.Aux == "execcommit" {
			method = string(roothash.MethodExecutorCommit)
		}
		all := append([]optVariant{{Label: "unchanged", Data: s.Data}}, optionalFieldVariants(s.Data, 2000)...)
		for _, v := range all {
			if k%3 == f.c.Index%3 {
				f.optGrid = append(f.optGrid, optTx{method: method, label: s.Name + ": " + v.Label, body: v.Data})
			}
			k++
		}
	}
}

// optSlice returns the variants of the current block.
func (f *txFuzzer) optSlice() []optTx {
	fuzzable := f.c.Blocks - 5
	if fuzzable < 1 {
		fuzzable = 1
	}
	per := (len(f.optGrid) + fuzzable - 1) / fuzzable
	end := min(f.optNext+per, len(f.optGrid))
	out := f.optGrid[f.optNext:end]
	f.optNext = end
	return out
}

func (f *txFuzzer) optInput(o optTx, base []*chainsim.GenTx, nn *nonces) *Input {
	sc := f.h.Sc
	busy := map[*chainsim.Account]bool{}
	for _, b := range base {
		busy[b.Signer] = true
	}
	var signer *chainsim.Account
	for i := 0; i < len(sc.Signers); i++ {
		c := sc.Signers[(f.optUsed+i)%len(sc.Signers)]
		if _, used := nn.m[c.Addr]; !busy[c] && !used {
			signer = c
			f.optUsed += i + 1
			break
		}
	}
	if signer == nil {
		signer = sc.Signers[f.optUsed%len(sc.Signers)]
		f.optUsed++
	}
	nonce := nn.get(signer, base)
	nn.m[signer.Addr] = nonce + 1
	fee := &transaction.Fee{Gas: 3000}
	_ = fee.Amount.FromUint64(3000 * sc.P.MinGasPrice)
	return &Input{Data: f.envelope(signer, encodeTx(nonce, fee, o.method, o.body)), Aux: "layer=optfield;method=" + o.method + ";variant=" + o.label, Op: "opt-field"}
}

// feeGrid builds valid signed transfers whose fee is a boundary combination: gas in
// {0, 1, sufficient, 2^64-1} x amount in {0, 1, balance, balance+1}, plus no fee at all. The
// signers are the user accounts (the grid spends whole balances), in rotation.
func (f *txFuzzer) feeGrid(base []*chainsim.GenTx, nn *nonces) []*Input {
	sc := f.h.Sc
	var out []*Input
	k := 0
	emitOne := func(fee *transaction.Fee, label string) {
		signer := sc.Users[k%len(sc.Users)]
		to := sc.Signers[(k+1)%len(sc.Signers)]
		k++
		nonce := nn.get(signer, base)
		body := cbor.Marshal(&staking.Transfer{To: to.Addr, Amount: *quantity.NewFromUint64(1)})
		bal := f.h.View.Account(signer.Addr).General.Balance
		if fee == nil || fee.Amount.Cmp(&bal) <= 0 {
			nn.m[signer.Addr] = nonce + 1 // passes authentication at delivery: the nonce advances
		}
		out = append(out, &Input{Data: f.envelope(signer, encodeTx(nonce, fee, string(staking.MethodTransfer), body)),
			Aux: "layer=grid;method=" + string(staking.MethodTransfer) + ";fee=" + label, Op: "fee-grid"})
	}
	emitOne(nil, "nil")
	for _, g := range []uint64{0, 1, 5000, ^uint64(0)} {
		for ai := 0; ai < 4; ai++ {
			signer := sc.Users[k%len(sc.Users)] // the signer emitOne is going to use
			bal := f.h.View.Account(signer.Addr).General.Balance
			var amt quantity.Quantity
			switch ai {
			case 1:
				_ = amt.FromUint64(1)
			case 2:
				amt = *bal.Clone()
			case 3:
				amt = *bal.Clone()
				_ = amt.Add(quantity.NewFromUint64(1))
			}
			emitOne(&transaction.Fee{Gas: transaction.Gas(g), Amount: amt}, fmt.Sprintf("gas%d/amount%s", g, []string{"0", "1", "balance", "balance+1"}[ai]))
		}
	}
	return out
}

func sortStrings(s []string) {
	for i := 1; i < len(s); i++ {
		for j := i; j > 0 && s[j] < s[j-1]; j-- {
			s[j], s[j-1] = s[j-1], s[j]
		}
	}
}

func (f *txFuzzer) extra(g *chainsim.TxGen, height int64, base []*chainsim.GenTx) []*chainsim.GenTx {
	for _, b := range base {
		if b.Intent == "valid" && b.Tx != nil && b.Signer != nil {
			l := append(f.pool[b.Method], b)
			if len(l) > 4 {
				l = l[1:]
			}
			f.pool[b.Method] = l
		}
	}
	f.cur, f.curMap, f.curBase = nil, map[string]*fuzzIn{}, len(base)
	if !f.fuzzOn {
		return nil
	}
	nn := &nonces{f: f, m: map[staking.Address]uint64{}}
	var out []*chainsim.GenTx
	admit := func(fi *fuzzIn) {
		f.cur = append(f.cur, fi)
		if _, dup := f.curMap[string(fi.in.Data)]; !dup {
			f.curMap[string(fi.in.Data)] = fi
		}
		out = append(out, &chainsim.GenTx{Raw: fi.in.Data, Method: "fuzz", Intent: "fuzz"})
	}
	// Deterministic optional-field variants of roothash.Evidence / ExecutorCommit bodies (first in
	// the block, each from a signer that has no transaction in this block where possible, so
	// that the same bytes pass authentication at CheckTx and at DeliverTx).
	for _, o := range f.optSlice() {
		idx := f.nextIdx
		f.nextIdx++
		fi := &fuzzIn{idx: idx, in: f.optInput(o, base, nn), height: height}
		f.checkTx(fi)
		f.st.Extra["optional_field_tx_inputs"]++
		if isSystemTx(fi.in.Data) {
			continue
		}
		admit(fi)
	}
	// Deterministic fee/gas boundary grid on otherwise valid signed transfers, every fourth
	// fuzzed block (before the random mutants, so that the predicted nonces hold).
	if f.fuzzBlocks%4 == 0 {
		for _, in := range f.feeGrid(base, nn) {
			idx := f.nextIdx
			f.nextIdx++
			fi := &fuzzIn{idx: idx, in: in, height: height}
			f.checkTx(fi)
			f.st.Extra["fee_gas_grid_inputs"]++
			admit(fi)
		}
	}
	f.fuzzBlocks++
	for k := 0; k < f.c.PerBlock; k++ {
		idx := f.nextIdx
		f.nextIdx++
		in := f.gen(inputRng(f.c.RunSeed, "tx", f.c.Index, idx), base, nn)
		if h, ok := f.c.Override[idx]; ok {
			if b, err := hex.DecodeString(h); err == nil {
				in.Data = b
			}
		}
		if len(in.Data) > txMaxLen {
			in.Data = in.Data[:txMaxLen]
		}
		fi := &fuzzIn{idx: idx, in: in, height: height}
		// Mempool check first (its own oracle), then the input goes into the block.
		f.checkTx(fi)
		if isSystemTx(in.Data) {
			// A transaction naming a system method is rejected by CheckTx and panics BY DESIGN in
			// DeliverTx (abci/system.go: the panic makes validators reject a byzantine proposal;
			// an honest proposer never has it in its mempool). It is a CheckTx-only input.
			f.account(fi, "checktx-only", fi.check == "ok", "system method: "+fi.check)
			f.st.Extra["checktx_only_system_method"]++
			continue
		}
		admit(fi)
	}
	// From here on (PrepareProposal on the builder replica) a fatal error can only be
	// attributed to the block; the taps refine this during the reference execution.
	f.dumpBlock(height)
	return out
}

func (f *txFuzzer) dumpBlock(height int64) {
	var lines []string
	for _, fi := range f.cur {
		lines = append(lines, fmt.Sprintf("%d %s %s %s", fi.idx, fi.in.Op, fi.in.Aux, hex.EncodeToString(fi.in.Data)))
	}
	_ = os.WriteFile(fmt.Sprintf("%s/tx.%d.block", f.scratch, f.c.Index), []byte(fmt.Sprintf("height %d\n%s\n", height, strings.Join(lines, "\n"))), 0o644)
	f.prog.write(-int(height), &Input{Aux: "block", Op: "block"})
}

func (f *txFuzzer) checkTx(fi *fuzzIn) {
	in := fi.in
	f.prog.write(fi.idx, &Input{Data: in.Data, Aux: in.Aux + ";mode=checktx", Op: in.Op})
	f.runIdx.Store(int64(fi.idx))
	var m0, m1 runtime.MemStats
	runtime.ReadMemStats(&m0)
	f.running.Store(time.Now().UnixNano())
	start := time.Now()
	var pv any
	var stack string
	func() {
		defer func() {
			if e := recover(); e != nil {
				pv, stack = e, string(debug.Stack())
			}
		}()
		resp := f.h.Ref.CheckTx(in.Data, false)
		if resp.Code == 0 {
			fi.check = "ok"
		} else {
			fi.check = fmt.Sprintf("%s/%d", resp.Codespace, resp.Code)
		}
	}()
	dur := time.Since(start)
	f.running.Store(0)
	runtime.ReadMemStats(&m1)
	f.measure(fi, "checktx", m1.TotalAlloc-m0.TotalAlloc, dur)
	if pv != nil {
		w := f.witness(fi, "checktx")
		w["panic"] = fmt.Sprint(pv)
		w["stack"] = trimStack(stack)
		f.violated = true
		fi.check = "panic"
		emit(childRec{Kind: "viol", Sig: "c16/tx/panic/" + topFrame(stack), What: fmt.Sprintf("tx: CheckTx of input #%d (%s, op %s, %d bytes) panics: %v", fi.idx, in.Aux, in.Op, len(in.Data), pv), Witness: w})
	}
	if fi.check == "ok" {
		f.st.Extra["checktx_ok"]++
	} else {
		f.st.Extra["checktx_rejected"]++
	}
}

// isSystemTx decodes the envelope independently of the code under test and reports whether the
// transaction names a system method.
func isSystemTx(raw []byte) bool {
	var st transaction.SignedTransaction
	if cbor.Unmarshal(raw, &st) != nil {
		return false
	}
	var tx transaction.Transaction
	if cbor.Unmarshal(st.Blob, &tx) != nil {
		return false
	}
	_, isSystem := consensus.SystemMethods[tx.Method]
	return isSystem
}

// account records the final outcome of one input.
func (f *txFuzzer) account(fi *fuzzIn, tag string, ok bool, rejection string) {
	f.st.Inputs++
	f.st.Ops[fi.in.Op]++
	if len(fi.in.Data) > f.st.MaxLen {
		f.st.MaxLen = len(fi.in.Data)
	}
	layer := auxGet(fi.in.Aux, "layer")
	method := auxGet(fi.in.Aux, "method")
	outcome := "ok"
	if ok {
		f.st.OK++
		f.st.Extra["accepted."+method]++
	} else {
		f.st.Rejected++
		e := normErr(rejection)
		if len(f.st.Errors) < 4000 || f.st.Errors[e] > 0 {
			f.st.Errors[e]++
		}
		outcome = "rej:" + e
		if len(outcome) > 70 {
			outcome = outcome[:70]
		}
	}
	f.st.Extra["layer."+layer]++
	f.st.Triples[fi.in.Op+"|"+layer+tag+"|"+outcome]++
}

// afterBlock folds the delivery results of the block's fuzz inputs.
func (f *txFuzzer) afterBlock() {
	if len(f.cur) == 0 || len(f.h.Results) == 0 {
		return
	}
	res := f.h.Results[len(f.h.Results)-1]
	for j, fi := range f.cur {
		k := f.curBase + j
		if k >= len(res.Txs) {
			break
		}
		r := res.Txs[k]
		f.account(fi, "", r.Code == 0, fmt.Sprintf("%s/%d: %s", r.Codespace, r.Code, r.Log))
		layer := auxGet(fi.in.Aux, "layer")
		outcome := "ok"
		if r.Code != 0 {
			outcome = fmt.Sprintf("%s/%d", r.Codespace, r.Code)
		}
		_ = layer
		if (r.Code == 0) != (fi.check == "ok") {
			f.st.Extra["checktx_and_delivertx_differ"]++
		}
		if len(f.st.SampleHex) < 2 && fi.idx%211 == 7 {
			h := hex.EncodeToString(fi.in.Data)
			if len(h) > 300 {
				h = h[:300] + "..."
			}
			f.st.SampleHex = append(f.st.SampleHex, fmt.Sprintf("tx case %d height %d #%d op=%s %s -> check %s, deliver %s : %s", f.c.Index, fi.height, fi.idx, fi.in.Op, fi.in.Aux, fi.check, outcome, h))
		}
	}
}

func txChildMain(caseJSON, scratch string) {
	var c txCase
	if err := json.Unmarshal([]byte(caseJSON), &c); err != nil {
		emit(childRec{Kind: "inconc", Msg: "bad tx case: " + err.Error()})
		os.Exit(3)
	}
	f := &txFuzzer{c: c, st: newBatchStats("tx", c.Index), scratch: scratch, mut: Mutator{MaxLen: txMaxLen}, pool: map[string][]*chainsim.GenTx{}}
	f.prog = openProgress(progressPath(scratch, "tx", c.Index))
	h, err := chainsim.NewHistory(chainsim.HistoryConfig{Seed: c.Seed, Profile: c.Profile, Blocks: c.Blocks}, f)
	if err != nil {
		emit(childRec{Kind: "inconc", Msg: "tx case setup failed: " + err.Error()})
		os.Exit(3)
	}
	f.h = h
	f.chain = chainsim.TxContext(h.Sc.Doc.ChainContext())
	f.synthSeeds()
	f.buildOptGrid()
	h.Gen.Extra = f.extra

	// Watchdog (per input and per block step).
	var stepStart atomic.Int64
	go func() {
		for {
			time.Sleep(250 * time.Millisecond)
			s := f.running.Load()
			b := stepStart.Load()
			if (s != 0 && time.Since(time.Unix(0, s)) > perInputLimit) || (b != 0 && time.Since(time.Unix(0, b)) > 10*perInputLimit) {
				var sb strings.Builder
				_ = pprof.Lookup("goroutine").WriteTo(&sb, 1)
				dump := sb.String()
				if len(dump) > 8000 {
					dump = dump[:8000]
				}
				emit(childRec{Kind: "hang", Index: int(f.runIdx.Load()), Msg: dump})
				os.Exit(exitHang)
			}
		}
	}()

	completed := 0
	for b := 0; b < c.Blocks; b++ {
		f.fuzzOn = b >= 2 && b < c.Blocks-3
		stepStart.Store(time.Now().UnixNano())
		ok := h.Step()
		stepStart.Store(0)
		if !ok {
			break
		}
		completed++
		f.afterBlock()
	}
	f.st.Extra["blocks"] += int64(completed)
	f.st.Extra["epoch_transitions"] += int64(h.EpochTransitions)
	if h.PreconditionLost != "" {
		f.st.Extra["histories_precondition_lost"]++
	}
	if vm := h.VRFMon; vm != nil { // VRF beacon backend: what the history exercised of it
		f.st.Extra["histories_with_vrf"]++
		f.st.Extra["vrf.epochs"] += int64(vm.Epochs)
		f.st.Extra["vrf.epochs_with_weak_alpha"] += int64(vm.WeakAlphaEpochs)
		f.st.Extra["vrf.proofs_accepted"] += int64(vm.ProofsAccepted)
		f.st.Extra["vrf.elections_checked"] += int64(vm.Elections)
		f.st.Extra["vrf.committees_elected"] += int64(vm.Committees)
		for k, n := range vm.Refused {
			f.st.Extra["vrf.refused."+k] += int64(n)
		}
		f.st.Extra["vrf.monitor_problems_(see_C14)"] += int64(len(vm.Problems))
	}

	// Verdicts on the history.
	for _, p := range h.Panics {
		fi := f.tapIn
		stack := p.Stack
		if stack == "" {
			stack = p.Value
		}
		if fi != nil && (p.Where == "Finalize" || p.Where == "Finalize(diagnose)") {
			w := f.witness(fi, "delivertx")
			w["panic"] = p.Value
			w["stack"] = trimStack(stack)
			w["where"] = p.Where
			emit(childRec{Kind: "viol", Sig: "c16/tx/panic/" + topFrame(stack), What: fmt.Sprintf("tx: DeliverTx of input #%d (%s, op %s, %d bytes) at height %d panics: %s", fi.idx, fi.in.Aux, fi.in.Op, len(fi.in.Data), p.Height, p.Value), Witness: w})
			continue
		}
		if p.Where == "PrepareProposal(empty)" && len(h.Panics) > 1 {
			continue // explained by the diagnosing replay that follows
		}
		delivered := f.st.Inputs + int64(len(f.cur))
		kind := "block-halted-after-fuzz-input"
		if delivered == 0 {
			kind = "block-halted-before-any-fuzz-input" // not caused by a mutant (see C10), reported all the same
		}
		emit(childRec{Kind: "viol", Sig: fmt.Sprintf("c16/tx/%s/%s/%s", kind, p.Where, frameOrClass(stack, p.Value)),
			What:    fmt.Sprintf("tx: block %d did not complete after %d fuzz inputs had been delivered: %s", p.Height, delivered, p.Error()),
			Witness: map[string]any{"target": "tx", "case": c, "height": p.Height, "where": p.Where, "panic": p.Value, "stack": trimStack(stack), "inputs_of_block": f.blockHexes()}})
	}
	for i, d := range h.Divergences {
		if i >= 3 {
			break
		}
		emit(childRec{Kind: "viol", Sig: "c16/tx/replicas-diverge-after-fuzz-input/" + d.What,
			What:    fmt.Sprintf("tx: replica %s disagrees with the reference at height %d (%s %s) after fuzz inputs", d.Replica, d.Height, d.What, d.Detail),
			Witness: map[string]any{"target": "tx", "case": c, "height": d.Height, "what": d.What, "detail": d.Detail, "inputs_of_block": f.blockHexes()}})
	}
	if len(h.Panics) == 0 && h.PreconditionLost == "" && completed == c.Blocks {
		f.st.Extra["histories_completed"]++
	}
	emit(childRec{Kind: "stats", Stats: f.st})
	emit(childRec{Kind: "done"})
	h.Close()
	h.CloseBuilder()
}

func frameOrClass(stack, value string) string {
	if strings.Contains(stack, "goroutine ") {
		return topFrame(stack)
	}
	return panicClass(value)
}

func (f *txFuzzer) blockHexes() []map[string]any {
	var out []map[string]any
	for _, fi := range f.cur {
		out = append(out, map[string]any{"index": fi.idx, "aux": fi.in.Aux, "op": fi.in.Op, "input_hex": hex.EncodeToString(fi.in.Data)})
	}
	return out
}

// runTxCase drives one chain case in a child (parent side).
func (p *parent) runTxCase(j job) {
	r := p.r
	cj, _ := json.Marshal(j.Case)
	args := []string{"-c16child", "-target", "tx", "-txcase", string(cj), "-scratch", p.scratch}
	var res evid.ChildResult
	for attempt := 0; attempt < 3; attempt++ {
		res = evid.Child(args, nil, p.childTimeout())
		// A child that was killed from outside (SIGKILL without any fatal line of the Go
		// runtime: the kernel's out-of-memory killer on an overloaded machine) says nothing
		// about the input; the case is executed again.
		if killedFromOutside(res) {
			p.r.Count("children_killed_from_outside_and_rerun", 1)
			continue
		}
		if !res.TimedOut {
			break
		}
	}
	if res.TimedOut {
		r.Inconclusive("tx case %d: child watchdog fired three times", j.Case.Index)
		return
	}
	done := false
	hang := -1
	hangDump := ""
	for _, rec := range parseRecs(res.Out) {
		switch rec.Kind {
		case "stats":
			p.fold(rec.Stats)
		case "viol":
			r.Violation(rec.Sig, rec.What, rec.Witness)
		case "inconc":
			r.Inconclusive("tx case %d: %s", j.Case.Index, rec.Msg)
		case "hang":
			hang, hangDump = rec.Index, rec.Msg
		case "done":
			done = true
		}
	}
	switch {
	case done && (res.ExitCode == 0 || res.ExitCode == 66):
	case hang >= 0:
		p.note("tx", func(a *targetAgg) { a.Hangs++ })
		// The state cannot be re-created for one input alone: re-run the whole case (up to three times).
		hangs := 0
		for k := 0; k < 3; k++ {
			sres := evid.Child(args, nil, p.childTimeout())
			fired := sres.TimedOut
			for _, rec := range parseRecs(sres.Out) {
				if rec.Kind == "hang" && rec.Index == hang {
					fired = true
				}
			}
			if !fired {
				break
			}
			hangs++
		}
		_, in, ok := readProgress(progressPath(p.scratch, "tx", j.Case.Index))
		w := map[string]any{"target": "tx", "case": j.Case, "index": hang, "goroutines": hangDump}
		if ok && in != nil {
			w["input_hex"] = hex.EncodeToString(in.Data)
			w["aux"] = in.Aux
		}
		if hangs == 3 {
			r.Violation("c16/tx/hang", fmt.Sprintf("tx: case %d input #%d did not finish within %v in four executions of the history", j.Case.Index, hang, perInputLimit), w)
		} else {
			r.Inconclusive("tx case %d input %d: per-input watchdog fired (and in %d of the re-runs)", j.Case.Index, hang, hangs)
		}
	default:
		p.note("tx", func(a *targetAgg) { a.Fatal++ })
		idx, in, ok := readProgress(progressPath(p.scratch, "tx", j.Case.Index))
		kind, class := classifyDeath(res.Out, res)
		stack := deathStack(res.Out)
		w := map[string]any{"target": "tx", "case": j.Case, "death": kind + ": " + class, "stack": stack}
		what := fmt.Sprintf("tx: case %d: the process died: %s %s", j.Case.Index, kind, class)
		if ok && idx >= 0 {
			w["index"], w["aux"], w["op"], w["input_hex"] = idx, in.Aux, in.Op, hex.EncodeToString(in.Data)
			what += fmt.Sprintf(" while executing input #%d (%s)", idx, in.Aux)
		} else if ok {
			if b, err := os.ReadFile(fmt.Sprintf("%s/tx.%d.block", p.scratch, j.Case.Index)); err == nil {
				w["inputs_of_block"] = string(b)
			}
			what += fmt.Sprintf(" while block %d with fuzz inputs was being proposed", -idx)
		}
		sig := fmt.Sprintf("c16/tx/%s/%s", kind, class)
		if kind == "panic" {
			sig = "c16/tx/panic/" + topFrame(stack)
		} else if class == "stack-overflow" {
			sig = "c16/tx/fatal/stack-overflow/" + overflowFrame(res.Out)
		}
		r.Violation(sig, what, w)
	}
}
