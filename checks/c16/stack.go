package main

import "runtime/debug"

// stackLimitMiB bounds the stack of every goroutine in a child. Measured: verifying a proof of
// the maximum legitimate depth (128) needs 64 KiB of stack; without the depth limit a 232 KiB
// proof nesting 29 000 nodes needs 16 MiB.
const stackLimitMiB = 8

func setStackLimit() { debug.SetMaxStack(stackLimitMiB << 20) }
