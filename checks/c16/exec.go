package main

import (
	"bufio"
	"encoding/binary"
	"encoding/hex"
	"encoding/json"
	"fmt"
	"math/rand/v2"
	"os"
	"regexp"
	"runtime"
	"runtime/debug"
	"runtime/pprof"
	"strings"
	"sync"
	"sync/atomic"
	"time"

	"verif/engine/evid"
)

// Input is one mutant handed to a target executor.
type Input struct {
	Data []byte
	// Aux carries the few target-specific parameters that are not part of the
	// byte string (which seed the mutant derives from, which variant of the
	// executor to use); it is part of the witness.
	Aux string
	// Op is the (first) mutation operator; evidence only.
	Op string
}

// Target is one untrusted boundary.
type Target interface {
	Name() string
	// MaxLen is the size bound of the boundary (bytes).
	MaxLen() int
	// Init builds the valid seeds and whatever state the executor needs. It is
	// a function of rng only (deterministic per run seed).
	Init(rng *rand.Rand, scratch string) error
	// Gen derives input number idx (a function of rng only).
	Gen(rng *rand.Rand) *Input
	// Exec feeds the input to the code under test. It returns "" when the
	// input was decoded/accepted, otherwise the error text of the rejection.
	// accepted reports an outcome beyond decoding (e.g. verified).
	Exec(in *Input) (rejection string)
	// Canary re-runs the valid seeds; a non-empty result means that earlier
	// inputs corrupted subsequent processing.
	Canary() string
	Close()
}

var targetCtors = map[string]func() Target{}
var targetOrder []string

func registerTarget(name string, f func() Target) {
	targetCtors[name] = f
	targetOrder = append(targetOrder, name)
}

const recPrefix = "@@C16 "

// childRec is a record written by a child on stdout.
type childRec struct {
	Kind string `json:"k"` // stats | viol | hang | inconc | done
	// stats
	Stats *batchStats `json:"stats,omitempty"`
	// viol
	Sig     string         `json:"sig,omitempty"`
	What    string         `json:"what,omitempty"`
	Witness map[string]any `json:"witness,omitempty"`
	// hang / inconc
	Index int    `json:"index,omitempty"`
	Msg   string `json:"msg,omitempty"`
}

type batchStats struct {
	Target    string           `json:"target"`
	Batch     int              `json:"batch"`
	Inputs    int64            `json:"inputs"`
	OK        int64            `json:"ok"`
	Rejected  int64            `json:"rejected"`
	Errors    map[string]int64 `json:"errors"`  // normalised rejection text -> count
	Triples   map[string]int64 `json:"triples"` // op|outcome class -> count
	Ops       map[string]int64 `json:"ops"`
	MaxAlloc  uint64           `json:"max_alloc"`
	MaxNs     int64            `json:"max_ns"`
	SumNs     int64            `json:"sum_ns"`
	MaxLen    int              `json:"max_len"`
	Next      int              `json:"next"` // first index not executed
	Canaries  int64            `json:"canaries"`
	Extra     map[string]int64 `json:"extra,omitempty"`
	SampleHex []string         `json:"sample,omitempty"`
}

func newBatchStats(target string, batch int) *batchStats {
	return &batchStats{Target: target, Batch: batch, Errors: map[string]int64{}, Triples: map[string]int64{}, Ops: map[string]int64{}, Extra: map[string]int64{}}
}

var outMu sync.Mutex
var outW = bufio.NewWriterSize(os.Stdout, 1<<16)

func emit(r childRec) {
	b, err := json.Marshal(r)
	if err != nil {
		b, _ = json.Marshal(childRec{Kind: "inconc", Msg: "marshal: " + err.Error()})
	}
	outMu.Lock()
	outW.WriteString(recPrefix)
	outW.Write(b)
	outW.WriteByte('\n')
	outW.Flush()
	outMu.Unlock()
}

var (
	reHex    = regexp.MustCompile(`[0-9a-fA-F]{8,}`)
	reB64    = regexp.MustCompile(`[A-Za-z0-9+/]{24,}={0,2}`)
	reNum    = regexp.MustCompile(`-?\d+`)
	reQuoted = regexp.MustCompile(`"[^"]{12,}"|'[^']{12,}'`)
	reNonPr  = regexp.MustCompile(`[^\x20-\x7e]+`)
)

// normErr normalises an error text into a class.
func normErr(s string) string {
	if len(s) > 400 {
		s = s[:400]
	}
	s = reNonPr.ReplaceAllString(s, "?")
	s = reQuoted.ReplaceAllString(s, "Q")
	s = reHex.ReplaceAllString(s, "H")
	s = reB64.ReplaceAllString(s, "B")
	s = reNum.ReplaceAllString(s, "N")
	if len(s) > 110 {
		s = s[:110]
	}
	return strings.TrimSpace(s)
}

const repoPrefix = "github.com/oasisprotocol/oasis-core/go/"

var reFuncArgs = regexp.MustCompile(`\([^()]*\)$`)

// topFrame extracts the top non-runtime, non-harness frame below the panic
// from a debug.Stack() / goroutine dump text.
func topFrame(stack string) string {
	lines := strings.Split(stack, "\n")
	start := 0
	for i, l := range lines {
		if strings.HasPrefix(l, "panic(") || strings.HasPrefix(l, "runtime.throw") || strings.HasPrefix(l, "runtime.fatalthrow") || strings.HasPrefix(l, "runtime.sigpanic") {
			start = i + 1
		}
	}
	first := ""
	for i := start; i < len(lines); i++ {
		l := strings.TrimSpace(lines[i])
		if l == "" || strings.HasPrefix(lines[i], "\t") || strings.HasPrefix(l, "/") || strings.HasPrefix(l, "goroutine ") || strings.HasPrefix(l, "created by") {
			if strings.HasPrefix(l, "goroutine ") && first != "" {
				break
			}
			continue
		}
		fn := reFuncArgs.ReplaceAllString(l, "")
		if strings.HasPrefix(fn, "runtime.") || strings.HasPrefix(fn, "runtime/") || strings.HasPrefix(fn, "panic") || strings.HasPrefix(fn, "main.") ||
			strings.HasPrefix(fn, "verif/") || strings.HasPrefix(fn, "reflect.") || strings.HasPrefix(fn, "sync.") || strings.HasPrefix(fn, "internal/") {
			continue
		}
		fn = strings.TrimPrefix(fn, repoPrefix)
		if first == "" {
			first = fn
		}
		// Prefer the first frame inside the repository, but do not search forever.
		if strings.Contains(l, repoPrefix) {
			// A frame in the small shared helper packages (hashes, CBOR, quantities) says little: name its caller too.
			if (strings.HasPrefix(fn, "common/crypto/") || strings.HasPrefix(fn, "common/cbor") || strings.HasPrefix(fn, "common/quantity")) && i-start <= 40 {
				if first == fn {
					first = fn + "<-"
				}
				continue
			}
			switch {
			case strings.HasSuffix(first, "<-"):
				return first + fn
			case fn != first:
				return first + "<-" + fn
			}
			return fn
		}
		if i-start > 40 {
			break
		}
	}
	if first == "" {
		return "unknown-frame"
	}
	return strings.TrimSuffix(first, "<-")
}

func panicClass(v string) string {
	v = normErr(v)
	if len(v) > 60 {
		v = v[:60]
	}
	return v
}

// progress file: the input about to be executed, written before the call.
type progressFile struct {
	f *os.File
}

func openProgress(path string) *progressFile {
	f, err := os.OpenFile(path, os.O_RDWR|os.O_CREATE|os.O_TRUNC, 0o644)
	if err != nil {
		return &progressFile{}
	}
	return &progressFile{f: f}
}

func (p *progressFile) write(idx int, in *Input) {
	if p.f == nil {
		return
	}
	buf := make([]byte, 0, 16+len(in.Aux)+len(in.Op)+len(in.Data))
	buf = binary.LittleEndian.AppendUint64(buf, uint64(idx))
	buf = binary.LittleEndian.AppendUint32(buf, uint32(len(in.Data)))
	buf = binary.LittleEndian.AppendUint16(buf, uint16(len(in.Aux)))
	buf = binary.LittleEndian.AppendUint16(buf, uint16(len(in.Op)))
	buf = append(buf, in.Aux...)
	buf = append(buf, in.Op...)
	buf = append(buf, in.Data...)
	_, _ = p.f.WriteAt(buf, 0)
}

func readProgress(path string) (idx int, in *Input, ok bool) {
	b, err := os.ReadFile(path)
	if err != nil || len(b) < 16 {
		return 0, nil, false
	}
	idx = int(binary.LittleEndian.Uint64(b))
	dl := int(binary.LittleEndian.Uint32(b[8:]))
	al := int(binary.LittleEndian.Uint16(b[12:]))
	ol := int(binary.LittleEndian.Uint16(b[14:]))
	if 16+al+ol+dl > len(b) {
		return 0, nil, false
	}
	in = &Input{Aux: string(b[16 : 16+al]), Op: string(b[16+al : 16+al+ol]), Data: append([]byte(nil), b[16+al+ol:16+al+ol+dl]...)}
	return idx, in, true
}

// witnessOf builds the replayable witness of one input.
func witnessOf(target string, batch, idx int, in *Input) map[string]any {
	w := map[string]any{"target": target, "batch": batch, "index": idx, "aux": in.Aux, "op": in.Op, "len": len(in.Data)}
	// Inputs are bounded by MaxLen (<= 512 KiB); the hex is always included.
	w["input_hex"] = hex.EncodeToString(in.Data)
	return w
}

const (
	allocBase     = 256 << 20
	exitHang      = 97
	canaryEvery   = 256
	perInputLimit = 60 * time.Second
)

func allocLimit(n int) uint64 { return allocBase + 64*uint64(n) }

// inputRng derives the PRNG of one input from (run seed, target, batch, index).
func inputRng(seed int64, target string, batch, idx int) *rand.Rand {
	var t uint64
	for _, c := range []byte(target) {
		t = t*131 + uint64(c)
	}
	return evid.NewRand(uint64(seed), 0xc16, t, uint64(batch), uint64(idx))
}

// runOne executes one input under the oracle and returns the rejection text.
// A recovered panic is returned through pv/stack.
func runOne(t Target, in *Input) (rej string, allocDelta uint64, dur time.Duration, pv any, stack string) {
	var m0, m1 runtime.MemStats
	runtime.ReadMemStats(&m0)
	start := time.Now()
	func() {
		defer func() {
			if e := recover(); e != nil {
				pv = e
				stack = string(debug.Stack())
			}
		}()
		rej = t.Exec(in)
	}()
	dur = time.Since(start)
	runtime.ReadMemStats(&m1)
	allocDelta = m1.TotalAlloc - m0.TotalAlloc
	return
}

// childMain runs one batch of a stateless/stateful decoder target.
// fixedArgs selects the deterministic series instead of the random mutants.
type fixedArgs struct {
	on            bool
	shard, shards int
}

func childMain(target string, seed int64, batch, from, n int, scratch string, solo *Input, fx fixedArgs) {
	ctor := targetCtors[target]
	if ctor == nil {
		emit(childRec{Kind: "inconc", Msg: "unknown target " + target})
		os.Exit(3)
	}
	t := ctor()
	st := newBatchStats(target, batch)
	var stMu sync.Mutex
	var curStart atomic.Int64 // unix nanos of the running input, 0 if none
	var curIdx atomic.Int64
	st.Next = from

	// The seeds and state are a function of (run seed, target) only, so that
	// every batch (and every replay) sees the same corpus.
	if err := t.Init(inputRng(seed, target, -1, 0), scratch); err != nil {
		emit(childRec{Kind: "inconc", Msg: fmt.Sprintf("target %s init failed: %v", target, err)})
		os.Exit(3)
	}
	defer t.Close()
	if msg := t.Canary(); msg != "" {
		emit(childRec{Kind: "inconc", Msg: fmt.Sprintf("target %s: valid seeds are not accepted before any mutant ran: %s", target, msg)})
		os.Exit(3)
	}

	// Watchdog.
	go func() {
		for {
			time.Sleep(250 * time.Millisecond)
			s := curStart.Load()
			if s != 0 && time.Since(time.Unix(0, s)) > perInputLimit {
				stMu.Lock()
				emit(childRec{Kind: "stats", Stats: st})
				var sb strings.Builder
				_ = pprof.Lookup("goroutine").WriteTo(&sb, 1)
				dump := sb.String()
				if len(dump) > 8000 {
					dump = dump[:8000]
				}
				emit(childRec{Kind: "hang", Index: int(curIdx.Load()), Msg: dump})
				os.Exit(exitHang)
			}
		}
	}()

	var series *fixedSeries
	if fx.on {
		ft, ok := t.(fixedTarget)
		if !ok {
			emit(childRec{Kind: "inconc", Msg: "target " + target + " has no deterministic series"})
			os.Exit(3)
		}
		series = newFixedSeries(ft.FixedPlans(inputRng(seed, target, -2, 0)))
		if from+n > series.Len() {
			n = series.Len() - from
		}
		if fx.shards < 1 {
			fx.shards = 1
		}
		if fx.shard == 0 && from == 0 {
			// Reported once per target (the counters of the shards are added up by the parent).
			stMu.Lock()
			st.Extra["fixed_series_length"] = int64(series.Len())
			stMu.Unlock()
		}
	}

	prog := openProgress(progressPath(scratch, target, batch))
	var window []*Input
	windowStart := from
	executed := 0
	for i := 0; i < n; i++ {
		idx := from + i
		var in *Input
		switch {
		case solo != nil:
			in = solo
		case series != nil:
			if idx%fx.shards != fx.shard {
				stMu.Lock()
				st.Next = idx + 1
				stMu.Unlock()
				continue
			}
			var kind uint8
			in, kind = series.At(idx)
			stMu.Lock()
			st.Extra[fixCounter[kind]]++
			stMu.Unlock()
		default:
			in = t.Gen(inputRng(seed, target, batch, idx))
		}
		executed++
		if ml := t.MaxLen(); len(in.Data) > ml {
			in.Data = in.Data[:ml]
		}
		if pr, ok := t.(interface{ Prepare() }); ok {
			pr.Prepare()
		}
		prog.write(idx, in)
		curIdx.Store(int64(idx))
		curStart.Store(time.Now().UnixNano())
		rej, alloc, dur, pv, stack := runOne(t, in)
		curStart.Store(0)
		// An executor with an oracle of its own (bounded work, no blocked goroutine) reports through
		// the rejection text: "VIOLATION:<signature suffix>:<what>" / "INCONCLUSIVE:<why>".
		if strings.HasPrefix(rej, "VIOLATION:") {
			parts := strings.SplitN(rej, ":", 3)
			if len(parts) == 3 {
				w := witnessOf(target, batch, idx, in)
				emit(childRec{Kind: "viol", Sig: fmt.Sprintf("c16/%s/%s", target, parts[1]),
					What: fmt.Sprintf("%s: input #%d (op %s, %s): %s", target, idx, in.Op, in.Aux, parts[2]), Witness: w})
			}
		} else if strings.HasPrefix(rej, "INCONCLUSIVE:") {
			emit(childRec{Kind: "inconc", Msg: fmt.Sprintf("input #%d (%s): %s", idx, in.Aux, strings.TrimPrefix(rej, "INCONCLUSIVE:"))})
		}

		stMu.Lock()
		st.Inputs++
		st.Next = idx + 1
		st.Ops[in.Op]++
		if len(in.Data) > st.MaxLen {
			st.MaxLen = len(in.Data)
		}
		outcome := "ok"
		switch {
		case pv != nil:
			outcome = "panic"
		case rej == "":
			st.OK++
		default:
			st.Rejected++
			e := normErr(rej)
			if len(st.Errors) < 4000 || st.Errors[e] > 0 {
				st.Errors[e]++
			}
			outcome = "rej:" + e
			if len(outcome) > 70 {
				outcome = outcome[:70]
			}
		}
		st.Triples[in.Op+"|"+outcome]++
		if alloc > st.MaxAlloc {
			st.MaxAlloc = alloc
		}
		if int64(dur) > st.MaxNs {
			st.MaxNs = int64(dur)
		}
		st.SumNs += int64(dur)
		if len(st.SampleHex) < 2 && idx%97 == 3 {
			h := hex.EncodeToString(in.Data)
			if len(h) > 300 {
				h = h[:300] + "..."
			}
			st.SampleHex = append(st.SampleHex, fmt.Sprintf("%s #%d op=%s aux=%s -> %s : %s", target, idx, in.Op, in.Aux, outcome, h))
		}
		stMu.Unlock()

		if pv != nil {
			fr := topFrame(stack)
			w := witnessOf(target, batch, idx, in)
			w["panic"] = fmt.Sprint(pv)
			w["stack"] = trimStack(stack)
			emit(childRec{Kind: "viol", Sig: fmt.Sprintf("c16/%s/panic/%s", target, fr),
				What: fmt.Sprintf("%s: input #%d (op %s, %d bytes) panics: %v", target, idx, in.Op, len(in.Data), pv), Witness: w})
		}
		if alloc > allocLimit(len(in.Data)) {
			w := witnessOf(target, batch, idx, in)
			w["alloc_bytes"] = alloc
			w["limit_bytes"] = allocLimit(len(in.Data))
			emit(childRec{Kind: "viol", Sig: fmt.Sprintf("c16/%s/alloc-blowup", target),
				What: fmt.Sprintf("%s: input #%d (op %s, %d bytes) allocated %d bytes (limit %d)", target, idx, in.Op, len(in.Data), alloc, allocLimit(len(in.Data))), Witness: w})
		}

		window = append(window, in)
		if executed%canaryEvery == 0 || i == n-1 || pv != nil {
			stMu.Lock()
			st.Canaries++
			stMu.Unlock()
			var msg string
			var cpv any
			var cstack string
			func() {
				defer func() {
					if e := recover(); e != nil {
						cpv, cstack = e, string(debug.Stack())
					}
				}()
				msg = t.Canary()
			}()
			if cpv != nil {
				msg = fmt.Sprintf("panic: %v", cpv)
			}
			if msg != "" {
				var hexes []map[string]any
				total := 0
				for j, w := range window {
					if total > 1<<20 {
						break
					}
					total += len(w.Data)
					hexes = append(hexes, map[string]any{"index": windowStart + j, "aux": w.Aux, "op": w.Op, "input_hex": hex.EncodeToString(w.Data)})
				}
				emit(childRec{Kind: "viol", Sig: fmt.Sprintf("c16/%s/corrupts-subsequent-processing/%s", target, panicClass(msg)),
					What:    fmt.Sprintf("%s: after inputs #%d..#%d the valid seeds are no longer processed as before: %s", target, windowStart, idx, msg),
					Witness: map[string]any{"target": target, "batch": batch, "from": windowStart, "to": idx, "window": hexes, "stack": trimStack(cstack)}})
				// State is unusable: stop this batch here.
				break
			}
			window = window[:0]
			windowStart = idx + 1
		}
	}
	stMu.Lock()
	emit(childRec{Kind: "stats", Stats: st})
	stMu.Unlock()
	emit(childRec{Kind: "done"})
}

func trimStack(s string) string {
	if len(s) > 6000 {
		s = s[:6000] + "\n...[truncated]"
	}
	return s
}

func progressPath(scratch, target string, batch int) string {
	return fmt.Sprintf("%s/%s.%d.cur", scratch, target, batch)
}
