package main

import (
	"bytes"
	"context"
	"encoding/binary"
	"fmt"
	"math/rand/v2"
	"os"
	"path/filepath"
	"sort"
	"strconv"
	"strings"

	"github.com/golang/snappy"

	"github.com/oasisprotocol/oasis-core/go/common/cbor"
	"github.com/oasisprotocol/oasis-core/go/common/crypto/hash"
	storage "github.com/oasisprotocol/oasis-core/go/storage/api"
	"github.com/oasisprotocol/oasis-core/go/storage/database"
	"github.com/oasisprotocol/oasis-core/go/storage/mkvs"
	"github.com/oasisprotocol/oasis-core/go/storage/mkvs/checkpoint"
	dbApi "github.com/oasisprotocol/oasis-core/go/storage/mkvs/db/api"
	"github.com/oasisprotocol/oasis-core/go/storage/mkvs/node"
	"github.com/oasisprotocol/oasis-core/go/storage/mkvs/syncer"
	"github.com/oasisprotocol/oasis-core/go/storage/mkvs/writelog"

	"verif/engine/mkvslab"
)

func init() {
	registerTarget("node", func() Target { return &nodeTarget{} })
	registerTarget("proof", func() Target { return &proofTarget{} })
	registerTarget("chunk", func() Target { return &chunkTarget{} })
	registerTarget("writelog", func() Target { return &writelogTarget{} })
}

type kvPair struct{ K, V []byte }

// genContents builds a deterministic key/value set with shared prefixes.
func genContents(rng *rand.Rand, n, maxVal int) []kvPair {
	m := map[string][]byte{}
	for len(m) < n {
		var k []byte
		switch rng.IntN(4) {
		case 0:
			k = mkvslab.GenKey(rng)
		case 1:
			k = []byte(fmt.Sprintf("key %d", rng.IntN(4*n)))
		case 2:
			k = append([]byte("prefix/"), randBytes(rng, 1+rng.IntN(6))...)
		default:
			k = randBytes(rng, 1+rng.IntN(40))
		}
		v := randBytes(rng, rng.IntN(maxVal+1))
		if v == nil {
			v = []byte{}
		}
		m[string(k)] = v
	}
	var out []kvPair
	for k, v := range m {
		out = append(out, kvPair{[]byte(k), v})
	}
	sort.Slice(out, func(i, j int) bool { return bytes.Compare(out[i].K, out[j].K) < 0 })
	return out
}

// --- target: node ----------------------------------------------------------------

type nodeTarget struct {
	seeds []*Seed
	mut   Mutator
}

func (t *nodeTarget) Name() string { return "node" }
func (t *nodeTarget) MaxLen() int  { return 64 << 10 }
func (t *nodeTarget) Close()       {}

func leafLenFields(base int, keyLen int) []LenField {
	return []LenField{{Off: base + 1, Width: 2}, {Off: base + 3 + keyLen, Width: 4}}
}

func (t *nodeTarget) Init(rng *rand.Rand, _ string) error {
	t.mut = Mutator{MaxLen: t.MaxLen()}
	add := func(name, kind string, data []byte, lf []LenField) {
		t.seeds = append(t.seeds, &Seed{Name: name, Data: data, LenFields: lf, Aux: kind})
	}
	var leaves []*node.LeafNode
	for _, kl := range []int{0, 1, 5, 32, 300} {
		for _, vl := range []int{0, 3, 100, 1500} {
			l := &node.LeafNode{Key: randBytes(rng, kl), Value: randBytes(rng, vl)}
			if kl == 0 {
				l.Key = node.Key{}
			}
			if vl == 0 {
				l.Value = []byte{}
			}
			l.UpdateHash()
			l.Clean = true
			leaves = append(leaves, l)
			b, err := l.MarshalBinary()
			if err != nil {
				return err
			}
			add(fmt.Sprintf("leaf k%d v%d", kl, vl), "leaf", b, leafLenFields(0, kl))
			add(fmt.Sprintf("leaf k%d v%d", kl, vl), "node", b, leafLenFields(0, kl))
		}
	}
	var h1, h2 hash.Hash
	h1.FromBytes([]byte("left"))
	h2.FromBytes([]byte("right"))
	for _, bl := range []int{0, 1, 7, 8, 9, 64, 300, 65535} {
		for shape := 0; shape < 8; shape++ {
			n := &node.InternalNode{LabelBitLength: node.Depth(bl), Label: randBytes(rng, node.Depth(bl).ToBytes())}
			if n.Label == nil {
				n.Label = node.Key{}
			}
			if shape&1 != 0 {
				l := leaves[rng.IntN(len(leaves))]
				n.LeafNode = &node.Pointer{Clean: true, Hash: l.Hash, Node: l}
			}
			if shape&2 != 0 {
				n.Left = &node.Pointer{Clean: true, Hash: h1}
			}
			if shape&4 != 0 {
				n.Right = &node.Pointer{Clean: true, Hash: h2}
			}
			n.UpdateHash()
			n.Clean = true
			lf := []LenField{{Off: 1, Width: 2}}
			if n.LeafNode != nil {
				ln := n.LeafNode.Node.(*node.LeafNode)
				lf = append(lf, leafLenFields(3+len(n.Label), len(ln.Key))...)
			}
			full, err := n.MarshalBinary()
			if err != nil {
				return err
			}
			add(fmt.Sprintf("internal bl%d shape%d full", bl, shape), "internal", full, lf)
			add(fmt.Sprintf("internal bl%d shape%d full", bl, shape), "node", full, lf)
			c0, _ := n.CompactMarshalBinaryV0()
			add(fmt.Sprintf("internal bl%d shape%d v0", bl, shape), "node", c0, lf)
			c1, _ := n.CompactMarshalBinaryV1()
			add(fmt.Sprintf("internal bl%d shape%d v1", bl, shape), "internal", c1, lf[:1])
		}
	}
	for _, kl := range []int{0, 1, 2, 255, 256, 1000} {
		k := node.Key(randBytes(rng, kl))
		b, _ := k.MarshalBinary()
		add(fmt.Sprintf("key %d", kl), "key", b, []LenField{{Off: 0, Width: 2}})
	}
	for _, d := range []node.Depth{0, 1, 255, 256, 65535} {
		add(fmt.Sprintf("depth %d", d), "depth", d.MarshalBinary(), []LenField{{Off: 0, Width: 2}})
	}
	return nil
}

func (t *nodeTarget) Gen(rng *rand.Rand) *Input {
	s := t.seeds[rng.IntN(len(t.seeds))]
	data, op := t.mut.Mutate(rng, s, t.seeds)
	aux := s.Aux
	if rng.IntN(6) == 0 {
		aux = []string{"node", "leaf", "internal", "key", "depth"}[rng.IntN(5)]
	}
	return &Input{Data: data, Aux: aux, Op: op}
}

func useNode(n node.Node) {
	if n == nil {
		return
	}
	_ = n.GetHash()
	_ = n.Size()
	_ = n.IsClean()
	_ = n.Equal(n)
	_, _ = n.MarshalBinary()
	_, _ = n.CompactMarshalBinaryV0()
	_, _ = n.CompactMarshalBinaryV1()
	e := n.ExtractUnchecked()
	_ = e.Equal(n)
	n.UpdateHash()
}

func useKey(k node.Key) {
	_ = k.String()
	bl := k.BitLength()
	_ = k.Equal(k)
	_ = k.Compare(k)
	_, _ = k.MarshalBinary()
	if len(k) >= 8192 {
		// Depth is 16 bits wide: the bit helpers are not defined for such keys.
		return
	}
	if bl > 0 {
		_ = k.GetBit(0)
		_ = k.GetBit(bl - 1)
		p, s := k.Split(bl/2, bl)
		_ = p.Merge(bl/2, s, bl-bl/2)
		_ = k.CommonPrefixLen(bl, p, bl/2)
	}
	if bl < 65535-8 {
		_ = k.AppendBit(bl, true)
	}
}

func (t *nodeTarget) execKind(kind string, data []byte) error {
	switch kind {
	case "node":
		n, err := node.UnmarshalBinary(data)
		if err != nil {
			return err
		}
		useNode(n)
	case "leaf":
		var l node.LeafNode
		sz, err := l.SizedUnmarshalBinary(data)
		if err != nil {
			return err
		}
		if sz < 0 || sz > len(data) {
			return fmt.Errorf("HARNESS-NOTE leaf size %d outside input of %d bytes", sz, len(data))
		}
		useNode(&l)
		useKey(l.Key)
	case "internal":
		var n node.InternalNode
		sz, err := n.SizedUnmarshalBinary(data)
		if err != nil {
			return err
		}
		if sz < 0 || sz > len(data) {
			return fmt.Errorf("HARNESS-NOTE internal size %d outside input of %d bytes", sz, len(data))
		}
		useNode(&n)
		useKey(n.Label)
	case "key":
		var k node.Key
		if _, err := k.SizedUnmarshalBinary(data); err != nil {
			return err
		}
		useKey(k)
	case "depth":
		var d node.Depth
		if _, err := d.UnmarshalBinary(data); err != nil {
			return err
		}
		_ = d.ToBytes()
		_ = d.MarshalBinary()
	}
	return nil
}

func (t *nodeTarget) Exec(in *Input) string {
	var primary error
	for _, k := range []string{"node", "leaf", "internal", "key", "depth"} {
		err := t.execKind(k, in.Data)
		if k == in.Aux {
			primary = err
		}
	}
	if primary != nil {
		return primary.Error()
	}
	return ""
}

func (t *nodeTarget) Canary() string {
	for _, s := range t.seeds {
		if err := t.execKind(s.Aux, s.Data); err != nil {
			return fmt.Sprintf("seed %q (%s) rejected: %v", s.Name, s.Aux, err)
		}
	}
	return ""
}

// --- target: proof ---------------------------------------------------------------

type proofTarget struct {
	ndb   dbApi.NodeDB
	roots []hash.Hash
	seeds []*Seed
	mut   Mutator
}

func (t *proofTarget) Name() string { return "proof" }
func (t *proofTarget) MaxLen() int  { return 256 << 10 }
func (t *proofTarget) Close() {
	if t.ndb != nil {
		t.ndb.Close()
	}
}

func buildTree(ctx context.Context, ndb dbApi.NodeDB, contents []kvPair, version uint64) (node.Root, error) {
	tree := mkvs.New(nil, ndb, node.RootTypeState)
	defer tree.Close()
	for _, e := range contents {
		if err := tree.Insert(ctx, e.K, e.V); err != nil {
			return node.Root{}, err
		}
	}
	_, h, err := tree.Commit(ctx, mkvslab.Namespace, version)
	if err != nil {
		return node.Root{}, err
	}
	root := node.Root{Namespace: mkvslab.Namespace, Version: version, Type: node.RootTypeState, Hash: h}
	if err = ndb.Finalize([]node.Root{root}); err != nil {
		return node.Root{}, err
	}
	return root, nil
}

func (t *proofTarget) Init(rng *rand.Rand, _ string) error {
	t.mut = Mutator{MaxLen: t.MaxLen()}
	ctx := context.Background()
	ndb, err := mkvslab.OpenDB(mkvslab.BackendBadger, "")
	if err != nil {
		return err
	}
	t.ndb = ndb
	contents := genContents(rng, 60, 80)
	root, err := buildTree(ctx, ndb, contents, 1)
	if err != nil {
		return err
	}
	t.roots = append(t.roots, root.Hash)
	tree := mkvs.NewWithRoot(nil, ndb, root)
	defer tree.Close()
	tid := syncer.TreeID{Root: root, Position: root.Hash}
	add := func(name string, p *syncer.Proof) {
		t.seeds = append(t.seeds, &Seed{Name: name, Data: cbor.Marshal(p), CBOR: true, Aux: "0"})
	}
	for v := uint16(0); v <= 1; v++ {
		for i := 0; i < 6; i++ {
			k := contents[rng.IntN(len(contents))].K
			if i >= 4 {
				k = append(append([]byte{}, k...), 0x77) // absent key
			}
			r, err := tree.SyncGet(ctx, &syncer.GetRequest{Tree: tid, Key: k, IncludeSiblings: i%2 == 1, ProofVersion: v})
			if err != nil {
				return fmt.Errorf("SyncGet: %w", err)
			}
			add(fmt.Sprintf("get v%d #%d", v, i), &r.Proof)
		}
		for _, pf := range []uint16{0, 5, 30, 200} {
			r, err := tree.SyncIterate(ctx, &syncer.IterateRequest{Tree: tid, Key: contents[rng.IntN(len(contents))].K, Prefetch: pf, ProofVersion: v})
			if err != nil {
				return fmt.Errorf("SyncIterate: %w", err)
			}
			add(fmt.Sprintf("iterate v%d prefetch %d", v, pf), &r.Proof)
		}
		r, err := tree.SyncGetPrefixes(ctx, &syncer.GetPrefixesRequest{Tree: tid, Prefixes: [][]byte{[]byte("prefix/"), []byte("key 1")}, Limit: 20, ProofVersion: v})
		if err != nil {
			return fmt.Errorf("SyncGetPrefixes: %w", err)
		}
		add(fmt.Sprintf("prefixes v%d", v), &r.Proof)
	}
	return nil
}

// proofChain builds a proof whose entries nest n internal nodes, each one in the given child
// slot ("leaf" (version 1 only), "left", "right", or "mix" = rotating) of the previous one. The
// other slots hold nil entries. Entry of an internal node: 01 (full) 01 (internal) 0000 (label bit
// length 0) 02 (no embedded leaf).
func proofChain(n int, version uint16, slot string, maxLen int) []byte {
	internal := []byte{0x01, node.PrefixInternalNode, 0x00, 0x00, node.PrefixNilNode}
	if n*9+64 > maxLen {
		n = (maxLen - 64) / 9
	}
	var p syncer.Proof
	p.V = version
	slots := make([]string, n)
	for i := range slots {
		slots[i] = slot
		if slot == "mix" {
			slots[i] = []string{"left", "right", "leaf"}[i%3]
		}
		if slots[i] == "leaf" && version == 0 {
			slots[i] = "left" // version 0 has no separate leaf entry
		}
	}
	// Pre-order: node, [leaf], left, right. Entries before the nested child on the way down,
	// entries after it on the way back up.
	var tail [][]byte
	for i := 0; i < n; i++ {
		p.Entries = append(p.Entries, internal)
		after := 0
		switch slots[i] {
		case "leaf":
			after = 2 // left, right
		case "left":
			if version == 1 {
				p.Entries = append(p.Entries, nil) // leaf
			}
			after = 1 // right
		case "right":
			if version == 1 {
				p.Entries = append(p.Entries, nil) // leaf
			}
			p.Entries = append(p.Entries, nil) // left
		}
		for k := 0; k < after; k++ {
			tail = append(tail, nil)
		}
	}
	p.Entries = append(p.Entries, nil) // the innermost child
	p.Entries = append(p.Entries, tail...)
	p.UntrustedRoot.FromBytes([]byte("chain"))
	return cbor.Marshal(&p)
}

var proofChainDepths = []int{127, 128, 129, 130, 131, 200, 500, 1000, 2000, 5000, 10000, 20000}
var proofChainSlots = []string{"left", "right", "leaf", "mix"}

func proofChainInput(d int, v uint16, slot string, maxLen int) *Input {
	return &Input{Data: proofChain(d, v, slot, maxLen), Aux: fmt.Sprintf("chain=%s;v=%d;depth=%d", slot, v, d), Op: "proof-nesting-" + slot}
}

func (t *proofTarget) Gen(rng *rand.Rand) *Input {
	if rng.IntN(40) == 0 {
		depths := []int{2, 100, 126, 127, 128, 129, 130, 200, 1000, 10000, 20000, 1 << 20}
		d := depths[rng.IntN(len(depths))]
		return proofChainInput(d, uint16(rng.IntN(2)), proofChainSlots[rng.IntN(len(proofChainSlots))], t.MaxLen())
	}
	s := t.seeds[rng.IntN(len(t.seeds))]
	data, op := t.mut.Mutate(rng, s, t.seeds)
	return &Input{Data: data, Aux: s.Aux, Op: op}
}

// countingCtx counts the Err() calls: the verifier asks once per invocation.
type countingCtx struct {
	context.Context
	calls int
}

func (c *countingCtx) Err() error {
	c.calls++
	return c.Context.Err()
}

// maxProofDepth is the verifier's documented nesting bound (syncer/proof.go).
const maxProofDepth = 128

func (t *proofTarget) verify(p *syncer.Proof, root hash.Hash) error {
	ctx := context.Background()
	var pv syncer.ProofVerifier
	ptr, err := pv.VerifyProof(ctx, root, p)
	wl, err2 := pv.VerifyProofToWriteLog(ctx, root, p)
	if (err == nil) != (err2 == nil) {
		return fmt.Errorf("HARNESS-NOTE VerifyProof and VerifyProofToWriteLog disagree: %v / %v", err, err2)
	}
	if err != nil {
		return err
	}
	_ = wl
	if ptr != nil {
		_ = ptr.GetHash()
		if ptr.Node != nil {
			_ = ptr.Node.GetHash()
		}
	}
	return nil
}

func (t *proofTarget) Exec(in *Input) string {
	var p syncer.Proof
	if err := cbor.Unmarshal(in.Data, &p); err != nil {
		return "decode: " + err.Error()
	}
	if slot := auxGet(in.Aux, "chain"); slot != "" {
		// A pure nesting chain deeper than the bound must be rejected after the verifier has
		// descended at most maxProofDepth+2 levels; on the way it looks at no more than the
		// two nil siblings per level. Counted in verifier invocations, not in time.
		depth := auxInt(in.Aux, "depth")
		cc := &countingCtx{Context: context.Background()}
		var pv syncer.ProofVerifier
		_, err := pv.VerifyProof(cc, p.UntrustedRoot, &p)
		bound := 3 * (maxProofDepth + 2)
		if depth > maxProofDepth+1 && len(p.Entries) > depth {
			switch {
			case err == nil:
				return fmt.Sprintf("VIOLATION:nesting-not-bounded/accepted/%s-slot:a version %d proof nesting %d internal nodes through the %s slot was accepted", slot, p.V, depth, slot)
			case cc.calls > bound:
				return fmt.Sprintf("VIOLATION:nesting-not-bounded/%s-slot:a version %d proof nesting %d internal nodes through the %s slot was rejected (%v) only after %d verifier invocations (bound %d for a nesting limit of %d)", slot, p.V, depth, slot, err, cc.calls, bound, maxProofDepth)
			}
		}
		if err != nil {
			return err.Error()
		}
		return ""
	}
	errTrue := t.verify(&p, t.roots[0])
	errOwn := t.verify(&p, p.UntrustedRoot)
	// Re-encoding a decoded proof must work too.
	_ = cbor.Marshal(&p)
	if errTrue == nil || errOwn == nil {
		return ""
	}
	return errOwn.Error()
}

func (t *proofTarget) Canary() string {
	for _, s := range t.seeds {
		var p syncer.Proof
		if err := cbor.Unmarshal(s.Data, &p); err != nil {
			return fmt.Sprintf("seed %q no longer decodes: %v", s.Name, err)
		}
		if err := t.verify(&p, t.roots[0]); err != nil {
			return fmt.Sprintf("seed %q no longer verifies: %v", s.Name, err)
		}
	}
	return ""
}

// --- target: chunk ---------------------------------------------------------------

type chunkTarget struct {
	scratch  string
	contents []kvPair
	meta     *checkpoint.Metadata
	chunks   [][]byte
	plain    [][]byte // decompressed chunk streams
	dst      map[string]dbApi.NodeDB
	mut      Mutator
	seeds    []*Seed
	dirty    []string
}

// Prepare runs outside the measured call.
func (t *chunkTarget) Prepare() {
	for _, k := range t.dirty {
		if err := t.openDst(k); err != nil {
			panic("HARNESS: reopen: " + err.Error())
		}
	}
	t.dirty = nil
}

func (t *chunkTarget) Name() string { return "chunk" }
func (t *chunkTarget) MaxLen() int  { return 256 << 10 }
func (t *chunkTarget) Close() {
	for _, d := range t.dst {
		d.Close()
	}
}

const chunkVersion = 1

func (t *chunkTarget) openDst(kind string) error {
	if old := t.dst[kind]; old != nil {
		old.Close()
		delete(t.dst, kind)
	}
	backend := mkvslab.BackendBadger
	if kind == "p" {
		backend = mkvslab.BackendPathBadger
	}
	d, err := mkvslab.OpenDB(backend, "")
	if err != nil {
		return err
	}
	if err = d.StartMultipartInsert(chunkVersion); err != nil {
		d.Close()
		return err
	}
	t.dst[kind] = d
	return nil
}

func snappyFrame(plain []byte) []byte {
	var buf bytes.Buffer
	w := snappy.NewBufferedWriter(&buf)
	_, _ = w.Write(plain)
	_ = w.Close()
	return buf.Bytes()
}

func (t *chunkTarget) Init(rng *rand.Rand, scratch string) error {
	t.mut = Mutator{MaxLen: t.MaxLen()}
	t.scratch = scratch
	t.dst = map[string]dbApi.NodeDB{}
	ctx := context.Background()
	src, err := mkvslab.OpenDB(mkvslab.BackendBadger, "")
	if err != nil {
		return err
	}
	defer src.Close()
	t.contents = genContents(rng, 120, 120)
	root, err := buildTree(ctx, src, t.contents, chunkVersion)
	if err != nil {
		return err
	}
	dir := filepath.Join(scratch, fmt.Sprintf("cp.%d", os.Getpid()))
	if err = os.MkdirAll(dir, 0o755); err != nil {
		return err
	}
	defer os.RemoveAll(dir)
	fc, err := checkpoint.NewFileCreator(dir, src)
	if err != nil {
		return err
	}
	t.meta, err = fc.CreateCheckpoint(ctx, root, 2048, 1)
	if err != nil {
		return err
	}
	for i := range t.meta.Chunks {
		cm, err := t.meta.GetChunkMetadata(uint64(i))
		if err != nil {
			return err
		}
		var buf bytes.Buffer
		if err = fc.GetCheckpointChunk(ctx, cm, &buf); err != nil {
			return err
		}
		t.chunks = append(t.chunks, buf.Bytes())
		plain, err := readAllSnappy(buf.Bytes())
		if err != nil {
			return fmt.Errorf("chunk %d does not decompress: %w", i, err)
		}
		t.plain = append(t.plain, plain)
		t.seeds = append(t.seeds, &Seed{Name: fmt.Sprintf("chunk %d", i), Data: buf.Bytes()})
	}
	if len(t.chunks) < 2 {
		return fmt.Errorf("checkpoint has only %d chunks", len(t.chunks))
	}
	for _, k := range []string{"b", "p"} {
		if err = t.openDst(k); err != nil {
			return err
		}
	}
	return nil
}

func readAllSnappy(b []byte) ([]byte, error) {
	var out bytes.Buffer
	_, err := out.ReadFrom(snappy.NewReader(bytes.NewReader(b)))
	return out.Bytes(), err
}

// wrapSeq presents a CBOR sequence as one array so that the list operators apply.
func wrapSeq(seq []byte) ([]byte, bool) {
	n := 0
	pos := 0
	for pos < len(seq) {
		_, end, ok := cborParse(seq[pos:])
		if !ok {
			return nil, false
		}
		pos += end
		n++
	}
	return append(cborHead(4, uint64(n), 0), seq...), true
}

func unwrapSeq(arr []byte) []byte {
	p := &cborParser{b: arr}
	if m, _, _, hl, ok := p.head(0); ok && m == 4 {
		return arr[hl:]
	}
	return arr
}

func (t *chunkTarget) Gen(rng *rand.Rand) *Input {
	i := rng.IntN(len(t.chunks))
	db := []string{"b", "p"}[rng.IntN(2)]
	var data []byte
	var op string
	fix := 1
	switch x := rng.IntN(10); {
	case x == 0:
		fix = 0
		data, op = t.mut.Mutate(rng, t.seeds[i], t.seeds)
		op = "raw:" + op
	case x < 4:
		data, op = t.mut.Mutate(rng, t.seeds[i], t.seeds)
		op = "raw:" + op
	default:
		mm := t.mut
		mm.MaxLen = 200 << 10
		if arr, ok := wrapSeq(t.plain[i]); ok {
			var corpus []*Seed
			j := rng.IntN(len(t.plain))
			if a2, ok2 := wrapSeq(t.plain[j]); ok2 {
				corpus = []*Seed{{Data: a2, CBOR: true}}
			}
			out, o := mm.Mutate(rng, &Seed{Data: arr, CBOR: true}, corpus)
			data, op = snappyFrame(unwrapSeq(out)), "stream:"+o
		} else {
			data, op = t.mut.Mutate(rng, t.seeds[i], t.seeds)
			op = "raw:" + op
		}
	}
	return &Input{Data: data, Aux: fmt.Sprintf("i=%d;fix=%d;db=%s", i, fix, db), Op: op}
}

func auxGet(aux, key string) string {
	for _, kv := range strings.Split(aux, ";") {
		if strings.HasPrefix(kv, key+"=") {
			return kv[len(key)+1:]
		}
	}
	return ""
}

func auxInt(aux, key string) int {
	v, _ := strconv.Atoi(auxGet(aux, key))
	return v
}

func (t *chunkTarget) Exec(in *Input) string {
	ctx := context.Background()
	i := auxInt(in.Aux, "i")
	if i < 0 || i >= len(t.chunks) {
		i = 0
	}
	kind := auxGet(in.Aux, "db")
	if kind != "p" {
		kind = "b"
	}
	meta := *t.meta
	meta.Chunks = append([]hash.Hash(nil), t.meta.Chunks...)
	if auxInt(in.Aux, "fix") == 1 {
		meta.Chunks[i] = hash.NewFromBytes(in.Data)
	}
	rs, err := checkpoint.NewRestorer(t.dst[kind])
	if err != nil {
		return "HARNESS-NOTE " + err.Error()
	}
	if err = rs.StartRestore(ctx, &meta); err != nil {
		return "start: " + err.Error()
	}
	_, err = rs.RestoreChunk(ctx, uint64(i), bytes.NewReader(in.Data))
	_ = rs.AbortRestore(ctx)
	if err != nil {
		return err.Error()
	}
	// Accepted: continue with a fresh database so that the next input starts from the same
	// state (abort + restart of a multipart insert at the same version is C12's subject).
	t.dirty = append(t.dirty, kind)
	return ""
}

// Canary restores the genuine checkpoint into the databases that saw the
// mutants, finalizes and reads everything back.
func (t *chunkTarget) Canary() string {
	t.Prepare()
	ctx := context.Background()
	for _, kind := range []string{"b", "p"} {
		d := t.dst[kind]
		rs, _ := checkpoint.NewRestorer(d)
		if err := rs.StartRestore(ctx, t.meta); err != nil {
			return fmt.Sprintf("[%s] StartRestore: %v", kind, err)
		}
		for i := range t.chunks {
			done, err := rs.RestoreChunk(ctx, uint64(i), bytes.NewReader(t.chunks[i]))
			if err != nil {
				return fmt.Sprintf("[%s] genuine chunk %d rejected: %v", kind, i, err)
			}
			if done != (i == len(t.chunks)-1) {
				return fmt.Sprintf("[%s] genuine chunk %d: done=%v", kind, i, done)
			}
		}
		if err := d.Finalize([]node.Root{t.meta.Root}); err != nil {
			return fmt.Sprintf("[%s] Finalize after genuine restore: %v", kind, err)
		}
		tree := mkvs.NewWithRoot(nil, d, t.meta.Root)
		it := tree.NewIterator(ctx)
		n := 0
		for it.Rewind(); it.Valid(); it.Next() {
			if n >= len(t.contents) || !bytes.Equal(it.Key(), t.contents[n].K) || !bytes.Equal(it.Value(), t.contents[n].V) {
				it.Close()
				tree.Close()
				return fmt.Sprintf("[%s] restored contents differ at entry %d", kind, n)
			}
			n++
		}
		err := it.Err()
		it.Close()
		tree.Close()
		if err != nil {
			return fmt.Sprintf("[%s] iterating the restored tree: %v", kind, err)
		}
		if n != len(t.contents) {
			return fmt.Sprintf("[%s] restored tree has %d entries, source has %d", kind, n, len(t.contents))
		}
		if err := t.openDst(kind); err != nil {
			return "HARNESS-NOTE reopen: " + err.Error()
		}
	}
	return ""
}

// --- target: writelog ----------------------------------------------------------------

type wlSeed struct {
	wl  writelog.WriteLog
	dst hash.Hash
}

type writelogTarget struct {
	base     []kvPair
	root1    node.Root
	wls      []wlSeed
	seeds    []*Seed
	backends map[string]storage.LocalBackend
	mut      Mutator
	scratch  string
	gen      int
	dirty    []string
}

// Prepare runs outside the measured call.
func (t *writelogTarget) Prepare() {
	for _, k := range t.dirty {
		if err := t.openBackend(k); err != nil {
			panic("HARNESS: reopen: " + err.Error())
		}
	}
	t.dirty = nil
}

func (t *writelogTarget) Name() string { return "writelog" }
func (t *writelogTarget) MaxLen() int  { return 256 << 10 }
func (t *writelogTarget) Close() {
	for _, b := range t.backends {
		b.Cleanup()
	}
}

func (t *writelogTarget) openBackend(kind string) error {
	if old := t.backends[kind]; old != nil {
		old.Cleanup()
		delete(t.backends, kind)
	}
	name := database.BackendNameBadgerDB
	if kind == "p" {
		name = database.BackendNamePathBadger
	}
	t.gen++
	cfg := &storage.Config{
		Backend:      name,
		DB:           filepath.Join(t.scratch, fmt.Sprintf("wl.%d.%s.%d", os.Getpid(), kind, t.gen)),
		Namespace:    mkvslab.Namespace,
		MaxCacheSize: 4 << 20,
		NoFsync:      true,
		MemoryOnly:   true,
	}
	b, err := database.New(cfg)
	if err != nil {
		return err
	}
	ctx := context.Background()
	var wl writelog.WriteLog
	for _, e := range t.base {
		wl = append(wl, writelog.LogEntry{Key: e.K, Value: e.V})
	}
	var empty hash.Hash
	empty.Empty()
	if err = b.Apply(ctx, &storage.ApplyRequest{Namespace: mkvslab.Namespace, RootType: node.RootTypeState, SrcRound: 0, SrcRoot: empty, DstRound: 1, DstRoot: t.root1.Hash, WriteLog: wl}); err != nil {
		b.Cleanup()
		return fmt.Errorf("base apply: %w", err)
	}
	if err = b.NodeDB().Finalize([]node.Root{t.root1}); err != nil {
		b.Cleanup()
		return fmt.Errorf("base finalize: %w", err)
	}
	t.backends[kind] = b
	return nil
}

func (t *writelogTarget) Init(rng *rand.Rand, scratch string) error {
	t.mut = Mutator{MaxLen: t.MaxLen()}
	t.scratch = scratch
	t.backends = map[string]storage.LocalBackend{}
	ctx := context.Background()
	t.base = genContents(rng, 50, 60)
	// Expected roots are computed on a tree without a database.
	rootOf := func(contents map[string][]byte, version uint64) (hash.Hash, error) {
		tr := mkvs.New(nil, nil, node.RootTypeState)
		defer tr.Close()
		var keys []string
		for k := range contents {
			keys = append(keys, k)
		}
		sort.Strings(keys)
		for _, k := range keys {
			if err := tr.Insert(ctx, []byte(k), contents[k]); err != nil {
				return hash.Hash{}, err
			}
		}
		_, h, err := tr.Commit(ctx, mkvslab.Namespace, version)
		return h, err
	}
	model := map[string][]byte{}
	for _, e := range t.base {
		model[string(e.K)] = e.V
	}
	h1, err := rootOf(model, 1)
	if err != nil {
		return err
	}
	t.root1 = node.Root{Namespace: mkvslab.Namespace, Version: 1, Type: node.RootTypeState, Hash: h1}
	for s := 0; s < 8; s++ {
		m2 := map[string][]byte{}
		for k, v := range model {
			m2[k] = v
		}
		var wl writelog.WriteLog
		n := []int{1, 2, 5, 12, 30, 60, 3, 8}[s]
		touched := map[string]bool{}
		for len(wl) < n {
			var k []byte
			if rng.IntN(2) == 0 {
				k = t.base[rng.IntN(len(t.base))].K
			} else {
				k = append([]byte("new/"), randBytes(rng, 1+rng.IntN(10))...)
			}
			if touched[string(k)] {
				continue
			}
			touched[string(k)] = true
			if _, ok := m2[string(k)]; ok && rng.IntN(3) == 0 {
				wl = append(wl, writelog.LogEntry{Key: k, Value: nil})
				delete(m2, string(k))
				continue
			}
			v := randBytes(rng, rng.IntN(100))
			if v == nil {
				v = []byte{}
			}
			wl = append(wl, writelog.LogEntry{Key: k, Value: v})
			m2[string(k)] = v
		}
		h2, err := rootOf(m2, 2)
		if err != nil {
			return err
		}
		t.wls = append(t.wls, wlSeed{wl, h2})
		t.seeds = append(t.seeds, &Seed{Name: fmt.Sprintf("writelog %d entries", n), Data: cbor.Marshal(wl), CBOR: true, Aux: strconv.Itoa(s)})
	}
	for _, k := range []string{"b", "p"} {
		if err := t.openBackend(k); err != nil {
			return err
		}
	}
	return nil
}

func (t *writelogTarget) Gen(rng *rand.Rand) *Input {
	s := rng.IntN(len(t.seeds))
	data, op := t.mut.Mutate(rng, t.seeds[s], t.seeds)
	return &Input{Data: data, Aux: fmt.Sprintf("s=%d;db=%s", s, []string{"b", "p"}[rng.IntN(2)]), Op: op}
}

func (t *writelogTarget) apply(kind string, s int, wl writelog.WriteLog) error {
	return t.backends[kind].Apply(context.Background(), &storage.ApplyRequest{
		Namespace: mkvslab.Namespace, RootType: node.RootTypeState,
		SrcRound: 1, SrcRoot: t.root1.Hash, DstRound: 2, DstRoot: t.wls[s].dst, WriteLog: wl,
	})
}

func (t *writelogTarget) Exec(in *Input) string {
	var wl writelog.WriteLog
	if err := cbor.Unmarshal(in.Data, &wl); err != nil {
		return "decode: " + err.Error()
	}
	s := auxInt(in.Aux, "s")
	if s < 0 || s >= len(t.wls) {
		s = 0
	}
	kind := auxGet(in.Aux, "db")
	if kind != "p" {
		kind = "b"
	}
	if err := t.apply(kind, s, wl); err != nil {
		return err.Error()
	}
	// Accepted: the destination root now exists; start over from a fresh backend.
	t.dirty = append(t.dirty, kind)
	return ""
}

func (t *writelogTarget) Canary() string {
	t.Prepare()
	ctx := context.Background()
	for _, kind := range []string{"b", "p"} {
		for s := range t.wls {
			if err := t.apply(kind, s, t.wls[s].wl); err != nil {
				return fmt.Sprintf("[%s] genuine write log %d rejected: %v", kind, s, err)
			}
		}
		// Read back the last destination root.
		s := len(t.wls) - 1
		root := node.Root{Namespace: mkvslab.Namespace, Version: 2, Type: node.RootTypeState, Hash: t.wls[s].dst}
		tree := mkvs.NewWithRoot(nil, t.backends[kind].NodeDB(), root)
		it := tree.NewIterator(ctx)
		n := 0
		for it.Rewind(); it.Valid(); it.Next() {
			n++
		}
		err := it.Err()
		it.Close()
		tree.Close()
		if err != nil {
			return fmt.Sprintf("[%s] reading the applied root: %v", kind, err)
		}
		if n == 0 {
			return fmt.Sprintf("[%s] applied root is empty", kind)
		}
		if err := t.openBackend(kind); err != nil {
			return "HARNESS-NOTE reopen: " + err.Error()
		}
	}
	return ""
}

var _ = binary.LittleEndian

// --- deterministic series ------------------------------------------------------------

func (t *nodeTarget) FixedPlans(rng *rand.Rand) []fixedPlan {
	// Exec runs every decoder on every input, so each distinct encoding is enumerated once.
	seen := map[string]bool{}
	var out []fixedPlan
	for _, s := range t.seeds {
		if seen[string(s.Data)] {
			continue
		}
		seen[string(s.Data)] = true
		// The 8 KiB labels of the maximum-depth internal nodes are opaque bytes: beyond 2 KiB only
		// the first KiB, the neighbourhood of the length fields and a sample are enumerated.
		out = append(out, newFixedPlanLimits(rng, s, s.Aux, "", nil, 2048, 1024))
	}
	return out
}

func (t *proofTarget) FixedPlans(rng *rand.Rand) []fixedPlan {
	out := plainPlans(rng, t.seeds, func(_ int, s *Seed) string { return s.Aux })
	// Nesting chains through every child slot, both proof versions, depths around and far beyond
	// the bound.
	var chains []*Input
	for _, v := range []uint16{0, 1} {
		for _, slot := range proofChainSlots {
			if slot == "leaf" && v == 0 {
				continue
			}
			for _, d := range proofChainDepths {
				chains = append(chains, proofChainInput(d, v, slot, t.MaxLen()))
			}
		}
	}
	return append(out, newExplicitPlan(len(chains), func(i int) *Input { return chains[i] }))
}

func (t *writelogTarget) FixedPlans(rng *rand.Rand) []fixedPlan {
	out := plainPlans(rng, t.seeds, func(i int, _ *Seed) string { return fmt.Sprintf("s=%d;db=%s", i, []string{"b", "p"}[i%2]) })
	// Write logs whose keys are as long as the node format's 16-bit bit-length field allows,
	// and longer (8191 bytes = 65528 bits is the last length the field can express).
	var long []*Input
	for _, n := range []int{4096, 8190, 8191, 8192, 8193, 16384, 65535, 65536} {
		k := bytes.Repeat([]byte{'x'}, n)
		k2 := append(bytes.Repeat([]byte{'x'}, n-1), 'y')
		for vi, wl := range []writelog.WriteLog{
			{{Key: k, Value: []byte("v")}},
			{{Key: k, Value: []byte("v")}, {Key: k2, Value: []byte("w")}},
			{{Key: []byte("a"), Value: []byte("1")}, {Key: k, Value: []byte("v")}, {Key: k[:n/2], Value: []byte("h")}},
			{{Key: k, Value: nil}},
		} {
			for _, db := range []string{"b", "p"} {
				long = append(long, &Input{Data: cbor.Marshal(wl), Aux: fmt.Sprintf("s=0;db=%s", db), Op: fmt.Sprintf("long-key/%d-bytes/shape-%d", n, vi)})
			}
		}
	}
	return append(out, newExplicitPlan(len(long), func(i int) *Input { return long[i] }))
}
