package main

import (
	"context"
	"encoding/binary"
	"fmt"
	"io"
	"math/rand/v2"
	"net"
	"reflect"
	"sync/atomic"
	"time"

	"github.com/oasisprotocol/oasis-core/go/common"
	"github.com/oasisprotocol/oasis-core/go/common/cbor"
	"github.com/oasisprotocol/oasis-core/go/common/logging"
	"github.com/oasisprotocol/oasis-core/go/common/version"
	"github.com/oasisprotocol/oasis-core/go/runtime/host/protocol"
)

func init() {
	registerTarget("hostproto", func() Target { return &hostTarget{} })
}

// hostTarget writes frames into a protocol.Connection over a pipe. The harness
// plays the (untrusted) peer: in host mode it answers the RuntimeInfoRequest
// with the first frame of the input and then sends the remaining frames; in
// guest mode the connection is ready at once and all frames are sent.
type hostTarget struct {
	mut    Mutator
	seeds  []*Seed // single message payloads (CBOR of protocol.Message)
	info   []byte  // valid RuntimeInfoResponse message payload
	rtID   common.Namespace
	logger *logging.Logger
	wait   time.Duration
}

func (t *hostTarget) Name() string { return "hostproto" }
func (t *hostTarget) MaxLen() int  { return 192 << 10 }
func (t *hostTarget) Close()       {}

type fuzzHandler struct{ calls atomic.Int64 }

func (h *fuzzHandler) Handle(_ context.Context, body *protocol.Body) (*protocol.Body, error) {
	h.calls.Add(1)
	_ = body.Type()
	switch {
	case body.HostRPCCallRequest != nil:
		return &protocol.Body{HostRPCCallResponse: &protocol.HostRPCCallResponse{Response: body.HostRPCCallRequest.Request}}, nil
	case body.HostStorageSyncRequest != nil:
		return nil, fmt.Errorf("storage sync not available")
	case body.Error != nil:
		return nil, fmt.Errorf("peer error: %s", body.Error.Message)
	}
	return &protocol.Body{Empty: &protocol.Empty{}}, nil
}

func frame(payload []byte) []byte {
	out := make([]byte, 4, 4+len(payload))
	binary.BigEndian.PutUint32(out, uint32(len(payload)))
	return append(out, payload...)
}

func (t *hostTarget) Init(rng *rand.Rand, _ string) error {
	t.mut = Mutator{MaxLen: 64 << 10}
	t.wait = 20 * time.Millisecond
	t.logger = logging.GetLogger("c16/hostproto")
	t.rtID = common.NewTestNamespaceFromSeed([]byte("c16 hostproto"), common.NamespaceTest)
	infoMsg := protocol.Message{ID: 0, MessageType: protocol.MessageResponse, Body: protocol.Body{RuntimeInfoResponse: &protocol.RuntimeInfoResponse{
		ProtocolVersion: version.RuntimeHostProtocol, RuntimeVersion: version.Version{Major: 1, Minor: 2, Patch: 3},
	}}}
	t.info = cbor.Marshal(&infoMsg)
	t.seeds = append(t.seeds, &Seed{Name: "RuntimeInfoResponse", Data: t.info, CBOR: true})
	fl := &filler{rng: rng}
	bt := reflect.TypeOf(protocol.Body{})
	for i := 0; i < bt.NumField(); i++ {
		for _, mt := range []protocol.MessageType{protocol.MessageRequest, protocol.MessageResponse} {
			var msg protocol.Message
			msg.ID = uint64(rng.IntN(3))
			msg.MessageType = mt
			fv := reflect.ValueOf(&msg.Body).Elem().Field(i)
			p := reflect.New(bt.Field(i).Type.Elem())
			fl.fill(p.Elem(), 0)
			fv.Set(p)
			var data []byte
			func() {
				defer func() { _ = recover() }()
				data = cbor.Marshal(&msg)
			}()
			if data == nil {
				// A filled value that cannot be marshalled: use the zero value of the field.
				fv.Set(reflect.New(bt.Field(i).Type.Elem()))
				func() {
					defer func() { _ = recover() }()
					data = cbor.Marshal(&msg)
				}()
			}
			if data != nil {
				t.seeds = append(t.seeds, &Seed{Name: fmt.Sprintf("%s/%d", bt.Field(i).Name, mt), Data: data, CBOR: true})
			}
		}
	}
	return nil
}

func (t *hostTarget) Gen(rng *rand.Rand) *Input {
	if rng.IntN(100) == 0 {
		return hostScriptInput(rng.IntN(len(hostScripts)))
	}
	mode := "host"
	if rng.IntN(3) == 0 {
		mode = "guest"
	}
	var out []byte
	op := "none"
	nframes := 1 + rng.IntN(3)
	for k := 0; k < nframes; k++ {
		var payload []byte
		s := t.seeds[rng.IntN(len(t.seeds))]
		if k == 0 && mode == "host" && rng.IntN(4) != 0 {
			s = t.seeds[0]
		}
		if (k == 0 && mode == "host" && rng.IntN(3) == 0) || rng.IntN(6) == 0 {
			payload = s.Data // untouched
		} else {
			var o string
			payload, o = t.mut.Mutate(rng, s, t.seeds)
			if op == "none" {
				op = o
			}
		}
		f := frame(payload)
		// Framing attacks: the length prefix lies.
		switch rng.IntN(24) {
		case 0:
			binary.BigEndian.PutUint32(f, uint32(len(payload))+uint32(1+rng.IntN(100)))
			op = "frame-len-long"
		case 1:
			if len(payload) > 0 {
				binary.BigEndian.PutUint32(f, uint32(rng.IntN(len(payload))))
				op = "frame-len-short"
			}
		case 2:
			binary.BigEndian.PutUint32(f, []uint32{0, 1 << 26, 1<<26 + 1, 1<<31 - 1, 1 << 31, ^uint32(0)}[rng.IntN(6)])
			op = "frame-len-extreme"
		case 3:
			f = f[:rng.IntN(len(f))]
			op = "frame-truncated"
		}
		out = append(out, f...)
	}
	return &Input{Data: out, Aux: "mode=" + mode, Op: op}
}

func (t *hostTarget) Exec(in *Input) string {
	if auxGet(in.Aux, "script") != "" {
		return t.runScript(in.Aux)
	}
	mode := auxGet(in.Aux, "mode")
	h := &fuzzHandler{}
	conn, err := protocol.NewConnection(t.logger, t.rtID, h)
	if err != nil {
		return "HARNESS-NOTE " + err.Error()
	}
	ours, theirs := net.Pipe()
	defer theirs.Close()
	ctx, cancel := context.WithTimeout(context.Background(), 40*time.Second)
	defer cancel()

	// Everything the connection writes is read and discarded.
	drained := make(chan struct{})
	reqSeen := make(chan struct{}, 1)
	go func() {
		defer close(drained)
		buf := make([]byte, 4096)
		first := true
		for {
			n, err := theirs.Read(buf)
			if n > 0 && first {
				first = false
				reqSeen <- struct{}{}
			}
			if err != nil {
				return
			}
		}
	}()

	var initErr error
	initDone := make(chan struct{})
	switch mode {
	case "guest":
		initErr = conn.InitGuest(ours)
		close(initDone)
	default:
		go func() {
			defer close(initDone)
			_, initErr = conn.InitHost(ctx, ours, &protocol.HostInfo{ConsensusBackend: "c16", ConsensusChainContext: "c16"})
		}()
		// Wait until the request was written before answering.
		select {
		case <-reqSeen:
		case <-time.After(20 * time.Second):
		}
	}
	// Feed the frames, then half a moment for the handlers, then end of stream.
	_ = theirs.SetWriteDeadline(time.Now().Add(20 * time.Second))
	_, werr := theirs.Write(in.Data)
	if mode != "guest" && werr == nil {
		// All frames were read by the connection without a decoding error. If none of them
		// answers the RuntimeInfoRequest the host (rightly) keeps waiting for its peer; give
		// the response a moment to be dispatched, then end the stream.
		select {
		case <-initDone:
		case <-time.After(t.wait):
		}
	}
	theirs.Close()
	<-initDone
	if mode != "guest" && initErr == nil {
		_, _ = conn.GetInfo()
	}
	conn.Close()
	<-drained
	_ = io.Discard
	switch {
	case initErr != nil:
		return "init: " + initErr.Error()
	case werr != nil:
		return "write: " + werr.Error()
	case mode == "guest" && h.calls.Load() == 0:
		return "guest: no request reached the handler"
	}
	return ""
}

func (t *hostTarget) Canary() string {
	t.wait = 20 * time.Second
	defer func() { t.wait = 20 * time.Millisecond }()
	if r := t.Exec(&Input{Data: frame(t.info), Aux: "mode=host"}); r != "" {
		return "valid RuntimeInfoResponse no longer accepted: " + r
	}
	return ""
}

// FixedPlans: every prefix / deletion / length delta of every message payload (correctly framed),
// and of the framed RuntimeInfoResponse itself (the length prefix then lies).
func (t *hostTarget) FixedPlans(rng *rand.Rand) []fixedPlan {
	var out []fixedPlan
	for i, s := range t.seeds {
		mode := "mode=guest"
		if i == 0 {
			mode = "mode=host"
		}
		out = append(out, newFixedPlan(rng, s, mode, "", frame))
	}
	framed := &Seed{Name: "framed RuntimeInfoResponse", Data: frame(t.info), LenFields: []LenField{{Off: 0, Width: 4, BE: true}}}
	out = append(out, newFixedPlan(rng, framed, "mode=host", ":frame", nil))
	// Adversarial peer scripts, each several times (the unheld variants depend on scheduling).
	out = append(out, newExplicitPlan(8*len(hostScripts), hostScriptInput))
	if len(t.seeds) > 1 {
		f2 := &Seed{Name: "framed request", Data: frame(t.seeds[1].Data), LenFields: []LenField{{Off: 0, Width: 4, BE: true}}}
		out = append(out, newFixedPlan(rng, f2, "mode=guest", ":frame", nil))
	}
	return out
}
