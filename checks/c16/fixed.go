package main

import (
	"math/rand/v2"
	"sort"
)

// Deterministic boundary series ("fixed part" of every tier): for each valid
// seed of a decoder target
//
//   - every truncation length 0..len-1,
//   - every single byte deleted,
//   - every length field (binary LenFields; every CBOR item head carrying a
//     length) rewritten by -4..-1 and +1..+4.
//
// Seeds longer than fixedFullLimit are covered at every length up to
// fixedDenseLimit, within +-8 bytes of every structural boundary (CBOR item
// starts, head ends and item ends from cborwalk; binary length-field offsets)
// and at a PRNG sample of further positions.

const (
	fixedFullLimit  = 16 << 10
	fixedDenseLimit = 4 << 10
	fixedSample     = 256
)

const (
	fixTrunc = iota
	fixDel
	fixLen
	fixStruct // explicitly constructed adversarial input (nesting chains, peer scripts)
	fixOpt    // optional-field variant (field absent / null, in either half of paired structures)
)

var fixKindName = [...]string{"fix-trunc", "fix-del", "fix-len", "structured", "opt-field"}
var fixCounter = [...]string{"exhaustive_truncations", "exhaustive_byte_deletions", "exhaustive_length_field_deltas", "structured_adversarial_inputs", "optional_field_variants"}

type fixedOp struct {
	kind  uint8
	a     int32 // position (trunc length, deleted offset, length-field ordinal)
	delta int8
}

// fixedPlan is the series of one seed.
type fixedPlan struct {
	seed *Seed
	aux  string
	// wrap post-processes the mutated seed bytes into the input (framing, re-signing); nil = identity.
	wrap func([]byte) []byte
	tag  string
	ops  []fixedOp
	// lens are the length-field positions addressed by fixLen ops.
	lens []fixedLenPos
	// items and opts describe the optional-field variants addressed by fixOpt ops.
	items []cborItem
	opts  []optEdit
	// explicit, if set, constructs input i of a plan of fixStruct ops.
	explicit func(i int) *Input
}

// newExplicitPlan is a plan of n explicitly constructed inputs.
func newExplicitPlan(n int, gen func(i int) *Input) fixedPlan {
	p := fixedPlan{explicit: gen}
	for i := 0; i < n; i++ {
		p.ops = append(p.ops, fixedOp{kind: fixStruct, a: int32(i)})
	}
	return p
}

type fixedLenPos struct {
	cbor    bool
	off     int
	headLen int
	major   byte
	arg     uint64
	lf      LenField
}

// positions returns the byte positions to enumerate for a seed of length n.
func fixedPositions(rng *rand.Rand, s *Seed, items []cborItem, fullLimit, denseLimit int) []int {
	n := len(s.Data)
	if n <= fullLimit {
		out := make([]int, n)
		for i := range out {
			out[i] = i
		}
		return out
	}
	set := map[int]struct{}{}
	for i := 0; i < denseLimit && i < n; i++ {
		set[i] = struct{}{}
	}
	around := func(p int) {
		for d := -8; d <= 8; d++ {
			if q := p + d; q >= 0 && q < n {
				set[q] = struct{}{}
			}
		}
	}
	for _, it := range items {
		around(it.off)
		around(it.off + it.headLen)
		around(it.end)
	}
	for _, lf := range s.LenFields {
		around(lf.Off)
		around(lf.Off + lf.Width)
	}
	around(n - 1)
	for i := 0; i < fixedSample; i++ {
		set[rng.IntN(n)] = struct{}{}
	}
	out := make([]int, 0, len(set))
	for p := range set {
		out = append(out, p)
	}
	sort.Ints(out)
	return out
}

// newFixedPlan builds the series of one seed with the default limits.
func newFixedPlan(rng *rand.Rand, s *Seed, aux, tag string, wrap func([]byte) []byte) fixedPlan {
	return newFixedPlanLimits(rng, s, aux, tag, wrap, fixedFullLimit, fixedDenseLimit)
}

// newFixedPlanLimits builds the series of one seed: every position if the seed is at most
// fullLimit bytes long, otherwise every position below denseLimit, +-8 around every structural
// boundary, and a PRNG sample.
func newFixedPlanLimits(rng *rand.Rand, s *Seed, aux, tag string, wrap func([]byte) []byte, fullLimit, denseLimit int) fixedPlan {
	p := fixedPlan{seed: s, aux: aux, wrap: wrap, tag: tag}
	var items []cborItem
	if s.CBOR {
		items, _ = cborParseExact(s.Data)
	}
	pos := fixedPositions(rng, s, items, fullLimit, denseLimit)
	for _, q := range pos {
		p.ops = append(p.ops, fixedOp{kind: fixTrunc, a: int32(q)})
	}
	for _, q := range pos {
		p.ops = append(p.ops, fixedOp{kind: fixDel, a: int32(q)})
	}
	for _, lf := range s.LenFields {
		if lf.Off+lf.Width <= len(s.Data) {
			p.lens = append(p.lens, fixedLenPos{lf: lf})
		}
	}
	for _, it := range items {
		if hasLen(&it) {
			p.lens = append(p.lens, fixedLenPos{cbor: true, off: it.off, headLen: it.headLen, major: it.major, arg: it.arg})
		}
	}
	for i := range p.lens {
		for d := -4; d <= 4; d++ {
			if d != 0 {
				p.ops = append(p.ops, fixedOp{kind: fixLen, a: int32(i), delta: int8(d)})
			}
		}
	}
	if len(items) > 0 {
		p.items = items
		p.opts = optionalFieldEdits(s.Data, items, 4000)
		for i := range p.opts {
			p.ops = append(p.ops, fixedOp{kind: fixOpt, a: int32(i)})
		}
	}
	return p
}

func (p *fixedPlan) input(i int) *Input {
	op := p.ops[i]
	if op.kind == fixStruct {
		return p.explicit(int(op.a))
	}
	b := p.seed.Data
	var out []byte
	switch op.kind {
	case fixTrunc:
		out = append([]byte{}, b[:op.a]...)
	case fixDel:
		out = splice(b, int(op.a), int(op.a)+1, nil)
	case fixOpt:
		out = applyOptEdit(b, p.items, p.opts[op.a])
	case fixLen:
		lp := p.lens[op.a]
		if lp.cbor {
			out = splice(b, lp.off, lp.off+lp.headLen, cborHead(lp.major, lp.arg+uint64(int64(op.delta)), 0))
		} else {
			out = append([]byte{}, b...)
			cur := readInt(b[lp.lf.Off:], lp.lf.Width, lp.lf.BE)
			writeInt(out[lp.lf.Off:], lp.lf.Width, lp.lf.BE, cur+uint64(int64(op.delta)))
		}
	}
	if p.wrap != nil {
		out = p.wrap(out)
	}
	return &Input{Data: out, Aux: p.aux, Op: fixKindName[op.kind] + p.tag}
}

// fixedSeries is the concatenation of the plans of one target.
type fixedSeries struct {
	plans []fixedPlan
	cum   []int
}

func newFixedSeries(plans []fixedPlan) *fixedSeries {
	fs := &fixedSeries{plans: plans}
	n := 0
	for _, p := range plans {
		n += len(p.ops)
		fs.cum = append(fs.cum, n)
	}
	return fs
}

func (fs *fixedSeries) Len() int {
	if len(fs.cum) == 0 {
		return 0
	}
	return fs.cum[len(fs.cum)-1]
}

func (fs *fixedSeries) At(i int) (*Input, uint8) {
	k := sort.SearchInts(fs.cum, i+1)
	base := 0
	if k > 0 {
		base = fs.cum[k-1]
	}
	in := fs.plans[k].input(i - base)
	return in, fs.plans[k].ops[i-base].kind
}

// fixedTarget is implemented by targets that have a deterministic series.
type fixedTarget interface {
	FixedPlans(rng *rand.Rand) []fixedPlan
}

// plainPlans builds the plans for targets whose inputs are the mutated seed with the seed's Aux.
func plainPlans(rng *rand.Rand, seeds []*Seed, aux func(i int, s *Seed) string) []fixedPlan {
	var out []fixedPlan
	for i, s := range seeds {
		out = append(out, newFixedPlan(rng, s, aux(i, s), "", nil))
	}
	return out
}
