package main

import (
	"context"
	"fmt"
	"net"
	"runtime"
	"strings"
	"sync/atomic"
	"time"

	"github.com/oasisprotocol/oasis-core/go/common/cbor"
	"github.com/oasisprotocol/oasis-core/go/common/version"
	"github.com/oasisprotocol/oasis-core/go/runtime/host/protocol"
)

// Adversarial peer scripts for the host side of the Runtime Host Protocol: after a valid
// handshake the (untrusted) peer answers in-flight requests with duplicate responses, responses
// for unknown IDs and responses for requests whose caller has given up, interleaved with further
// calls. Oracle: every call returns, a following round trip still works, Close() returns, and no
// goroutine stays blocked in the connection's message handler.
//
// Decisions do not depend on sleeps: the script waits for logical points (pipe writes are
// synchronous; "quiescent" = no goroutine inside handleMessage is runnable) and a hang is
// decided by the goroutine dump (a handler goroutine blocked in a channel send although every
// caller has returned can never be woken). The 20 s watchdogs only bound the waiting; when one
// fires without such evidence the input is inconclusive.

const scriptWatchdog = 20 * time.Second

const handleMessageFrame = "runtime/host/protocol.(*connection).handleMessage"

// handlerGoroutines analyses a dump of all goroutines: inside = message-handler goroutines of
// protocol connections (spawned by workerIncoming through WaitGroup.Go, started or not),
// blockedSend = those of them blocked in a channel send, reading = workerIncoming goroutines
// waiting in the pipe for the next frame (everything read before has been dispatched).
func handlerGoroutines() (inside, blockedSend int, sample string) {
	inside, blockedSend, _, sample = dumpHandlers()
	return
}

func dumpHandlers() (inside, blockedSend, reading int, sample string) {
	buf := make([]byte, 1<<20)
	for {
		n := runtime.Stack(buf, true)
		if n < len(buf) {
			buf = buf[:n]
			break
		}
		buf = make([]byte, 2*len(buf))
	}
	for _, g := range strings.Split(string(buf), "\n\n") {
		switch {
		case strings.Contains(g, ").workerIncoming("):
			if strings.Contains(g, "net.(*pipe).read") {
				reading++
			}
			continue
		case strings.Contains(g, ").workerOutgoing("):
			continue
		case strings.Contains(g, handleMessageFrame), strings.Contains(g, ").workerIncoming.func"), strings.Contains(g, "sync.(*WaitGroup).Go.func1"):
		default:
			continue
		}
		inside++
		head := g
		if i := strings.IndexByte(g, '\n'); i >= 0 {
			head = g[:i]
		}
		if strings.Contains(head, "[chan send") && strings.Contains(g, handleMessageFrame) {
			blockedSend++
			if sample == "" {
				sample = g
			}
		}
	}
	return
}

// quiesce waits for the logical point at which the connection has dispatched every frame written
// so far (its reader waits for the next frame) and every handler goroutine has finished or is
// blocked in a channel send.
func quiesce(baseBlocked int) {
	deadline := time.Now().Add(scriptWatchdog)
	stable := 0
	for time.Now().Before(deadline) {
		runtime.Gosched()
		inside, blocked, reading, _ := dumpHandlers()
		if reading >= 1 && inside == blocked {
			stable++
			if stable >= 2 {
				return
			}
		} else {
			stable = 0
		}
		time.Sleep(100 * time.Microsecond)
	}
	_ = baseBlocked
}

// holdCtx holds the caller right before it starts waiting for its response (connection.call
// evaluates Done() once when queueing the request and once when it enters the response select),
// the way a descheduled goroutine would be held.
type holdCtx struct {
	context.Context
	n       atomic.Int32
	waiting chan struct{}
	release chan struct{}
}

func newHoldCtx(parent context.Context) *holdCtx {
	return &holdCtx{Context: parent, waiting: make(chan struct{}), release: make(chan struct{})}
}

func (c *holdCtx) Done() <-chan struct{} {
	if c.n.Add(1) == 2 {
		close(c.waiting)
		<-c.release
	}
	return c.Context.Done()
}

type callResult struct {
	body *protocol.Body
	err  error
}

type hostScript struct {
	name   string
	copies int
}

var hostScripts = func() []hostScript {
	var out []hostScript
	for _, c := range []int{1, 2, 3, 5} {
		out = append(out, hostScript{"dup-held", c}, hostScript{"dup-free", c})
	}
	out = append(out, hostScript{"unknown-id", 1}, hostScript{"unknown-id", 3},
		hostScript{"cancelled-late", 1}, hostScript{"cancelled-late", 3},
		hostScript{"cancelled-held", 2}, hostScript{"cancelled-held", 3},
		hostScript{"interleaved", 2}, hostScript{"interleaved", 3})
	return out
}()

func hostScriptInput(i int) *Input {
	s := hostScripts[i%len(hostScripts)]
	return &Input{Aux: fmt.Sprintf("script=%s;copies=%d;rep=%d", s.name, s.copies, i/len(hostScripts)), Op: "peer-script-" + s.name}
}

// runScript executes one peer script. It returns "" (all fine), a rejection text (a call
// returned an error: not a violation), or a VIOLATION:/INCONCLUSIVE: verdict.
func (t *hostTarget) runScript(aux string) string {
	name := auxGet(aux, "script")
	copies := auxInt(aux, "copies")
	if copies < 1 {
		copies = 1
	}
	_, baseBlocked, _ := handlerGoroutines()

	h := &fuzzHandler{}
	conn, err := protocol.NewConnection(t.logger, t.rtID, h)
	if err != nil {
		return "INCONCLUSIVE:" + err.Error()
	}
	ours, theirs := net.Pipe()
	rt := cbor.NewMessageCodec(theirs, "c16")
	_ = theirs.SetDeadline(time.Now().Add(3 * scriptWatchdog))
	closedConn := false
	defer func() {
		if !closedConn {
			_ = theirs.Close()
		}
	}()

	// hung decides a wait that did not finish: a blocked handler is evidence, anything else is inconclusive.
	hung := func(what string) string {
		_, blocked, sample := handlerGoroutines()
		if blocked > baseBlocked {
			return fmt.Sprintf("VIOLATION:peer-script/%s/handler-blocked-in-handleMessage:%s; a message-handler goroutine is blocked forever in a channel send: %s", name, what, firstLines(sample, 8))
		}
		return fmt.Sprintf("INCONCLUSIVE:%s within %v, but no handler goroutine is blocked in a channel send", what, scriptWatchdog)
	}

	// Handshake.
	initDone := make(chan error, 1)
	go func() {
		_, e := conn.InitHost(context.Background(), ours, &protocol.HostInfo{ConsensusBackend: "c16", ConsensusChainContext: "c16"})
		initDone <- e
	}()
	var req protocol.Message
	if err = rt.Read(&req); err != nil || req.Body.RuntimeInfoRequest == nil {
		return fmt.Sprintf("INCONCLUSIVE:handshake request not received: %v", err)
	}
	if err = rt.Write(&protocol.Message{ID: req.ID, MessageType: protocol.MessageResponse, Body: protocol.Body{RuntimeInfoResponse: &protocol.RuntimeInfoResponse{
		ProtocolVersion: version.RuntimeHostProtocol, RuntimeVersion: version.Version{Major: 1},
	}}}); err != nil {
		return "INCONCLUSIVE:handshake response not written: " + err.Error()
	}
	select {
	case e := <-initDone:
		if e != nil {
			return "INCONCLUSIVE:valid handshake failed: " + e.Error()
		}
	case <-time.After(scriptWatchdog):
		return hung("InitHost did not return after a valid RuntimeInfoResponse")
	}

	ping := &protocol.Body{RuntimePingRequest: &protocol.Empty{}}
	startCall := func(ctx context.Context) chan callResult {
		ch := make(chan callResult, 1)
		go func() {
			b, e := conn.Call(ctx, ping)
			ch <- callResult{b, e}
		}()
		return ch
	}
	readReq := func() (uint64, error) {
		var m protocol.Message
		if e := rt.Read(&m); e != nil {
			return 0, e
		}
		return m.ID, nil
	}
	respond := func(id uint64, n int) error {
		for i := 0; i < n; i++ {
			if e := rt.Write(&protocol.Message{ID: id, MessageType: protocol.MessageResponse, Body: protocol.Body{Empty: &protocol.Empty{}}}); e != nil {
				return e
			}
		}
		return nil
	}
	waitHeld := func(hc *holdCtx) {
		select {
		case <-hc.waiting:
		case <-time.After(5 * time.Second):
			// The caller did not reach the hold point (the library evaluates Done() differently):
			// the script continues without holding.
		}
	}
	await := func(ch chan callResult, what string) (callResult, string) {
		select {
		case r := <-ch:
			return r, ""
		case <-time.After(scriptWatchdog):
			return callResult{}, hung(what + " did not return")
		}
	}
	var rejection string
	note := func(what string, r callResult, allowErr bool) {
		if r.err != nil && !allowErr && rejection == "" {
			rejection = what + ": " + r.err.Error()
		}
	}

	switch name {
	case "dup-held", "dup-free", "unknown-id":
		var hc *holdCtx
		var ctx context.Context = context.Background()
		if name != "dup-free" {
			hc = newHoldCtx(ctx)
			ctx = hc
		}
		ch := startCall(ctx)
		id, e := readReq()
		if e != nil {
			return "INCONCLUSIVE:request not received: " + e.Error()
		}
		if hc != nil {
			waitHeld(hc)
		}
		if name == "unknown-id" {
			_ = respond(id+1000, copies)
			_ = respond(^uint64(0), 1)
			_ = respond(id, 1)
			_ = respond(id+1, copies) // the ID of the NEXT call, before it is made
		} else {
			_ = respond(id, copies)
		}
		quiesce(baseBlocked)
		if hc != nil {
			close(hc.release)
		}
		r, v := await(ch, "Call answered with duplicate responses")
		if v != "" {
			return v
		}
		note("call", r, false)
	case "cancelled-late", "cancelled-held":
		cctx, cancel := context.WithCancel(context.Background())
		var hc *holdCtx
		var ctx context.Context = cctx
		if name == "cancelled-held" {
			hc = newHoldCtx(cctx)
			ctx = hc
		}
		ch := startCall(ctx)
		id, e := readReq()
		if e != nil {
			cancel()
			return "INCONCLUSIVE:request not received: " + e.Error()
		}
		if hc != nil {
			// Responses arrive, then the caller gives up, then it is scheduled again.
			waitHeld(hc)
			_ = respond(id, copies)
			quiesce(baseBlocked)
			cancel()
			close(hc.release)
		} else {
			cancel()
		}
		r, v := await(ch, "cancelled Call")
		if v != "" {
			return v
		}
		note("cancelled call", r, true)
		// Late responses for the abandoned request.
		_ = respond(id, copies)
		quiesce(baseBlocked)
	case "interleaved":
		h1, h2 := newHoldCtx(context.Background()), newHoldCtx(context.Background())
		ch1 := startCall(h1)
		idA, e := readReq()
		if e != nil {
			return "INCONCLUSIVE:request not received: " + e.Error()
		}
		ch2 := startCall(h2)
		idB, e := readReq()
		if e != nil {
			return "INCONCLUSIVE:second request not received: " + e.Error()
		}
		waitHeld(h1)
		waitHeld(h2)
		for i := 0; i < copies; i++ {
			_ = respond(idB, 1)
			_ = respond(idA, 1)
			_ = respond(idA+idB+77, 1)
		}
		_ = respond(idB, 1)
		quiesce(baseBlocked)
		close(h2.release)
		close(h1.release)
		for _, c := range []chan callResult{ch1, ch2} {
			r, v := await(c, "one of two interleaved Calls")
			if v != "" {
				return v
			}
			note("interleaved call", r, false)
		}
	default:
		return "INCONCLUSIVE:unknown script " + name
	}

	// Subsequent processing: another round trip must work.
	peerDone := make(chan struct{})
	go func() {
		defer close(peerDone)
		if id, e := readReq(); e == nil {
			_ = respond(id, 1)
		}
	}()
	fctx, fcancel := context.WithTimeout(context.Background(), scriptWatchdog)
	r, v := await(startCall(fctx), "the following Call")
	fcancel()
	if v != "" {
		return v
	}
	if r.err != nil {
		if fctx.Err() != nil {
			return hung("the following Call got no response")
		}
		note("following call", r, false)
	}
	<-peerDone
	quiesce(baseBlocked)

	// Tear down: what the node does when it restarts a runtime.
	closed := make(chan struct{})
	go func() {
		conn.Close()
		close(closed)
	}()
	deadline := time.Now().Add(scriptWatchdog)
	for {
		select {
		case <-closed:
			closedConn = true
			_ = theirs.Close()
			// After Close (which waits for the connection's own goroutines) nothing of this
			// connection may be left inside the handler.
			if _, blocked, sample := handlerGoroutines(); blocked > baseBlocked {
				return fmt.Sprintf("VIOLATION:peer-script/%s/handler-blocked-in-handleMessage:Close() returned but a message-handler goroutine is still blocked in a channel send: %s", name, firstLines(sample, 8))
			}
			return rejection
		case <-time.After(2 * time.Millisecond):
		}
		// Every call has returned: a handler blocked in a channel send has no receiver left.
		if _, blocked, sample := handlerGoroutines(); blocked > baseBlocked {
			return fmt.Sprintf("VIOLATION:peer-script/%s/close-hangs/handler-blocked-in-handleMessage:Connection.Close() does not return: after %d response frames for one request a message-handler goroutine is blocked forever in a channel send (every caller has returned) and the connection's wait group never completes: %s", name, copies, firstLines(sample, 8))
		}
		if time.Now().After(deadline) {
			return hung("Connection.Close() did not return")
		}
	}
}

func firstLines(s string, n int) string {
	lines := strings.Split(s, "\n")
	if len(lines) > n {
		lines = lines[:n]
	}
	return strings.Join(lines, " | ")
}
